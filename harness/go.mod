module verif/harness

go 1.18

require (
	github.com/anoideaopen/foundation v0.0.0
	github.com/hyperledger/fabric-chaincode-go v0.0.0-20230228194215-b84622ba6a7a
)

require (
	github.com/btcsuite/btcutil v1.0.2 // indirect
	github.com/envoyproxy/protoc-gen-validate v1.0.4 // indirect
	github.com/golang/protobuf v1.5.4 // indirect
	github.com/hyperledger/fabric-protos-go v0.3.0 // indirect
	github.com/op/go-logging v0.0.0-20160315200505-970db520ece7 // indirect
	golang.org/x/net v0.23.0 // indirect
	golang.org/x/sys v0.20.0 // indirect
	golang.org/x/text v0.15.0 // indirect
	google.golang.org/genproto/googleapis/rpc v0.0.0-20240318140521-94a12d6c2237 // indirect
	google.golang.org/grpc v1.57.2 // indirect
	google.golang.org/protobuf v1.33.0 // indirect
)

replace github.com/anoideaopen/foundation => /repo
