package main

import (
	"math/rand"
	"encoding/hex"
	"fmt"
	"math/big"
	"sort"
	"strconv"
	"strings"

	"github.com/anoideaopen/foundation/core/balance"
	fpb "github.com/anoideaopen/foundation/proto"
	"github.com/golang/protobuf/proto" //nolint:staticcheck
	"golang.org/x/crypto/sha3"
)

func swErr(msg string) string {
	m := strings.ToLower(msg)
	switch {
	case msg == "":
		return "None"
	case strings.HasPrefix(msg, "BATCH FAILED"), strings.HasPrefix(msg, "TASKS FAILED"):
		return "Some EPanic" // not a rejection of this step: the whole batch / task list failed
	case strings.Contains(m, "insufficient"):
		return "Some EInsufficient"
	case strings.Contains(m, "swap already exists"):
		return "Some EExists"
	case strings.Contains(m, "swap doesn't exist"):
		return "Some ENotFound"
	case strings.Contains(m, "incorrect key"):
		return "Some EBadKey"
	case strings.Contains(m, "incorrect swap"):
		return "Some EBadArg"
	case strings.Contains(m, "negative number"), strings.Contains(m, "must be non-negative"), strings.Contains(m, "negative"):
		return "Some ENegative"
	}
	return "Some EOther (* " + strings.ReplaceAll(msg, "*", "x") + " *)"
}

var swKeys = []string{"k1", "k2", "k3", "k4"}

func swHash(key string) []byte {
	h := sha3.Sum256([]byte(key))
	return h[:]
}

// number of the key whose hash this is (keys are 11.., unknown hashes 99)
func swHashN(h []byte) int {
	for i, k := range swKeys {
		if string(swHash(k)) == string(h) {
			return 11 + i
		}
	}
	return 99
}

func swKeyN(key string) int {
	for i, k := range swKeys {
		if k == key {
			return 11 + i
		}
	}
	// a key with white space around it is another string: no preimage of any hash used here
	for i, k := range swKeys {
		if strings.TrimSpace(key) == k {
			return 41 + i
		}
	}
	return 98
}

// padKey surrounds a key with white space now and then (what a careless client sends): it must count as a wrong key
func padKey(rng *rand.Rand, key string) string {
	if rng.Intn(7) != 0 {
		return key
	}
	return []string{key + " ", key + "\n", " " + key, "\t" + key + "\r\n"}[rng.Intn(4)]
}

func (cw *ccWorld) chNum(s string) int {
	if v, ok := cw.chN[s]; ok { // case-sensitive, as the library compares
		return v
	}
	return 9
}

func (cw *ccWorld) addrN(raw []byte) int {
	if string(raw) == "0000" {
		return 0
	}
	return cw.w.Interner().Addr((&Account{Addr: raw}).AddrString())
}

// destNum: the destination of a DIRECT swap (token of the origin channel) is never compared with anything, it only names
// the given-out counter, and that name is upper-cased: "vt" and "VT" are the same destination there
func (cw *ccWorld) destNum(to string, direct bool) int {
	if direct {
		if v, ok := cw.chN[strings.ToUpper(to)]; ok {
			return v
		}
	}
	return cw.chNum(to)
}

// the robot carries a swap to the channel its destination names (the name of a direct swap in any letter case)
func (cw *ccWorld) routesTo(s *fpb.Swap, dst string) bool {
	direct := strings.SplitN(s.GetToken(), "_", 2)[0] == s.GetFrom()
	return cw.destNum(s.GetTo(), direct) == cw.chN[strings.ToUpper(dst)]
}

func (cw *ccWorld) swapTerm(s *fpb.Swap) string {
	sym, g := cw.tokN3(s.GetToken())
	direct := strings.SplitN(s.GetToken(), "_", 2)[0] == s.GetFrom()
	return fmt.Sprintf("SW %d %d %d %d %s %d %d %d", cw.addrN(s.GetCreator()), cw.addrN(s.GetOwner()), sym, g,
		coqZ(new(big.Int).SetBytes(s.GetAmount())), cw.chNum(s.GetFrom()), cw.destNum(s.GetTo(), direct), swHashN(s.GetHash()))
}

func (cw *ccWorld) swapRec(ch, id string) *fpb.Swap {
	data, ok := cw.w.Peer.Channels[ch].State["\x00swaps\x00"+id+"\x00"]
	if !ok {
		return nil
	}
	var s fpb.Swap
	if err := proto.Unmarshal(data, &s); err != nil {
		return nil
	}
	return &s
}

func (cw *ccWorld) swObs(ch string) string {
	var keys []string
	for k := range cw.w.Peer.Channels[ch].State {
		if ot, attrs, ok := splitComposite(k); ok && ot == "swaps" && len(attrs) == 1 {
			keys = append(keys, attrs[0])
		}
	}
	sort.Strings(keys)
	var items []string
	for _, id := range keys {
		if s := cw.swapRec(ch, id); s != nil {
			items = append(items, fmt.Sprintf("(%d, %s)", cw.idN(id), cw.swapTerm(s)))
		}
	}
	return fmt.Sprintf("(SObs %s %s)", cw.balTerm(ch), coqList(items))
}

// ---- the five ledger operations ------------------------------------------------------------

// begin through a batch (the transaction id is the swap id) or through a task list (task id)
func (cw *ccWorld) swBegin(ch string, u *Account, id, tok, to string, amt int64, key string, viaTask bool) (string, []*fpb.Swap) {
	cw.nonce++
	req := cw.w.SignedArgs(ch, "swapBegin", u, strconv.FormatUint(cw.nonce, 10), tok, to, strconv.FormatInt(amt, 10), hex.EncodeToString(swHash(key)))
	if viaTask {
		out := cw.w.ExecTasks(ch, cw.w.Robot.Creator, []*fpb.Task{{Id: id, Method: "swapBegin", Args: req}})
		if out.Resp == nil || len(out.Resp.GetTxResponses()) != 1 {
			return "TASKS FAILED: " + out.Res.Message, nil
		}
		return out.Resp.GetTxResponses()[0].GetError().GetError(), nil
	}
	sub := cw.w.Peer.InvokeTx(ch, id, cw.w.Client.Creator, "swapBegin", req...)
	if !sub.OK() {
		return sub.Message, nil
	}
	out := cw.w.ExecBatchIDs(ch, sub.TxID)
	if out.Resp == nil || len(out.Resp.GetTxResponses()) != 1 {
		return "BATCH FAILED: " + out.Res.Message, nil
	}
	return out.Resp.GetTxResponses()[0].GetError().GetError(), out.Resp.GetCreatedSwaps()
}

// the swaps a batch reply announces to the robot
func (cw *ccWorld) createdTerm(l []*fpb.Swap) string {
	var items []string
	for _, s := range l {
		items = append(items, fmt.Sprintf("(%d, %s)", cw.idN(hex.EncodeToString(s.GetId())), cw.swapTerm(s)))
	}
	return "(Some " + coqList(items) + ")"
}

func (cw *ccWorld) swAnswer(ch string, s *fpb.Swap) string {
	out := cw.w.ExecBatch(ch, &fpb.Batch{Swaps: []*fpb.Swap{s}})
	if out.Resp == nil || len(out.Resp.GetSwapResponses()) != 1 {
		return "BATCH FAILED: " + out.Res.Message
	}
	return out.Resp.GetSwapResponses()[0].GetError().GetError()
}

func (cw *ccWorld) swRobotDone(ch, id, key string) string {
	raw, _ := hex.DecodeString(id)
	out := cw.w.ExecBatch(ch, &fpb.Batch{Keys: []*fpb.SwapKey{{Id: raw, Key: key}}})
	if out.Resp == nil || len(out.Resp.GetSwapKeyResponses()) != 1 {
		return "BATCH FAILED: " + out.Res.Message
	}
	return out.Resp.GetSwapKeyResponses()[0].GetError().GetError()
}

// swapDone is a direct invocation by anybody; on success the "key" event carries from \t id \t key
func (cw *ccWorld) swUserDone(ch, id, key string) (string, string) {
	res := cw.w.Peer.Invoke(ch, cw.w.Client.Creator, "swapDone", id, key)
	ev := "None"
	if res.Event != nil && res.Event.GetEventName() == "key" {
		parts := strings.Split(string(res.Event.GetPayload()), "\t")
		if len(parts) == 3 {
			ev = fmt.Sprintf("(Some (%d, %d, %d))", cw.chNum(parts[0]), cw.idN(parts[1]), swKeyN(parts[2]))
		} else {
			ev = "(Some (0, 0, 0))"
		}
	}
	if res.OK() {
		return "", ev
	}
	return res.Message, ev
}

func (cw *ccWorld) swCancel(ch string, u *Account, id string) string {
	return tokenRun(cw.w, ch, u, &cw.nonce, "swapCancel", id)
}

func (cw *ccWorld) swFund() {
	for _, u := range cw.users {
		cw.w.SetBalance("tt", balance.BalanceTypeToken, u.AddrString(), "", big.NewInt(1000))
		cw.w.SetBalance("tt", balance.BalanceTypeToken, u.AddrString(), "G1", big.NewInt(500))
		cw.w.SetBalance("vt", balance.BalanceTypeToken, u.AddrString(), "", big.NewInt(1000))
		cw.w.SetBalance("tt", balance.BalanceTypeAllowed, u.AddrString(), "VT", big.NewInt(300))
		cw.w.SetBalance("vt", balance.BalanceTypeAllowed, u.AddrString(), "TT", big.NewInt(300))
		cw.w.SetBalance("vt", balance.BalanceTypeAllowed, u.AddrString(), "TT_G1", big.NewInt(100))
	}
	cw.w.SetBalance("tt", balance.BalanceTypeGiven, "VT", "", big.NewInt(800))
	cw.w.SetBalance("vt", balance.BalanceTypeGiven, "TT", "", big.NewInt(600))
}

var swIDs = []string{"a1", "a2", "a3"}

// record keys are case-sensitive: "B2" and "b2" are two swaps (only a task id can be upper-case)
var swIDsCase = []string{"a1", "b2", "B2"}

type swBeginArgs struct {
	u       int
	id      string
	tok, to string
	amt     int64
	key     string
	viaTask bool
}

func (cw *ccWorld) randBegin(c *Ctx, ch string) swBeginArgs {
	rng := c.Rng
	own := strings.ToUpper(ch)
	other := map[string]string{"tt": "VT", "vt": "TT"}[ch]
	b := swBeginArgs{u: rng.Intn(2), id: swIDs[rng.Intn(len(swIDs))], to: other, amt: int64(rng.Intn(400)), key: swKeys[rng.Intn(3)], viaTask: rng.Intn(2) == 0}
	switch r := rng.Intn(100); {
	case r < 40:
		b.tok = own
		if rng.Intn(4) == 0 {
			b.to = strings.ToLower(other) // the channel's name as Fabric writes it
		}
	case r < 50 && ch == "tt":
		b.tok = own + "_G1"
	case r < 80:
		b.tok = other // reverse swap
	case r < 86 && ch == "vt":
		b.tok = "TT_G1"
	case r < 91:
		// a token that is neither side of the swap; a name spelled in another letter case is such a token
		b.tok = []string{"XX", strings.ToLower(own), strings.ToLower(other), "Tt"}[rng.Intn(4)]
	default:
		b.tok = own
		b.to = []string{own, "XX"}[rng.Intn(2)]
	}
	if rng.Intn(15) == 0 {
		b.amt = 5000
	}
	if rng.Intn(25) == 0 {
		b.amt = -int64(1 + rng.Intn(5))
	}
	return b
}

func (cw *ccWorld) beginTerm(ch string, b swBeginArgs) string {
	s, g := cw.tokN(b.tok)
	if b.tok != strings.ToUpper(b.tok) {
		s, g = 9, 0 // names are compared as written
	}
	direct := strings.SplitN(b.tok, "_", 2)[0] == strings.ToUpper(ch)
	return fmt.Sprintf("%d %d %d %d %d %s %d", cw.users[b.u].N(), cw.idN(b.id), s, g, cw.destNum(b.to, direct), coqZi(b.amt), swKeyN(b.key))
}

func genC08(c *Ctx) error {
	c.ShardSize = 20
	c.Notes["rule"] = "two deployed chaincodes (TT, VT), two users. (one) arbitrary step sequences on one channel: swapBegin through a batch and through executeTasks (ids from a pool of three, so that ids collide), direct / reverse / grouped / foreign-token (also the own or the other token spelled in another letter case) / wrong-channel / over-funded begins, robot answers with arbitrary records (also onto occupied ids), robot completions and user completions with right and wrong keys, cancels; every step observed (error class, key event, all balances, all swap records). (two) interleavings of user begins on both channels with the robot (answer once, close the origin with the published key, per-swap checkpoint) and platform cancels in the documented order; completions attempted at any time with any key; half of the runs are drained at the end (everything completed or cancelled) so that the closed-state equalities are exercised. Non-trivial: >= 2 successful and >= 2 rejected steps / >= 3 successful robot or completion steps."
	n := c.N(120, 2500)
	for i := 0; i < n; i++ {
		if i%2 == 0 {
			if err := c08One(c); err != nil {
				return err
			}
		} else if err := c08Two(c); err != nil {
			return err
		}
	}
	return nil
}

func c08One(c *Ctx) error {
	rng := c.Rng
	// the switch for multi-swaps does not concern single swaps: one world in three has it set
	o := ChanOpts{DisableMultiSwaps: c.Rng.Intn(3) == 0}
	c.Count(fmt.Sprintf("multi_swaps_switched_off_%v", o.DisableMultiSwaps))
	cw, err := newCCWorldOpts(o)
	if err != nil {
		return err
	}
	cw.swFund()
	ch := []string{"tt", "vt"}[rng.Intn(2)]
	own := strings.ToUpper(ch)
	other := map[string]string{"tt": "VT", "vt": "TT"}[ch]
	init := cw.balTerm(ch)
	var ops, steps []string
	okN, rejN := 0, 0
	for k := 12 + rng.Intn(14); k > 0; k-- {
		var term, msg string
		ev, crt := "None", "None"
		id := swIDsCase[rng.Intn(len(swIDsCase))]
		lid := strings.ToLower(id) // the robot's ids are lower-case hex
		key := swKeys[rng.Intn(3)]
		if rec := cw.swapRec(ch, id); rec != nil && rng.Intn(3) > 0 {
			if n := swHashN(rec.GetHash()); n >= 11 && n < 11+len(swKeys) {
				key = swKeys[n-11] // mostly the right key
			}
		}
		key = padKey(rng, key)
		switch r := rng.Intn(100); {
		case r < 30:
			b := cw.randBegin(c, ch)
			b.id = id
			if b.id != lid {
				b.viaTask = true // a peer's transaction ids are lower-case hex; only a task id can be anything
			}
			if rng.Intn(4) == 0 {
				// a begin and the cancel of the same id in ONE executeTasks request: the record the first task creates must
				// be gone after the second. The state between them is taken from a run of the list cut after the first
				// task, on a copy of the ledger; the errors come from the full list.
				cw.nonce++
				u := cw.users[b.u]
				r1 := cw.w.SignedArgs(ch, "swapBegin", u, strconv.FormatUint(cw.nonce, 10), b.tok, b.to, strconv.FormatInt(b.amt, 10), hex.EncodeToString(swHash(b.key)))
				cw.nonce++
				canceller := cw.users[rng.Intn(2)]
				r2 := cw.w.SignedArgs(ch, "swapCancel", canceller, strconv.FormatUint(cw.nonce, 10), b.id)
				tasks := []*fpb.Task{{Id: b.id, Method: "swapBegin", Args: r1}, {Id: cw.w.Peer.NextTxID(), Method: "swapCancel", Args: r2}}
				chn := cw.w.Peer.Channels[ch]
				snap := stateSnapshot(chn)
				cw.w.ExecTasks(ch, cw.w.Robot.Creator, tasks[:1])
				mid := cw.swObs(ch)
				chn.State = map[string][]byte{}
				for k, v := range snap {
					chn.State[k] = []byte(v)
				}
				out := cw.w.ExecTasks(ch, cw.w.Robot.Creator, tasks)
				m1, m2 := "TASKS FAILED: "+out.Res.Message, "TASKS FAILED: "+out.Res.Message
				if out.Resp != nil && len(out.Resp.GetTxResponses()) == 2 {
					m1, m2 = out.Resp.GetTxResponses()[0].GetError().GetError(), out.Resp.GetTxResponses()[1].GetError().GetError()
				}
				ops = append(ops, "SBegin "+cw.beginTerm(ch, b))
				steps = append(steps, fmt.Sprintf("(%s, None, None, %s)", swErr(m1), mid))
				c.Count("one_begin_cancel_pair_" + strings.SplitN(strings.TrimPrefix(swErr(m1), "Some "), " ", 2)[0] + "_" + strings.SplitN(strings.TrimPrefix(swErr(m2), "Some "), " ", 2)[0])
				term, msg = fmt.Sprintf("SCancel %d", cw.idN(b.id)), m2
				break
			}
			var created []*fpb.Swap
			msg, created = cw.swBegin(ch, cw.users[b.u], b.id, b.tok, b.to, b.amt, b.key, b.viaTask)
			if !b.viaTask {
				crt = cw.createdTerm(created)
			}
			term = "SBegin " + cw.beginTerm(ch, b)
			c.Count("one_begin_task_" + coqBool(b.viaTask))
		case r < 50:
			// the robot hands over a record "from the other channel"
			tok := []string{other, other, own, own, "XX", "TT_G1"}[rng.Intn(6)]
			u := cw.users[rng.Intn(2)]
			s := &fpb.Swap{Creator: u.Addr, Owner: u.Addr, Token: tok, Amount: big.NewInt(int64(rng.Intn(300))).Bytes(), From: other, To: own, Hash: swHash(swKeys[rng.Intn(3)]), Timeout: 1}
			s.Id, _ = hex.DecodeString(lid)
			if rng.Intn(10) == 0 {
				s.Amount = big.NewInt(5000).Bytes()
			}
			term = fmt.Sprintf("SAnswer %d (%s)", cw.idN(lid), cw.swapTerm(s))
			if rng.Intn(3) == 0 {
				// two answers in ONE batch (mostly for the same id): the second must see the first.
				// The state between them is not observable, so it is taken from a run of the batch cut after
				// the first answer (on a copy of the ledger); the errors come from the full batch.
				s2 := proto.Clone(s).(*fpb.Swap)
				if rng.Intn(4) == 0 {
					s2.Id, _ = hex.DecodeString(strings.ToLower(swIDsCase[rng.Intn(len(swIDsCase))]))
				}
				if rng.Intn(2) == 0 {
					s2.Owner = cw.users[rng.Intn(2)].Addr
				}
				lid2 := hex.EncodeToString(s2.Id)
				term2 := fmt.Sprintf("SAnswer %d (%s)", cw.idN(lid2), cw.swapTerm(s2))
				chn := cw.w.Peer.Channels[ch]
				snap := stateSnapshot(chn)
				cw.swAnswer(ch, s)
				mid := cw.swObs(ch)
				chn.State = map[string][]byte{}
				for k, v := range snap {
					chn.State[k] = []byte(v)
				}
				out := cw.w.ExecBatch(ch, &fpb.Batch{Swaps: []*fpb.Swap{s, s2}})
				m1, m2 := "BATCH FAILED: "+out.Res.Message, "BATCH FAILED: "+out.Res.Message
				if out.Resp != nil && len(out.Resp.GetSwapResponses()) == 2 {
					m1, m2 = out.Resp.GetSwapResponses()[0].GetError().GetError(), out.Resp.GetSwapResponses()[1].GetError().GetError()
				}
				ops = append(ops, term)
				steps = append(steps, fmt.Sprintf("(%s, None, None, %s)", swErr(m1), mid))
				c.Count("one_answer_pair_" + strings.SplitN(strings.TrimPrefix(swErr(m1), "Some "), " ", 2)[0] + "_" + strings.SplitN(strings.TrimPrefix(swErr(m2), "Some "), " ", 2)[0])
				term, msg = term2, m2
				break
			}
			msg = cw.swAnswer(ch, s)
		case r < 65:
			if r2 := cw.swapRec(ch, lid); r2 != nil && rng.Intn(3) > 0 {
				if n := swHashN(r2.GetHash()); n >= 11 && n < 11+len(swKeys) {
					key = swKeys[n-11]
				}
			}
			msg = cw.swRobotDone(ch, lid, key)
			term = fmt.Sprintf("SRobotDone %d %d", cw.idN(lid), swKeyN(key))
		case r < 85:
			msg, ev = cw.swUserDone(ch, id, key)
			term = fmt.Sprintf("SUserDone %d %d", cw.idN(id), swKeyN(key))
		default:
			msg = cw.swCancel(ch, cw.users[rng.Intn(2)], id)
			term = fmt.Sprintf("SCancel %d", cw.idN(id))
		}
		e := swErr(msg)
		ops = append(ops, term)
		steps = append(steps, fmt.Sprintf("(%s, %s, %s, %s)", e, ev, crt, cw.swObs(ch)))
		c.Count("one_" + strings.SplitN(term, " ", 2)[0] + "_" + strings.SplitN(strings.TrimPrefix(e, "Some "), " ", 2)[0])
		if e == "None" {
			okN++
		} else {
			rejN++
		}
	}
	term := fmt.Sprintf("SOneC %d %s %s %s", cw.chN[own], init, coqList(ops), coqList(steps))
	c.Emit(term, map[string]interface{}{"kind": "one_channel", "channel": ch, "ops": ops}, okN >= 2 && rejN >= 2)
	return nil
}

type swStatus int

const (
	stNone swStatus = iota
	stAnswered
	stDestDone
	stDestCancelled
)

type swKeyT struct {
	d  bool
	id string
}

func c08Two(c *Ctx) error {
	rng := c.Rng
	// the switch for multi-swaps does not concern single swaps: one world in three has it set
	o := ChanOpts{DisableMultiSwaps: c.Rng.Intn(3) == 0}
	c.Count(fmt.Sprintf("multi_swaps_switched_off_%v", o.DisableMultiSwaps))
	cw, err := newCCWorldOpts(o)
	if err != nil {
		return err
	}
	cw.swFund()
	initA, initB := cw.balTerm("tt"), cw.balTerm("vt")
	var acts []string
	status := map[swKeyT]swStatus{} // the robot's durable checkpoint
	pubKey := map[swKeyT]string{}   // keys the robot read from "key" events
	inbox := map[swKeyT]*fpb.Swap{} // swaps announced to the robot in batch replies
	good := 0
	chans := func(d bool) (string, string) {
		if d {
			return "tt", "vt"
		}
		return "vt", "tt"
	}
	perform := func(kind string, d bool, id, key string) {
		org, dst := chans(d)
		k := swKeyT{d, id}
		switch kind {
		case "answer":
			acts = append(acts, fmt.Sprintf("RAnswer %s %d", coqBool(d), cw.idN(id)))
			r := cw.swapRec(org, id)
			if a := inbox[k]; a != nil {
				r = a // the robot answers what the batch reply announced
			}
			if status[k] == stNone && r != nil && string(r.GetCreator()) != "0000" && cw.routesTo(r, dst) {
				if cw.swAnswer(dst, proto.Clone(r).(*fpb.Swap)) == "" { // the ledger refuses an occupied id
					status[k] = stAnswered
					good++
				}
			}
		case "udone":
			acts = append(acts, fmt.Sprintf("UDone %s %d %d", coqBool(d), cw.idN(id), swKeyN(key)))
			// anybody may try at any time; it can only succeed on an answered copy
			msg, _ := cw.swUserDone(dst, id, key)
			if msg == "" {
				if status[k] == stAnswered {
					status[k] = stDestDone
					pubKey[k] = key
					good++
				} else {
					c.Count("two_completion_outside_protocol")
					status[k] = stDestDone // will show as a mismatch with the model
				}
			}
		case "rdone":
			acts = append(acts, fmt.Sprintf("RDone %s %d", coqBool(d), cw.idN(id)))
			if status[k] == stDestDone && cw.swapRec(org, id) != nil {
				if cw.swRobotDone(org, id, pubKey[k]) == "" {
					delete(status, k)
					delete(inbox, k)
					good++
				}
			}
		case "cdest":
			acts = append(acts, fmt.Sprintf("CancelDest %s %d", coqBool(d), cw.idN(id)))
			if status[k] == stAnswered {
				if cw.swCancel(dst, cw.users[rng.Intn(2)], id) == "" {
					status[k] = stDestCancelled
					good++
				}
			}
		case "corig":
			acts = append(acts, fmt.Sprintf("CancelOrigin %s %d", coqBool(d), cw.idN(id)))
			r := cw.swapRec(org, id)
			if (status[k] == stNone || status[k] == stDestCancelled) && r != nil && string(r.GetCreator()) != "0000" {
				if cw.swCancel(org, cw.users[rng.Intn(2)], id) == "" {
					delete(status, k)
					delete(inbox, k)
					good++
				}
			}
		}
		c.Count("two_" + kind)
	}
	rightKey := func(d bool, id string) string {
		org, _ := chans(d)
		if r := cw.swapRec(org, id); r != nil {
			if n := swHashN(r.GetHash()); n >= 11 && n < 11+len(swKeys) {
				return swKeys[n-11]
			}
		}
		return swKeys[rng.Intn(3)]
	}
	for k := 14 + rng.Intn(18); k > 0; k-- {
		if rng.Intn(100) < 30 {
			d := rng.Intn(2) == 0
			org, _ := chans(d)
			b := cw.randBegin(c, org)
			_, created := cw.swBegin(org, cw.users[b.u], b.id, b.tok, b.to, b.amt, b.key, b.viaTask)
			for _, s := range created {
				inbox[swKeyT{d, hex.EncodeToString(s.GetId())}] = s
			}
			acts = append(acts, fmt.Sprintf("UBegin %s %s", coqBool(d), cw.beginTerm(org, b)))
			c.Count("two_begin")
			continue
		}
		d := rng.Intn(2) == 0
		id := swIDs[rng.Intn(len(swIDs))]
		kind := []string{"answer", "udone", "rdone", "cdest", "corig"}[rng.Intn(5)]
		if rng.Intn(10) < 7 {
			// mostly something the protocol enables right now
			type cand struct {
				d    bool
				id   string
				kind string
			}
			var en []cand
			for _, dd := range []bool{true, false} {
				org, _ := chans(dd)
				for _, i := range swIDs {
					st := status[swKeyT{dd, i}]
					r := cw.swapRec(org, i)
					if a := inbox[swKeyT{dd, i}]; a != nil && r == nil {
						r = a
					}
					switch {
					case st == stNone && r != nil && string(r.GetCreator()) != "0000":
						en = append(en, cand{dd, i, "answer"}, cand{dd, i, "answer"}, cand{dd, i, "corig"})
					case st == stAnswered:
						en = append(en, cand{dd, i, "udone"}, cand{dd, i, "udone"}, cand{dd, i, "cdest"})
					case st == stDestDone:
						en = append(en, cand{dd, i, "rdone"})
					case st == stDestCancelled:
						en = append(en, cand{dd, i, "corig"})
					}
				}
			}
			if len(en) > 0 {
				x := en[rng.Intn(len(en))]
				d, id, kind = x.d, x.id, x.kind
			}
		}
		key := padKey(rng, rightKey(d, id))
		if rng.Intn(5) == 0 {
			key = swKeys[rng.Intn(len(swKeys))]
		}
		perform(kind, d, id, key)
	}
	drained := rng.Intn(2) == 0
	if drained {
		for round := 0; round < 4; round++ {
			for _, d := range []bool{true, false} {
				org, _ := chans(d)
				for _, id := range swIDs {
					k := swKeyT{d, id}
					r := cw.swapRec(org, id)
					switch {
					case status[k] == stAnswered && rng.Intn(2) == 0:
						perform("udone", d, id, rightKey(d, id))
					case status[k] == stAnswered:
						perform("cdest", d, id, "")
					case status[k] == stDestDone:
						perform("rdone", d, id, "")
					case status[k] == stDestCancelled:
						perform("corig", d, id, "")
					case status[k] == stNone && r != nil && string(r.GetCreator()) != "0000":
						if cw.routesTo(r, map[string]string{"tt": "vt", "vt": "tt"}[org]) && rng.Intn(2) == 0 {
							perform("answer", d, id, "")
						} else {
							perform("corig", d, id, "")
						}
					}
				}
			}
		}
	}
	term := fmt.Sprintf("STwoC 1 2 %s %s %s %s %s", initA, initB, coqList(acts), cw.swObs("tt"), cw.swObs("vt"))
	c.Emit(term, map[string]interface{}{"kind": "two_channels", "acts": acts, "drained": drained}, good >= 3)
	c.CountN("two_protocol_steps_performed", good)
	c.Count("two_drained_" + coqBool(drained))
	return nil
}

func init() { props["C08"] = genC08 }
