package main

import (
	"encoding/json"
	"fmt"
	"math/big"
	"sort"
	"strconv"
	"strings"

	"github.com/anoideaopen/foundation/core/balance"
	"github.com/anoideaopen/foundation/core/cctransfer"
	fpb "github.com/anoideaopen/foundation/proto"
	"github.com/golang/protobuf/proto" //nolint:staticcheck
	"google.golang.org/protobuf/encoding/protojson"
)

const c20Prefix = "/transfer/from/"

func coqStr(s string) string { return coqBytes([]byte(s)) }

type c20Step struct {
	Op  string `json:"op"` // create commit cancel delete createTo put
	ID  string `json:"id"`
	Err string `json:"err,omitempty"`
}

type c20Page struct {
	Ccts []struct {
		ID        string `json:"id"`
		IsCommit  bool   `json:"isCommit"`
		IsCommit2 bool   `json:"is_commit"` // (the name depends on which encoder wrote the reply)
	} `json:"ccts"`
	Bookmark string `json:"bookmark"`
}

func c20Query(w *World, size int64, bm string) (string, *c20Page) {
	res := w.Peer.Invoke("tt", w.Client.Creator, "channelTransfersFrom", strconv.FormatInt(size, 10), bm)
	if !res.OK() {
		switch {
		case strings.Contains(res.Message, "page size is less or equal to zero"):
			return "QErr QPageSize", nil
		case strings.Contains(res.Message, "invalid bookmark"):
			return "QErr QBookmark", nil
		}
		return "QOther (* " + strings.ReplaceAll(res.Message, "*", "x") + " *)", nil
	}
	var p c20Page
	if err := json.Unmarshal(res.Payload, &p); err != nil {
		return "QOther (* bad payload *)", nil
	}
	ids := make([]string, len(p.Ccts))
	for i, c := range p.Ccts {
		ids[i] = coqStr(c20Shown(c.ID, c.IsCommit || c.IsCommit2))
	}
	return fmt.Sprintf("QOk %s %s", coqList(ids), coqStr(p.Bookmark)), &p
}

// c20Shown: how a record is written down in the observations: its id, followed by a mark when it is committed (a listing
// hands records to the robot, which acts on that flag)
func c20Shown(id string, committed bool) string {
	if committed {
		return id + "\x01c"
	}
	return id
}

// c20Legacy: ids of records put into the ledger of the next case directly, as an earlier release would have stored them
var c20Legacy []string

// c20To: the destination channel the records of the next case name (no field of a record has a length limit)
var c20To = "VT"

func c20Case(c *Ctx, ids []string, junk []string, walkSizes []int64, keepAll bool) error {
	rng := c.Rng
	w := NewWorld()
	if _, err := w.AddToken("TT", ChanOpts{}); err != nil {
		return err
	}
	user := w.NewAccount(fpb.KeyType_ed25519)
	w.SetBalance("tt", balance.BalanceTypeToken, user.AddrString(), "", big.NewInt(1000000))
	nonce := uint64(1700000000000)
	var steps []c20Step
	created := map[string]bool{}
	for _, id := range ids {
		msg := tokenRun(w, "tt", user, &nonce, "channelTransferByCustomer", id, c20To, "TT", "10")
		steps = append(steps, c20Step{"create", id, msg})
		c.Count("create_" + errClassShort(msg))
		if msg == "" {
			created[id] = true
		}
	}
	// the robot has listed the records once before anything happens to them
	if len(ids) > 0 {
		bm := ""
		for k := 0; k < 50; k++ {
			_, p := c20Query(w, 3, bm)
			if p == nil || p.Bookmark == "" {
				break
			}
			bm = p.Bookmark
		}
	}
	// life cycle: commit / cancel / delete some
	for _, id := range ids {
		if !created[id] || keepAll {
			continue
		}
		switch rng.Intn(5) {
		case 0:
			res := w.Peer.Invoke("tt", w.Robot.Creator, "commitCCTransferFrom", id)
			steps = append(steps, c20Step{"commit", id, res.Message})
		case 1:
			sub := w.Peer.Invoke("tt", w.Robot.Creator, "cancelCCTransferFrom", id)
			if sub.OK() {
				out := w.ExecBatchIDs("tt", sub.TxID)
				steps = append(steps, c20Step{"cancel", id, out.Resp.GetTxResponses()[0].GetError().GetError()})
			}
		case 2:
			r1 := w.Peer.Invoke("tt", w.Robot.Creator, "commitCCTransferFrom", id)
			r2 := w.Peer.Invoke("tt", w.Robot.Creator, "deleteCCTransferFrom", id)
			steps = append(steps, c20Step{"commit+delete", id, r1.Message + r2.Message})
		}
	}
	// destination-side records and unrelated keys around the range
	for k := 0; k < 2; k++ {
		tr := &fpb.CCTransfer{Id: "t" + strconv.Itoa(k), From: "VT", To: "TT", Token: "VT", User: user.Addr, Amount: big.NewInt(5).Bytes(), ForwardDirection: true}
		data, _ := proto.Marshal(tr)
		sub := w.Peer.Invoke("tt", w.Robot.Creator, "createCCTransferTo", string(data))
		if sub.OK() {
			w.ExecBatchIDs("tt", sub.TxID)
		}
	}
	for _, j := range junk {
		w.Peer.Channels["tt"].State[j] = []byte("junk")
	}
	// records of releases that still accepted a slash inside an id: stored below the prefix, found by the point query
	for _, id := range c20Legacy {
		tr := &fpb.CCTransfer{Id: id, From: "TT", To: "VT", Token: "TT", User: user.Addr, Amount: big.NewInt(7).Bytes(), ForwardDirection: true}
		if data, err := protojson.Marshal(tr); err == nil {
			w.Peer.Channels["tt"].State[c20Prefix+id] = data
			c.Count("record_of_an_earlier_release_with_a_slash_in_its_id")
		}
	}
	// records written by earlier releases are binary protobuf, not JSON: both readers accept either form,
	// and after an upgrade a ledger holds both next to each other
	if rng.Intn(2) == 0 {
		for k, v := range w.Peer.Channels["tt"].State {
			if !strings.HasPrefix(k, c20Prefix) || rng.Intn(3) == 0 {
				continue
			}
			var tr fpb.CCTransfer
			if err := jsonpbUnmarshal(v, &tr); err == nil {
				if bin, err := proto.Marshal(&tr); err == nil && len(bin) > 0 {
					w.Peer.Channels["tt"].State[k] = bin
					c.Count("record_in_legacy_binary_form")
				}
			}
		}
	}
	// ledger listing for the model
	keys := make([]string, 0)
	for k := range w.Peer.Channels["tt"].State {
		keys = append(keys, k)
	}
	sort.Strings(keys)
	var ledger []string
	inRange := 0
	for _, k := range keys {
		id := ""
		if strings.HasPrefix(k, "/transfer/") {
			var tr fpb.CCTransfer
			if err := jsonpbUnmarshal(w.Peer.Channels["tt"].State[k], &tr); err == nil {
				id = c20Shown(tr.GetId(), tr.GetIsCommit())
			} else if err := proto.Unmarshal(w.Peer.Channels["tt"].State[k], &tr); err == nil {
				id = c20Shown(tr.GetId(), tr.GetIsCommit())
			}
		}
		if strings.HasPrefix(k, c20Prefix) {
			inRange++
		}
		kk := k
		if len(kk) > 200 && !strings.HasPrefix(kk, "/transfer/") {
			kk = kk[:200] // a very long unrelated key (the given-out balance of a 300 KiB channel name): its place in the order is decided long before
		}
		ledger = append(ledger, fmt.Sprintf("(%s, %s)", coqStr(kk), coqStr(id)))
	}
	// which ids exist according to the point query
	var existing []string
	universe := append(append(append([]string{}, ids...), c20Legacy...), "t0", "nope")
	seen := map[string]bool{}
	for _, id := range universe {
		if seen[id] {
			continue
		}
		seen[id] = true
		res := w.Peer.Invoke("tt", w.Client.Creator, "channelTransferFrom", id)
		if res.OK() {
			var rec struct {
				ID        string `json:"id"`
				IsCommit  bool   `json:"isCommit"`
				IsCommit2 bool   `json:"is_commit"`
			}
			// a record exists under this id iff the point query returns a record carrying it
			// (path.Join makes "a/" an alias of "a" for reads; that is not another record)
			if err := json.Unmarshal(res.Payload, &rec); err == nil && rec.ID == id {
				existing = append(existing, coqStr(c20Shown(id, rec.IsCommit || rec.IsCommit2)))
			}
		}
	}
	// single queries
	var qs, qo []string
	bookmarks := []string{"", c20Prefix, "/transfer/to/t0", "zzz", "/transfer/from", "/transfer/fro", c20Prefix + "a0z", c20Prefix + "\xf4\x8f\xbf\xbf", "/", "/transfer/audit"}
	for _, k := range keys {
		if strings.HasPrefix(k, "/transfer/") && (walkSizes == nil || rng.Intn(10) == 0) {
			bookmarks = append(bookmarks, k)
		}
	}
	for _, bm := range bookmarks {
		for _, size := range []int64{1, 2, int64(inRange), int64(inRange) + 1, 2147483647} {
			if size < 1 {
				continue
			}
			o, _ := c20Query(w, size, bm)
			qs = append(qs, fmt.Sprintf("((%d)%%Z, %s)", size, coqStr(bm)))
			qo = append(qo, o)
			c.Count("query_" + strings.SplitN(o, " ", 3)[0] + strings.SplitN(o+" ", " ", 3)[1][:1])
		}
	}
	for _, size := range []int64{0, -1, -100} {
		bm := []string{"", c20Prefix + "a"}[rng.Intn(2)]
		o, _ := c20Query(w, size, bm)
		qs = append(qs, fmt.Sprintf("((%d)%%Z, %s)", size, coqStr(bm)))
		qo = append(qo, o)
	}
	// walks
	var ws, wo []string
	sizes := walkSizes
	if sizes == nil {
		for size := int64(1); size <= int64(inRange)+1; size++ {
			sizes = append(sizes, size)
		}
	}
	sizes = append(append([]int64{}, sizes...), 2147483646, 2147483647) // "everything in one page": the largest sizes the interface takes
	for _, size := range sizes {
		var got []string
		bm := ""
		ok := true
		for guard := 0; guard < 2000; guard++ {
			o, p := c20Query(w, size, bm)
			if p == nil {
				ok = false
				_ = o
				break
			}
			for _, x := range p.Ccts {
				got = append(got, coqStr(c20Shown(x.ID, x.IsCommit || x.IsCommit2)))
			}
			if p.Bookmark == "" {
				break
			}
			bm = p.Bookmark
		}
		ws = append(ws, fmt.Sprintf("(%d)%%Z", size))
		if ok {
			wo = append(wo, "Some "+coqList(got))
		} else {
			wo = append(wo, "None")
		}
		c.Count("walk")
	}
	term := fmt.Sprintf("mkCase %s %s %s %s %s %s", coqList(ledger), coqList(qs), coqList(qo), coqList(ws), coqList(wo), coqList(existing))
	c.Emit(term, map[string]interface{}{"ids": ids, "steps": steps, "junk": junk}, inRange >= 2)
	return nil
}

func errClassShort(msg string) string {
	if msg == "" {
		return "ok"
	}
	if strings.Contains(msg, "already exists") {
		return "exists"
	}
	if strings.Contains(msg, "invalid") {
		return "invalid"
	}
	return "err"
}

func genC20(c *Ctx) error {
	c.ShardSize = 6
	c.Notes["rule"] = "each case: fresh chaincode; 0-9 origin-side transfers created through signed batched channelTransferByCustomer with ids from a pool (ids that are prefixes of each other, ids that differ only by trailing or leading white space, ids at and beyond '~', multi-byte ids up to the last code point U+10FFFF, duplicate ids, and ids on which path.Join is not concatenation: '.', '..', 'a/', '../to/x', 'a//b'), listed once, then committed / cancelled / committed+deleted at random (a listed record carries its commit flag); two destination-side records and unrelated keys just outside the range; all page sizes 1..n+1 and the two largest sizes the interface takes (2^31-2, 2^31-1) walked from the empty bookmark; single queries for sizes {1,2,n,n+1,2^31-1,0,-1,-100} x bookmarks {empty, every transfer key, keys outside the range, a non-existing key inside the range, the end key}. Plus sets of ids that differ only by white space at either end and ids of 114-151 bytes, all kept, half of them next to records of an earlier release whose ids hold a slash. Plus 5-7 records of 300 KiB each (a page of them is megabytes). Plus long listings: 230-330 records created in a permuted order, walked with page sizes 1, 7, 64, 99, 100, 101, 115, n-1, n, n+3, 1000. Plus single ids (fixed awkward ones, then random strings over letters, dots, slashes, blanks, multi-byte and invalid bytes, NUL) through CCFromTransfer / CCToTransfer / Base / IsValidID, each also used to create a record. Non-trivial: >= 2 records in range (an id case: a record was created, or the id has a dot or a slash)."
	rng := c.Rng
	clean := []string{"a", "ab", "b", "a0", "zz", "é", "0", "A", "abc", "b-1", "~", "a b", "a ", "a\t", "ab ", " a", "~z", "\u007f", "振込", "\U0010FFFF", "\U0010FFFFz", "\U0010FFFEz", "\uFFFDa"}
	unclean := []string{".", "..", "a/", "../to/x", "a//b", "x/y"}
	junkPool := []string{"/transfer/fro", "/transfer/from", "/transfer/from0", "/transfer/frommage", "/transfer/g", "/transfer/to0", "/u"}
	n := c.N(60, 1500)
	for i := 0; i < n; i++ {
		k := rng.Intn(10)
		var ids []string
		for len(ids) < k {
			switch r := rng.Intn(100); {
			case r < 80:
				ids = append(ids, clean[rng.Intn(len(clean))])
			default:
				ids = append(ids, unclean[rng.Intn(len(unclean))])
			}
		}
		var junk []string
		for _, j := range junkPool {
			if rng.Intn(2) == 0 {
				junk = append(junk, j)
			}
		}
		if err := c20Case(c, ids, junk, nil, false); err != nil {
			return err
		}
	}
	// ids that differ only by white space at either end, all kept, every page size: every key is a bookmark once
	for i := c.N(2, 20); i > 0; i-- {
		pool := []string{"a", "a ", "a\t", "a\n", "ab", "ab ", " a", "b", "b ", "\tb", "a  ", "振込", "振込 ", strings.Repeat("k", 150), strings.Repeat("k", 150) + "z", strings.Repeat("m", 114)}
		rng.Shuffle(len(pool), func(x, y int) { pool[x], pool[y] = pool[y], pool[x] })
		if i%2 == 0 {
			c20Legacy = []string{"2023/q4-0001", "2023/q4-0002", "a/b"}[:2+rng.Intn(2)] // keys as path.Join built them
		}
		err := c20Case(c, pool[:6+rng.Intn(len(pool)-5)], junkPool[:2], nil, true)
		c20Legacy = nil
		if err != nil {
			return err
		}
		c.Count("white_space_neighbours")
	}
	// single ids through core/cctransfer/paths.go (path.Join / path.Base / IsValidID against Model/Paths.v), and whether a
	// record can be created under them
	{
		w := NewWorld()
		if _, err := w.AddToken("TT", ChanOpts{}); err != nil {
			return err
		}
		user := w.NewAccount(fpb.KeyType_ed25519)
		w.SetBalance("tt", balance.BalanceTypeToken, user.AddrString(), "", big.NewInt(100000000))
		nonce := uint64(1700000000000)
		alphabet := []string{"a", "b", "A", ".", ".", "/", "/", " ", "é", "\U0010FFFF", "\xff", "0", "~", "\x00", "..", "./", "/.."}
		fixed := []string{"", ".", "..", "...", "/", "//", "a/", "/a", "a//b", "a/./b", "a/../b", "../to/x", "../../x", "../from/a", "a/..", "./a", ".a", "a.", "..a",
			"a/b/../../c", "\U0010FFFF", "\U0010FFFFz", "a\x00b", strings.Repeat("a", 300), strings.Repeat("../", 5) + "x"}
		seen := map[string]bool{}
		for i := c.N(200, 3000); i > 0; i-- {
			id := ""
			if len(fixed) > 0 {
				id, fixed = fixed[0], fixed[1:]
			} else {
				for k := rng.Intn(7); k > 0; k-- {
					id += alphabet[rng.Intn(len(alphabet))]
				}
			}
			created := false
			if !seen[id] {
				msg := tokenRun(w, "tt", user, &nonce, "channelTransferByCustomer", id, "VT", "TT", "1")
				created = msg == ""
				if created {
					// it exists: the point query finds it under this id
					res := w.Peer.Invoke("tt", w.Client.Creator, "channelTransferFrom", id)
					var rec struct {
						ID string `json:"id"`
					}
					if !res.OK() || json.Unmarshal(res.Payload, &rec) != nil || rec.ID != id {
						created = false
						c.Count("path_created_but_not_found")
					}
				}
			}
			seen[id] = true
			from := cctransfer.CCFromTransfer(id)
			term := fmt.Sprintf("mkPath %s %s %s %s %s %s", coqStr(id), coqStr(from), coqStr(cctransfer.CCToTransfer(id)), coqStr(cctransfer.Base(from)),
				coqBool(cctransfer.IsValidID(id)), coqBool(created))
			c.Emit(term, map[string]interface{}{"path_id": id, "created": created}, created || strings.Contains(id, "/") || strings.Contains(id, "."))
			c.Count(fmt.Sprintf("path_valid_%v_created_%v", cctransfer.IsValidID(id), created))
		}
	}
	// records that are large: a page of a few of them is several megabytes of ledger data
	for i := c.N(1, 3); i > 0; i-- {
		c20To = strings.Repeat("V", 300<<10)
		err := c20Case(c, []string{"big0", "big1", "big2", "big3", "big4", "big5", "big6"}[:5+rng.Intn(3)], junkPool[:1], nil, true)
		c20To = "VT"
		if err != nil {
			return err
		}
		c.Count("large_records")
	}
	// long listings: more records than any page-size limit a layer in between might impose (130-260 records, created in
	// a permuted order), walked with page sizes below, at and above 100 and above the number of records
	for i := c.N(1, 6); i > 0; i-- {
		nrec := 230 + rng.Intn(101) // about three fifths survive the life cycle below: well over 115 records stay
		var ids []string
		for _, j := range rng.Perm(nrec) {
			ids = append(ids, fmt.Sprintf("r%03d", j))
		}
		ids = append(ids, "a ", "~z")
		if err := c20Case(c, ids, junkPool[:3], []int64{1, 7, 64, 99, 100, 101, 115, int64(nrec) - 1, int64(nrec), int64(nrec) + 3, 1000}, false); err != nil {
			return err
		}
		c.Count("long_listing")
	}
	return nil
}

func init() { props["C20"] = genC20 }
