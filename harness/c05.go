package main

import (
	"fmt"
	"strconv"
	"strings"
)

func genC05(c *Ctx) error {
	c.ShardSize = 25
	c.Notes["rule"] = "histories of 10-30 steps on one chaincode (LevelDB or CouchDB key rules): submissions of scripted transactions (valid ones, and ones rejected at submission: corrupted signature, unknown method argument count) and batches whose id lists are random multisets of pending, already executed, unknown and duplicated ids. Observed after every step: the ledger projection (data, pending, nonce keys) and, for batches, the reply per listed id. Non-trivial: some id is listed at least twice over the history."
	n := c.N(200, 4000)
	for i := 0; i < n; i++ {
		if err := c05Case(c); err != nil {
			return err
		}
	}
	return nil
}

func c05Case(c *Ctx) error {
	rng := c.Rng
	bw, err := newBatchWorld(c)
	if err != nil {
		return err
	}
	w := bw.w
	if rng.Intn(3) == 0 {
		w.Peer.KeyRules = "couchdb"
		c.Count("couchdb_rules")
	}
	l0 := bw.ledgerTerm()
	var hist []string
	var known []string // ids ever submitted successfully
	listed := map[string]int{}
	steps := 10 + rng.Intn(21)
	for s := 0; s < steps; s++ {
		if rng.Intn(100) < 55 || len(known) == 0 {
			body := randBody(c)
			bw.nonce += uint64(1 + rng.Intn(2))
			sender := rng.Intn(3)
			acc := bw.senders[sender]
			bi := bw.bodyIndex(body)
			args := w.SignedArgs("tt", "script", acc, strconv.FormatUint(bw.nonce, 10), bodyScript(body))
			switch rng.Intn(10) {
			case 0:
				args[len(args)-1] = args[len(args)-1][:len(args[len(args)-1])-2] + "11" // corrupted signature
			case 1:
				args = args[:len(args)-2] // not signed at all
			}
			if rng.Intn(6) == 0 { // a batched method without a sender: unsigned, no nonce
				res := w.Submit("tt", "plain", []string{bodyScript(body)})
				hist = append(hist, fmt.Sprintf("HSub %d 0 0 %d %s %s", txNum(res.TxID), bi, coqBool(res.OK()), bw.ledgerTerm()))
				if res.OK() {
					known = append(known, res.TxID)
					c.Count("submit_plain_ok")
				}
				continue
			}
			res := w.Submit("tt", "script", args)
			hist = append(hist, fmt.Sprintf("HSub %d %d %d %d %s %s", txNum(res.TxID), acc.N(), bw.nonce, bi, coqBool(res.OK()), bw.ledgerTerm()))
			if res.OK() {
				known = append(known, res.TxID)
				c.Count("submit_ok")
			} else {
				c.Count("submit_rejected")
			}
			continue
		}
		var ids []string
		for k := rng.Intn(5); k >= 0; k-- {
			switch r := rng.Intn(100); {
			case r < 70:
				ids = append(ids, known[rng.Intn(len(known))])
			case r < 85 && len(ids) > 0:
				ids = append(ids, ids[rng.Intn(len(ids))])
			default:
				ids = append(ids, fmt.Sprintf("%064x", 7000+rng.Intn(4)))
			}
		}
		out := w.ExecBatchIDs("tt", ids...)
		res, err := bw.resTerms(c, out, "batch")
		if err != nil {
			// the batch as a whole failed: every listed id gets that verdict
			res = nil
			for range ids {
				res = append(res, "IErr IOther (* "+strings.ReplaceAll(err.Error(), "*", "x")+" *)")
			}
			c.Count("batch_failed_as_a_whole")
		}
		idn := make([]string, len(ids))
		for i, id := range ids {
			idn[i] = strconv.FormatUint(txNum(id), 10)
			listed[id]++
		}
		hist = append(hist, fmt.Sprintf("HBat %s %s %s", coqList(idn), coqList(res), bw.ledgerTerm()))
		c.Count("batches")
	}
	relisted := false
	for _, n := range listed {
		if n > 1 {
			relisted = true
		}
	}
	term := fmt.Sprintf("mkCase %s %s %s", bw.bodiesTerm(), l0, coqList(hist))
	c.Emit(term, map[string]interface{}{"steps": steps, "key_rules": w.Peer.KeyRules, "scripts": bw.scripts}, relisted)
	return nil
}

func init() { props["C05"] = genC05 }
