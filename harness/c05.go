package main

import (
	"encoding/json"
	"fmt"
	"strconv"
	"strings"

	fpb "github.com/anoideaopen/foundation/proto"
)

func genC05(c *Ctx) error {
	c.ShardSize = 25
	c.Notes["rule"] = "histories of 10-30 steps on one chaincode (LevelDB or CouchDB key rules): submissions of scripted transactions, one in five through a gRPC-routed method whose request message has no validator (valid ones, and ones rejected at submission: corrupted signature, missing signature, a black-listed or malformed address argument, a sender-less method with no argument or one too many) and batches whose id lists are random multisets of pending, already executed, unknown and duplicated ids. Observed after every step: the ledger projection (data, pending, nonce keys) and, for batches, the reply per listed id. Non-trivial: some id is listed at least twice over the history. Second part (pipeline cases): histories of 10-25 whole invocations on one chaincode (the scripted method sometimes disabled): signed submissions by ordinary / robot / malformed creators from single-key and 2-of-3 accounts, honest or broken (corrupted, foreign-key, other-message or blank signature, other channel name, altered script, unsigned, bad nonce string; access-control answer ok / black / grey / failing / without key types), batchExecute by the robot or by others with multisets of known / repeated / unknown ids, executeTasks lists of 1-3 such requests by any creator; observed after every invocation: response class and the ledger projection; compared with Model/Pipeline.v step by step. Non-trivial there: >= 2 recorded, >= 2 refused, >= 1 executed."
	n := c.N(200, 4000)
	for i := 0; i < n; i++ {
		if err := c05Case(c); err != nil {
			return err
		}
	}
	// whole invocations against the composed model (gate, authentication, pending store, batches, task lists)
	for i := c.N(60, 1200); i > 0; i-- {
		if err := c05Pipe(c); err != nil {
			return err
		}
	}
	return nil
}

func c05Case(c *Ctx) error {
	rng := c.Rng
	bw, err := newBatchWorld(c)
	if err != nil {
		return err
	}
	w := bw.w
	if rng.Intn(3) == 0 {
		w.Peer.KeyRules = "couchdb"
		c.Count("couchdb_rules")
	}
	l0 := bw.ledgerTerm()
	var hist []string
	var known []string // ids ever submitted successfully
	listed := map[string]int{}
	steps := 10 + rng.Intn(21)
	for s := 0; s < steps; s++ {
		if rng.Intn(100) < 55 || len(known) == 0 {
			body := randBody(c)
			bw.nonce += uint64(1 + rng.Intn(2))
			sender := rng.Intn(3)
			acc := bw.senders[sender]
			bi := bw.bodyIndex(body)
			fn, bad := "script", false
			args := w.SignedArgs("tt", "script", acc, strconv.FormatUint(bw.nonce, 10), bodyScript(body))
			if rng.Intn(4) == 0 {
				// a method with an address argument, which submission validates against the access-control list
				fn = "scriptTo"
				to := bw.senders[rng.Intn(3)].AddrString()
				switch rng.Intn(6) {
				case 0, 1:
					to, bad = bw.blackAddr(), true // black-listed
					c.Count("submit_blacklisted_argument")
				case 2:
					to, bad = []string{"", "xyz", to[:len(to)-2]}[rng.Intn(3)], true // not an address
					c.Count("submit_malformed_argument")
				}
				args = w.SignedArgs("tt", fn, acc, strconv.FormatUint(bw.nonce, 10), to, bodyScript(body))
			}
			if fn == "script" && rng.Intn(5) == 0 {
				// the same body through a method served by the gRPC router, whose request message (a plain
				// google.protobuf.StringValue) has no generated validator
				fn = svcScriptRun
				js, _ := json.Marshal(bodyScript(body))
				args = w.SignedArgs("tt", fn, acc, strconv.FormatUint(bw.nonce, 10), string(js))
				c.Count("submit_grpc_routed_method")
			}
			switch rng.Intn(10) {
			case 0:
				// corrupted signature: the last two characters replaced (by others than they are)
				sig := args[len(args)-1]
				tail := "11"
				if strings.HasSuffix(sig, "11") {
					tail = "22"
				}
				args[len(args)-1] = sig[:len(sig)-2] + tail
				bad = true
			case 1:
				args = args[:len(args)-2] // not signed at all
				bad = true
			}
			if rng.Intn(6) == 0 { // a batched method without a sender: unsigned, no nonce
				pargs, pbad := []string{bodyScript(body)}, false
				switch rng.Intn(6) {
				case 0:
					pargs, pbad = nil, true // no argument at all for a method that declares one
					c.Count("submit_plain_without_arguments")
				case 1:
					pargs, pbad = append(pargs, "extra"), true
				}
				res := w.Submit("tt", "plain", pargs)
				hist = append(hist, fmt.Sprintf("HSub %d 0 0 %d %s %s %s", txNum(res.TxID), bi, coqBool(pbad), coqBool(res.OK()), bw.ledgerTerm()))
				if res.OK() {
					known = append(known, res.TxID)
					c.Count("submit_plain_ok")
				}
				continue
			}
			res := w.Submit("tt", fn, args)
			if fn == svcScriptRun && !res.OK() && !bad {
				c.Count("grpc_submission_refused: " + res.Message)
			}
			hist = append(hist, fmt.Sprintf("HSub %d %d %d %d %s %s %s", txNum(res.TxID), acc.N(), bw.nonce, bi, coqBool(bad), coqBool(res.OK()), bw.ledgerTerm()))
			if res.OK() {
				known = append(known, res.TxID)
				c.Count("submit_ok")
			} else {
				c.Count("submit_rejected")
			}
			continue
		}
		var ids []string
		for k := rng.Intn(5); k >= 0; k-- {
			switch r := rng.Intn(100); {
			case r < 70:
				ids = append(ids, known[rng.Intn(len(known))])
			case r < 85 && len(ids) > 0:
				ids = append(ids, ids[rng.Intn(len(ids))])
			default:
				ids = append(ids, fmt.Sprintf("%064x", 7000+rng.Intn(4)))
			}
		}
		out := w.ExecBatchIDs("tt", ids...)
		res, err := bw.resTerms(c, out, "batch")
		if err != nil {
			// the batch as a whole failed: every listed id gets that verdict
			res = nil
			for range ids {
				res = append(res, "IErr IOther (* "+strings.ReplaceAll(err.Error(), "*", "x")+" *)")
			}
			c.Count("batch_failed_as_a_whole")
		}
		idn := make([]string, len(ids))
		for i, id := range ids {
			idn[i] = strconv.FormatUint(txNum(id), 10)
			listed[id]++
		}
		hist = append(hist, fmt.Sprintf("HBat %s %s %s", coqList(idn), coqList(res), bw.ledgerTerm()))
		c.Count("batches")
	}
	relisted := false
	for _, n := range listed {
		if n > 1 {
			relisted = true
		}
	}
	term := fmt.Sprintf("mkCase %s %s %s", bw.bodiesTerm(), l0, coqList(hist))
	c.Emit(term, map[string]interface{}{"steps": steps, "key_rules": w.Peer.KeyRules, "scripts": bw.scripts}, relisted)
	return nil
}

func init() { props["C05"] = genC05 }

// blackAddr registers (once) an account the access-control list reports as black-listed.
func (bw *batchWorld) blackAddr() string {
	if bw.black == nil {
		bw.black = bw.w.NewAccount(fpb.KeyType_ed25519)
		bw.black.Black = true
	}
	return bw.black.AddrString()
}
