package main

// Typed projection of a channel's ledger: balances, token metadata.  Unknown addresses or
// tokens are interned to fresh numbers (>= 900), so a stray write is still an observable.

import (
	"fmt"
	"math/big"
	"sort"
	"strconv"
	"strings"

	"github.com/anoideaopen/foundation/core/balance"
	fpb "github.com/anoideaopen/foundation/proto"
	"github.com/golang/protobuf/proto" //nolint:staticcheck
	"google.golang.org/protobuf/encoding/protojson"
)

type Interner struct {
	addr  map[string]int
	token map[string]int
	next  int
}

func NewInterner() *Interner {
	return &Interner{addr: map[string]int{}, token: map[string]int{"": 0}, next: 900}
}

func (in *Interner) Addr(s string) int {
	if v, ok := in.addr[s]; ok {
		return v
	}
	in.next++
	in.addr[s] = in.next
	return in.next
}

func (in *Interner) Token(s string) int {
	if v, ok := in.token[s]; ok {
		return v
	}
	in.next++
	in.token[s] = in.next
	return in.next
}

func (w *World) Interner() *Interner {
	in := NewInterner()
	for _, a := range w.Accounts {
		in.addr[a.AddrString()] = a.ID + 1
	}
	return in
}

func (a *Account) N() int { return a.ID + 1 }

type BalEntry struct {
	Kind   int      `json:"kind"`
	Addr   int      `json:"addr"`
	Token  int      `json:"token"`
	Amount *big.Int `json:"amount"`
}

func splitComposite(k string) (string, []string, bool) {
	if len(k) < 2 || k[0] != 0 || k[len(k)-1] != 0 {
		return "", nil, false
	}
	parts := strings.Split(k[1:len(k)-1], "\x00")
	return parts[0], parts[1:], true
}

var balanceKinds = map[string]bool{"2b": true, "2c": true, "2d": true, "2e": true, "2f": true, "31": true, "32": true}

// Balances lists all balance entries of the channel, sorted.
func (w *World) Balances(ch string, in *Interner) []BalEntry {
	var out []BalEntry
	for k, v := range w.Peer.Channels[ch].State {
		ot, attrs, ok := splitComposite(k)
		if !ok || !balanceKinds[ot] {
			continue
		}
		if (ot == "31" || ot == "32") && len(v) > 0 && v[0] == '{' {
			continue // external lock record, not a balance
		}
		kind, _ := strconv.ParseInt(ot, 16, 32)
		e := BalEntry{Kind: int(kind), Amount: new(big.Int).SetBytes(v)}
		if len(attrs) >= 1 {
			e.Addr = in.Addr(attrs[0])
		}
		if len(attrs) >= 2 {
			e.Token = in.Token(attrs[1])
		}
		out = append(out, e)
	}
	sort.Slice(out, func(i, j int) bool {
		a, b := out[i], out[j]
		if a.Kind != b.Kind {
			return a.Kind < b.Kind
		}
		if a.Addr != b.Addr {
			return a.Addr < b.Addr
		}
		return a.Token < b.Token
	})
	return out
}

func coqZ(z *big.Int) string { return "(" + z.String() + ")%Z" }
func coqZi(z int64) string   { return "(" + strconv.FormatInt(z, 10) + ")%Z" }

func coqBals(bs []BalEntry) string {
	items := make([]string, len(bs))
	for i, b := range bs {
		items[i] = fmt.Sprintf("(%d, %d, %d, %s)", b.Kind, b.Addr, b.Token, coqZ(b.Amount))
	}
	return coqList(items)
}

// SetBalance writes a balance directly (genesis funding), through core/balance on a raw stub.
func (w *World) SetBalance(ch string, kind balance.BalanceType, addr string, token string, amount *big.Int) {
	stub := w.Peer.newStub(w.Peer.Channels[ch], "genesis", nil, nil)
	if err := balance.Put(stub, kind, addr, token, amount); err != nil {
		panic(err)
	}
	for _, wr := range stub.writes {
		if wr.Del || len(wr.Value) == 0 {
			delete(w.Peer.Channels[ch].State, wr.Key)
		} else {
			w.Peer.Channels[ch].State[wr.Key] = wr.Value
		}
	}
}

// GetBalance reads one committed balance entry.
func (w *World) GetBalance(ch string, kind balance.BalanceType, addr string, token string) *big.Int {
	stub := w.Peer.newStub(w.Peer.Channels[ch], "peek", nil, nil)
	v, err := balance.Get(stub, kind, addr, token)
	if err != nil || v == nil {
		return big.NewInt(0)
	}
	return v
}

// TokenMeta decodes the tokenMetadata record.
func (w *World) TokenMeta(ch string) *fpb.Token {
	t := &fpb.Token{}
	if data := w.Peer.Channels[ch].State["tokenMetadata"]; len(data) > 0 {
		_ = proto.Unmarshal(data, t)
	}
	return t
}

func jsonpbUnmarshal(data []byte, m *fpb.CCTransfer) error {
	if len(data) == 0 || data[0] != '{' {
		return fmt.Errorf("not json")
	}
	return protojson.Unmarshal(data, m)
}

func mustMarshal(m proto.Message) []byte {
	b, err := proto.Marshal(m)
	if err != nil {
		panic(err)
	}
	return b
}
