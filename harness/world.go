package main

// World: a peer with channels running the harness token, identities, accounts, and
// helpers to submit signed requests, execute batches and task lists.

import (
	"strconv"
	"encoding/hex"
	"os"
	"errors"
	"fmt"
	"strings"

	"github.com/anoideaopen/foundation/core"
	"github.com/anoideaopen/foundation/core/ledger"
	"github.com/anoideaopen/foundation/core/types"
	"github.com/anoideaopen/foundation/core/types/big"
	fpb "github.com/anoideaopen/foundation/proto"
	"github.com/anoideaopen/foundation/token"
	"github.com/hyperledger/fabric-chaincode-go/shim"
	"github.com/golang/protobuf/proto" //nolint:staticcheck
	"github.com/sirupsen/logrus"
	"google.golang.org/protobuf/encoding/protojson"
)

// HToken is the harness token: BaseToken plus emission, burning and scripted bodies.
type HToken struct {
	token.BaseToken
}

func (t *HToken) TxEmit(sender *types.Sender, address *types.Address, amount *big.Int) error {
	if !sender.Equal(t.Issuer()) {
		return errors.New("unauthorized")
	}
	if amount.Cmp(big.NewInt(0)) == 0 {
		return errors.New("amount should be more than zero")
	}
	if err := t.TokenBalanceAdd(address, amount, "txEmit"); err != nil {
		return err
	}
	return t.EmissionAdd(amount)
}

// TxEmitG emits units of a group of the token (as industrial tokens do).
func (t *HToken) TxEmitG(sender *types.Sender, address *types.Address, amount *big.Int, group string) error {
	if !sender.Equal(t.Issuer()) {
		return errors.New("unauthorized")
	}
	if amount.Cmp(big.NewInt(0)) <= 0 {
		return errors.New("amount should be more than zero")
	}
	if err := t.TokenBalanceAddWithTicker(address, amount, t.ContractConfig().GetSymbol()+"_"+group, "txEmitG"); err != nil {
		return err
	}
	return t.EmissionAdd(amount)
}

// ---- gated bodies (C17): every use re-obtains the transaction context after a forced switch ----

// GateHub lets a scheduler decide which parked invocation continues.
type GateHub struct {
	arrive  chan string
	release map[string]chan struct{}
}

var gateHub *GateHub

func gate(tag string) {
	h := gateHub
	if h == nil {
		return
	}
	h.arrive <- tag
	<-h.release[tag]
}

func (t *HToken) gatedBody(tag string, n string) (string, error) {
	cnt, _ := strconv.Atoi(n)
	var seen []string
	for j := 0; j < cnt; j++ {
		gate(tag)
		stub := t.GetStub() // the body re-obtains its context
		if stub == nil {
			return "", errors.New("nil stub")
		}
		prev := ""
		if j > 0 {
			v, err := stub.GetState("c17_" + tag + "_" + strconv.Itoa(j-1))
			if err != nil {
				return "", err
			}
			prev = string(v)
		}
		seen = append(seen, prev+"@"+stub.GetTxID()) // what it read, and in whose transaction it is working
		if err := stub.PutState("c17_"+tag+"_"+strconv.Itoa(j), []byte(tag+"#"+strconv.Itoa(j)+"<"+prev)); err != nil {
			return "", err
		}
	}
	return tag + "[" + strings.Join(seen, ",") + "]", nil
}

// NBTxGp: immediate, no sender.  TxGated: batched.
func (t *HToken) NBTxGp(tag string, n string) error {
	_, err := t.gatedBody(tag, n)
	return err
}

// GatedArg is an argument whose decoding is a switch point of its own (like an argument type that reads the ledger while
// it is decoded): the invocation parks there, between the conversion of its earlier arguments and the call of the method.
type GatedArg struct{ V string }

func (g *GatedArg) DecodeFromBytesWithStub(_ shim.ChaincodeStubInterface, b []byte) error {
	g.V = string(b)
	gate("arg:" + g.V)
	return nil
}

// NBTxGa: the gated body behind an argument that parks while it is decoded (the tag comes first: it is converted before)
func (t *HToken) NBTxGa(tag string, _ *GatedArg, n string) error {
	_, err := t.gatedBody(tag, n)
	return err
}

// NBTxNbPanic: an immediate method without a sender whose body panics.
func (t *HToken) NBTxNbPanic(script string) error {
	_, err := t.runScript(script)
	return err
}

// QueryGq: the gated body as a query (its writes must go nowhere, whichever invocations run next to it)
func (t *HToken) QueryGq(tag string, n string) (string, error) { return t.gatedBody(tag, n) }

func (t *HToken) TxGated(_ *types.Sender, tag string, n string) (string, error) {
	return t.gatedBody(tag, n)
}

// OnSwapDoneEvent is the listener swapDone calls with the context it installed.
func (t *HToken) OnSwapDoneEvent(token string, owner *types.Address, amount *big.Int) {
	if gateHub == nil {
		return
	}
	_, _ = t.gatedBody("sw"+token, "2")
}

func (t *HToken) TxBurn(sender *types.Sender, amount *big.Int) error {
	if err := t.TokenBalanceSub(sender.Address(), amount, "txBurn"); err != nil {
		return err
	}
	return t.EmissionSub(amount)
}

// runScript executes "op,a,b;op,a;..." against the contract's current stub.
func (t *HToken) runScript(script string) (string, error) {
	return runScriptOn(t.GetStub(), script)
}

func runScriptOn(stub shim.ChaincodeStubInterface, script string) (string, error) {
	var out []string
	for _, step := range strings.Split(script, ";") {
		if step == "" {
			continue
		}
		f := strings.Split(step, ",")
		arg := func(i int) string {
			if i < len(f) {
				return f[i]
			}
			return ""
		}
		switch f[0] {
		case "put":
			if err := stub.PutState(arg(1), []byte(arg(2))); err != nil {
				return "", err
			}
		case "del":
			if err := stub.DelState(arg(1)); err != nil {
				return "", err
			}
		case "get":
			v, err := stub.GetState(arg(1))
			if err != nil {
				return "", err
			}
			out = append(out, arg(1)+"="+string(v))
		case "event":
			if err := stub.SetEvent(arg(1), []byte(arg(2))); err != nil {
				return "", err
			}
		case "vp":
			_ = stub.SetStateValidationParameter(arg(1), []byte("ep"))
		case "pput":
			_ = stub.PutPrivateData("coll", arg(1), []byte(arg(2)))
		case "pdel":
			_ = stub.DelPrivateData("coll", arg(1))
		case "ppurge":
			_ = stub.PurgePrivateData("coll", arg(1))
		case "pvp":
			_ = stub.SetPrivateDataValidationParameter("coll", arg(1), []byte("ep"))
		case "acct":
			// one accounting record (what a balance move reports): fixed parties, the given amount
			if a, ok := stub.(ledger.Accounting); ok {
				n, _ := strconv.ParseInt(arg(1), 10, 64)
				a.AddAccountingRecord("TT", types.AddrFromBytes(make([]byte, 32)), types.AddrFromBytes(make([]byte, 32)), big.NewInt(n), "script")
			}
		case "fail":
			return "", errors.New("script failure")
		case "panic":
			panic("script panic")
		case "nilpanic":
			var m map[string]int
			m["x"] = 1
		default:
			return "", fmt.Errorf("unknown script step %q", f[0])
		}
	}
	return strings.Join(out, "|"), nil
}

func (t *HToken) TxScript(_ *types.Sender, script string) (string, error) {
	return t.runScript(script)
}

// TxScriptTo carries an address argument (pre-validated against the ACL) next to the script.
func (t *HToken) TxScriptTo(_ *types.Sender, _ *types.Address, script string) (string, error) {
	return t.runScript(script)
}

func (t *HToken) NBTxNbScript(_ *types.Sender, script string) error {
	_, err := t.runScript(script)
	return err
}

func (t *HToken) QueryQScript(script string) (string, error) { return t.runScript(script) }

func (t *HToken) QueryQScriptS(_ *types.Sender, script string) (string, error) {
	return t.runScript(script)
}

// ---- world -------------------------------------------------------------------------

type World struct {
	Peer     *Peer
	Admin    *Identity // admin OU certificate
	Robot    *Identity
	Client   *Identity // ordinary certificate
	Issuer   *Account
	AdminAcc *Account
	FeeSet   *Account
	Accounts []*Account
	Users    []*User
	nextID   int
}

func init() {
	logrus.SetLevel(logrus.PanicLevel)
	_ = os.Setenv("CORE_CHAINCODE_LOGGING_LEVEL", "critical")
}

func NewWorld() *World {
	w := &World{Peer: NewPeer()}
	w.Admin = NewECIdentity("admin", "admin")
	w.Robot = NewECIdentity("robot", "client")
	w.Client = NewECIdentity("user", "client")
	w.Issuer = w.NewAccount(fpb.KeyType_ed25519)
	w.AdminAcc = w.NewAccount(fpb.KeyType_ed25519)
	w.FeeSet = w.NewAccount(fpb.KeyType_ed25519)
	return w
}

func (w *World) NewUser(kt fpb.KeyType) *User {
	u := NewUser(len(w.Users), kt)
	w.Users = append(w.Users, u)
	return u
}

// NewAccount registers an ordinary single-key account.
func (w *World) NewAccount(kt fpb.KeyType) *Account {
	return w.NewAccountOf(w.NewUser(kt))
}

func (w *World) NewAccountOf(members ...*User) *Account {
	a := NewAccount(len(w.Accounts), members...)
	w.Accounts = append(w.Accounts, a)
	w.Peer.ACL.Register(a)
	return a
}

type ChanOpts struct {
	Disabled          []string
	DisableSwaps      bool
	DisableMultiSwaps bool
	RobotSKI          string // default: robot SKI
	NoAdmin           bool
	DecimalsOff       int // the token's decimals are 8 + this (display precision: no amount, share or rate depends on it)
}

func (w *World) ConfigJSON(symbol string, o ChanOpts) string {
	ski := o.RobotSKI
	if ski == "" {
		ski = w.Robot.SKI
	}
	cfg := &fpb.Config{
		Contract: &fpb.ContractConfig{Symbol: symbol, RobotSKI: ski,
			Options: &fpb.ChaincodeOptions{DisabledFunctions: o.Disabled, DisableSwaps: o.DisableSwaps, DisableMultiSwaps: o.DisableMultiSwaps}},
		Token: &fpb.TokenConfig{Name: symbol + " token", Decimals: 8 + uint32(o.DecimalsOff), // (8 unless the case asks otherwise)
			Issuer:           &fpb.Wallet{Address: w.Issuer.AddrString()},
			FeeSetter:        &fpb.Wallet{Address: w.FeeSet.AddrString()},
			FeeAddressSetter: &fpb.Wallet{Address: w.FeeSet.AddrString()}},
	}
	if !o.NoAdmin {
		cfg.Contract.Admin = &fpb.Wallet{Address: w.AdminAcc.AddrString()}
	}
	b, _ := protojson.Marshal(cfg)
	return string(b)
}

// AddToken deploys the harness token on a channel named like the lower-case symbol.
func (w *World) AddToken(symbol string, o ChanOpts) (*Channel, error) {
	cc, err := core.NewCC(&HToken{})
	if err != nil {
		return nil, err
	}
	name := strings.ToLower(symbol)
	ch := w.Peer.AddChannel(name, cc)
	res := w.Peer.Init(name, w.Admin.Creator, w.ConfigJSON(symbol, o))
	if !res.OK() {
		return nil, fmt.Errorf("init %s: %s", name, res.Message)
	}
	return ch, nil
}

// AddTokenAs deploys the harness token under the peer key [key] as chaincode [ccName] on channel [channelID]
// (a chaincode that is not named after its channel, e.g. the second chaincode of a channel).
func (w *World) AddTokenAs(key, symbol, ccName, channelID string, o ChanOpts) (*Channel, error) {
	cc, err := core.NewCC(&HToken{})
	if err != nil {
		return nil, err
	}
	ch := w.Peer.AddChannel(key, cc)
	ch.CCName, ch.ChannelID = ccName, channelID
	res := w.Peer.Init(key, w.Admin.Creator, w.ConfigJSON(symbol, o))
	if !res.OK() {
		return nil, fmt.Errorf("init %s: %s", key, res.Message)
	}
	return ch, nil
}

// Submit sends one signed request as an ordinary invocation (batched Tx => pending record).
func (w *World) Submit(ch string, fn string, args []string) *TxResult {
	return w.Peer.Invoke(ch, w.Client.Creator, fn, args...)
}

// SignedArgs builds a correctly signed request for an ordinary account.
func (w *World) SignedArgs(ch, fn string, acc *Account, nonce string, margs ...string) []string {
	return BuildRequest(fn, "", ch, ch, margs, nonce, acc.Members, nil, nil)
}

type BatchOut struct {
	Res   *TxResult
	Resp  *fpb.BatchResponse
	Event *fpb.BatchEvent
}

func decodeBatchOut(res *TxResult, eventName string) *BatchOut {
	out := &BatchOut{Res: res}
	if res.OK() {
		out.Resp = &fpb.BatchResponse{}
		_ = proto.Unmarshal(res.Payload, out.Resp)
		if res.Event != nil && res.Event.GetEventName() == eventName {
			out.Event = &fpb.BatchEvent{}
			_ = proto.Unmarshal(res.Event.GetPayload(), out.Event)
		}
	}
	return out
}

// ExecBatch runs batchExecute as the robot with the given (hex) pending ids.
func (w *World) ExecBatch(ch string, b *fpb.Batch) *BatchOut {
	data, _ := proto.Marshal(b)
	res := w.Peer.Invoke(ch, w.Robot.Creator, "batchExecute", string(data))
	return decodeBatchOut(res, "batchExecute")
}

func (w *World) ExecBatchIDs(ch string, hexIDs ...string) *BatchOut {
	b := &fpb.Batch{}
	for _, id := range hexIDs {
		raw, _ := hex.DecodeString(id)
		b.TxIDs = append(b.TxIDs, raw)
	}
	return w.ExecBatch(ch, b)
}

// ExecTasks runs executeTasks with the given creator.
func (w *World) ExecTasks(ch string, creator []byte, tasks []*fpb.Task) *BatchOut {
	data, _ := proto.Marshal(&fpb.ExecuteTasksRequest{Tasks: tasks})
	res := w.Peer.Invoke(ch, creator, "executeTasks", string(data))
	return decodeBatchOut(res, "executeTasks")
}

// errClass maps error strings of the library to small classes (never compared verbatim).
func errClass(msg string) string {
	m := strings.ToLower(msg)
	switch {
	case msg == "":
		return "ok"
	case strings.Contains(m, "incorrect nonce format"):
		return "nonce_format"
	case strings.Contains(m, "less than"):
		return "nonce_stale"
	case strings.Contains(m, "already exists") && strings.Contains(m, "nonce"):
		return "nonce_dup"
	case strings.Contains(m, "not found") && strings.Contains(m, "transaction"):
		return "tx_not_found"
	case strings.Contains(m, "script failure"):
		return "body_failed"
	case strings.Contains(m, "panic"):
		return "panic"
	case strings.Contains(m, "insufficient"):
		return "insufficient"
	case strings.Contains(m, "unauthorized"):
		return "unauthorized"
	case strings.Contains(m, "incorrect signature"):
		return "bad_signature"
	case strings.Contains(m, "blacklisted"):
		return "blacklisted"
	case strings.Contains(m, "graylisted"):
		return "graylisted"
	}
	return "other:" + msg
}

// who-am-I bodies: make the authenticated sender observable on every route
func (t *HToken) TxWhoAmI(sender *types.Sender, tag string) error {
	return t.GetStub().PutState("who_"+tag, []byte(sender.Address().String()))
}

func (t *HToken) NBTxNbWhoAmI(sender *types.Sender, tag string) error {
	return t.GetStub().PutState("who_"+tag, []byte(sender.Address().String()))
}

func (t *HToken) QueryQWhoAmI(sender *types.Sender, tag string) (string, error) {
	_ = tag
	return sender.Address().String(), nil
}

// two-argument bodies for the C03 boundary operators
func (t *HToken) TxEcho2(sender *types.Sender, a string, b string) error {
	return t.GetStub().PutState("who_"+a, []byte(sender.Address().String()))
}

func (t *HToken) NBTxNbEcho2(sender *types.Sender, a string, b string) error {
	return t.GetStub().PutState("who_"+a, []byte(sender.Address().String()))
}

func (t *HToken) QueryQEcho2(sender *types.Sender, a string, b string) (string, error) {
	return sender.Address().String(), nil
}

func (t *HToken) TxScript2(_ *types.Sender, a string, b string) error { return nil }

// TxPlain is a batched method without a sender: not signed, no nonce.
func (t *HToken) TxPlain(script string) (string, error) { return t.runScript(script) }

// QuerySym reports the symbol of the configuration in force.
func (t *HToken) QuerySym() (string, error) { return t.ContractConfig().GetSymbol(), nil }

// QueryTokWallets reports the wallets of the token section in force (issuer, fee setter, fee address setter, redeemer).
func (t *HToken) QueryTokWallets() (string, error) {
	tc := t.TokenConfig()
	return strings.Join([]string{tc.GetIssuer().GetAddress(), tc.GetFeeSetter().GetAddress(), tc.GetFeeAddressSetter().GetAddress(), tc.GetRedeemer().GetAddress()}, "|"), nil
}

// HBase is a contract built on the base contract alone (no token section).
// HExtToken is a token with a chaincode-specific configuration section of its own (ext_config: a Wallet
// message whose address must not be empty), like the repository's industrial token: both the token
// layer and the external layer validate the configuration.
type HExtToken struct {
	HToken
	ext *fpb.Wallet
}

func (t *HExtToken) extOf(cfgBytes []byte) (*fpb.Wallet, error) {
	var full fpb.Config
	if err := protojson.Unmarshal(cfgBytes, &full); err != nil {
		return nil, fmt.Errorf("unmarshalling config: %w", err)
	}
	var wl fpb.Wallet
	if full.GetExtConfig() == nil || !full.GetExtConfig().MessageIs(&wl) {
		return nil, errors.New("ext config: a wallet is required")
	}
	if err := full.GetExtConfig().UnmarshalTo(&wl); err != nil {
		return nil, fmt.Errorf("unmarshalling ext config: %w", err)
	}
	if wl.GetAddress() == "" {
		return nil, errors.New("ext config: empty address")
	}
	return &wl, nil
}

func (t *HExtToken) ValidateExtConfig(cfgBytes []byte) error {
	_, err := t.extOf(cfgBytes)
	return err
}

func (t *HExtToken) ApplyExtConfig(cfgBytes []byte) error {
	wl, err := t.extOf(cfgBytes)
	t.ext = wl
	return err
}

type HBase struct {
	core.BaseContract
}

func (b *HBase) QuerySym() (string, error) { return b.ContractConfig().GetSymbol(), nil }
func (b *HBase) GetID() string             { return "hbase" }
