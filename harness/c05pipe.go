package main

import (
	"fmt"
	"strconv"
	"strings"

	fpb "github.com/anoideaopen/foundation/proto"
	"github.com/golang/protobuf/proto" //nolint:staticcheck
)

// C05, second part: whole invocations - gate (creator, robot, disabled method), authentication of the
// request, pending store, batch and task execution - against the composed model Model/Pipeline.v.
// "A submission that fails validation records nothing" is decided here with validation being what the
// chaincode really does (C11's gate and C01's authentication), not a flag of the generator.

type pipeReq struct {
	term string // (AuthIn ...)
	args []string
	bi   int
}

type pipeWorld struct {
	*batchWorld
	aw       *authWorld
	accs     []*Account
	foreign  *User
	disabled bool
}

func newPipeWorld(c *Ctx) (*pipeWorld, error) {
	rng := c.Rng
	w := NewWorld()
	opts := ChanOpts{}
	disabled := rng.Intn(8) == 0
	if disabled {
		opts.Disabled = []string{"TxScript"}
	}
	if _, err := w.AddToken("TT", opts); err != nil {
		return nil, err
	}
	bw := &batchWorld{w: w, nonce: 1700000000000}
	for i := 0; i < 3; i++ {
		bw.senders = append(bw.senders, w.NewAccount(fpb.KeyType_ed25519))
	}
	pw := &pipeWorld{batchWorld: bw, aw: &authWorld{w: w, foreign: map[fpb.KeyType]*User{}}, disabled: disabled}
	pw.accs = append(pw.accs, bw.senders...)
	pw.accs = append(pw.accs, w.NewAccount(fpb.KeyType_secp256k1))
	ms := w.NewAccountOf(w.NewUser(fpb.KeyType_ed25519), w.NewUser(fpb.KeyType_ed25519), w.NewUser(fpb.KeyType_ed25519))
	ms.ReqN = 2
	pw.accs = append(pw.accs, ms)
	pw.foreign = w.NewUser(fpb.KeyType_ed25519)
	bw.in = w.Interner()
	return pw, nil
}

// one signed request for the scripted batched method, possibly broken
func (pw *pipeWorld) request(c *Ctx, body []bodyStep, aclMode string) (pipeReq, *Account, string) {
	rng := c.Rng
	acc := pw.accs[rng.Intn(len(pw.accs))]
	bi := pw.bodyIndex(body)
	script := bodyScript(body)
	pw.nonce += uint64(1 + rng.Intn(2))
	nonce := strconv.FormatUint(pw.nonce, 10)
	if rng.Intn(12) == 0 {
		nonce = strconv.FormatUint(pw.nonce-uint64(rng.Intn(4)), 10) // sometimes an old one again
	}
	modes := make([]SigMode, len(acc.Members))
	for i := range modes {
		modes[i] = SigValid
	}
	tamper := "none"
	switch r := rng.Intn(100); {
	case r < 55:
	case r < 63:
		modes[rng.Intn(len(modes))] = SigCorrupt
		tamper = "corrupt_signature"
	case r < 70:
		modes[rng.Intn(len(modes))] = SigForeign
		tamper = "foreign_key_signature"
	case r < 76:
		modes[rng.Intn(len(modes))] = SigOtherMsg
		tamper = "signature_over_other_message"
	case r < 84:
		modes[rng.Intn(len(modes))] = SigBlank
		tamper = "blank_signature"
	case r < 88:
		tamper = "other_channel"
	case r < 92:
		tamper = "other_script"
	case r < 96:
		tamper = "unsigned"
	default:
		tamper = "bad_nonce"
		nonce = []string{"12x", "", "-5"}[rng.Intn(3)]
	}
	args := BuildRequest("script", "", "tt", "tt", []string{script}, nonce, acc.Members, modes, pw.foreign)
	msg := "script" + strings.Join(args[:len(args)-len(acc.Members)], "")
	switch tamper {
	case "other_channel":
		args[1+rng.Intn(2)] = "uu"
	case "other_script":
		args[3] = script + ";get,d0" // the signed bytes no longer match; (the altered script is no table entry)
		bi = 998
	case "unsigned":
		args = args[:len(args)-2*len(acc.Members)]
	}
	ac := &authCase{Fn: "script", Args: args, signers: acc.Members, account: acc, cc: "tt", ch: "tt"}
	for i, m := range acc.Members {
		ac.sigSyms = append(ac.sigSyms, symSig(modes[i], m, pw.foreign, msg))
	}
	if aclMode == "" {
		aclMode = pw.randACL(c)
	}
	pw.aw.setACL(aclMode, acc)
	aclTerm, _, _ := aclTermFor(pw.aw, pw.in, ac, 2, aclMode)
	var keys []string
	for _, u := range acc.Members {
		keys = append(keys, fmt.Sprintf("(%s, KI %d %d %s)", coqStr(u.Pub), u.ID+1, int(u.KeyType), coqBool(len(u.Keys.PublicKeyBytes) == 64)))
	}
	at := make([]string, len(args))
	for i, a := range args {
		at[i] = coqStr(a)
	}
	term := fmt.Sprintf("(AuthIn 2 %s %s %s %s %s %s %s (Some %s))", coqStr("script"), coqList(at), coqStr("tt"), coqStr("tt"), aclTerm, coqList(keys), coqList(ac.sigSyms), coqStr("tt"))
	c.Count("pipe_request_" + tamper + "_acl_" + aclMode)
	return pipeReq{term: term, args: args, bi: bi}, acc, aclMode
}

func (pw *pipeWorld) randACL(c *Ctx) string {
	switch r := c.Rng.Intn(100); {
	case r < 80:
		return "ok"
	case r < 86:
		return "black"
	case r < 92:
		return "grey"
	case r < 96:
		return "status"
	}
	return "kt_none"
}

func (pw *pipeWorld) creator(c *Ctx, robotBias int) ([]byte, string, string) {
	w := pw.w
	switch r := c.Rng.Intn(100); {
	case r < robotBias:
		return w.Robot.Creator, "(Creator true 1 11 false)", "robot"
	case r < 92:
		return w.Client.Creator, "(Creator true 3 13 false)", "user"
	default:
		return []byte{1, 2, 3, 4, 5}, "(Creator false 0 15 false)", "garbage"
	}
}

func gateTerm(res *TxResult) string {
	switch gateObs(res) {
	case "OCreatorErr":
		return "RGate GCreatorErr"
	case "OUnauthorized":
		return "RGate GUnauthorized"
	case "ONotFound":
		return "RGate GNotFound"
	case "OSwapOff":
		return "RGate GSwapOff"
	}
	return ""
}

func c05Pipe(c *Ctx) error {
	rng := c.Rng
	pw, err := newPipeWorld(c)
	if err != nil {
		return err
	}
	w := pw.w
	l0 := pw.ledgerTerm()
	var steps []string
	var jsteps []interface{}
	var known []string
	recorded, refused, executed := 0, 0, 0
	for s := 10 + rng.Intn(16); s > 0; s-- {
		switch r := rng.Intn(100); {
		case r < 45 || len(known) == 0:
			req, acc, aclMode := pw.request(c, randBody(c), "")
			cr, crTerm, crName := pw.creator(c, 5)
			res := w.Peer.Invoke("tt", cr, "script", req.args...)
			pw.aw.setACL("ok", acc)
			resp := "RRecorded"
			if !res.OK() {
				resp = gateTerm(res)
				if resp == "" {
					resp = "RAuth " + authErr(res.Message)
				}
				refused++
			} else {
				known = append(known, res.TxID)
				recorded++
			}
			steps = append(steps, fmt.Sprintf("(PSubmit %s %d %s %d, %s, %s)", crTerm, txNum(res.TxID), req.term, req.bi, resp, pw.ledgerTerm()))
			jsteps = append(jsteps, map[string]interface{}{"submit": req.args, "creator": crName, "acl": aclMode, "response": resp, "message": res.Message})
			c.Count("pipe_submit_" + strings.SplitN(resp, " ", 3)[0])
		case r < 80:
			var ids []string
			for k := rng.Intn(4); k >= 0; k-- {
				switch q := rng.Intn(100); {
				case q < 75:
					ids = append(ids, known[rng.Intn(len(known))])
				case q < 88 && len(ids) > 0:
					ids = append(ids, ids[rng.Intn(len(ids))])
				default:
					ids = append(ids, fmt.Sprintf("%064x", 7000+rng.Intn(4)))
				}
			}
			cr, crTerm, crName := pw.creator(c, 70)
			b := &fpb.Batch{}
			idn := make([]string, len(ids))
			for i, id := range ids {
				raw := make([]byte, 32)
				fmt.Sscanf(id, "%x", &raw)
				b.TxIDs = append(b.TxIDs, raw)
				idn[i] = strconv.FormatUint(txNum(id), 10)
			}
			data, _ := proto.Marshal(b)
			res := w.Peer.Invoke("tt", cr, "batchExecute", string(data))
			resp := gateTerm(res)
			if resp == "" {
				out := decodeBatchOut(res, "batchExecute")
				items, err := pw.resTerms(c, out, "pipe_batch")
				if err != nil {
					items = nil
					for range ids {
						items = append(items, "IErr IOther (* "+strings.ReplaceAll(err.Error(), "*", "x")+" *)")
					}
				}
				for _, it := range items {
					if !strings.Contains(it, "INotFound") {
						executed++
					}
				}
				resp = "RItems " + coqList(items)
			} else {
				refused++
			}
			steps = append(steps, fmt.Sprintf("(PBatch %s %s, %s, %s)", crTerm, coqList(idn), resp, pw.ledgerTerm()))
			jsteps = append(jsteps, map[string]interface{}{"batch": ids, "creator": crName, "response": strings.SplitN(resp, " ", 2)[0], "message": res.Message})
			c.Count("pipe_batch_by_" + crName)
		default:
			cr, crTerm, crName := pw.creator(c, 40)
			var tasks []*fpb.Task
			var tterms []string
			n := 1 + rng.Intn(3)
			var accs []*Account
			listACL := pw.randACL(c) // one behaviour of the access-control service for the whole list
			for i := 0; i < n; i++ {
				req, acc, _ := pw.request(c, randBody(c), listACL)
				accs = append(accs, acc)
				tasks = append(tasks, &fpb.Task{Id: w.Peer.NextTxID(), Method: "script", Args: req.args})
				tterms = append(tterms, fmt.Sprintf("(%s, %d)", req.term, req.bi))
			}
			data, _ := proto.Marshal(&fpb.ExecuteTasksRequest{Tasks: tasks})
			res := w.Peer.Invoke("tt", cr, "executeTasks", string(data))
			for _, a := range accs {
				pw.aw.setACL("ok", a)
			}
			resp := gateTerm(res)
			if resp == "" {
				out := decodeBatchOut(res, "executeTasks")
				items, err := pw.resTerms(c, out, "pipe_tasks")
				if err != nil {
					items = nil
					for range tasks {
						items = append(items, "IErr IOther (* "+strings.ReplaceAll(err.Error(), "*", "x")+" *)")
					}
				}
				resp = "RItems " + coqList(items)
			} else {
				refused++
			}
			steps = append(steps, fmt.Sprintf("(PTasks %s %s, %s, %s)", crTerm, coqList(tterms), resp, pw.ledgerTerm()))
			jsteps = append(jsteps, map[string]interface{}{"tasks": n, "creator": crName, "response": strings.SplitN(resp, " ", 2)[0], "message": res.Message})
			c.Count("pipe_tasks_by_" + crName)
		}
	}
	dis := "[]"
	if pw.disabled {
		dis = "[1]"
	}
	env := fmt.Sprintf("(PEnv (GCfg 1 %d %s false false) %s (Method 1 MTx true GNone false))", w.AdminAcc.N(), dis, pw.bodiesTerm())
	c.Emit(fmt.Sprintf("mkPipe %s %s %s", env, l0, coqList(steps)), map[string]interface{}{"kind": "pipeline", "method_disabled": pw.disabled, "steps": jsteps},
		recorded >= 2 && refused >= 2 && executed >= 1)
	c.Count("pipe_cases")
	return nil
}
