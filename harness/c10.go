package main

import (
	"encoding/json"
	"fmt"
	"math/big"
	"sort"
	"strconv"
	"strings"

	"github.com/anoideaopen/foundation/core/balance"
	fpb "github.com/anoideaopen/foundation/proto"
	"github.com/golang/protobuf/proto" //nolint:staticcheck
)

func ccErr(msg string) string {
	m := strings.ToLower(msg)
	switch {
	case msg == "":
		return "None"
	case strings.Contains(m, "invalid argument channel to"):
		return "Some EChannel"
	case strings.Contains(m, "invalid argument token"):
		return "Some EToken"
	case strings.Contains(m, "id transfer already exists"):
		return "Some EExists"
	case strings.Contains(m, "transfer not found"):
		return "Some ENotFound"
	case strings.Contains(m, "transfer already commit"):
		return "Some ECommitted"
	case strings.Contains(m, "transfer not commit"):
		return "Some ENotCommitted"
	case strings.Contains(m, "insufficient balance"):
		return "Some EInsufficient"
	case strings.Contains(m, "invalid argument id transfer"), strings.Contains(m, "invalid argument id user"):
		return "Some EBadArg"
	case strings.Contains(m, "not an admin"), strings.Contains(m, "admin is not set"):
		return "Some EUnauthorized"
	case strings.Contains(m, "negative number"):
		return "Some ENegative"
	}
	return "Some EOther (* " + strings.ReplaceAll(msg, "*", "x") + " *)"
}

type ccWorld struct {
	w     *World
	users []*Account
	nonce uint64
	chN   map[string]int // channel / token symbol (upper case) -> number
	grpN  map[string]int
	whale bool // user 0 holds 2^66 of every group (C09)
	ids   map[string]int
}

func newCCWorld() (*ccWorld, error) { return newCCWorldOpts(ChanOpts{}) }

// newCCWorldOpts: both channels configured with the given options (switches that do not concern the
// protocol under test must not change it)
func newCCWorldOpts(o ChanOpts) (*ccWorld, error) {
	w := NewWorld()
	if _, err := w.AddToken("TT", o); err != nil {
		return nil, err
	}
	if _, err := w.AddToken("VT", o); err != nil {
		return nil, err
	}
	cw := &ccWorld{w: w, nonce: 1700000000000, chN: map[string]int{"TT": 1, "VT": 2, "XX": 3}, grpN: map[string]int{"": 0, "G1": 1}, ids: map[string]int{}}
	for i := 0; i < 2; i++ {
		cw.users = append(cw.users, w.NewAccount(fpb.KeyType_ed25519))
	}
	return cw, nil
}

func (cw *ccWorld) idN(id string) int {
	if v, ok := cw.ids[id]; ok {
		return v
	}
	cw.ids[id] = len(cw.ids) + 1
	return cw.ids[id]
}

// token name "TT" / "TT_G1" -> (symbol number, group number)
func (cw *ccWorld) tokN(tok string) (int, int) {
	parts := strings.SplitN(tok, "_", 2)
	g := ""
	if len(parts) == 2 {
		g = parts[1]
	}
	s, ok := cw.chN[strings.ToUpper(parts[0])]
	if !ok {
		s = 9
	}
	return s, cw.grpN[g]
}

// observation of one channel in the model's numbering
func (cw *ccWorld) obs(ch string) string {
	in := cw.w.Interner()
	var bl []string
	type be struct {
		k, a, t int
		v       *big.Int
	}
	var bes []be
	for _, b := range cw.w.Balances(ch, NewInterner()) {
		_ = b
	}
	for k, v := range cw.w.Peer.Channels[ch].State {
		ot, attrs, ok := splitComposite(k)
		if !ok || !balanceKinds[ot] {
			continue
		}
		if (ot == "31" || ot == "32") && len(v) > 0 && v[0] == '{' {
			continue // an external lock record, not a balance
		}
		kind, _ := strconv.ParseInt(ot, 16, 32)
		e := be{k: int(kind), v: new(big.Int).SetBytes(v)}
		switch kind {
		case 0x2d: // given: "address" is the upper-case channel name
			e.a = cw.chN[attrs[0]]
		default:
			e.a = in.Addr(attrs[0])
			if len(attrs) > 1 {
				if kind == 0x2b {
					e.t = cw.grpN[attrs[1]]
				} else {
					s, g := cw.tokN(attrs[1])
					e.t = g*1000 + s
				}
			}
		}
		bes = append(bes, e)
	}
	sort.Slice(bes, func(i, j int) bool {
		if bes[i].k != bes[j].k {
			return bes[i].k < bes[j].k
		}
		if bes[i].a != bes[j].a {
			return bes[i].a < bes[j].a
		}
		return bes[i].t < bes[j].t
	})
	for _, e := range bes {
		bl = append(bl, fmt.Sprintf("(%d, %d, %d, %s)", e.k, e.a, e.t, coqZ(e.v)))
	}
	recs := func(prefix string) string {
		var items []string
		var keys []string
		for k := range cw.w.Peer.Channels[ch].State {
			if strings.HasPrefix(k, prefix) {
				keys = append(keys, k)
			}
		}
		sort.Strings(keys)
		for _, k := range keys {
			var tr fpb.CCTransfer
			if err := decodeCCT(cw.w.Peer.Channels[ch].State[k], &tr); err != nil {
				continue
			}
			s, g := cw.tokN(tr.GetToken())
			items = append(items, fmt.Sprintf("(%d, CC %d %d %d %d %d %s %s %s)", cw.idN(tr.GetId()), cw.chN[strings.ToUpper(tr.GetFrom())], cw.chN[strings.ToUpper(tr.GetTo())],
				s, g, in.Addr((&Account{Addr: tr.GetUser()}).AddrString()), coqZ(new(big.Int).SetBytes(tr.GetAmount())), coqBool(tr.GetForwardDirection()), coqBool(tr.GetIsCommit())))
		}
		return coqList(items)
	}
	return fmt.Sprintf("(CObs %s %s %s)", coqList(bl), recs("/transfer/from/"), recs("/transfer/to/"))
}

func (cw *ccWorld) balTerm(ch string) string {
	o := cw.obs(ch)
	// "(CObs <bal> <from> <to>)" -> "<bal>"
	o = strings.TrimPrefix(o, "(CObs ")
	depth := 0
	for i, c := range o {
		if c == '[' {
			depth++
		}
		if c == ']' {
			depth--
			if depth == 0 {
				return o[:i+1]
			}
		}
	}
	return "[]"
}

// decodeCCT reads a transfer record in either of the two forms the library reads: JSON, or the binary form earlier
// releases wrote.
func decodeCCT(data []byte, tr *fpb.CCTransfer) error {
	if err := jsonpbUnmarshal(data, tr); err == nil {
		return nil
	}
	return proto.Unmarshal(data, tr)
}

// agedRecords rewrites the transfer records of one channel into the binary form of earlier releases (what a ledger looks
// like after an upgrade with transfers in flight); the library reads both forms, so nothing else may change.
func (cw *ccWorld) agedRecords(c *Ctx, ch string) {
	st := cw.w.Peer.Channels[ch].State
	for k, v := range st {
		if !strings.HasPrefix(k, "/transfer/") {
			continue
		}
		var tr fpb.CCTransfer
		if jsonpbUnmarshal(v, &tr) == nil {
			if bin, err := proto.Marshal(&tr); err == nil && len(bin) > 0 {
				st[k] = bin
				c.Count("record_rewritten_in_legacy_binary_form")
			}
		}
	}
}

// robot helpers -------------------------------------------------------------------------

func (cw *ccWorld) robotTx(ch, fn string, args ...string) string {
	sub := cw.w.Peer.Invoke(ch, cw.w.Robot.Creator, fn, args...)
	if !sub.OK() {
		return sub.Message
	}
	out := cw.w.ExecBatchIDs(ch, sub.TxID)
	if out.Resp == nil || len(out.Resp.GetTxResponses()) != 1 {
		return "BATCH FAILED " + out.Res.Message
	}
	return out.Resp.GetTxResponses()[0].GetError().GetError()
}

// intruder: a certificate that is not the robot's calls a robot function. An accepted submission of a
// batched function is then executed by the (honest) robot's next batch.
func (cw *ccWorld) intruder(c *Ctx, ch string, batched bool, fn string, args ...string) {
	creator := cw.w.Client.Creator
	sub := cw.w.Peer.Invoke(ch, creator, fn, args...)
	if !sub.OK() {
		c.Count("intruder_refused")
		return
	}
	c.Count("intruder_accepted")
	if batched {
		cw.w.ExecBatchIDs(ch, sub.TxID)
	}
}

func (cw *ccWorld) robotNB(ch, fn string, args ...string) string {
	r := cw.w.Peer.Invoke(ch, cw.w.Robot.Creator, fn, args...)
	if r.OK() {
		return ""
	}
	return r.Message
}

func (cw *ccWorld) rec(ch, prefix, id string) *fpb.CCTransfer {
	data, ok := cw.w.Peer.Channels[ch].State[prefix+id]
	if !ok {
		return nil
	}
	var tr fpb.CCTransfer
	if err := decodeCCT(data, &tr); err != nil {
		return nil
	}
	return &tr
}

type ccUserOp struct {
	ch, id, to, tok string
	user            int // index into users; -1: by admin for user 0
	amt             int64
}

func (cw *ccWorld) userOp(o ccUserOp) (string, string) {
	chSym := cw.chN[strings.ToUpper(o.ch)]
	_ = chSym
	s, g := cw.tokN(o.tok)
	valid := o.id != "" && !strings.Contains(o.id, "/") && o.id != "." && o.id != ".."
	toN := cw.chN[strings.ToUpper(o.to)]
	if o.user >= 0 {
		u := cw.users[o.user]
		msg := tokenRun(cw.w, o.ch, u, &cw.nonce, "channelTransferByCustomer", o.id, o.to, o.tok, strconv.FormatInt(o.amt, 10))
		return fmt.Sprintf("OFromCustomer %d %d %d %d %d (%d)%%Z %s", u.N(), cw.idN(o.id), toN, s, g, o.amt, coqBool(valid)), msg
	}
	adm, u := cw.w.AdminAcc, cw.users[0]
	msg := tokenRun(cw.w, o.ch, adm, &cw.nonce, "channelTransferByAdmin", o.id, o.to, u.AddrString(), o.tok, strconv.FormatInt(o.amt, 10))
	return fmt.Sprintf("OFromAdmin %d %d %d %d %d %d (%d)%%Z %s", adm.N(), cw.idN(o.id), toN, u.N(), s, g, o.amt, coqBool(valid)), msg
}

func (cw *ccWorld) fund() {
	for _, u := range cw.users {
		cw.w.SetBalance("tt", balance.BalanceTypeToken, u.AddrString(), "", big.NewInt(1000))
		cw.w.SetBalance("tt", balance.BalanceTypeToken, u.AddrString(), "G1", big.NewInt(500))
		cw.w.SetBalance("vt", balance.BalanceTypeToken, u.AddrString(), "", big.NewInt(1000))
		cw.w.SetBalance("tt", balance.BalanceTypeAllowed, u.AddrString(), "VT", big.NewInt(300))
		cw.w.SetBalance("vt", balance.BalanceTypeAllowed, u.AddrString(), "TT", big.NewInt(300))
		cw.w.SetBalance("vt", balance.BalanceTypeAllowed, u.AddrString(), "TT_G1", big.NewInt(100))
	}
	// what is held in the other channel has been given out by the home channel
	cw.w.SetBalance("tt", balance.BalanceTypeGiven, "VT", "", big.NewInt(800))
	cw.w.SetBalance("vt", balance.BalanceTypeGiven, "TT", "", big.NewInt(600))
}

func (cw *ccWorld) randUserOp(c *Ctx, ch string) ccUserOp {
	rng := c.Rng
	other := map[string]string{"tt": "VT", "vt": "TT"}[ch]
	own := strings.ToUpper(ch)
	o := ccUserOp{ch: ch, id: ccIDPool[rng.Intn(3)], to: other, user: rng.Intn(2), amt: int64(rng.Intn(400))}
	switch r := rng.Intn(100); {
	case r < 40:
		o.tok = own
	case r < 50 && ch == "tt":
		o.tok = own + "_G1"
	case r < 80:
		o.tok = other
	case r < 85 && ch == "vt":
		o.tok = "TT_G1"
	case r < 90:
		o.tok = "XX"
	default:
		o.tok = own
		o.to = []string{own, "XX"}[rng.Intn(2)]
	}
	if rng.Intn(4) == 0 {
		o.to = strings.ToLower(o.to) // channel names are compared case-insensitively
	}
	if rng.Intn(8) == 0 {
		o.user = -1
	}
	if rng.Intn(25) == 0 {
		o.id = []string{"a/", ".", "../to/x"}[rng.Intn(3)]
	}
	if rng.Intn(15) == 0 {
		o.amt = 5000
	}
	return o
}

// transfer ids: record keys are case-sensitive, "i2" and "I2" are two transfers
var ccIDPool = []string{"i1", "i2", "I2"}

func genC10(c *Ctx) error {
	c.ShardSize = 20
	c.Notes["rule"] = "two deployed chaincodes (TT, VT), two users and the admin. (one) arbitrary step sequences on one channel: customer / admin initiations (own token, grouped token, other channel's token, foreign token, wrong channel, ids a maintainer would reject, over-funded amounts) and the robot's createTo / cancel / commit / deleteFrom / deleteTo attempted at random times, also out of turn and repeated, the id now and then spelled ./id, id/ or x/../id (the same record); a cancellation now and then sent in ONE batch with the same customer's new transfer under the same id and its cancellation; observed after every step. (two) interleavings of user initiations on both channels with a robot that picks, at random, among the steps its protocol enables from the two ledgers, and with customers' certificates calling the robot's five functions (create-to with the origin's real record, cancel, commit, deletes; an accepted submission is executed by the robot's next batch); both ledgers observed at the end. In both parts the records of a channel are now and then rewritten into the binary form of earlier releases, which the library reads as well. (three) one transfer under a plain, grouped or many-part ticker (TT, TT_G1, TT_A_G1, TT_A_B, TT_B_A_B, ...), created and cancelled, or carried through the whole protocol there and back again: every balance entry of both channels before and after. Non-trivial: a history with >= 2 successful and >= 2 rejected steps / >= 3 robot steps."
	n := c.N(120, 2500)
	for i := 0; i < n; i++ {
		if i%2 == 0 {
			if err := c10One(c); err != nil {
				return err
			}
		} else if err := c10Two(c); err != nil {
			return err
		}
	}
	for i := c.N(30, 600); i > 0; i-- {
		if err := c10Restore(c); err != nil {
			return err
		}
	}
	return nil
}

func c10One(c *Ctx) error {
	rng := c.Rng
	// the robot's steps name a record by its id; the record's key is built by joining path elements, so "./id", "id/" and
	// "x/../id" name the same record as "id" - for reading it and for removing it
	spelled := func(id string) string {
		switch rng.Intn(12) {
		case 0:
			return "./" + id
		case 1:
			return id + "/"
		case 2:
			return "x/../" + id
		}
		return id
	}
	cw, err := newCCWorld()
	if err != nil {
		return err
	}
	cw.fund()
	ch := []string{"tt", "vt"}[rng.Intn(2)]
	init := cw.balTerm(ch)
	var ops, steps []string
	okN, rejN := 0, 0
	for k := 12 + rng.Intn(15); k > 0; k-- {
		if rng.Intn(8) == 0 {
			cw.agedRecords(c, []string{"tt", "vt"}[rng.Intn(2)])
		}
		var term, msg string
		id := ccIDPool[rng.Intn(3)]
		switch r := rng.Intn(100); {
		case r < 35:
			term, msg = cw.userOp(cw.randUserOp(c, ch))
		case r < 50:
			// robot hands over a record "from the other channel"
			other := map[string]string{"tt": "VT", "vt": "TT"}[ch]
			tok := []string{other, strings.ToUpper(ch), "XX", other + "_G1"}[rng.Intn(4)]
			fwd := rng.Intn(4) > 0
			tr := &fpb.CCTransfer{Id: id, From: other, To: strings.ToUpper(ch), Token: tok, User: cw.users[rng.Intn(2)].Addr, Amount: big.NewInt(int64(rng.Intn(200))).Bytes(), ForwardDirection: fwd}
			if rng.Intn(6) == 0 {
				tr.From = strings.ToUpper(ch)
			}
			data, _ := json.Marshal(tr) // the encoding the channelTransferFrom query hands to the robot
			msg = cw.robotTx(ch, "createCCTransferTo", string(data))
			s, g := cw.tokN(tok)
			term = fmt.Sprintf("OCreateTo %d (CC %d %d %d %d %d %s %s false) true", cw.idN(id), cw.chN[strings.ToUpper(tr.GetFrom())], cw.chN[strings.ToUpper(tr.GetTo())], s, g,
				cw.w.Interner().Addr((&Account{Addr: tr.GetUser()}).AddrString()), coqZ(new(big.Int).SetBytes(tr.GetAmount())), coqBool(fwd))
		case r < 65:
			term = fmt.Sprintf("OCancelFrom %d", cw.idN(id))
			if f := cw.rec(ch, "/transfer/from/", id); f != nil && !f.GetIsCommit() && rng.Intn(3) == 0 {
				// ONE batch of three: the cancellation, the same customer's new transfer under the SAME id (same token and
				// amount, which the refund has just made available again), and its cancellation. When all three succeed
				// the batch amounts to the one cancellation the model is given.
				var owner *Account
				for _, u := range cw.users {
					if string(u.Addr) == string(f.GetUser()) {
						owner = u
					}
				}
				if owner != nil {
					var ids []string
					for j := 0; j < 3 && msg == ""; j++ {
						var sub *TxResult
						if j == 1 {
							cw.nonce++
							sub = cw.w.Submit(ch, "channelTransferByCustomer", cw.w.SignedArgs(ch, "channelTransferByCustomer", owner, strconv.FormatUint(cw.nonce, 10),
								id, f.GetTo(), f.GetToken(), new(big.Int).SetBytes(f.GetAmount()).String()))
						} else {
							sub = cw.w.Peer.Invoke(ch, cw.w.Robot.Creator, "cancelCCTransferFrom", id)
						}
						if !sub.OK() {
							msg = "SUBMISSION REFUSED: " + sub.Message
						}
						ids = append(ids, sub.TxID)
					}
					if msg == "" {
						out := cw.w.ExecBatchIDs(ch, ids...)
						if out.Resp == nil || len(out.Resp.GetTxResponses()) != 3 {
							msg = "BATCH FAILED " + out.Res.Message
						} else {
							for _, tr := range out.Resp.GetTxResponses() {
								if e := tr.GetError().GetError(); e != "" && msg == "" {
									msg = "IN A BATCH OF THREE: " + e
								}
							}
						}
					}
					c.Count("one_cancel_reinitiate_cancel_in_one_batch")
					break
				}
			}
			msg = cw.robotTx(ch, "cancelCCTransferFrom", spelled(id))
		case r < 80:
			msg = cw.robotNB(ch, "commitCCTransferFrom", spelled(id))
			term = fmt.Sprintf("OCommitFrom %d", cw.idN(id))
		case r < 90:
			msg = cw.robotNB(ch, "deleteCCTransferFrom", spelled(id))
			term = fmt.Sprintf("ODeleteFrom %d", cw.idN(id))
		default:
			msg = cw.robotNB(ch, "deleteCCTransferTo", spelled(id))
			term = fmt.Sprintf("ODeleteTo %d", cw.idN(id))
		}
		e := ccErr(msg)
		ops = append(ops, term)
		steps = append(steps, fmt.Sprintf("(%s, %s)", e, cw.obs(ch)))
		c.Count("one_" + strings.SplitN(term, " ", 2)[0] + "_" + strings.SplitN(strings.TrimPrefix(e, "Some "), " ", 2)[0])
		if e == "None" {
			okN++
		} else {
			rejN++
		}
	}
	me := cw.chN[strings.ToUpper(ch)]
	term := fmt.Sprintf("COne %d %d %s %s %s", me, cw.w.AdminAcc.N(), init, coqList(ops), coqList(steps))
	c.Emit(term, map[string]interface{}{"kind": "one_channel", "channel": ch, "ops": ops}, okN >= 2 && rejN >= 2)
	return nil
}

func c10Two(c *Ctx) error {
	rng := c.Rng
	cw, err := newCCWorld()
	if err != nil {
		return err
	}
	cw.fund()
	initA, initB := cw.balTerm("tt"), cw.balTerm("vt")
	var acts []string
	robotSteps := 0
	for k := 15 + rng.Intn(16); k > 0; k-- {
		if rng.Intn(10) == 0 {
			cw.agedRecords(c, []string{"tt", "vt"}[rng.Intn(2)])
		}
		if rng.Intn(100) < 35 {
			ch := []string{"tt", "vt"}[rng.Intn(2)]
			term, _ := cw.userOp(cw.randUserOp(c, ch))
			acts = append(acts, fmt.Sprintf("AUser %s (%s)", coqBool(ch == "tt"), term))
			c.Count("two_user")
			continue
		}
		if rng.Intn(100) < 12 {
			// a customer's certificate calls one of the robot's functions (model: AUser with a robot operation = no effect).
			// If the submission is accepted the honest robot executes it with its next batch.
			ch := []string{"tt", "vt"}[rng.Intn(2)]
			other := map[string]string{"tt": "vt", "vt": "tt"}[ch]
			id := ccIDPool[rng.Intn(3)]
			var term string
			switch rng.Intn(5) {
			case 0, 1:
				cw.intruder(c, ch, true, "cancelCCTransferFrom", id)
				term = fmt.Sprintf("OCancelFrom %d", cw.idN(id))
			case 2:
				cw.intruder(c, ch, false, "commitCCTransferFrom", id)
				term = fmt.Sprintf("OCommitFrom %d", cw.idN(id))
			case 3:
				cw.intruder(c, ch, false, []string{"deleteCCTransferFrom", "deleteCCTransferTo"}[rng.Intn(2)], id)
				term = fmt.Sprintf("ODeleteFrom %d", cw.idN(id))
			default:
				q := cw.w.Peer.Invoke(other, cw.w.Client.Creator, "channelTransferFrom", id)
				data := string(q.Payload)
				if !q.OK() || data == "" {
					tr := &fpb.CCTransfer{Id: id, From: strings.ToUpper(other), To: strings.ToUpper(ch), Token: strings.ToUpper(other), User: cw.users[0].Addr, Amount: big.NewInt(77).Bytes(), ForwardDirection: true}
					b, _ := json.Marshal(tr)
					data = string(b)
				}
				cw.intruder(c, ch, true, "createCCTransferTo", data)
				term = fmt.Sprintf("ODeleteTo %d", cw.idN(id)) // any robot operation: a customer's attempt has no effect
			}
			acts = append(acts, fmt.Sprintf("AUser %s (%s)", coqBool(ch == "tt"), term))
			c.Count("two_intruder")
			continue
		}
		// the robot looks at both ledgers and performs one step its protocol enables
		a2b := rng.Intn(2) == 0
		id := ccIDPool[rng.Intn(3)]
		kind := []string{"createTo", "commit", "deleteTo", "deleteFrom", "cancel"}[rng.Intn(5)]
		if rng.Intn(10) < 7 {
			// mostly pick among the steps that are enabled right now
			type cand struct {
				d    bool
				id   string
				kind string
			}
			var en []cand
			for _, d := range []bool{true, false} {
				o2, d2 := "tt", "vt"
				if !d {
					o2, d2 = "vt", "tt"
				}
				for _, i := range ccIDPool {
					f, t := cw.rec(o2, "/transfer/from/", i), cw.rec(d2, "/transfer/to/", i)
					switch {
					case f != nil && t == nil && !f.GetIsCommit():
						if strings.EqualFold(f.GetTo(), d2) {
							en = append(en, cand{d, i, "createTo"})
						}
						en = append(en, cand{d, i, "cancel"})
					case f != nil && t != nil && !f.GetIsCommit():
						en = append(en, cand{d, i, "commit"})
					case f != nil && t != nil && f.GetIsCommit():
						en = append(en, cand{d, i, "deleteTo"})
					case f != nil && t == nil && f.GetIsCommit():
						en = append(en, cand{d, i, "deleteFrom"})
					}
				}
			}
			if len(en) > 0 {
				x := en[rng.Intn(len(en))]
				if x.kind == "cancel" && rng.Intn(3) > 0 {
					x = en[rng.Intn(len(en))] // cancel less often, so that transfers complete
				}
				a2b, id, kind = x.d, x.id, x.kind
			}
		}
		org, dst := "tt", "vt"
		if !a2b {
			org, dst = "vt", "tt"
		}
		from, to := cw.rec(org, "/transfer/from/", id), cw.rec(dst, "/transfer/to/", id)
		switch kind {
		case "createTo":
			if from != nil && to == nil && !from.GetIsCommit() && strings.EqualFold(from.GetTo(), dst) {
				q := cw.w.Peer.Invoke(org, cw.w.Client.Creator, "channelTransferFrom", id) // what the robot reads
				data := q.Payload
				if msg := cw.robotTx(dst, "createCCTransferTo", string(data)); msg != "" {
					c.Count("two_createTo_failed:" + msg)
				}
				robotSteps++
			}
			acts = append(acts, fmt.Sprintf("ACreateTo %s %d", coqBool(a2b), cw.idN(id)))
		case "commit":
			if from != nil && to != nil && !from.GetIsCommit() {
				cw.robotNB(org, "commitCCTransferFrom", id)
				robotSteps++
			}
			acts = append(acts, fmt.Sprintf("ACommit %s %d", coqBool(a2b), cw.idN(id)))
		case "deleteTo":
			if from != nil && to != nil && from.GetIsCommit() {
				cw.robotNB(dst, "deleteCCTransferTo", id)
				robotSteps++
			}
			acts = append(acts, fmt.Sprintf("ADeleteTo %s %d", coqBool(a2b), cw.idN(id)))
		case "deleteFrom":
			if from != nil && to == nil && from.GetIsCommit() {
				cw.robotNB(org, "deleteCCTransferFrom", id)
				robotSteps++
			}
			acts = append(acts, fmt.Sprintf("ADeleteFrom %s %d", coqBool(a2b), cw.idN(id)))
		case "cancel":
			if from != nil && to == nil && !from.GetIsCommit() {
				cw.robotTx(org, "cancelCCTransferFrom", id)
				robotSteps++
			}
			acts = append(acts, fmt.Sprintf("ACancel %s %d", coqBool(a2b), cw.idN(id)))
		}
		c.Count("two_robot_" + kind)
	}
	term := fmt.Sprintf("CTwo 1 2 %d %d %s %s %s %s %s", cw.w.AdminAcc.N(), cw.w.AdminAcc.N(), initA, initB, coqList(acts), cw.obs("tt"), cw.obs("vt"))
	c.Emit(term, map[string]interface{}{"kind": "two_channels", "acts": acts}, robotSteps >= 3)
	c.CountN("two_robot_steps_performed", robotSteps)
	return nil
}

// c10Restore: one transfer under a plain, grouped or many-part ticker, either created and cancelled or carried through
// the whole protocol and back again; every balance entry of both channels before and after (nonce and record keys left out).
func c10Restore(c *Ctx) error {
	rng := c.Rng
	cw, err := newCCWorld()
	if err != nil {
		return err
	}
	cw.fund()
	u := cw.users[0]
	for _, g := range []string{"B", "A_B", "G1_G1"} {
		cw.w.SetBalance("tt", balance.BalanceTypeToken, u.AddrString(), g, big.NewInt(400))
	}
	ticker := []string{"TT", "TT_G1", "TT_A_G1", "TT_A_B", "TT_G1_G1", "TT_B_A_B", "TT_G1_B"}[rng.Intn(7)]
	amt := strconv.Itoa(1 + rng.Intn(300))
	num := map[string]int{}
	snap := func() string {
		var l []string
		for _, ch := range []string{"tt", "vt"} {
			for k, v := range cw.w.Peer.Channels[ch].State {
				ot, _, ok := splitComposite(k)
				if !ok || !balanceKinds[ot] {
					continue
				}
				kk := ch + k
				if _, seen := num[kk]; !seen {
					num[kk] = len(num) + 1
				}
				l = append(l, fmt.Sprintf("(%d, (%s)%%Z)", num[kk], new(big.Int).SetBytes(v).String()))
			}
		}
		sort.Strings(l)
		return coqList(l)
	}
	before := snap()
	if msg := tokenRun(cw.w, "tt", u, &cw.nonce, "channelTransferByCustomer", "r1", "VT", ticker, amt); msg != "" {
		c.Count("restore_create_refused")
		return nil
	}
	kind := "cancel"
	leg := func(org, dst, id string) bool {
		q := cw.w.Peer.Invoke(org, cw.w.Client.Creator, "channelTransferFrom", id)
		if !q.OK() || cw.robotTx(dst, "createCCTransferTo", string(q.Payload)) != "" {
			return false
		}
		return cw.robotNB(org, "commitCCTransferFrom", id) == "" && cw.robotNB(dst, "deleteCCTransferTo", id) == "" && cw.robotNB(org, "deleteCCTransferFrom", id) == ""
	}
	if rng.Intn(2) == 0 {
		if msg := cw.robotTx("tt", "cancelCCTransferFrom", "r1"); msg != "" {
			return fmt.Errorf("c10Restore: cancel refused: %s", msg)
		}
	} else {
		kind = "there_and_back"
		if !leg("tt", "vt", "r1") {
			return fmt.Errorf("c10Restore: forward leg failed")
		}
		if msg := tokenRun(cw.w, "vt", u, &cw.nonce, "channelTransferByCustomer", "r2", "TT", ticker, amt); msg != "" {
			return fmt.Errorf("c10Restore: return refused: %s", msg)
		}
		if !leg("vt", "tt", "r2") {
			return fmt.Errorf("c10Restore: return leg failed")
		}
	}
	c.Emit(fmt.Sprintf("CRestore %s %s", before, snap()), map[string]interface{}{"kind": "restore_" + kind, "ticker": ticker, "amount": amt}, true)
	c.Count("restore_" + kind + "_ticker_parts_" + strconv.Itoa(strings.Count(ticker, "_")+1))
	return nil
}

func init() { props["C10"] = genC10 }
