package main

// Simulated peer: committed state per channel, read-committed transaction simulation with
// a write-set, one event per transaction, creator, signed proposal, settable clock, and
// the LevelDB / CouchDB key rules.  Written from the vendored Fabric simulator
// (tx_simulator.go: reads see committed state only; writes are buffered, last write per
// key wins; an empty value is a delete) and the shim (PutState("") refused).

import (
	"errors"
	"fmt"
	"sort"
	"strings"
	"unicode/utf8"

	"github.com/golang/protobuf/proto" //nolint:staticcheck
	"github.com/golang/protobuf/ptypes/timestamp"
	"github.com/hyperledger/fabric-chaincode-go/shim"
	"github.com/hyperledger/fabric-protos-go/common"
	"github.com/hyperledger/fabric-protos-go/ledger/queryresult"
	pb "github.com/hyperledger/fabric-protos-go/peer"
)

type Peer struct {
	Channels map[string]*Channel
	ACL      *ACL
	Now      int64 // seconds
	NowNanos int32 // the fraction of the second the next proposals' timestamps carry (the library compares whole seconds)
	txSeq    uint64
	KeyRules string // "leveldb" (default) or "couchdb"
	// part of the next proposals: the client's transient map (travels with the proposal) and what this
	// peer's decorators add to it (local to the endorsing peer, not part of the proposal)
	Transient   map[string][]byte
	Decorations map[string][]byte
	// what the CLIENT wrote into the proposal, which a real peer hands to the chaincode unchanged: the peer routes by the
	// chaincode name of the header extension (which it checks: endorser/msgvalidation.go UnpackProposal) and never looks
	// at the chaincode id inside the payload's invocation spec.  SpecCCName: that unchecked name, if it is to differ
	// from the routed chaincode ("-" = none at all); NoHeader: a proposal without header, as /repo's mock ledger builds it
	SpecCCName string
	NoHeader   bool
}

// Channel is one deployed chaincode: by default named after its channel (as the platform deploys tokens). CCName /
// ChannelID differ from Name when a second chaincode shares a channel (its state is its own namespace).
type Channel struct {
	Name      string
	CCName    string // chaincode name in the signed proposal ("" = Name)
	ChannelID string // what the stub reports as the channel ("" = Name)
	CC        shim.Chaincode
	State     map[string][]byte
	peer      *Peer
}

func (ch *Channel) ccName() string {
	if ch.CCName != "" {
		return ch.CCName
	}
	return ch.Name
}

func (ch *Channel) channelID() string {
	if ch.ChannelID != "" {
		return ch.ChannelID
	}
	return ch.Name
}

func NewPeer() *Peer {
	return &Peer{Channels: map[string]*Channel{}, ACL: NewACL(), Now: 1700000000, KeyRules: "leveldb"}
}

func (p *Peer) AddChannel(name string, cc shim.Chaincode) *Channel {
	ch := &Channel{Name: name, CC: cc, State: map[string][]byte{}, peer: p}
	p.Channels[name] = ch
	return ch
}

// NextTxID returns a fresh hexadecimal transaction id.
func (p *Peer) NextTxID() string {
	p.txSeq++
	return fmt.Sprintf("%064x", p.txSeq)
}

type KVWrite struct {
	Key   string `json:"k"`
	Value []byte `json:"v,omitempty"`
	Del   bool   `json:"d,omitempty"`
}

// TxResult is what the peer observes of one simulated transaction.
type TxResult struct {
	TxID      string
	Status    int32
	Message   string
	Payload   []byte
	Writes    []KVWrite // final write per key, sorted by key
	Event     *pb.ChaincodeEvent
	Committed bool
	Panicked  interface{}
	Other     []string // private data / validation parameter writes attempted
}

func (r *TxResult) OK() bool { return r.Status < 400 && r.Status != 0 }

type TxStub struct {
	ch      *Channel
	txID    string
	args    [][]byte
	creator []byte
	sp      *pb.SignedProposal
	ts      int64
	tsNanos int32
	writes  map[string]KVWrite
	event   *pb.ChaincodeEvent
	other   []string
	// hook called at GetState (C17 scheduling)
	onGet func(key string)

	transient, decorations map[string][]byte
}

var _ shim.ChaincodeStubInterface = (*TxStub)(nil)

func (p *Peer) newStub(ch *Channel, txID string, creator []byte, args [][]byte) *TxStub {
	specID := &pb.ChaincodeID{Name: ch.ccName()}
	switch p.SpecCCName {
	case "":
	case "-":
		specID = nil
	default:
		specID = &pb.ChaincodeID{Name: p.SpecCCName}
	}
	spec := &pb.ChaincodeInvocationSpec{ChaincodeSpec: &pb.ChaincodeSpec{ChaincodeId: specID, Input: &pb.ChaincodeInput{Args: args}}}
	specB, _ := proto.Marshal(spec)
	payload, _ := proto.Marshal(&pb.ChaincodeProposalPayload{Input: specB, TransientMap: p.Transient})
	var header []byte
	if !p.NoHeader {
		// the header a peer has validated before it calls the chaincode: channel, transaction id, and the extension
		// naming the chaincode the proposal is routed to
		ext, _ := proto.Marshal(&pb.ChaincodeHeaderExtension{ChaincodeId: &pb.ChaincodeID{Name: ch.ccName()}})
		chdr, _ := proto.Marshal(&common.ChannelHeader{Type: int32(common.HeaderType_ENDORSER_TRANSACTION), ChannelId: ch.channelID(), TxId: txID,
			Timestamp: &timestamp.Timestamp{Seconds: p.Now, Nanos: p.NowNanos}, Extension: ext})
		shdr, _ := proto.Marshal(&common.SignatureHeader{Creator: creator, Nonce: []byte(txID)})
		header, _ = proto.Marshal(&common.Header{ChannelHeader: chdr, SignatureHeader: shdr})
	}
	prop, _ := proto.Marshal(&pb.Proposal{Header: header, Payload: payload})
	return &TxStub{ch: ch, txID: txID, args: args, creator: creator, ts: p.Now, tsNanos: p.NowNanos,
		sp: &pb.SignedProposal{ProposalBytes: prop}, writes: map[string]KVWrite{},
		transient: p.Transient, decorations: p.Decorations}
}

func strArgs(fn string, args []string) [][]byte {
	out := [][]byte{[]byte(fn)}
	for _, a := range args {
		out = append(out, []byte(a))
	}
	return out
}

// Simulate runs one proposal without committing.
func (p *Peer) Simulate(chName, txID string, creator []byte, isInit bool, args [][]byte) (*TxResult, *TxStub) {
	ch := p.Channels[chName]
	stub := p.newStub(ch, txID, creator, args)
	res := &TxResult{TxID: txID}
	func() {
		defer func() {
			if rc := recover(); rc != nil {
				res.Panicked = rc
				res.Status = 500
				res.Message = fmt.Sprintf("PANIC ESCAPED: %v", rc)
			}
		}()
		var r pb.Response
		if isInit {
			r = ch.CC.Init(stub)
		} else {
			r = ch.CC.Invoke(stub)
		}
		res.Status, res.Message, res.Payload = r.GetStatus(), r.GetMessage(), r.GetPayload()
	}()
	keys := make([]string, 0, len(stub.writes))
	for k := range stub.writes {
		keys = append(keys, k)
	}
	sort.Strings(keys)
	for _, k := range keys {
		res.Writes = append(res.Writes, stub.writes[k])
	}
	res.Event = stub.event
	res.Other = stub.other
	return res, stub
}

func couchKeyOK(k string) bool {
	return k != "" && utf8.ValidString(k) && !strings.HasPrefix(k, "_")
}

// Commit applies the write-set of a successful simulation.
func (p *Peer) Commit(chName string, res *TxResult) {
	if !res.OK() {
		return
	}
	ch := p.Channels[chName]
	for _, w := range res.Writes {
		if w.Del || len(w.Value) == 0 {
			delete(ch.State, w.Key)
		} else {
			ch.State[w.Key] = w.Value
		}
	}
	res.Committed = true
}

// Invoke = simulate + commit when the reply status is below 400.
func (p *Peer) Invoke(chName string, creator []byte, fn string, args ...string) *TxResult {
	res, _ := p.Simulate(chName, p.NextTxID(), creator, false, strArgs(fn, args))
	p.Commit(chName, res)
	return res
}

func (p *Peer) InvokeTx(chName, txID string, creator []byte, fn string, args ...string) *TxResult {
	res, _ := p.Simulate(chName, txID, creator, false, strArgs(fn, args))
	p.Commit(chName, res)
	return res
}

func (p *Peer) Init(chName string, creator []byte, args ...string) *TxResult {
	a := make([][]byte, len(args))
	for i, x := range args {
		a[i] = []byte(x)
	}
	res, _ := p.Simulate(chName, p.NextTxID(), creator, true, a)
	p.Commit(chName, res)
	return res
}

// ---- shim.ChaincodeStubInterface -------------------------------------------

func (s *TxStub) GetArgs() [][]byte { return s.args }
func (s *TxStub) GetStringArgs() []string {
	out := make([]string, len(s.args))
	for i, a := range s.args {
		out[i] = string(a)
	}
	return out
}
func (s *TxStub) GetFunctionAndParameters() (string, []string) {
	a := s.GetStringArgs()
	if len(a) == 0 {
		return "", []string{}
	}
	return a[0], a[1:]
}
func (s *TxStub) GetArgsSlice() ([]byte, error) {
	var out []byte
	for _, a := range s.args {
		out = append(out, a...)
	}
	return out, nil
}
func (s *TxStub) GetTxID() string      { return s.txID }
func (s *TxStub) GetChannelID() string { return s.ch.channelID() }

func (s *TxStub) InvokeChaincode(name string, args [][]byte, channel string) pb.Response {
	if name == "acl" {
		return s.ch.peer.ACL.Invoke(args)
	}
	return pb.Response{Status: 500, Message: "unknown chaincode " + name}
}

func (s *TxStub) GetState(key string) ([]byte, error) {
	if s.onGet != nil {
		s.onGet(key)
	}
	v, ok := s.ch.State[key]
	if !ok {
		return nil, nil
	}
	return append([]byte(nil), v...), nil
}

func (s *TxStub) PutState(key string, value []byte) error {
	if key == "" {
		return errors.New("key must not be an empty string")
	}
	if s.ch.peer.KeyRules == "couchdb" && !couchKeyOK(key) {
		return fmt.Errorf("invalid key %q for couchdb", key)
	}
	s.writes[key] = KVWrite{Key: key, Value: append([]byte(nil), value...), Del: len(value) == 0}
	return nil
}

func (s *TxStub) DelState(key string) error {
	if s.ch.peer.KeyRules == "couchdb" && !couchKeyOK(key) {
		return fmt.Errorf("invalid key %q for couchdb", key)
	}
	s.writes[key] = KVWrite{Key: key, Del: true}
	return nil
}

func (s *TxStub) SetStateValidationParameter(key string, ep []byte) error {
	s.other = append(s.other, "vp:"+key)
	return nil
}
func (s *TxStub) GetStateValidationParameter(key string) ([]byte, error) { return nil, nil }

type kvIter struct {
	items []*queryresult.KV
	pos   int
}

func (it *kvIter) HasNext() bool { return it.pos < len(it.items) }
func (it *kvIter) Close() error  { return nil }
func (it *kvIter) Next() (*queryresult.KV, error) {
	if it.pos >= len(it.items) {
		return nil, errors.New("no more items")
	}
	x := it.items[it.pos]
	it.pos++
	return x, nil
}

func (s *TxStub) sortedKeys() []string {
	keys := make([]string, 0, len(s.ch.State))
	for k := range s.ch.State {
		keys = append(keys, k)
	}
	sort.Strings(keys)
	return keys
}

func (s *TxStub) rangeKV(start, end string) []*queryresult.KV {
	var out []*queryresult.KV
	for _, k := range s.sortedKeys() {
		if k >= start && (end == "" || k < end) {
			out = append(out, &queryresult.KV{Namespace: s.ch.Name, Key: k, Value: append([]byte(nil), s.ch.State[k]...)})
		}
	}
	return out
}

const (
	minUnicodeRuneValue = 0
	compositeKeyNS      = "\x00"
	emptyKeySubstitute  = "\x01"
)

var maxUnicodeRuneValue = string(utf8.MaxRune)

func validateSimpleKeys(keys ...string) error {
	for _, k := range keys {
		if len(k) > 0 && k[0] == compositeKeyNS[0] {
			return fmt.Errorf("first character of the key [%s] contains a null character which is not allowed", k)
		}
	}
	return nil
}

func (s *TxStub) GetStateByRange(startKey, endKey string) (shim.StateQueryIteratorInterface, error) {
	if startKey == "" {
		startKey = emptyKeySubstitute
	}
	if err := validateSimpleKeys(startKey, endKey); err != nil {
		return nil, err
	}
	return &kvIter{items: s.rangeKV(startKey, endKey)}, nil
}

func (s *TxStub) GetStateByRangeWithPagination(startKey, endKey string, pageSize int32, bookmark string) (shim.StateQueryIteratorInterface, *pb.QueryResponseMetadata, error) {
	if startKey == "" {
		startKey = emptyKeySubstitute
	}
	if err := validateSimpleKeys(startKey, endKey); err != nil {
		return nil, nil, err
	}
	if bookmark != "" {
		startKey = bookmark
	}
	all := s.rangeKV(startKey, endKey)
	next := ""
	if pageSize <= 0 {
		all = nil // a page of no (or of a negative number of) records holds nothing
	} else if int(pageSize) < len(all) {
		next = all[pageSize].Key
		all = all[:pageSize]
	}
	return &kvIter{items: all}, &pb.QueryResponseMetadata{FetchedRecordsCount: int32(len(all)), Bookmark: next}, nil
}

func (s *TxStub) partialRange(objectType string, attrs []string) (string, string, error) {
	k, err := shim.CreateCompositeKey(objectType, attrs)
	if err != nil {
		return "", "", err
	}
	return k, k + maxUnicodeRuneValue, nil
}

func (s *TxStub) GetStateByPartialCompositeKey(objectType string, keys []string) (shim.StateQueryIteratorInterface, error) {
	a, b, err := s.partialRange(objectType, keys)
	if err != nil {
		return nil, err
	}
	return &kvIter{items: s.rangeKV(a, b)}, nil
}

func (s *TxStub) GetStateByPartialCompositeKeyWithPagination(objectType string, keys []string, pageSize int32, bookmark string) (shim.StateQueryIteratorInterface, *pb.QueryResponseMetadata, error) {
	a, b, err := s.partialRange(objectType, keys)
	if err != nil {
		return nil, nil, err
	}
	if bookmark != "" {
		a = bookmark
	}
	all := s.rangeKV(a, b)
	next := ""
	if int(pageSize) < len(all) {
		next = all[pageSize].Key
		all = all[:pageSize]
	}
	return &kvIter{items: all}, &pb.QueryResponseMetadata{FetchedRecordsCount: int32(len(all)), Bookmark: next}, nil
}

func (s *TxStub) CreateCompositeKey(objectType string, attributes []string) (string, error) {
	return shim.CreateCompositeKey(objectType, attributes)
}

func (s *TxStub) SplitCompositeKey(compositeKey string) (string, []string, error) {
	comps := strings.Split(compositeKey[1:len(compositeKey)-1], string(rune(minUnicodeRuneValue)))
	return comps[0], comps[1:], nil
}

func (s *TxStub) GetQueryResult(query string) (shim.StateQueryIteratorInterface, error) {
	return nil, errors.New("rich queries not supported")
}
func (s *TxStub) GetQueryResultWithPagination(query string, pageSize int32, bookmark string) (shim.StateQueryIteratorInterface, *pb.QueryResponseMetadata, error) {
	return nil, nil, errors.New("rich queries not supported")
}
func (s *TxStub) GetHistoryForKey(key string) (shim.HistoryQueryIteratorInterface, error) {
	return nil, errors.New("history not supported")
}
func (s *TxStub) GetPrivateData(collection, key string) ([]byte, error)     { return nil, nil }
func (s *TxStub) GetPrivateDataHash(collection, key string) ([]byte, error) { return nil, nil }
func (s *TxStub) PutPrivateData(collection string, key string, value []byte) error {
	s.other = append(s.other, "pput:"+collection+":"+key)
	return nil
}
func (s *TxStub) DelPrivateData(collection, key string) error {
	s.other = append(s.other, "pdel:"+collection+":"+key)
	return nil
}
func (s *TxStub) PurgePrivateData(collection, key string) error {
	s.other = append(s.other, "ppurge:"+collection+":"+key)
	return nil
}
func (s *TxStub) SetPrivateDataValidationParameter(collection, key string, ep []byte) error {
	s.other = append(s.other, "pvp:"+collection+":"+key)
	return nil
}
func (s *TxStub) GetPrivateDataValidationParameter(collection, key string) ([]byte, error) {
	return nil, nil
}
func (s *TxStub) GetPrivateDataByRange(collection, startKey, endKey string) (shim.StateQueryIteratorInterface, error) {
	return &kvIter{}, nil
}
func (s *TxStub) GetPrivateDataByPartialCompositeKey(collection, objectType string, keys []string) (shim.StateQueryIteratorInterface, error) {
	return &kvIter{}, nil
}
func (s *TxStub) GetPrivateDataQueryResult(collection, query string) (shim.StateQueryIteratorInterface, error) {
	return &kvIter{}, nil
}
func (s *TxStub) GetCreator() ([]byte, error)               { return s.creator, nil }
func (s *TxStub) GetTransient() (map[string][]byte, error) {
	out := map[string][]byte{}
	for k, v := range s.transient {
		out[k] = v
	}
	return out, nil
}
func (s *TxStub) GetBinding() ([]byte, error)               { return nil, nil }
func (s *TxStub) GetDecorations() map[string][]byte         { return s.decorations }
func (s *TxStub) GetSignedProposal() (*pb.SignedProposal, error) { return s.sp, nil }
func (s *TxStub) GetTxTimestamp() (*timestamp.Timestamp, error) {
	return &timestamp.Timestamp{Seconds: s.ts, Nanos: s.tsNanos}, nil
}
func (s *TxStub) SetEvent(name string, payload []byte) error {
	if name == "" {
		return errors.New("event name can not be empty string")
	}
	s.event = &pb.ChaincodeEvent{EventName: name, Payload: payload}
	return nil
}
