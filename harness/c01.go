package main

import (
	"fmt"
	"sort"
	"strconv"
	"strings"

	"github.com/anoideaopen/foundation/core"
	fpb "github.com/anoideaopen/foundation/proto"
	"github.com/btcsuite/btcutil/base58"
	"github.com/golang/protobuf/proto" //nolint:staticcheck
)

func authErr(msg string) string {
	m := strings.ToLower(msg)
	switch {
	case strings.Contains(m, "incorrect number of arguments"), strings.Contains(m, "incorrect number of keys or signs"):
		return "EArgs"
	case strings.Contains(m, "should be signed"):
		return "ENotSigned"
	case strings.Contains(m, "incorrect chaincode name"), strings.Contains(m, "incorrect channel name"):
		return "EName"
	case strings.Contains(m, "blacklisted"):
		return "EBlack"
	case strings.Contains(m, "graylisted"):
		return "EGrey"
	case strings.Contains(m, "acl:"), strings.Contains(m, "empty response"), strings.Contains(m, "cannot parse"), strings.Contains(m, "proto:"):
		return "EAcl"
	case strings.Contains(m, "incorrect signature"), strings.Contains(m, "invalid key type"), strings.Contains(m, "not enough signatures"), strings.Contains(m, "signature"):
		return "EBadSig"
	case strings.Contains(m, "failed to validate nonce") && strings.Contains(m, "already exists"):
		return "EExists"
	case strings.Contains(m, "strconv.parseuint"), strings.Contains(m, "failed to validate nonce"):
		return "EBadNonce"
	}
	return "EOther (* " + strings.ReplaceAll(msg, "*", "x") + " *)"
}

var authRoutes = []string{"batch", "task", "nbtx", "query"}

type authCase struct {
	Route    int       `json:"route"`
	Fn       string    `json:"fn"`
	Args     []string  `json:"args"`
	KeyType  string    `json:"key_type"`
	Modes    []string  `json:"sig_modes"`
	ACLMode  string    `json:"acl_mode"`
	PolicyN  int       `json:"policy_n"`
	Tamper   string    `json:"tamper,omitempty"`
	Classes  []string  `json:"classes,omitempty"`
	Result   string    `json:"result"`
	Message  string    `json:"message"`
	Changed  bool      `json:"ledger_changed"`
	signers  []*User   // presented keys (in order)
	sigSyms  []string  // symbolic signature per position
	account  *Account
	valid    int
	required int
	tampered bool
	badSig   bool
	cc, ch   string
	// peer key of the deployed chaincode the request is delivered to, when that chaincode is not named after its channel
	deliverTo string
	specName  string // what the submitter writes into the proposal's invocation spec ("" = the routed chaincode, "-" = nothing)
	noHeader  bool   // a proposal without header (the shape of /repo's mock ledger)
}

func stateSnapshot(ch *Channel) map[string]string {
	m := map[string]string{}
	for k, v := range ch.State {
		m[k] = string(v)
	}
	return m
}

func stateEqual(a map[string]string, ch *Channel) bool {
	if len(a) != len(ch.State) {
		return false
	}
	for k, v := range ch.State {
		if a[k] != string(v) {
			return false
		}
	}
	return true
}

var taskLeadSeq int

// forces the three-task list (failing look-up, another account's key with a junk signature, the request) on the task route
var taskTriple bool

// authRun sends the request on its route and fills Result/Message/Changed.
func authRun(w *World, chName string, ac *authCase, tag string) (acceptedAddr string) {
	ch := w.Peer.Channels[chName]
	before := stateSnapshot(ch)
	fn := map[int]string{0: "whoAmI", 1: "whoAmI", 2: "nbWhoAmI", 3: "qWhoAmI"}[ac.Route]
	if ac.Fn != "" {
		fn = ac.Fn
	}
	msg := ""
	switch ac.Route {
	case 0:
		res := w.Submit(chName, fn, ac.Args)
		if res.OK() {
			key, _ := res.txStubKey(w, chName)
			var p fpb.PendingTx
			if err := proto.Unmarshal(ch.State[key], &p); err == nil && p.GetSender() != nil {
				acceptedAddr = (&Account{Addr: p.GetSender().GetAddress()}).AddrString()
			}
		} else {
			msg = res.Message
		}
	case 1:
		tasks := []*fpb.Task{{Id: w.Peer.NextTxID(), Method: fn, Args: ac.Args}}
		lead := ""
		taskLeadSeq++
		if taskLeadSeq%2 == 0 && !taskTriple {
			// every other time the request is the SECOND task of the list, behind a genuine request of the
			// issuer for this chaincode and channel: what the first task established must not carry over
			lead = "lead" + strconv.Itoa(taskLeadSeq)
			args := BuildRequest("whoAmI", "", ch.ccName(), ch.channelID(), []string{lead}, strconv.FormatUint(1800000000000+uint64(taskLeadSeq), 10), w.Issuer.Members, nil, nil)
			tasks = append([]*fpb.Task{{Id: w.Peer.NextTxID(), Method: "whoAmI", Args: args}}, tasks...)
		}
		if (taskLeadSeq%3 == 0 || taskTriple) && lead == "" {
			// every third time the request comes LAST in a list of three: first a properly signed request of a key the
			// access-control service does not know (its look-up fails), then a request naming another account's key with a junk
			// signature. The look-ups of a task list are bundled into one call whose answers are cached per key list: an
			// answer must never be filed under another task's keys.
			strangerSeq := 9500 + taskLeadSeq
			stranger := NewUser(strangerSeq, fpb.KeyType_ed25519)
			a1 := BuildRequest("whoAmI", "", ch.ccName(), ch.channelID(), []string{"s" + strconv.Itoa(taskLeadSeq)}, strconv.FormatUint(1810000000000+uint64(taskLeadSeq), 10), []*User{stranger}, nil, nil)
			victim := w.NewAccount(fpb.KeyType_ed25519) // a registered account that has never sent anything
			a2 := BuildRequest("whoAmI", "", ch.ccName(), ch.channelID(), []string{"v" + strconv.Itoa(taskLeadSeq)}, strconv.FormatUint(1820000000000+uint64(taskLeadSeq), 10), victim.Members, []SigMode{SigGarbage}, nil)
			tasks = append([]*fpb.Task{{Id: w.Peer.NextTxID(), Method: "whoAmI", Args: a1}, {Id: w.Peer.NextTxID(), Method: "whoAmI", Args: a2}}, tasks...)
		}
		out := w.ExecTasks(chName, w.Robot.Creator, tasks)
		if out.Resp == nil || len(out.Resp.GetTxResponses()) != len(tasks) {
			msg = "TASKS FAILED: " + out.Res.Message
		} else if e := out.Resp.GetTxResponses()[len(tasks)-1].GetError().GetError(); e != "" {
			msg = e
		} else {
			acceptedAddr = string(ch.State["who_"+tag])
		}
		if lead != "" {
			// the leading request's own effects are not the request's
			for k, v := range ch.State {
				if strings.Contains(k, w.Issuer.AddrString()) || k == "who_"+lead {
					before[k] = string(v)
				}
			}
		}
	case 2:
		res := w.Submit(chName, fn, ac.Args)
		if res.OK() {
			acceptedAddr = string(ch.State["who_"+tag])
		} else {
			msg = res.Message
		}
	case 3:
		res := w.Submit(chName, fn, ac.Args)
		if res.OK() {
			acceptedAddr = strings.Trim(string(res.Payload), "\"")
		} else {
			msg = res.Message
		}
	}
	ac.Message = msg
	ac.Changed = !stateEqual(before, ch)
	if msg == "" {
		ac.Result = "accept"
	} else {
		ac.Result = "reject:" + authErr(msg)
	}
	return acceptedAddr
}

// txStubKey returns the pending key of a submission.
func (r *TxResult) txStubKey(w *World, chName string) (string, error) {
	return w.Peer.newStub(w.Peer.Channels[chName], "", nil, nil).CreateCompositeKey("batchTransactions", []string{r.TxID})
}

// authTerm renders the Coq case.
func authTerm(w *World, in *Interner, ac *authCase, argc int, acceptedAddr string, aclTerm string, aclOK bool) string {
	var keys []string
	seen := map[string]bool{}
	for _, u := range ac.signers {
		if seen[u.Pub] {
			continue
		}
		seen[u.Pub] = true
		keys = append(keys, fmt.Sprintf("(%s, KI %d %d %s)", coqStr(u.Pub), u.ID+1, int(u.KeyType), coqBool(len(u.Keys.PublicKeyBytes) == 64)))
	}
	args := make([]string, len(ac.Args))
	for i, a := range ac.Args {
		args[i] = coqStr(a)
	}
	fn := map[int]string{0: "whoAmI", 1: "whoAmI", 2: "nbWhoAmI", 3: "qWhoAmI"}[ac.Route]
	if ac.Fn != "" {
		fn = ac.Fn
	}
	res := ""
	if ac.Result == "accept" {
		res = fmt.Sprintf("OAccept %d", in.Addr(acceptedAddr))
	} else {
		res = "OReject " + strings.TrimPrefix(ac.Result, "reject:")
	}
	// the chaincode id the submitter wrote into the payload, and the one the peer routed by (the header extension)
	specName, routed := ac.cc, "(Some "+coqStr(ac.cc)+")"
	switch ac.specName {
	case "":
	case "-":
		specName = ""
	default:
		specName = ac.specName
	}
	if ac.noHeader {
		routed = "None"
	}
	input := fmt.Sprintf("(AuthIn %d %s %s %s %s %s %s %s %s)", argc, coqStr(fn), coqList(args), coqStr(specName), coqStr(ac.ch), aclTerm, coqList(keys), coqList(ac.sigSyms), routed)
	return fmt.Sprintf("mkCase %s %d (%s) %s %d %d %s %s %s", input, ac.Route, res, coqBool(ac.Changed), ac.valid, ac.required, coqBool(aclOK), coqBool(ac.tampered), coqBool(ac.badSig))
}

type authWorld struct {
	w       *World
	in      *Interner
	foreign map[fpb.KeyType]*User
	nonce   uint64
	tag     int
}

func newAuthWorld() (*authWorld, error) {
	w := NewWorld()
	if _, err := w.AddToken("TT", ChanOpts{}); err != nil {
		return nil, err
	}
	if _, err := w.AddToken("UU", ChanOpts{}); err != nil {
		return nil, err
	}
	aw := &authWorld{w: w, foreign: map[fpb.KeyType]*User{}, nonce: 1700000000000}
	for _, kt := range []fpb.KeyType{fpb.KeyType_ed25519, fpb.KeyType_secp256k1, fpb.KeyType_gost} {
		aw.foreign[kt] = w.NewUser(kt)
	}
	return aw, nil
}

// symbolic signature for one position
func symSig(mode SigMode, signer, foreign *User, msg string) string {
	switch mode {
	case SigValid:
		return fmt.Sprintf("SigBy %d %d %s", signer.ID+1, int(signer.KeyType), coqStr(msg))
	case SigForeign:
		return fmt.Sprintf("SigBy %d %d %s", foreign.ID+1, int(foreign.KeyType), coqStr(msg))
	case SigOtherMsg:
		return fmt.Sprintf("SigBy %d %d %s", signer.ID+1, int(signer.KeyType), coqStr("x"+msg))
	}
	return "SigJunk"
}

// SigOldRequest: the signature of an earlier, accepted request of the same signer.
const SigOldRequest SigMode = 100

// buildAuth makes a request of account acc on channel chName with the given signature modes.
func (aw *authWorld) buildAuth(chName string, route int, acc *Account, modes []SigMode, aclMode string) *authCase {
	var oldSigs []string
	oldMsg := ""
	for _, m := range modes {
		if m == SigOldRequest {
			// an honest request of the same signers is accepted first (same process)
			honest := aw.buildAuth(chName, route, acc, nil, "ok")
			aw.setACL("ok", acc)
			authRun(aw.w, chName, honest, honest.Args[3])
			oldSigs = honest.Args[len(honest.Args)-len(acc.Members):]
			fn0 := map[int]string{0: "whoAmI", 1: "whoAmI", 2: "nbWhoAmI", 3: "qWhoAmI"}[route]
			oldMsg = fn0 + strings.Join(honest.Args[:len(honest.Args)-len(acc.Members)], "")
			break
		}
	}
	aw.nonce++
	aw.tag++
	tag := "t" + strconv.Itoa(aw.tag)
	fn := map[int]string{0: "whoAmI", 1: "whoAmI", 2: "nbWhoAmI", 3: "qWhoAmI"}[route]
	kt := acc.Members[0].KeyType
	bmodes := append([]SigMode(nil), modes...)
	for i, m := range bmodes {
		if m == SigOldRequest {
			bmodes[i] = SigBlank
		}
	}
	args := BuildRequest(fn, "", chName, chName, []string{tag}, strconv.FormatUint(aw.nonce, 10), acc.Members, bmodes, aw.foreign[kt])
	for i, m := range modes {
		if m == SigOldRequest {
			args[len(args)-len(acc.Members)+i] = oldSigs[i]
		}
	}
	ac := &authCase{Route: route, Args: args, KeyType: kt.String(), ACLMode: aclMode, PolicyN: int(acc.ReqN), signers: acc.Members, account: acc, cc: chName, ch: chName}
	msg := fn + strings.Join(args[:len(args)-len(acc.Members)], "")
	for i, m := range acc.Members {
		mode := SigValid
		if i < len(modes) {
			mode = modes[i]
		}
		if mode == SigOldRequest {
			ac.Modes = append(ac.Modes, "old_request")
			ac.sigSyms = append(ac.sigSyms, fmt.Sprintf("SigBy %d %d %s", m.ID+1, int(m.KeyType), coqStr(oldMsg)))
			ac.badSig = true
			continue
		}
		ac.Modes = append(ac.Modes, sigModeNames[mode])
		if mode == SigLong && m.KeyType == fpb.KeyType_secp256k1 {
			mode = SigValid // the recovery byte after r || s is part of that encoding
		}
		ac.sigSyms = append(ac.sigSyms, symSig(mode, m, aw.foreign[kt], msg))
		if mode == SigValid {
			ac.valid++
		}
		if mode != SigValid && mode != SigBlank {
			ac.badSig = true
		}
	}
	ac.required = int(acc.ReqN)
	if ac.required == 0 || ac.required > len(acc.Members) {
		ac.required = len(acc.Members)
	}
	return ac
}

// aclTermFor renders what the scripted ACL answers for the key list this request presents.
func aclTermFor(aw *authWorld, in *Interner, ac *authCase, argc int, mode string) (string, bool, *Account) {
	switch mode {
	case "status", "empty", "garbled", "refused_with_record":
		return "AclFail", false, nil
	}
	expected := argc - 1 + 4
	if len(ac.Args) < expected || (len(ac.Args)-expected)%2 != 0 || (len(ac.Args)-expected)/2 == 0 {
		return "AclFail", false, nil // never asked
	}
	s := (len(ac.Args) - expected) / 2
	presented := ac.Args[expected : expected+s]
	acc, found := aw.w.Peer.ACL.byKeys[keysKey(presented)]
	if !found {
		return "AclFail", false, nil
	}
	var kts []string
	switch mode {
	case "kt_short":
		for i := 1; i < s; i++ {
			kts = append(kts, "0")
		}
	case "kt_long":
		for i := 0; i <= s; i++ {
			kts = append(kts, "0")
		}
	case "kt_none":
	default:
		for _, p := range presented {
			kt := 0
			for _, m := range acc.Members {
				if m.Pub == p {
					kt = int(m.KeyType)
				}
			}
			kts = append(kts, strconv.Itoa(kt))
		}
	}
	return fmt.Sprintf("(AclOk %d %s %s %d %s)", in.Addr(acc.AddrString()), coqBool(acc.Black), coqBool(acc.Grey), acc.ReqN, coqList(kts)), !acc.Black && !acc.Grey, acc
}

func (aw *authWorld) setACL(mode string, acc *Account) {
	a := aw.w.Peer.ACL
	a.Fault = map[string]string{}
	a.KeyTypes = "match"
	acc.Black, acc.Grey = false, false
	switch mode {
	case "status", "empty", "garbled", "refused_with_record":
		a.Fault["checkKeys"] = mode
	case "black":
		acc.Black = true
	case "grey":
		acc.Grey = true
	case "kt_short":
		a.KeyTypes = "short"
	case "kt_long":
		a.KeyTypes = "long"
	case "kt_none":
		a.KeyTypes = "none"
	}
}

func (aw *authWorld) emit(c *Ctx, ac *authCase, aclMode string, argc int) {
	in := aw.w.Interner()
	aw.setACL(aclMode, ac.account)
	tag := ""
	if len(ac.Args) > 3 {
		tag = ac.Args[3]
	}
	dest := ac.ch
	if ac.deliverTo != "" {
		dest = ac.deliverTo
	}
	aw.w.Peer.SpecCCName, aw.w.Peer.NoHeader = ac.specName, ac.noHeader
	addr := authRun(aw.w, dest, ac, tag)
	aw.w.Peer.SpecCCName, aw.w.Peer.NoHeader = "", false
	aclTerm, aclOK, aclAcc := aclTermFor(aw, in, ac, argc, aclMode)
	if ac.Result == "accept" && (aclAcc == nil || addr != aclAcc.AddrString()) {
		aclOK = false
	}
	term := authTerm(aw.w, in, ac, argc, addr, aclTerm, aclOK)
	aw.setACL("ok", ac.account)
	nontrivial := ac.Result != "accept" || len(ac.signers) > 1
	c.Emit(term, ac, nontrivial)
	c.Count("route_" + authRoutes[ac.Route])
	c.Count("result_" + ac.Result)
	c.Count("acl_" + aclMode)
	c.Count("keytype_" + ac.KeyType)
}

func genC01(c *Ctx) error {
	c.ShardSize = 150
	c.Notes["rule"] = "every request is a real signed invocation of a sender-requiring method on one of the four routes (batched submission, task, immediate NBTx, query with sender). Exhaustive part: 3 key types x signer sets of 1..3 keys x policy n in 0..size+1 (0 = the answer carries no policy, size+1 = a policy larger than the key list) x every assignment of {valid, blank, corrupted, foreign-key, other-message, earlier request's, valid-with-extra-bytes} to the signature positions, on rotating routes; half of the accounts have an access-control answer carrying changed-key transactions (which the chaincode records for an authenticated request); plus ACL answers {ok, status 500, empty, garbled, status 403 with the account record attached, black, grey, key-type list short/long/absent} x key types x routes, argument-count variants, garbage signature strings, bad nonces. A member's key repeated in the presented list. Fifth route: the exported core.CheckSign with requests in the older format (every key must sign, ed25519 only). Non-trivial: rejected, or multi-signature."
	aw, err := newAuthWorld()
	if err != nil {
		return err
	}
	w := aw.w
	kts := []fpb.KeyType{fpb.KeyType_ed25519, fpb.KeyType_secp256k1, fpb.KeyType_gost}
	modesAll := []SigMode{SigValid, SigBlank, SigCorrupt, SigForeign, SigOtherMsg, SigOldRequest, SigLong}
	route := 0
	maxSize := 3
	for _, kt := range kts {
		for size := 1; size <= maxSize; size++ {
			for n := 0; n <= size+1; n++ { // 0: no policy in the answer; size+1: a policy that does not fit the key list
				members := make([]*User, size)
				for i := range members {
					members[i] = w.NewUser(kt)
				}
				acc := w.NewAccountOf(members...)
				acc.ReqN = uint32(n)
				if (size+n)%2 == 0 {
					// the access-control answer reports changed-key transactions for this account: the chaincode records
					// them - for an authenticated request only, a refused one still changes nothing
					acc.SignedTx = []string{"chg" + strconv.Itoa(size*10+n)}
				}
				// all assignments
				total := 1
				for i := 0; i < size; i++ {
					total *= len(modesAll)
				}
				for x := 0; x < total; x++ {
					if size == 3 && !c.Thorough() && c.Rng.Intn(8) != 0 {
						continue // sampled in the quick tier
					}
					modes := make([]SigMode, size)
					y := x
					for i := range modes {
						modes[i] = modesAll[y%len(modesAll)]
						y /= len(modesAll)
					}
					ac := aw.buildAuth("tt", route%4, acc, modes, "ok")
					aw.emit(c, ac, "ok", 2)
					route++
				}
			}
		}
	}
	// ACL answers
	for _, kt := range kts {
		for size := 1; size <= 2; size++ {
			members := make([]*User, size)
			for i := range members {
				members[i] = w.NewUser(kt)
			}
			acc := w.NewAccountOf(members...)
			acc.ReqN = uint32(size)
			if size == 2 {
				acc.SignedTx = []string{"chg2"}
			}
			for _, mode := range []string{"ok", "status", "empty", "garbled", "refused_with_record", "black", "grey", "kt_short", "kt_long", "kt_none"} {
				for r := 0; r < 4; r++ {
					ac := aw.buildAuth("tt", r, acc, nil, mode)
					aw.emit(c, ac, mode, 2)
				}
			}
		}
	}
	// honest requests of ordinary accounts at the end of three-task lists whose first look-up fails (the order in which the
	// look-ups are bundled varies from run to run)
	taskTriple = true
	for t := c.N(100, 600); t > 0; t-- {
		acc := w.NewAccount(kts[t%3])
		acc.ReqN = 1
		ac := aw.buildAuth("tt", 1, acc, nil, "ok")
		aw.emit(c, ac, "ok", 2)
		c.Count("task_behind_failing_lookup")
	}
	taskTriple = false
	// the older request format through the exported core.CheckSign (method arguments, keys, signatures; every key must sign,
	// ed25519 only): signer sets of 1..3 keys x signature modes x access-control answers
	for _, kt := range kts {
		for size := 1; size <= 3; size++ {
			members := make([]*User, size)
			for i := range members {
				members[i] = w.NewUser(kt)
			}
			acc := w.NewAccountOf(members...)
			acc.ReqN = uint32(1 + c.Rng.Intn(size))
			legacyModes := []SigMode{SigValid, SigBlank, SigCorrupt, SigForeign, SigOtherMsg, SigGarbage}
			total := 1
			for i := 0; i < size; i++ {
				total *= len(legacyModes)
			}
			for x := 0; x < total; x++ {
				if size == 3 && !c.Thorough() && c.Rng.Intn(6) != 0 {
					continue
				}
				modes := make([]SigMode, size)
				y := x
				for i := range modes {
					modes[i] = legacyModes[y%len(legacyModes)]
					y /= len(legacyModes)
				}
				aclMode := "ok"
				if x%7 == 3 {
					aclMode = []string{"black", "grey", "status", "kt_none", "kt_short"}[c.Rng.Intn(5)]
				}
				aw.checkSignCase(c, acc, modes, aclMode)
			}
			for _, aclMode := range []string{"ok", "black", "grey", "status", "empty", "kt_none", "kt_short", "kt_long"} {
				aw.checkSignCase(c, acc, nil, aclMode)
			}
		}
	}
	// unknown keys, mixed key types in one account, garbage strings, counts, nonce
	for r := 0; r < 4; r++ {
		stranger := NewAccount(9000+r, NewUser(9000+r, fpb.KeyType_ed25519)) // not registered with the ACL
		stranger.ReqN = 1
		ac := aw.buildAuth("tt", r, stranger, nil, "unknown")
		aw.emit(c, ac, "unknown", 2)

		mixed := w.NewAccountOf(w.NewUser(fpb.KeyType_ed25519), w.NewUser(fpb.KeyType_gost), w.NewUser(fpb.KeyType_secp256k1))
		mixed.ReqN = 2
		for _, modes := range [][]SigMode{nil, {SigBlank, SigValid, SigValid}, {SigValid, SigBlank, SigBlank}, {SigGarbage, SigValid, SigValid}} {
			for _, am := range []string{"ok", "kt_none"} {
				ac = aw.buildAuth("tt", r, mixed, modes, am)
				aw.emit(c, ac, am, 2)
			}
		}
		// a member of a 2-of-3 account names his own key twice and signs twice, the others' slots blank: the access-control
		// service is asked about the key list as presented, and knows no such account
		{
			m := []*User{w.NewUser(kts[r%3]), w.NewUser(kts[r%3]), w.NewUser(kts[r%3])}
			ms := w.NewAccountOf(m...)
			ms.ReqN = 2
			for _, dup := range [][]*User{{m[0], m[0], m[1], m[2]}, {m[0], m[0], m[1]}, {m[0], m[1], m[0], m[2]}} {
				lone := &Account{ID: ms.ID, Members: dup, Addr: ms.Addr, ReqN: 2, Multisig: true}
				modes := make([]SigMode, len(dup))
				for i, u := range dup {
					if u != m[0] {
						modes[i] = SigBlank
					}
				}
				ac = aw.buildAuth("tt", r, lone, modes, "ok")
				ac.account = ms
				aw.emit(c, ac, "ok", 2)
				c.Count("repeated_key_in_the_list")
			}
		}
		single := w.NewAccount(kts[r%3])
		single.ReqN = 1
		// the request id (the first signed field) replaced after signing: the signatures are over another message
		for _, acc := range []*Account{single, mixed} {
			ac = aw.buildAuth("tt", r, acc, nil, "ok")
			ac.Args[0] = "rid-" + strconv.Itoa(aw.tag)
			ac.badSig, ac.tampered = true, true
			aw.emit(c, ac, "ok", 2)
			c.Count("request_id_replaced_after_signing")
		}
		// bad nonce strings (auth parses the nonce after the signatures)
		for _, bad := range []string{"", "12x", "-5", " 1700000000001"} {
			aw.nonce++
			aw.tag++
			fn := map[int]string{0: "whoAmI", 1: "whoAmI", 2: "nbWhoAmI", 3: "qWhoAmI"}[r]
			args := BuildRequest(fn, "", "tt", "tt", []string{"t" + strconv.Itoa(aw.tag)}, bad, single.Members, nil, nil)
			ac = &authCase{Route: r, Args: args, KeyType: single.Members[0].KeyType.String(), signers: single.Members, account: single, cc: "tt", ch: "tt", valid: 1, required: 1}
			ac.sigSyms = []string{symSig(SigValid, single.Members[0], nil, fn+strings.Join(args[:len(args)-1], ""))}
			aw.emit(c, ac, "ok", 2)
		}
		if r != 1 { // argument-count variants (not through tasks: see C14 / F11)
			good := aw.buildAuth("tt", r, single, nil, "ok")
			variants := [][]string{good.Args[:4], good.Args[:5], good.Args[:6], append(append([]string{}, good.Args...), "extra"), good.Args[:0]}
			for _, v := range variants {
				ac = &authCase{Route: r, Args: v, KeyType: good.KeyType, signers: single.Members, account: single, cc: "tt", ch: "tt", required: 1, tampered: true}
				ac.sigSyms = []string{"SigJunk"}
				if len(v) == 6 {
					ac.sigSyms = []string{"SigJunk"}
				}
				aw.emit(c, ac, "ok", 2)
			}
		}
	}
	return nil
}

func init() { props["C01"] = genC01 }

var _ = sort.Strings

// checkSignCase: one call of core.CheckSign with a request in the older format.
func (aw *authWorld) checkSignCase(c *Ctx, acc *Account, modes []SigMode, aclMode string) {
	w, in := aw.w, aw.w.Interner()
	aw.tag++
	fn, margs := "legacyMethod", []string{"t" + strconv.Itoa(aw.tag)}
	var keys, sigs, syms, keyTerms []string
	for _, m := range acc.Members {
		keys = append(keys, m.Pub)
		keyTerms = append(keyTerms, fmt.Sprintf("(%s, KI %d %d %s)", coqStr(m.Pub), m.ID+1, int(m.KeyType), coqBool(len(m.Keys.PublicKeyBytes) == 64)))
	}
	msgS := fn + strings.Join(append(append([]string{}, margs...), keys...), "")
	valid, bad := 0, false
	var modeNames []string
	for i, m := range acc.Members {
		mode := SigValid
		if i < len(modes) {
			mode = modes[i]
		}
		modeNames = append(modeNames, sigModeNames[mode])
		switch mode {
		case SigValid:
			sigs = append(sigs, base58.Encode(m.Sign([]byte(msgS))))
		case SigBlank:
			sigs = append(sigs, "")
		case SigCorrupt:
			sg := m.Sign([]byte(msgS))
			sg[len(sg)/2] ^= 0x04
			sigs = append(sigs, base58.Encode(sg))
		case SigForeign:
			sigs = append(sigs, base58.Encode(aw.foreign[m.KeyType].Sign([]byte(msgS))))
		case SigOtherMsg:
			sigs = append(sigs, base58.Encode(m.Sign([]byte("x"+msgS))))
		default:
			sigs = append(sigs, "0OIl-not-base58")
		}
		if mode == SigBlank { // a blank signature is no signature here either, but it is not skipped
			syms = append(syms, "SigJunk")
		} else {
			syms = append(syms, symSig(mode, m, aw.foreign[m.KeyType], msgS))
		}
		if mode == SigValid && m.KeyType == fpb.KeyType_ed25519 {
			valid++
		} else {
			bad = true
		}
	}
	aw.setACL(aclMode, acc)
	ch := w.Peer.Channels["tt"]
	before := stateSnapshot(ch)
	stub := w.Peer.newStub(ch, w.Peer.NextTxID(), w.Client.Creator, nil)
	addr, _, err := core.CheckSign(stub, fn, margs, append(append([]string{}, keys...), sigs...))
	ac := &authCase{Route: 4, Fn: fn, Args: append(append(append([]string{}, margs...), keys...), sigs...), KeyType: acc.Members[0].KeyType.String(),
		Modes: modeNames, ACLMode: aclMode, PolicyN: int(acc.ReqN), signers: acc.Members, account: acc, cc: "tt", ch: "tt"}
	res := ""
	if err == nil {
		ac.Result = "accept"
		res = fmt.Sprintf("OAccept %d", in.Addr(addr.String()))
	} else {
		ac.Message = err.Error()
		ac.Result = "reject:" + authErr(err.Error())
		res = "OReject " + authErr(err.Error())
	}
	ac.Changed = !stateEqual(before, ch) || len(stub.writes) > 0
	// what the scripted service answers for this key list
	aclTerm, aclOK := "AclFail", false
	switch aclMode {
	case "status", "empty", "garbled", "refused_with_record":
	default:
		var kts []string
		switch aclMode {
		case "kt_short":
			for i := 1; i < len(keys); i++ {
				kts = append(kts, "0")
			}
		case "kt_long":
			for i := 0; i <= len(keys); i++ {
				kts = append(kts, "0")
			}
		case "kt_none":
		default:
			for _, m := range acc.Members {
				kts = append(kts, strconv.Itoa(int(m.KeyType)))
			}
		}
		aclTerm = fmt.Sprintf("(AclOk %d %s %s %d %s)", in.Addr(acc.AddrString()), coqBool(acc.Black), coqBool(acc.Grey), acc.ReqN, coqList(kts))
		aclOK = !acc.Black && !acc.Grey
	}
	if ac.Result == "accept" && addr.String() != acc.AddrString() {
		aclOK = false
	}
	at := make([]string, len(ac.Args))
	for i, a := range ac.Args {
		at[i] = coqStr(a)
	}
	input := fmt.Sprintf("(AuthIn 2 %s %s %s %s %s %s %s (Some %s))", coqStr(fn), coqList(at), coqStr("tt"), coqStr("tt"), aclTerm, coqList(keyTerms), coqList(syms), coqStr("tt"))
	term := fmt.Sprintf("mkCase %s 4 (%s) %s %d %d %s false %s", input, res, coqBool(ac.Changed), valid, len(acc.Members), coqBool(aclOK), coqBool(bad))
	aw.setACL("ok", acc)
	c.Emit(term, ac, true)
	c.Count("route_check_sign")
	c.Count("check_sign_" + strings.SplitN(ac.Result, " ", 2)[0])
}
