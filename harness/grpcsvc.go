package main

import (
	"context"
	"fmt"
	"strings"

	"github.com/anoideaopen/foundation/core"
	fgrpc "github.com/anoideaopen/foundation/core/routing/grpc"
	freflect "github.com/anoideaopen/foundation/core/routing/reflect"
	tproto "github.com/anoideaopen/foundation/test/unit/token/proto"
	"google.golang.org/grpc"
	gproto "google.golang.org/protobuf/proto"
	"google.golang.org/protobuf/reflect/protodesc"
	"google.golang.org/protobuf/reflect/protoregistry"
	"google.golang.org/protobuf/types/descriptorpb"
	"google.golang.org/protobuf/types/known/emptypb"
	"google.golang.org/protobuf/types/known/wrapperspb"
)

// HGrpcToken is the harness token with the repository's sample gRPC service (test/unit/token/proto:
// BalanceService) registered next to the reflect router. Its HelloWorld method is declared
// METHOD_TYPE_QUERY in the service description; here its body runs a script against the stub, so that a
// query whose kind only the gRPC router knows attempts every mutating stub operation.
type HGrpcToken struct {
	HToken
	tproto.UnimplementedBalanceServiceServer
}

// the request message of HelloWorld is empty: the script and the choice of the stub (the one in the call
// context / the one of the contract) are handed over by the harness
var (
	grpcQueryScript string
	grpcQueryUseCtx bool
)

func (t *HGrpcToken) HelloWorld(ctx context.Context, _ *emptypb.Empty) (*tproto.HelloWorldResponse, error) {
	stub := t.GetStub()
	if grpcQueryUseCtx {
		stub = fgrpc.StubFromContext(ctx)
	}
	out, err := runScriptOn(stub, grpcQueryScript)
	if err != nil {
		return nil, err
	}
	return &tproto.HelloWorldResponse{Message: out}, nil
}

// AddGrpcToken deploys the token with both routers on the channel named after the symbol.
func (w *World) AddGrpcToken(symbol string, o ChanOpts) (*Channel, string, error) {
	tok := &HGrpcToken{}
	gr := fgrpc.NewRouter()
	rr, err := freflect.NewRouter(tok)
	if err != nil {
		return nil, "", err
	}
	tproto.RegisterBalanceServiceServer(gr, tok)
	cc, err := core.NewCC(tok, core.WithRouters(rr, gr))
	if err != nil {
		return nil, "", err
	}
	name := strings.ToLower(symbol)
	ch := w.Peer.AddChannel(name, cc)
	res := w.Peer.Init(name, w.Admin.Creator, w.ConfigJSON(symbol, o))
	if !res.OK() {
		return nil, "", fmt.Errorf("init %s: %s", name, res.Message)
	}
	fn := ""
	for m, f := range gr.Handlers() {
		if gr.IsQuery(m) {
			fn = f
		}
	}
	if fn == "" {
		return nil, "", fmt.Errorf("the gRPC service declares no query method")
	}
	return ch, fn, nil
}

// ---- a hand-written service whose request message has no generated validator ----
//
//	syntax = "proto3"; package verif;
//	import "google/protobuf/wrappers.proto";
//	service ScriptService { rpc Run(google.protobuf.StringValue) returns (google.protobuf.StringValue); }
//
// No method options: a batched transaction with authentication (the router's defaults). The descriptor and the
// service description follow what protoc / protoc-gen-go-grpc generate. Run executes the script carried by the
// request against the stub of the call context, like the reflect-routed "script".
const (
	svcScriptService = "verif.ScriptService"
	svcScriptRun     = "/verif.ScriptService/Run"
)

type scriptServer interface {
	Run(context.Context, *wrapperspb.StringValue) (*wrapperspb.StringValue, error)
}

// HSvcToken is the harness token with ScriptService next to the reflect router.
type HSvcToken struct {
	HToken
}

func (t *HSvcToken) Run(ctx context.Context, in *wrapperspb.StringValue) (*wrapperspb.StringValue, error) {
	stub := fgrpc.StubFromContext(ctx)
	if stub == nil {
		return nil, fmt.Errorf("no stub in the call context")
	}
	out, err := runScriptOn(stub, in.GetValue())
	if err != nil {
		return nil, err
	}
	return &wrapperspb.StringValue{Value: out}, nil
}

func scriptRunHandler(srv interface{}, ctx context.Context, dec func(interface{}) error, interceptor grpc.UnaryServerInterceptor) (interface{}, error) {
	in := new(wrapperspb.StringValue)
	if err := dec(in); err != nil {
		return nil, err
	}
	if interceptor == nil {
		return srv.(scriptServer).Run(ctx, in)
	}
	info := &grpc.UnaryServerInfo{Server: srv, FullMethod: svcScriptRun}
	handler := func(ctx context.Context, req interface{}) (interface{}, error) {
		return srv.(scriptServer).Run(ctx, req.(*wrapperspb.StringValue))
	}
	return interceptor(ctx, in, info, handler)
}

var scriptServiceDesc = grpc.ServiceDesc{
	ServiceName: svcScriptService,
	HandlerType: (*scriptServer)(nil),
	Methods:     []grpc.MethodDesc{{MethodName: "Run", Handler: scriptRunHandler}},
	Streams:     []grpc.StreamDesc{},
	Metadata:    "verif_script.proto",
}

func registerScriptDescriptor() error {
	if fgrpc.FindServiceDescriptor(svcScriptService) != nil {
		return nil
	}
	fdp := &descriptorpb.FileDescriptorProto{
		Name: gproto.String("verif_script.proto"), Package: gproto.String("verif"), Syntax: gproto.String("proto3"),
		Dependency: []string{"google/protobuf/wrappers.proto"},
		Service: []*descriptorpb.ServiceDescriptorProto{{Name: gproto.String("ScriptService"),
			Method: []*descriptorpb.MethodDescriptorProto{{Name: gproto.String("Run"),
				InputType: gproto.String(".google.protobuf.StringValue"), OutputType: gproto.String(".google.protobuf.StringValue")}}}},
	}
	fd, err := protodesc.NewFile(fdp, protoregistry.GlobalFiles)
	if err != nil {
		return err
	}
	return protoregistry.GlobalFiles.RegisterFile(fd)
}

// AddSvcToken deploys the token with ScriptService on the channel named after the symbol.
func (w *World) AddSvcToken(symbol string, o ChanOpts) (*Channel, error) {
	if err := registerScriptDescriptor(); err != nil {
		return nil, err
	}
	tok := &HSvcToken{}
	gr := fgrpc.NewRouter()
	rr, err := freflect.NewRouter(tok)
	if err != nil {
		return nil, err
	}
	gr.RegisterService(&scriptServiceDesc, tok)
	cc, err := core.NewCC(tok, core.WithRouters(rr, gr))
	if err != nil {
		return nil, err
	}
	name := strings.ToLower(symbol)
	ch := w.Peer.AddChannel(name, cc)
	res := w.Peer.Init(name, w.Admin.Creator, w.ConfigJSON(symbol, o))
	if !res.OK() {
		return nil, fmt.Errorf("init %s: %s", name, res.Message)
	}
	return ch, nil
}
