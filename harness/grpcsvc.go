package main

import (
	"context"
	"fmt"
	"strings"

	"github.com/anoideaopen/foundation/core"
	fgrpc "github.com/anoideaopen/foundation/core/routing/grpc"
	freflect "github.com/anoideaopen/foundation/core/routing/reflect"
	tproto "github.com/anoideaopen/foundation/test/unit/token/proto"
	"google.golang.org/protobuf/types/known/emptypb"
)

// HGrpcToken is the harness token with the repository's sample gRPC service (test/unit/token/proto:
// BalanceService) registered next to the reflect router. Its HelloWorld method is declared
// METHOD_TYPE_QUERY in the service description; here its body runs a script against the stub, so that a
// query whose kind only the gRPC router knows attempts every mutating stub operation.
type HGrpcToken struct {
	HToken
	tproto.UnimplementedBalanceServiceServer
}

// the request message of HelloWorld is empty: the script and the choice of the stub (the one in the call
// context / the one of the contract) are handed over by the harness
var (
	grpcQueryScript string
	grpcQueryUseCtx bool
)

func (t *HGrpcToken) HelloWorld(ctx context.Context, _ *emptypb.Empty) (*tproto.HelloWorldResponse, error) {
	stub := t.GetStub()
	if grpcQueryUseCtx {
		stub = fgrpc.StubFromContext(ctx)
	}
	out, err := runScriptOn(stub, grpcQueryScript)
	if err != nil {
		return nil, err
	}
	return &tproto.HelloWorldResponse{Message: out}, nil
}

// AddGrpcToken deploys the token with both routers on the channel named after the symbol.
func (w *World) AddGrpcToken(symbol string, o ChanOpts) (*Channel, string, error) {
	tok := &HGrpcToken{}
	gr := fgrpc.NewRouter()
	rr, err := freflect.NewRouter(tok)
	if err != nil {
		return nil, "", err
	}
	tproto.RegisterBalanceServiceServer(gr, tok)
	cc, err := core.NewCC(tok, core.WithRouters(rr, gr))
	if err != nil {
		return nil, "", err
	}
	name := strings.ToLower(symbol)
	ch := w.Peer.AddChannel(name, cc)
	res := w.Peer.Init(name, w.Admin.Creator, w.ConfigJSON(symbol, o))
	if !res.OK() {
		return nil, "", fmt.Errorf("init %s: %s", name, res.Message)
	}
	fn := ""
	for m, f := range gr.Handlers() {
		if gr.IsQuery(m) {
			fn = f
		}
	}
	if fn == "" {
		return nil, "", fmt.Errorf("the gRPC service declares no query method")
	}
	return ch, fn, nil
}
