package main

import (
	"encoding/hex"
	"encoding/json"
	"fmt"
	"math/big"
	"sort"
	"strconv"
	"strings"

	"github.com/anoideaopen/foundation/core"
	"github.com/anoideaopen/foundation/core/balance"
	fpb "github.com/anoideaopen/foundation/proto"
	"github.com/golang/protobuf/proto" //nolint:staticcheck
)

// ---- scripted bodies -------------------------------------------------------------------

type bodyStep struct {
	Op string `json:"op"` // put del get event fail panic
	K  int    `json:"k,omitempty"`
	V  string `json:"v,omitempty"`
}

func bodyScript(b []bodyStep) string {
	var parts []string
	for _, s := range b {
		switch s.Op {
		case "put":
			parts = append(parts, fmt.Sprintf("put,d%d,%s", s.K, s.V))
		case "del":
			parts = append(parts, fmt.Sprintf("del,d%d", s.K))
		case "get":
			parts = append(parts, fmt.Sprintf("get,d%d", s.K))
		case "event":
			parts = append(parts, fmt.Sprintf("event,e%d,%s", s.K, s.V))
		case "fail":
			parts = append(parts, "fail")
		case "panic":
			parts = append(parts, "nilpanic")
		}
	}
	return strings.Join(parts, ";")
}

func bodyTerm(b []bodyStep) string {
	items := make([]string, len(b))
	for i, s := range b {
		switch s.Op {
		case "put":
			items[i] = fmt.Sprintf("SPut (dk %d) %s", s.K, coqStr(s.V))
		case "del":
			items[i] = fmt.Sprintf("SDel (dk %d)", s.K)
		case "get":
			items[i] = fmt.Sprintf("SGet (dk %d)", s.K)
		case "event":
			items[i] = fmt.Sprintf("SEvent %d %s", s.K, coqStr(s.V))
		case "fail":
			items[i] = "SFail"
		case "panic":
			items[i] = "SPanic"
		}
	}
	return coqList(items)
}

func randBody(c *Ctx) []bodyStep {
	rng := c.Rng
	n := rng.Intn(7)
	var b []bodyStep
	for i := 0; i < n; i++ {
		switch r := rng.Intn(100); {
		case r < 35:
			b = append(b, bodyStep{Op: "put", K: rng.Intn(4), V: []string{"x", "y", "zz", ""}[rng.Intn(4)]})
		case r < 50:
			b = append(b, bodyStep{Op: "del", K: rng.Intn(4)})
		case r < 80:
			b = append(b, bodyStep{Op: "get", K: rng.Intn(4)})
		default:
			b = append(b, bodyStep{Op: "event", K: rng.Intn(2), V: []string{"p", "q"}[rng.Intn(2)]})
		}
	}
	switch r := rng.Intn(100); {
	case r < 25:
		b = append(b, bodyStep{Op: "fail"})
	case r < 32:
		b = append(b, bodyStep{Op: "panic"})
	}
	if rng.Intn(6) == 0 && len(b) > 0 { // steps after a failure are never reached
		b = append(b, bodyStep{Op: "put", K: rng.Intn(4), V: "late"})
	}
	return b
}

// ---- projection of the ledger to the model's numbered keys -------------------------------

type batchWorld struct {
	w       *World
	in      *Interner
	senders []*Account
	scripts []string // body table (index = body id)
	bodies  [][]bodyStep
	nonce   uint64
	black   *Account // an account the access-control list reports as black-listed (C05)
}

func newBatchWorld(c *Ctx) (*batchWorld, error) {
	w := NewWorld()
	if _, err := w.AddSvcToken("TT", ChanOpts{}); err != nil {
		return nil, err
	}
	bw := &batchWorld{w: w, nonce: 1700000000000}
	for i := 0; i < 3; i++ {
		bw.senders = append(bw.senders, w.NewAccount(fpb.KeyType_ed25519))
	}
	bw.in = w.Interner()
	return bw, nil
}

func (bw *batchWorld) bodyIndex(b []bodyStep) int {
	s := bodyScript(b)
	for i, x := range bw.scripts {
		if x == s {
			return i
		}
	}
	bw.scripts = append(bw.scripts, s)
	bw.bodies = append(bw.bodies, b)
	return len(bw.scripts) - 1
}

func txNum(hexID string) uint64 {
	n, err := strconv.ParseUint(strings.TrimLeft(hexID, "0"), 16, 64)
	if err != nil {
		return 0
	}
	return n
}

// modelKey maps a ledger key to the model's numbering; ok=false for keys outside the model.
func (bw *batchWorld) modelKey(k string) (uint64, bool) {
	if strings.HasPrefix(k, "d") && len(k) == 2 {
		return 4 * uint64(k[1]-'0'), true
	}
	if k == "" {
		return 3, true
	}
	ot, attrs, ok := splitComposite(k)
	if ok && ot == "batchTransactions" && len(attrs) == 1 {
		return 4*txNum(attrs[0]) + 1, true
	}
	if ok && ot == hex.EncodeToString([]byte{core.StateKeyNonce}) && len(attrs) == 1 {
		return 4*uint64(bw.in.Addr(attrs[0])) + 2, true
	}
	return 0, false
}

func (bw *batchWorld) modelValue(k string, v []byte) string {
	ot, _, ok := splitComposite(k)
	if ok && ot == "batchTransactions" {
		var p fpb.PendingTx
		if err := proto.Unmarshal(v, &p); err != nil {
			return "[999]"
		}
		bi := 998
		if len(p.GetArgs()) > 0 {
			last := p.GetArgs()[len(p.GetArgs())-1]
			if p.GetMethod() == svcScriptRun {
				// the gRPC-routed method carries the script as a JSON string
				var un string
				if json.Unmarshal([]byte(last), &un) == nil {
					last = un
				}
			}
			for i, s := range bw.scripts {
				if s == last {
					bi = i
				}
			}
		}
		s := 0
		if p.GetSender() != nil {
			s = bw.in.Addr((&Account{Addr: p.GetSender().GetAddress()}).AddrString())
		}
		return fmt.Sprintf("[%d; %d; %d]", s, p.GetNonce(), bi)
	}
	if ok && ot == hex.EncodeToString([]byte{core.StateKeyNonce}) {
		var n fpb.Nonce
		_ = proto.Unmarshal(v, &n)
		return coqNList(n.GetNonce())
	}
	return coqBytes(v)
}

func (bw *batchWorld) ledgerTerm() string {
	type kv struct {
		k uint64
		v string
	}
	var items []kv
	for k, v := range bw.w.Peer.Channels["tt"].State {
		if mk, ok := bw.modelKey(k); ok {
			items = append(items, kv{mk, bw.modelValue(k, v)})
		}
	}
	sort.Slice(items, func(i, j int) bool { return items[i].k < items[j].k })
	out := make([]string, len(items))
	for i, it := range items {
		out[i] = fmt.Sprintf("(%d, %s)", it.k, it.v)
	}
	return coqList(out)
}

func (bw *batchWorld) bodiesTerm() string {
	items := make([]string, len(bw.bodies))
	for i, b := range bw.bodies {
		items[i] = bodyTerm(b)
	}
	return coqList(items)
}

func ierrTerm(msg string) (string, string) {
	m := strings.ToLower(msg)
	switch {
	case strings.Contains(m, "not found") && strings.Contains(m, "transaction"):
		return "IErr INotFound", "notfound"
	case strings.Contains(m, "incorrect nonce format"):
		return "IErr (INonce EFormat)", "nonce"
	case strings.Contains(m, "less than"):
		return "IErr (INonce EStale)", "nonce"
	case strings.Contains(m, "already exists"):
		return "IErr (INonce EDup)", "nonce"
	case strings.Contains(m, "script failure"):
		return "IErr IBody", "body"
	case strings.Contains(m, "panic"):
		return "IErr IPanic", "panic"
	}
	return "IErr IOther (* " + strings.ReplaceAll(msg, "*", "x") + " *)", "other"
}

func (bw *batchWorld) resTerms(c *Ctx, out *BatchOut, route string) ([]string, error) {
	if out.Resp == nil {
		return nil, fmt.Errorf("%s failed as a whole: %s", route, out.Res.Message)
	}
	var res []string
	for i, tr := range out.Resp.GetTxResponses() {
		if e := tr.GetError().GetError(); e != "" {
			t, cl := ierrTerm(e)
			res = append(res, t)
			c.Count(route + "_" + cl)
			continue
		}
		var ws []string
		for _, w := range tr.GetWrites() {
			mk, ok := bw.modelKey(w.GetKey())
			if !ok {
				mk = 999999
			}
			ws = append(ws, fmt.Sprintf("(%d, %s, %s)", mk, coqBytes(w.GetValue()), coqBool(w.GetIsDeleted())))
		}
		var evs []string
		gets := "[]"
		if out.Event != nil && i < len(out.Event.GetEvents()) {
			for _, e := range out.Event.GetEvents()[i].GetEvents() {
				evs = append(evs, fmt.Sprintf("(%s, %s)", strings.TrimPrefix(e.GetName(), "e"), coqBytes(e.GetValue())))
			}
			// the body returns its reads as "key=value|key=value" (JSON string)
			var joined string
			if err := json.Unmarshal(out.Event.GetEvents()[i].GetResult(), &joined); err == nil && joined != "" {
				var gl []string
				for _, kvs := range strings.Split(joined, "|") {
					gl = append(gl, coqStr(strings.SplitN(kvs, "=", 2)[1]))
				}
				gets = coqList(gl)
			}
		}
		res = append(res, fmt.Sprintf("IOk %s %s %s", coqList(ws), coqList(evs), gets))
		c.Count(route + "_ok")
	}
	return res, nil
}

func (bw *batchWorld) submit(c *Ctx, sender int, nonce uint64, b []bodyStep, to int) (string, bool) {
	acc := bw.senders[sender]
	script := bodyScript(b)
	bw.bodyIndex(b)
	var args []string
	fn := "script"
	if to == -2 { // sender-less batched method
		res := bw.w.Submit("tt", "plain", []string{script})
		return res.TxID, res.OK()
	}
	if to >= 0 {
		fn = "scriptTo"
		args = bw.w.SignedArgs("tt", fn, acc, strconv.FormatUint(nonce, 10), bw.senders[to].AddrString(), script)
	} else {
		args = bw.w.SignedArgs("tt", fn, acc, strconv.FormatUint(nonce, 10), script)
	}
	res := bw.w.Submit("tt", fn, args)
	return res.TxID, res.OK()
}

func genC04(c *Ctx) error {
	c.ShardSize = 40
	c.Notes["rule"] = "each case: a fresh chaincode with some data keys and nonce windows left by earlier batches; 0-8 scripted transactions (put/delete/read/event steps over 4 keys, 25% failing after having written, 7% panicking) submitted by 3 senders that also name each other as address arguments, then ONE batchExecute listing them in random order with duplicates and unknown ids - or the same requests as ONE executeTasks list. Observed: the reply per listed id (error class or reported writes/events) and the projection of the whole ledger (data, pending and nonce keys). Plus batches and task lists of scripted transactions that report accounting records, several of them equal, against the records the event lists per transaction. Plus batches of 1-5 library operations that announce something in the reply (swapBegin / multiSwapBegin: funded and not, foreign token, own channel; next to transfers): the created swaps and multi-swaps of the reply against the per-transaction verdicts. Non-trivial: at least two items of which one succeeds and one does not."
	n := c.N(300, 6000)
	for i := 0; i < n; i++ {
		if err := c04Case(c, i%2 == 0); err != nil {
			return err
		}
	}
	for i := c.N(40, 800); i > 0; i-- {
		if err := c04Announce(c); err != nil {
			return err
		}
	}
	for i := c.N(40, 800); i > 0; i-- {
		if err := c04Account(c, i%2 == 0); err != nil {
			return err
		}
	}
	return nil
}

// c04Account: one batch (or task list) of 1-4 scripted transactions whose bodies report accounting records, several of
// them equal to one another, some bodies failing afterwards; the accounting records of the event per transaction.
func c04Account(c *Ctx, batchRoute bool) error {
	rng := c.Rng
	w := NewWorld()
	if _, err := w.AddToken("TT", ChanOpts{}); err != nil {
		return err
	}
	u := w.NewAccount(fpb.KeyType_ed25519)
	nonce := uint64(1700000000000)
	type item struct {
		amts []string
		fail bool
		args []string
		id   string
	}
	var items []item
	for k := 1 + rng.Intn(4); k > 0; k-- {
		it := item{fail: rng.Intn(4) == 0}
		var steps []string
		for j := rng.Intn(5); j > 0; j-- {
			a := []string{"5", "5", "5", "3", "10", "0"}[rng.Intn(6)]
			it.amts = append(it.amts, a)
			steps = append(steps, "acct,"+a)
			if rng.Intn(3) == 0 {
				steps = append(steps, fmt.Sprintf("put,d%d,x", rng.Intn(4)))
			}
		}
		if it.fail {
			steps = append(steps, "fail")
		}
		nonce++
		it.args = w.SignedArgs("tt", "script", u, strconv.FormatUint(nonce, 10), strings.Join(steps, ";"))
		items = append(items, it)
	}
	var out *BatchOut
	if batchRoute {
		var ids []string
		for i := range items {
			res := w.Submit("tt", "script", items[i].args)
			if !res.OK() {
				return fmt.Errorf("c04Account: submission refused: %s", res.Message)
			}
			ids = append(ids, res.TxID)
		}
		out = w.ExecBatchIDs("tt", ids...)
	} else {
		var tasks []*fpb.Task
		for i := range items {
			tasks = append(tasks, &fpb.Task{Id: w.Peer.NextTxID(), Method: "script", Args: items[i].args})
		}
		out = w.ExecTasks("tt", w.Robot.Creator, tasks)
	}
	if out.Resp == nil || out.Event == nil || len(out.Resp.GetTxResponses()) != len(items) || len(out.Event.GetEvents()) != len(items) {
		return fmt.Errorf("c04Account: request failed as a whole: %s", out.Res.Message)
	}
	var listed []string
	for i, it := range items {
		ok := out.Resp.GetTxResponses()[i].GetError().GetError() == ""
		var rep []string
		for _, a := range out.Event.GetEvents()[i].GetAccounting() {
			rep = append(rep, new(big.Int).SetBytes(a.GetAmount()).String())
		}
		listed = append(listed, fmt.Sprintf("(%s, %s, %s)", coqBool(ok), coqList(it.amts), coqList(rep)))
		c.Count(fmt.Sprintf("accounting_tx_ok_%v", ok))
	}
	c.Emit("CAccount "+coqList(listed), map[string]interface{}{"accounting_batch_route": batchRoute, "listed": listed}, len(items) > 1)
	return nil
}

// c04Announce: one batch of 1-5 library operations that announce something in the batch reply - swapBegin and
// multiSwapBegin, funded and not, with a token that is neither side of the swap, towards the own channel - next to plain
// transfers; the reply must announce exactly what the successful ones produced.
func c04Announce(c *Ctx) error {
	rng := c.Rng
	w := NewWorld()
	if _, err := w.AddToken("TT", ChanOpts{}); err != nil {
		return err
	}
	u := w.NewAccount(fpb.KeyType_ed25519)
	v := w.NewAccount(fpb.KeyType_ed25519)
	w.SetBalance("tt", balance.BalanceTypeToken, u.AddrString(), "", big.NewInt(100))
	w.SetBalance("tt", balance.BalanceTypeToken, u.AddrString(), "G1", big.NewInt(100))
	nonce := uint64(1700000000000)
	type sub struct {
		id    string
		multi bool
		swap  bool
	}
	var subs []sub
	for k := 1 + rng.Intn(5); k > 0; k-- {
		nonce++
		amt := []string{"10", "60", "100", "101", "500", "0"}[rng.Intn(6)]
		tok := []string{"TT", "TT", "TT", "XX", "VT"}[rng.Intn(5)]
		to := []string{"VT", "VT", "VT", "TT"}[rng.Intn(4)]
		var res *TxResult
		s := sub{}
		switch rng.Intn(5) {
		case 0, 1:
			s.swap = true
			res = w.Submit("tt", "swapBegin", w.SignedArgs("tt", "swapBegin", u, strconv.FormatUint(nonce, 10), tok, to, amt, hex.EncodeToString(swHash("k"))))
		case 2, 3:
			s.swap, s.multi = true, true
			assets := fmt.Sprintf(`{"assets":[{"group":"%s_G1","amount":"%s"},{"group":"%s_G1","amount":"%s"}]}`, tok, amt, tok, []string{"1", "70"}[rng.Intn(2)])
			res = w.Submit("tt", "multiSwapBegin", w.SignedArgs("tt", "multiSwapBegin", u, strconv.FormatUint(nonce, 10), tok, assets, to, hex.EncodeToString(swHash("k"))))
		default:
			res = w.Submit("tt", "transfer", w.SignedArgs("tt", "transfer", u, strconv.FormatUint(nonce, 10), v.AddrString(), amt, "ref"))
		}
		if res.OK() {
			s.id = res.TxID
			subs = append(subs, s)
		} else {
			c.Count("announce_submission_refused")
		}
	}
	var ids []string
	for _, s := range subs {
		ids = append(ids, s.id)
	}
	if len(ids) == 0 {
		return nil
	}
	out := w.ExecBatchIDs("tt", ids...)
	if out.Resp == nil || len(out.Resp.GetTxResponses()) != len(ids) {
		return fmt.Errorf("c04Announce: batch failed: %s", out.Res.Message)
	}
	num := map[string]int{}
	var listed []string
	okAny, badAny := false, false
	for i, s := range subs {
		num[s.id] = i + 1
		ok := out.Resp.GetTxResponses()[i].GetError().GetError() == ""
		if s.swap {
			listed = append(listed, fmt.Sprintf("(%d, %s, %s)", i+1, coqBool(s.multi), coqBool(ok)))
			okAny, badAny = okAny || ok, badAny || !ok
			c.Count(fmt.Sprintf("announce_begin_multi_%v_ok_%v", s.multi, ok))
		}
	}
	ann := func(idsB [][]byte) string {
		var l []string
		for _, b := range idsB {
			n, found := num[hex.EncodeToString(b)]
			if !found {
				n = 999
			}
			l = append(l, strconv.Itoa(n))
		}
		return coqList(l)
	}
	var sw, ms [][]byte
	for _, x := range out.Resp.GetCreatedSwaps() {
		sw = append(sw, x.GetId())
	}
	for _, x := range out.Resp.GetCreatedMultiSwap() {
		ms = append(ms, x.GetId())
	}
	c.Emit(fmt.Sprintf("CAnnounce %s %s %s", coqList(listed), ann(sw), ann(ms)), map[string]interface{}{"batch_of_library_operations": len(ids), "listed_begins": listed}, okAny && badAny)
	return nil
}

func c04Case(c *Ctx, batchRoute bool) error {
	rng := c.Rng
	bw, err := newBatchWorld(c)
	if err != nil {
		return err
	}
	w := bw.w
	// a warm-up batch leaves data and nonce windows in the ledger
	for k := rng.Intn(3); k > 0; k-- {
		bw.nonce += 10
		id, ok := bw.submit(c, rng.Intn(3), bw.nonce, []bodyStep{{Op: "put", K: rng.Intn(4), V: "w"}}, -1)
		if ok {
			w.ExecBatchIDs("tt", id)
		}
	}
	k := rng.Intn(9)
	type item struct {
		sender int
		nonce  uint64
		body   []bodyStep
		to     int
	}
	var items []item
	for j := 0; j < k; j++ {
		bw.nonce += uint64(rng.Intn(3)) // occasional duplicate nonces
		it := item{sender: rng.Intn(3), nonce: bw.nonce, body: randBody(c), to: -1}
		if rng.Intn(3) == 0 {
			it.to = rng.Intn(3)
		}
		if batchRoute && rng.Intn(6) == 0 {
			it.to = -2 // not signed: a batched method without a sender
		}
		if rng.Intn(15) == 0 {
			it.nonce = 999999999999
		}
		items = append(items, it)
	}
	var term string
	ok, failed := 0, 0
	if batchRoute {
		var ids []string
		for _, it := range items {
			id, accepted := bw.submit(c, it.sender, it.nonce, it.body, it.to)
			if accepted {
				ids = append(ids, id)
			}
		}
		// listing: shuffle, duplicates, unknown ids
		rng.Shuffle(len(ids), func(a, b int) { ids[a], ids[b] = ids[b], ids[a] })
		if len(ids) > 0 && rng.Intn(3) == 0 {
			ids = append(ids, ids[rng.Intn(len(ids))])
		}
		if rng.Intn(3) == 0 {
			pos := rng.Intn(len(ids) + 1)
			unknown := fmt.Sprintf("%064x", 5000+rng.Intn(5))
			ids = append(ids[:pos], append([]string{unknown}, ids[pos:]...)...)
		}
		l0 := bw.ledgerTerm()
		out := w.ExecBatchIDs("tt", ids...)
		res, err := bw.resTerms(c, out, "batch")
		if err != nil {
			return err
		}
		idn := make([]string, len(ids))
		for i, id := range ids {
			idn[i] = strconv.FormatUint(txNum(id), 10)
		}
		for _, r := range res {
			if strings.HasPrefix(r, "IOk") {
				ok++
			} else {
				failed++
			}
		}
		term = fmt.Sprintf("CBatch %s %s %s %s %s", bw.bodiesTerm(), l0, coqList(idn), coqList(res), bw.ledgerTerm())
	} else {
		var tasks []*fpb.Task
		var ts []string
		for _, it := range items {
			acc := bw.senders[it.sender]
			script := bodyScript(it.body)
			bi := bw.bodyIndex(it.body)
			var args []string
			fn := "script"
			if it.to >= 0 {
				fn = "scriptTo"
				args = w.SignedArgs("tt", fn, acc, strconv.FormatUint(it.nonce, 10), bw.senders[it.to].AddrString(), script)
			} else {
				// a third of the tasks whose body reads nothing call the same body as a method executed without batching
				// (NBTx, no result value): as a task it is executed - and reported - like any other
				hasGet := false
				for _, st := range it.body {
					hasGet = hasGet || st.Op == "get"
				}
				if !hasGet && c.Rng.Intn(3) == 0 {
					fn = "nbScript"
					c.Count("task_of_nonbatched_method")
				}
				args = w.SignedArgs("tt", fn, acc, strconv.FormatUint(it.nonce, 10), script)
			}
			tasks = append(tasks, &fpb.Task{Id: w.Peer.NextTxID(), Method: fn, Args: args})
			ts = append(ts, fmt.Sprintf("Task %d %d %d", acc.N(), it.nonce, bi))
		}
		if len(tasks) == 0 {
			return nil // executeTasks refuses an empty list (not a subject of C04)
		}
		l0 := bw.ledgerTerm()
		out := w.ExecTasks("tt", w.Robot.Creator, tasks)
		res, err := bw.resTerms(c, out, "task")
		if err != nil {
			// the whole list failed: report as one observation per task so that the case is a
			// disagreement with the model (and a property failure) rather than a harness error
			res = nil
			for range tasks {
				res = append(res, "IErr IOther (* "+strings.ReplaceAll(err.Error(), "*", "x")+" *)")
			}
			c.Count("task_list_failed_as_a_whole")
		}
		for _, r := range res {
			if strings.HasPrefix(r, "IOk") {
				ok++
			} else {
				failed++
			}
		}
		term = fmt.Sprintf("CTasks %s %s %s %s %s", bw.bodiesTerm(), l0, coqList(ts), coqList(res), bw.ledgerTerm())
	}
	desc := map[string]interface{}{"route": map[bool]string{true: "batch", false: "tasks"}[batchRoute], "items": len(items), "scripts": bw.scripts}
	c.Emit(term, desc, ok >= 1 && failed >= 1)
	return nil
}

func init() { props["C04"] = genC04 }
