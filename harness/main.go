// Command harness drives the real code of /repo on generated cases and writes them,
// with the observed behaviour, as Coq terms (cases_*.v) for the in-Coq correspondence
// check.  One generator per property, registered in props.
package main

import (
	"flag"
	"fmt"
	"os"
	"sort"
)

type genFunc func(c *Ctx) error

var props = map[string]genFunc{}

func main() {
	if len(os.Args) > 1 && os.Args[1] == "-c14child" {
		os.Exit(c14Child(os.Args[2:]))
	}
	prop := flag.String("prop", "", "property id (C01..C20)")
	tier := flag.String("tier", "quick", "quick|thorough")
	seed := flag.Int64("seed", 1, "PRNG seed")
	out := flag.String("out", "", "output directory")
	scale := flag.Int("scale", 1, "multiply random case budgets (violation search)")
	list := flag.Bool("list", false, "list properties")
	flag.Parse()
	if *list {
		var ids []string
		for k := range props {
			ids = append(ids, k)
		}
		sort.Strings(ids)
		for _, k := range ids {
			fmt.Println(k)
		}
		return
	}
	g, ok := props[*prop]
	if !ok {
		fmt.Fprintf(os.Stderr, "unknown property %q\n", *prop)
		os.Exit(2)
	}
	c := NewCtx(*prop, *tier, *seed, *out, *scale)
	if err := g(c); err != nil {
		fmt.Fprintf(os.Stderr, "harness error: %v\n", err)
		os.Exit(3)
	}
	if err := c.Finish(); err != nil {
		fmt.Fprintf(os.Stderr, "harness error: %v\n", err)
		os.Exit(3)
	}
}
