package main

import (
	"runtime"
	"encoding/json"
	"encoding/hex"
	"fmt"
	"math/big"
	"sort"
	"strconv"
	"strings"
	"sync"

	"github.com/anoideaopen/foundation/core/balance"
	fpb "github.com/anoideaopen/foundation/proto"
	"github.com/anoideaopen/foundation/token"
	"github.com/golang/protobuf/proto" //nolint:staticcheck
)

// C17: 2-3 invocations on ONE chaincode instance, each in its own goroutine and simulated
// transaction; a context switch is forced before every point where a body re-obtains its context.

type c17Inv struct {
	kind    string // immediate | batch | swapdone
	tags    []string
	uses    []int // per tag
	creator []byte
	args    [][]byte
	txID    string
	tagNum  []int
}

func (iv *c17Inv) keys() []int {
	var ks []int
	for i := range iv.tags {
		for j := 0; j < iv.uses[i]; j++ {
			ks = append(ks, iv.tagNum[i]*100+j)
		}
	}
	return ks
}

// curGoid: the id of the calling goroutine (from the first line of its stack trace, as the library reads it)
func curGoid() int64 {
	buf := make([]byte, 64)
	buf = buf[:runtime.Stack(buf, false)]
	f := strings.Fields(string(buf))
	if len(f) < 2 {
		return -1
	}
	n, err := strconv.ParseInt(f[1], 10, 64)
	if err != nil {
		return -1
	}
	return n
}

func genC17(c *Ctx) error {
	c.ShardSize = 150
	c.Notes["rule"] = "one token chaincode instance; 2-3 invocations, each on its own goroutine with its own simulated transaction: an immediate method (also behind an argument whose decoding is a switch point of its own), a query with the same body (it reports in whose transaction it finds itself at every step), batchExecute with one or two pending transactions, executeTasks with one or two tasks, swapDone whose completion listener runs with the context swapDone installed; every body re-obtains its context (GetStub) 1-3 times, reads its own previous write and writes a key, and is parked before each of these points; a scheduler releases the parked invocations in a random order (all interleavings of the switch points are reachable, nested and overlapping lifetimes). Observed per invocation: status, payload, complete write-set, event - compared with the same proposal run alone over the same committed state - and the keys that landed in its write-set. In half of the cases a newly started invocation runs on a goroutine whose id shares its low 12 bits with a parked one's. One case in three also has an invocation that panics inside its method while others are parked. Half of the instances have served a few refused requests (failing method, undecodable argument, failing task) before. Non-trivial: the lifetimes of at least two invocations overlap."
	n := c.N(150, 3000)
	for i := 0; i < n; i++ {
		if i == n/2 {
			// a chaincode process lives long: goroutine ids are never reused and grow without bound.
			// The second half of the cases runs in an "old" process (ids beyond one million).
			var wg sync.WaitGroup
			for k := 0; k < 1000200; k++ {
				wg.Add(1)
				go wg.Done()
				if k%4096 == 0 {
					wg.Wait()
				}
			}
			wg.Wait()
			c.Count("process_aged_past_1e6_goroutines")
		}
		if i%5 == 4 {
			if err := c17Meta(c); err != nil {
				return err
			}
			continue
		}
		if err := c17Case(c); err != nil {
			return err
		}
	}
	return nil
}

// c17Meta: two or three metadata operations of the token (each sets one setting) on one instance,
// switched at the point where the metadata has been loaded into the contract object (hook).
func c17Meta(c *Ctx) error {
	rng := c.Rng
	w := NewWorld()
	if _, err := w.AddToken("TT", ChanOpts{}); err != nil {
		return err
	}
	fa := w.NewAccount(fpb.KeyType_ed25519)
	nonce := uint64(1700000000000)
	type mop struct {
		bit  int
		acc  *Account
		fn   string
		args []string
	}
	menu := []mop{{2, w.Issuer, "setRate", []string{"buyToken", "CURA", "5"}}, {3, w.FeeSet, "setFeeAddress", []string{fa.AddrString()}}, {4, w.Issuer, "setRate", []string{"buyBack", "CURB", "7"}}}
	rng.Shuffle(len(menu), func(a, b int) { menu[a], menu[b] = menu[b], menu[a] })
	ops := menu[:2+rng.Intn(2)]
	type inv struct {
		args [][]byte
		txID string
	}
	invs := make([]inv, len(ops))
	for i, o := range ops {
		nonce++
		req := w.SignedArgs("tt", o.fn, o.acc, strconv.FormatUint(nonce, 10), o.args...)
		data, _ := proto.Marshal(&fpb.ExecuteTasksRequest{Tasks: []*fpb.Task{{Id: w.Peer.NextTxID(), Method: o.fn, Args: req}}})
		invs[i] = inv{strArgs("executeTasks", []string{string(data)}), w.Peer.NextTxID()}
	}
	seenBits := func(res *TxResult) []int {
		var bits []int
		for _, wr := range res.Writes {
			if wr.Key != "tokenMetadata" {
				continue
			}
			var m fpb.Token
			if proto.Unmarshal(wr.Value, &m) != nil {
				continue
			}
			for _, r := range m.GetRates() {
				if r.GetCurrency() == "CURA" {
					bits = append(bits, 2)
				}
				if r.GetCurrency() == "CURB" {
					bits = append(bits, 4)
				}
			}
			if len(m.GetFeeAddress()) > 0 {
				bits = append(bits, 3)
			}
		}
		sort.Ints(bits)
		return bits
	}
	token.VerifAfterLoad = nil
	solo := make([]uint64, len(invs))
	for i, iv := range invs {
		res, _ := w.Peer.Simulate("tt", iv.txID, w.Robot.Creator, false, iv.args)
		solo[i] = resDigest(res)
	}
	arrive := make(chan int)
	release := make([]chan struct{}, len(invs))
	for i := range release {
		release[i] = make(chan struct{})
	}
	current := -1
	token.VerifAfterLoad = func() {
		i := current
		arrive <- i
		<-release[i]
	}
	defer func() { token.VerifAfterLoad = nil }()
	type doneMsg struct {
		i   int
		res *TxResult
	}
	done := make(chan doneMsg)
	results := make([]*TxResult, len(invs))
	state := make([]int, len(invs))
	loads := make([]int, len(invs))
	var schedule []string
	settle := func(i int) {
		select {
		case j := <-arrive:
			if j != i {
				panic("switch point of another invocation")
			}
			state[i] = 1
			loads[i]++
		case d := <-done:
			results[d.i], state[d.i] = d.res, 2
		}
	}
	overlap := false
	for {
		var cand []int
		for i := range invs {
			if state[i] != 2 {
				cand = append(cand, i)
			}
		}
		if len(cand) == 0 {
			break
		}
		i := cand[rng.Intn(len(cand))]
		for j := range invs {
			if j != i && state[j] == 1 {
				overlap = true
			}
		}
		current = i
		if state[i] == 0 {
			go func(i int) {
				res, _ := w.Peer.Simulate("tt", invs[i].txID, w.Robot.Creator, false, invs[i].args)
				done <- doneMsg{i, res}
			}(i)
			schedule = append(schedule, strconv.Itoa(i)) // MLoad
			settle(i)
			continue
		}
		release[i] <- struct{}{}
		settle(i)
		if state[i] == 2 {
			schedule = append(schedule, strconv.Itoa(i), strconv.Itoa(i)) // MMut, MSave
		} else {
			return fmt.Errorf("a metadata operation loaded the metadata %d times; the model assumes once", loads[i])
		}
	}
	var bits, obs []string
	leaked := false
	for i, o := range ops {
		bits = append(bits, strconv.Itoa(o.bit))
		sb := seenBits(results[i])
		var sk []string
		for _, b := range sb {
			sk = append(sk, strconv.Itoa(b))
		}
		if len(sb) != 1 {
			leaked = true
		}
		obs = append(obs, fmt.Sprintf("(%s, %d, %d)", coqList(sk), resDigest(results[i]), solo[i]))
	}
	term := fmt.Sprintf("MCase %s %s %s", coqList(bits), "["+strings.Join(schedule, "; ")+"]%nat", coqList(obs))
	desc := map[string]interface{}{"kind": "metadata", "ops": len(ops), "schedule": schedule, "overlap": overlap}
	if overlap {
		desc["classes"] = []string{"shared_metadata_object"}
		c.Count("meta_overlapping")
	}
	if leaked {
		c.Count("meta_leaked")
	}
	c.Emit(term, desc, overlap)
	c.Count("meta_case")
	return nil
}

func c17Case(c *Ctx) error {
	rng := c.Rng
	w := NewWorld()
	if _, err := w.AddToken("TT", ChanOpts{}); err != nil {
		return err
	}
	acc := w.NewAccount(fpb.KeyType_ed25519)
	w.SetBalance("tt", balance.BalanceTypeToken, acc.AddrString(), "", big.NewInt(1000))
	nonce := uint64(1700000000000)
	if rng.Intn(2) == 0 {
		// the instance has already served requests, some refused (a method that fails, an argument that does not
		// decode, an unknown method, a failing task): none of them is in flight any more
		for k := 1 + rng.Intn(3); k > 0; k-- {
			switch rng.Intn(4) {
			case 0:
				w.Peer.Invoke("tt", w.Client.Creator, "balanceOf", "not an address")
			case 1:
				w.Peer.Invoke("tt", w.Client.Creator, "qScript", "fail,earlier")
			case 2:
				w.Peer.Invoke("tt", w.Client.Creator, "allowedBalanceOf", acc.AddrString())
			default:
				nonce++
				req := w.SignedArgs("tt", "script", acc, strconv.FormatUint(nonce, 10), "fail,earlier")
				w.ExecTasks("tt", w.Robot.Creator, []*fpb.Task{{Id: w.Peer.NextTxID(), Method: "script", Args: req}})
			}
		}
		c.Count("instance_served_refused_requests_before")
	}
	nInv := 2 + rng.Intn(2)
	var invs []*c17Inv
	tagSeq := 0
	newTag := func() (string, int) { tagSeq++; return fmt.Sprintf("t%d", tagSeq), tagSeq }
	swapUsed := false
	if rng.Intn(4) == 0 {
		// two invocations of the SAME method, each parking while its argument is decoded
		for j := 0; j < 2; j++ {
			tag, tn := newTag()
			u := 1 + rng.Intn(2)
			invs = append(invs, &c17Inv{kind: "immediate_arg", tags: []string{tag}, uses: []int{u}, tagNum: []int{tn}, creator: w.Client.Creator,
				args: strArgs("ga", []string{tag, tag, strconv.Itoa(u)}), txID: w.Peer.NextTxID()})
		}
	}
	for len(invs) < nInv {
		switch k := rng.Intn(10); {
		case k < 2:
			// a query with the same body: what it writes goes nowhere, so "its keys" are the steps at which it found itself
			// in its own transaction (the body reports the transaction id it sees at every step)
			tag, tn := newTag()
			u := 1 + rng.Intn(3)
			invs = append(invs, &c17Inv{kind: "query", tags: []string{tag}, uses: []int{u}, tagNum: []int{tn}, creator: w.Client.Creator,
				args: strArgs("gq", []string{tag, strconv.Itoa(u)}), txID: w.Peer.NextTxID()})
		case k < 4:
			tag, tn := newTag()
			u := 1 + rng.Intn(3)
			if rng.Intn(2) == 0 {
				// the same through a method one of whose arguments parks while it is decoded: a switch point between the
				// conversion of the arguments and the call
				invs = append(invs, &c17Inv{kind: "immediate_arg", tags: []string{tag}, uses: []int{u}, tagNum: []int{tn}, creator: w.Client.Creator,
					args: strArgs("ga", []string{tag, tag, strconv.Itoa(u)}), txID: w.Peer.NextTxID()})
				break
			}
			invs = append(invs, &c17Inv{kind: "immediate", tags: []string{tag}, uses: []int{u}, tagNum: []int{tn}, creator: w.Client.Creator,
				args: strArgs("gp", []string{tag, strconv.Itoa(u)}), txID: w.Peer.NextTxID()})
		case k < 6:
			// one executeTasks request carrying one or two gated tasks
			iv := &c17Inv{kind: "tasks", creator: w.Robot.Creator, txID: w.Peer.NextTxID()}
			var tasks []*fpb.Task
			for m := 1 + rng.Intn(2); m > 0; m-- {
				tag, tn := newTag()
				u := 1 + rng.Intn(2)
				nonce++
				req := w.SignedArgs("tt", "gated", acc, strconv.FormatUint(nonce, 10), tag, strconv.Itoa(u))
				tasks = append(tasks, &fpb.Task{Id: w.Peer.NextTxID(), Method: "gated", Args: req})
				iv.tags, iv.uses, iv.tagNum = append(iv.tags, tag), append(iv.uses, u), append(iv.tagNum, tn)
			}
			data, _ := proto.Marshal(&fpb.ExecuteTasksRequest{Tasks: tasks})
			iv.args = strArgs("executeTasks", []string{string(data)})
			invs = append(invs, iv)
		case k < 8:
			iv := &c17Inv{kind: "batch", creator: w.Robot.Creator, txID: w.Peer.NextTxID()}
			b := &fpb.Batch{}
			for m := 1 + rng.Intn(2); m > 0; m-- {
				tag, tn := newTag()
				u := 1 + rng.Intn(2)
				nonce++
				req := w.SignedArgs("tt", "gated", acc, strconv.FormatUint(nonce, 10), tag, strconv.Itoa(u))
				sub := w.Submit("tt", "gated", req)
				if !sub.OK() {
					return fmt.Errorf("submit: %s", sub.Message)
				}
				raw, _ := hex.DecodeString(sub.TxID)
				b.TxIDs = append(b.TxIDs, raw)
				iv.tags, iv.uses, iv.tagNum = append(iv.tags, tag), append(iv.uses, u), append(iv.tagNum, tn)
			}
			data, _ := proto.Marshal(b)
			iv.args = strArgs("batchExecute", []string{string(data)})
			invs = append(invs, iv)
		default:
			if swapUsed {
				continue
			}
			swapUsed = true
			// an answered copy of a swap from VT, to be completed here
			id := []byte{0xa1, byte(len(invs))}
			out := w.ExecBatch("tt", &fpb.Batch{Swaps: []*fpb.Swap{{Id: id, Creator: acc.Addr, Owner: acc.Addr, Token: "VT", Amount: big.NewInt(5).Bytes(), From: "VT", To: "TT", Hash: swHash("k1"), Timeout: 1}}})
			if out.Resp == nil || len(out.Resp.GetSwapResponses()) != 1 || out.Resp.GetSwapResponses()[0].GetError() != nil {
				return fmt.Errorf("swap answer failed")
			}
			tagSeq++
			invs = append(invs, &c17Inv{kind: "swapdone", tags: []string{"swVT"}, uses: []int{2}, tagNum: []int{tagSeq}, creator: w.Client.Creator,
				args: strArgs("swapDone", []string{hex.EncodeToString(id), "k1"}), txID: w.Peer.NextTxID()})
		}
	}
	// alone, one after the other, nothing committed
	gateHub = nil
	solo := make([]uint64, len(invs))
	hubForSolo := &GateHub{arrive: make(chan string, 64), release: map[string]chan struct{}{}}
	_ = hubForSolo
	runSolo := func(iv *c17Inv) *TxResult {
		// the swap-done listener is active only with a hub: give it one that never blocks
		h := &GateHub{arrive: make(chan string, 1024), release: map[string]chan struct{}{}}
		for _, t := range iv.tags {
			ch := make(chan struct{})
			close(ch)
			h.release[t] = ch
			h.release["arg:"+t] = ch
		}
		gateHub = h
		res, _ := w.Peer.Simulate("tt", iv.txID, iv.creator, false, iv.args)
		gateHub = nil
		return res
	}
	for i, iv := range invs {
		solo[i] = resDigest(runSolo(iv))
	}
	// concurrently, under the scheduler
	hub := &GateHub{arrive: make(chan string), release: map[string]chan struct{}{}}
	tagOwner := map[string]int{}
	for i, iv := range invs {
		for _, t := range iv.tags {
			hub.release[t] = make(chan struct{})
			tagOwner[t] = i
			hub.release["arg:"+t] = make(chan struct{})
			tagOwner["arg:"+t] = i
		}
	}
	gateHub = hub
	type doneMsg struct {
		i   int
		res *TxResult
	}
	done := make(chan doneMsg)
	results := make([]*TxResult, len(invs))
	state := make([]int, len(invs)) // 0 not started, 1 parked, 2 finished
	parkedTag := make([]string, len(invs))
	usesLeft := make([]int, len(invs))
	for i, iv := range invs {
		for _, u := range iv.uses {
			usesLeft[i] += u
		}
	}
	var schedule []string
	crossed := map[int]bool{}
	// wait until invocation i parks or finishes
	settle := func(i int) {
		select {
		case tag := <-hub.arrive:
			if tagOwner[tag] != i {
				// invocation i turns up at a gate of ANOTHER invocation: it is running with that one's data. The schedule ends
				// here: every gate is opened, everything runs to its end, and the case is recorded as it is (invocation i did
				// not end as it would alone).
				crossed[i] = true
				go func() {
					for range hub.arrive {
					}
				}()
				for _, ch := range hub.release {
					close(ch)
				}
				pending := 0
				for n, iv := range invs {
					if state[n] == 0 { // not started yet: it runs now, with every gate open
						go func(n int, iv *c17Inv) {
							res, _ := w.Peer.Simulate("tt", iv.txID, iv.creator, false, iv.args)
							done <- doneMsg{n, res}
						}(n, iv)
					}
					if state[n] != 2 {
						pending++
					}
				}
				for ; pending > 0; pending-- {
					d := <-done
					results[d.i] = d.res
					state[d.i] = 2
				}
				return
			}
			state[i], parkedTag[i] = 1, tag
		case d := <-done:
			results[d.i] = d.res
			state[d.i] = 2
		}
	}
	overlap := 0
	collide := rng.Intn(2) == 0
	goids := make([]int64, len(invs))
	for j := range goids {
		goids[j] = -1
	}
	boom := rng.Intn(3) == 0
	for {
		var cand []int
		for i := range invs {
			if state[i] != 2 {
				cand = append(cand, i)
			}
		}
		if len(cand) == 0 {
			break
		}
		i := cand[rng.Intn(len(cand))]
		live := 0
		for j := range invs {
			if state[j] == 1 {
				live++
			}
		}
		if live >= 2 {
			overlap++
		}
		if boom && live >= 1 && rng.Intn(3) == 0 {
			// while others are parked in mid-body, an invocation of its own (not one of the scheduled ones) runs from start
			// to end on this goroutine and panics inside its method: it is answered "panic", and is nobody else's business
			boom = false
			r, _ := w.Peer.Simulate("tt", w.Peer.NextTxID(), w.Client.Creator, false, strArgs([]string{"qScript", "nbPanic"}[rng.Intn(2)], []string{"nilpanic"}))
			c.Count(fmt.Sprintf("panicking_invocation_next_to_parked_ones_status_%d", r.Status))
		}
		if state[i] == 0 {
			iv := invs[i]
			// in half of the cases a new invocation runs on a goroutine whose id has the same low 12 bits as the id of one
			// that is parked right now (goroutines are started and dropped until such an id comes up): two ids are two
			// invocations, however alike they look
			want := int64(-1)
			if collide {
				for j := range invs {
					if state[j] == 1 && goids[j] >= 0 {
						want = goids[j]
					}
				}
			}
			for {
				okc := make(chan bool)
				go func(i int) {
					g := curGoid()
					if want >= 0 && g%4096 != want%4096 {
						okc <- false
						return
					}
					goids[i] = g
					okc <- true
					res, _ := w.Peer.Simulate("tt", iv.txID, iv.creator, false, iv.args)
					done <- doneMsg{i, res}
				}(i)
				if <-okc {
					break
				}
			}
			if want >= 0 {
				c.Count("invocation_on_a_goroutine_with_the_low_id_bits_of_a_parked_one")
			}
			schedule = append(schedule, strconv.Itoa(i)) // ISet (runs up to the first switch point)
			settle(i)
			continue
		}
		if strings.HasPrefix(parkedTag[i], "arg:") {
			// parked in the decoding of an argument: released, it runs up to the first switch point of the body (no use yet)
			hub.release[parkedTag[i]] <- struct{}{}
			settle(i)
			if state[i] == 2 {
				schedule = append(schedule, strconv.Itoa(i)) // ended without reaching the body: IDel
			}
			continue
		}
		// release the parked invocation: one use, then up to the next switch point or to the end
		hub.release[parkedTag[i]] <- struct{}{}
		schedule = append(schedule, strconv.Itoa(i))
		usesLeft[i]--
		settle(i)
		if state[i] == 2 {
			schedule = append(schedule, strconv.Itoa(i)) // IDel
		}
	}
	gateHub = nil
	var ths, obs []string
	for i, iv := range invs {
		var ks []string
		for _, k := range iv.keys() {
			ks = append(ks, strconv.Itoa(k))
		}
		ths = append(ths, fmt.Sprintf("(%d, %d, %s)", 100+i, 1000+i, coqList(ks)))
		res := results[i]
		var seen []int
		for _, wr := range res.Writes {
			if strings.HasPrefix(wr.Key, "c17_") {
				parts := strings.Split(wr.Key, "_")
				j, _ := strconv.Atoi(parts[2])
				tn := -1
				for _, other := range invs {
					for x, t := range other.tags {
						if t == parts[1] {
							tn = other.tagNum[x]
						}
					}
				}
				seen = append(seen, tn*100+j)
			}
		}
		if iv.kind == "query" {
			var payload string
			if err := json.Unmarshal(res.Payload, &payload); err == nil {
				if a, b := strings.Index(payload, "["), strings.LastIndex(payload, "]"); a >= 0 && b > a {
					for j, step := range strings.Split(payload[a+1:b], ",") {
						if strings.HasSuffix(step, "@"+iv.txID) {
							seen = append(seen, iv.tagNum[0]*100+j)
						}
					}
				}
			}
		}
		sort.Ints(seen)
		var sk []string
		for _, k := range seen {
			sk = append(sk, strconv.Itoa(k))
		}
		ok := res.OK() && !crossed[i]
		if iv.kind == "tasks" && ok {
			out := decodeBatchOut(res, "executeTasks")
			for _, r := range out.Resp.GetTxResponses() {
				ok = ok && r.GetError() == nil
			}
		}
		if iv.kind == "batch" && ok {
			out := decodeBatchOut(res, "batchExecute")
			for _, r := range out.Resp.GetTxResponses() {
				ok = ok && r.GetError() == nil
			}
		}
		obs = append(obs, fmt.Sprintf("(%s, %s, %d, %d)", coqList(sk), coqBool(ok), resDigest(res), solo[i]))
		c.Count("inv_" + iv.kind)
	}
	term := fmt.Sprintf("CCase %s %s %s", coqList(ths), "["+strings.Join(schedule, "; ")+"]%nat", coqList(obs))
	c.Emit(term, map[string]interface{}{"invocations": len(invs), "schedule": schedule}, overlap > 0)
	return nil
}

func init() { props["C17"] = genC17 }
