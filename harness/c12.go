package main

import (
	"errors"
	"fmt"
	"sort"

	"github.com/anoideaopen/foundation/core/cachestub"
	"github.com/hyperledger/fabric-chaincode-go/shim"
)

// memLedger is the underlying ledger stub of C12: a plain key/value store with Fabric's
// "empty value = delete" rule, recording every PutState/DelState call it receives.
type memLedger struct {
	shim.ChaincodeStubInterface
	state map[string][]byte
	calls []c12Write
	reads int
	refuse string // writes of this key are refused (a peer refuses keys, e.g. CouchDB keys that start with an underscore)
	fail  string // the next read of this key fails (a ledger read can fail: peer trouble, a state database time-out)
}

type c12Write struct {
	Key string `json:"k"`
	Val []byte `json:"v"`
	Del bool   `json:"d"`
}

// absentIsNil: the ledger answers an absent key with nil; callers tell "no such key" by that (swap.Load, multiswap.Load).
// An empty value that is not nil is therefore another answer, and is reported as one.
func absentIsNil(v []byte) []byte {
	if v != nil && len(v) == 0 {
		return []byte("<empty, not nil>")
	}
	return v
}

func (m *memLedger) GetState(key string) ([]byte, error) {
	m.reads++
	if m.fail != "" && m.fail == key {
		m.fail = ""
		return nil, errors.New("ledger read failed")
	}
	return m.state[key], nil
}

func (m *memLedger) PutState(key string, value []byte) error {
	if m.refuse != "" && m.refuse == key {
		return errors.New("ledger write refused")
	}
	m.calls = append(m.calls, c12Write{key, value, false})
	if len(value) == 0 {
		delete(m.state, key)
	} else {
		m.state[key] = append([]byte(nil), value...)
	}
	return nil
}

func (m *memLedger) DelState(key string) error {
	if m.refuse != "" && m.refuse == key {
		return errors.New("ledger write refused")
	}
	m.calls = append(m.calls, c12Write{key, nil, true})
	delete(m.state, key)
	return nil
}

type c12Op struct {
	Op  string `json:"op"` // get put del bget bput bdel begin commit discard
	Key string `json:"k,omitempty"`
	Val []byte `json:"v,omitempty"`
}

type c12Out struct {
	Kind   string     `json:"kind"` // val writes none
	Val    []byte     `json:"v,omitempty"`
	Writes []c12Write `json:"w,omitempty"`
}

type c12Case struct {
	Led   map[string][]byte `json:"ledger"`
	Hist  []c12Op           `json:"history"`
	Outs  []c12Out          `json:"outs"`
	Final map[string][]byte `json:"final"`
	Calls []c12Write        `json:"calls"`
	// the same history run again on a ledger that refuses the write of one of the flushed keys (each in turn): did a
	// Commit report success although a write had been refused?
	LostCommitError bool `json:"lost_commit_error"`
}

// c12Run executes one history on the real cachestub package.
func c12Run(led map[string][]byte, hist []c12Op) c12Case {
	cs, _ := c12RunOn(led, hist, "")
	seen := map[string]bool{}
	for _, w := range cs.Calls {
		if seen[w.Key] {
			continue
		}
		seen[w.Key] = true
		if _, err := c12RunOn(led, hist, w.Key); err == nil {
			cs.LostCommitError = true
		}
	}
	return cs
}

func c12RunOn(led map[string][]byte, hist []c12Op, refuse string) (c12Case, error) {
	ml := &memLedger{state: map[string][]byte{}, refuse: refuse}
	for k, v := range led {
		ml.state[k] = v
	}
	bs := cachestub.NewBatchCacheStub(ml)
	var tx *cachestub.TxCacheStub
	outs := make([]c12Out, 0, len(hist))
	for _, o := range hist {
		switch o.Op {
		case "get":
			var v []byte
			if tx != nil {
				v, _ = tx.GetState(o.Key)
			} else {
				v, _ = bs.GetState(o.Key)
			}
			outs = append(outs, c12Out{Kind: "val", Val: absentIsNil(v)})
		case "bget":
			v, _ := bs.GetState(o.Key)
			outs = append(outs, c12Out{Kind: "val", Val: absentIsNil(v)})
		case "failget":
			// a read that fails if it reaches the ledger (it does not when a cache answers). Either way it is no step of the
			// model's history: a failed read must leave nothing behind, a cached one is an ordinary read whose value is
			// checked by the reads around it.
			ml.fail = o.Key
			if tx != nil {
				_, _ = tx.GetState(o.Key)
			} else {
				_, _ = bs.GetState(o.Key)
			}
			ml.fail = ""
		case "put":
			if tx != nil {
				_ = tx.PutState(o.Key, o.Val)
			} else {
				_ = bs.PutState(o.Key, o.Val)
			}
			outs = append(outs, c12Out{Kind: "none"})
		case "bput":
			_ = bs.PutState(o.Key, o.Val)
			outs = append(outs, c12Out{Kind: "none"})
		case "del":
			if tx != nil {
				_ = tx.DelState(o.Key)
			} else {
				_ = bs.DelState(o.Key)
			}
			outs = append(outs, c12Out{Kind: "none"})
		case "bdel":
			_ = bs.DelState(o.Key)
			outs = append(outs, c12Out{Kind: "none"})
		case "begin":
			tx = bs.NewTxCacheStub("tx")
			outs = append(outs, c12Out{Kind: "none"})
		case "commit":
			if tx != nil {
				ws, _ := tx.Commit()
				var l []c12Write
				for _, w := range ws {
					l = append(l, c12Write{w.GetKey(), w.GetValue(), w.GetIsDeleted()})
				}
				outs = append(outs, c12Out{Kind: "writes", Writes: l})
				tx = nil
			} else {
				outs = append(outs, c12Out{Kind: "none"})
			}
		case "discard":
			tx = nil
			outs = append(outs, c12Out{Kind: "none"})
		}
	}
	commitErr := bs.Commit()
	calls := append([]c12Write(nil), ml.calls...)
	sort.SliceStable(calls, func(i, j int) bool { return calls[i].Key < calls[j].Key })
	final := map[string][]byte{}
	for k, v := range ml.state {
		final[k] = v
	}
	return c12Case{Led: led, Hist: hist, Outs: outs, Final: final, Calls: calls}, commitErr
}

// keys are interned by their rank in Go string order (the order sort.Strings uses)
var c12Keys = []string{"a", "ab", "b", "b0"}

func c12KeyN(k string) int {
	for i, x := range c12Keys {
		if x == k {
			return i + 1
		}
	}
	panic("unknown key " + k)
}

func c12Writes(ws []c12Write) string {
	items := make([]string, len(ws))
	for i, w := range ws {
		items[i] = fmt.Sprintf("(%d, %s, %s)", c12KeyN(w.Key), coqBytes(w.Val), coqBool(w.Del))
	}
	return coqList(items)
}

func c12Ledger(m map[string][]byte) string {
	ks := make([]string, 0, len(m))
	for k := range m {
		ks = append(ks, k)
	}
	sort.Strings(ks)
	items := make([]string, len(ks))
	for i, k := range ks {
		items[i] = fmt.Sprintf("(%d, %s)", c12KeyN(k), coqBytes(m[k]))
	}
	return coqList(items)
}

func c12Term(cs c12Case) string {
	var hist []c12Op
	for _, o := range cs.Hist {
		if o.Op != "failget" {
			hist = append(hist, o)
		}
	}
	ops := make([]string, len(hist))
	for i, o := range hist {
		switch o.Op {
		case "get":
			ops[i] = fmt.Sprintf("CGet %d", c12KeyN(o.Key))
		case "put":
			ops[i] = fmt.Sprintf("CPut %d %s", c12KeyN(o.Key), coqBytes(o.Val))
		case "del":
			ops[i] = fmt.Sprintf("CDel %d", c12KeyN(o.Key))
		case "bget":
			ops[i] = fmt.Sprintf("CBGet %d", c12KeyN(o.Key))
		case "bput":
			ops[i] = fmt.Sprintf("CBPut %d %s", c12KeyN(o.Key), coqBytes(o.Val))
		case "bdel":
			ops[i] = fmt.Sprintf("CBDel %d", c12KeyN(o.Key))
		case "begin":
			ops[i] = "CBegin"
		case "commit":
			ops[i] = "CCommit"
		case "discard":
			ops[i] = "CDiscard"
		}
	}
	outs := make([]string, len(cs.Outs))
	for i, o := range cs.Outs {
		switch o.Kind {
		case "val":
			outs[i] = "OVal " + coqBytes(o.Val)
		case "writes":
			outs[i] = "OWrites " + c12Writes(o.Writes)
		default:
			outs[i] = "ONone"
		}
	}
	return fmt.Sprintf("mkCase %s %s %s %s %s %s", c12Ledger(cs.Led), coqList(ops), coqList(outs),
		c12Ledger(cs.Final), c12Writes(cs.Calls), coqBool(cs.LostCommitError))
}

func c12Nontrivial(h []c12Op) bool {
	w, r := false, false
	for _, o := range h {
		switch o.Op {
		case "put", "del", "bput", "bdel":
			w = true
		case "get", "bget":
			if w {
				r = true
			}
		}
	}
	return r
}

func genC12(c *Ctx) error {
	c.Notes["keys"] = c12Keys
	c.Notes["refused_writes"] = "every history is run again once per flushed key on a ledger that refuses the write of that key: Commit must report the failure"
	c.Notes["failing_reads"] = "3 in 100 steps of the random histories are reads that fail if they reach the ledger (no step of the model: they must leave nothing behind)"
	ledgers := []map[string][]byte{
		{},
		{"a": []byte("L")},
		{"a": []byte("L"), "b": []byte("M")},
	}
	// exhaustive small scope
	alpha := []c12Op{
		{Op: "get", Key: "a"}, {Op: "get", Key: "b"},
		{Op: "put", Key: "a", Val: []byte("x")}, {Op: "put", Key: "a", Val: nil}, {Op: "put", Key: "b", Val: []byte("y")},
		{Op: "del", Key: "a"}, {Op: "del", Key: "b"},
		{Op: "bget", Key: "a"}, {Op: "bput", Key: "a", Val: []byte("z")}, {Op: "bdel", Key: "a"},
		{Op: "begin"}, {Op: "commit"}, {Op: "discard"},
	}
	depth := 3
	if c.Thorough() {
		depth = 4
	}
	var rec func(h []c12Op, d int)
	emit := func(led map[string][]byte, h []c12Op, kind string) {
		cs := c12Run(led, append([]c12Op(nil), h...))
		c.Emit(c12Term(cs), cs, c12Nontrivial(h))
		c.Count(kind)
		c.CountN("ops", len(h))
	}
	for _, led := range ledgers {
		led := led
		rec = func(h []c12Op, d int) {
			if len(h) > 0 {
				emit(led, h, fmt.Sprintf("exhaustive_len%d", len(h)))
			}
			if d == 0 {
				return
			}
			for _, o := range alpha {
				rec(append(h, o), d-1)
			}
		}
		rec(nil, depth)
	}
	// random long histories over four keys
	vals := [][]byte{[]byte("x"), []byte("y"), []byte("zz"), nil, {0}, {255, 1}}
	n := c.N(1500, 30000)
	for i := 0; i < n; i++ {
		led := map[string][]byte{}
		for _, k := range c12Keys {
			if c.Rng.Intn(2) == 0 {
				led[k] = vals[c.Rng.Intn(3)]
			}
		}
		ln := 20 + c.Rng.Intn(41)
		h := make([]c12Op, 0, ln)
		for len(h) < ln {
			k := c12Keys[c.Rng.Intn(len(c12Keys))]
			v := vals[c.Rng.Intn(len(vals))]
			switch r := c.Rng.Intn(100); {
			case r < 3:
				h = append(h, c12Op{Op: "failget", Key: k})
			case r < 30:
				h = append(h, c12Op{Op: "get", Key: k})
			case r < 50:
				h = append(h, c12Op{Op: "put", Key: k, Val: v})
			case r < 62:
				h = append(h, c12Op{Op: "del", Key: k})
			case r < 68:
				h = append(h, c12Op{Op: "bget", Key: k})
			case r < 72:
				h = append(h, c12Op{Op: "bput", Key: k, Val: v})
			case r < 75:
				h = append(h, c12Op{Op: "bdel", Key: k})
			case r < 85:
				h = append(h, c12Op{Op: "begin"})
			case r < 93:
				h = append(h, c12Op{Op: "commit"})
			default:
				h = append(h, c12Op{Op: "discard"})
			}
		}
		emit(led, h, "random")
	}
	c.Notes["exhaustive_depth"] = depth
	c.Notes["alphabet"] = len(alpha)
	return nil
}

func init() { props["C12"] = genC12 }
