package main

import (
	"fmt"
	"math/big"
	"sort"
	"strconv"

	"github.com/anoideaopen/foundation/core/balance"
	"github.com/anoideaopen/foundation/core/cachestub"
	"github.com/hyperledger/fabric-chaincode-go/shim"
)

var (
	c16Addrs  = []string{"A", "AB", "B", "Aé"} // prefix-related names on purpose
	c16Tokens = []string{"", "T1", "T10", "T", "X_T1", "T_T"} // also ids with an underscore whose last part is another token
	c16Kinds  = []balance.BalanceType{balance.BalanceTypeToken, balance.BalanceTypeAllowed, balance.BalanceTypeGiven,
		balance.BalanceTypeTokenLocked, balance.BalanceTypeAllowedLocked, balance.BalanceTypeTokenExternalLocked, balance.BalanceTypeAllowedExternalLocked}
	c16KName  = map[balance.BalanceType]string{balance.BalanceTypeToken: "Token", balance.BalanceTypeAllowed: "Allowed", balance.BalanceTypeGiven: "Given",
		balance.BalanceTypeTokenLocked: "TokenLocked", balance.BalanceTypeAllowedLocked: "AllowedLocked",
		balance.BalanceTypeTokenExternalLocked: "TokenExternalLocked", balance.BalanceTypeAllowedExternalLocked: "AllowedExternalLocked"}
)

type c16Key struct{ K, A, T int } // indices into the tables above

func (k c16Key) term() string {
	return fmt.Sprintf("(%d, %d, %d)", int(c16Kinds[k.K]), k.A+1, k.T)
}

type c16Op struct {
	Op     string `json:"op"` // put add sub move
	K1, K2 c16Key
	Amt    int64 `json:"amt"`
}

type c16Step struct {
	Kind   string  `json:"step"` // tx createIndex legacy owners byaddr gets
	Mode   string  `json:"mode,omitempty"`
	Commit bool    `json:"commit,omitempty"`
	Join   bool    `json:"join,omitempty"` // runs in the batch of the cached transaction before it (the batch is flushed afterwards)
	Ops    []c16Op `json:"ops,omitempty"`
	Key    c16Key  `json:"key"`
	Amt    int64   `json:"amt,omitempty"`
}

func c16ErrTerm(err error) string {
	if err == nil {
		return "None"
	}
	switch err {
	case balance.ErrInsufficientBalance:
		return "Some EInsufficient"
	case balance.ErrAmountMustBeNonNegative:
		return "Some ENegative"
	}
	return "Some EOther"
}

// c16Scale: every amount of the current case is multiplied by it (1, or 2^64: balances that are exact multiples of 2^64)
var c16Scale = big.NewInt(1)

func c16Big(n int64) *big.Int { return new(big.Int).Mul(big.NewInt(n), c16Scale) }
func c16Z(n int64) string     { return "(" + c16Big(n).String() + ")%Z" }

func c16Apply(stub shim.ChaincodeStubInterface, o c16Op) error {
	kd, a, t := c16Kinds[o.K1.K], c16Addrs[o.K1.A], c16Tokens[o.K1.T]
	amt := c16Big(o.Amt)
	switch o.Op {
	case "put":
		return balance.Put(stub, kd, a, t, amt)
	case "add":
		return balance.Add(stub, kd, a, t, amt)
	case "sub":
		return balance.Sub(stub, kd, a, t, amt)
	case "move":
		return balance.Move(stub, kd, a, c16Kinds[o.K2.K], c16Addrs[o.K2.A], t, amt)
	}
	panic(o.Op)
}

func commitWrites(ch *Channel, stub *TxStub) {
	for _, wr := range stub.writes {
		if wr.Del || len(wr.Value) == 0 {
			delete(ch.State, wr.Key)
		} else {
			ch.State[wr.Key] = wr.Value
		}
	}
}

func c16List(items [][2]string) string {
	sort.Slice(items, func(i, j int) bool {
		a, _ := strconv.Atoi(items[i][0])
		b, _ := strconv.Atoi(items[j][0])
		return a < b
	})
	out := make([]string, len(items))
	for i, it := range items {
		out[i] = fmt.Sprintf("(%s, (%s)%%Z)", it[0], it[1])
	}
	return "OList " + coqList(out)
}

func idxOf(tab []string, s string) int {
	for i, x := range tab {
		if x == s {
			return i
		}
	}
	return 900
}

// c16Base: the addresses of an ordinary case; the table is extended (init below) for the cases with many holders
const c16Base = 4

func init() {
	for i := 0; i < 1200; i++ {
		c16Addrs = append(c16Addrs, fmt.Sprintf("h%04d", i))
	}
}

func c16Case(c *Ctx, steps []c16Step, nAddr int) error {
	// one case in five works in units of 2^64: every balance is an exact multiple of it
	c16Scale = big.NewInt(1)
	if c.Rng.Intn(5) == 0 {
		c16Scale = new(big.Int).Lsh(big.NewInt(1), 64)
		c.Count("case_in_units_of_2^64")
	}
	defer func() { c16Scale = big.NewInt(1) }()
	w := NewWorld()
	if _, err := w.AddToken("TT", ChanOpts{}); err != nil {
		return err
	}
	ch := w.Peer.Channels["tt"]
	var hist, outs []string
	// a batch that stays open for the next (joining) transaction
	var openBS *cachestub.BatchCacheStub
	var openRaw *TxStub
	for si, st := range steps {
		switch st.Kind {
		case "tx":
			raw := w.Peer.newStub(ch, w.Peer.NextTxID(), nil, nil)
			var errs []string
			ops := make([]string, len(st.Ops))
			run := func(stub shim.ChaincodeStubInterface) {
				for i, o := range st.Ops {
					errs = append(errs, c16ErrTerm(c16Apply(stub, o)))
					switch o.Op {
					case "put":
						ops[i] = fmt.Sprintf("IPut %s %s", o.K1.term(), c16Z(o.Amt))
					case "add":
						ops[i] = fmt.Sprintf("IAdd %s %s", o.K1.term(), c16Z(o.Amt))
					case "sub":
						ops[i] = fmt.Sprintf("ISub %s %s", o.K1.term(), c16Z(o.Amt))
					case "move":
						k2 := o.K2
						k2.T = o.K1.T
						ops[i] = fmt.Sprintf("IMove %s %s %s", o.K1.term(), k2.term(), c16Z(o.Amt))
					}
					c.Count("op_" + o.Op)
				}
			}
			mode := "Raw"
			if st.Mode == "cached" {
				mode = "Cached"
				bs := cachestub.NewBatchCacheStub(raw)
				if st.Join && openBS != nil {
					bs, raw = openBS, openRaw // the second (third ...) transaction of one batch
					c.Count("tx_joining_an_open_batch")
				}
				tx := bs.NewTxCacheStub("t")
				run(tx)
				if st.Commit {
					tx.Commit()
				}
				if si+1 < len(steps) && steps[si+1].Kind == "tx" && steps[si+1].Mode == "cached" && steps[si+1].Join {
					openBS, openRaw = bs, raw
				} else {
					openBS, openRaw = nil, nil
					if err := bs.Commit(); err != nil {
						return err
					}
					commitWrites(ch, raw)
				}
			} else {
				run(raw)
				if st.Commit {
					commitWrites(ch, raw)
				}
			}
			hist = append(hist, fmt.Sprintf("STx %s %s %s", mode, coqBool(st.Commit), coqList(ops)))
			outs = append(outs, "OErrs "+coqList(errs))
			c.Count("tx_" + st.Mode + "_" + coqBool(st.Commit))
		case "createIndex":
			res := w.Peer.Invoke("tt", w.Client.Creator, "createIndex", c16KName[c16Kinds[st.Key.K]])
			if !res.OK() {
				return fmt.Errorf("createIndex: %s", res.Message)
			}
			hist = append(hist, fmt.Sprintf("SCreateIndex %d", int(c16Kinds[st.Key.K])))
			outs = append(outs, "OUnit")
			c.Count("createIndex")
		case "legacy":
			key, _ := shim.CreateCompositeKey(c16Kinds[st.Key.K].String(), []string{c16Addrs[st.Key.A], c16Tokens[st.Key.T]})
			if st.Key.T == 0 {
				key, _ = shim.CreateCompositeKey(c16Kinds[st.Key.K].String(), []string{c16Addrs[st.Key.A]})
			}
			if st.Amt == 0 {
				delete(ch.State, key)
			} else {
				ch.State[key] = c16Big(st.Amt).Bytes()
			}
			hist = append(hist, fmt.Sprintf("SLegacy %s %s", st.Key.term(), c16Z(st.Amt)))
			outs = append(outs, "OUnit")
			c.Count("legacy")
		case "owners":
			raw := w.Peer.newStub(ch, "q", nil, nil)
			l, err := balance.ListOwnersByToken(raw, c16Kinds[st.Key.K], c16Tokens[st.Key.T])
			if err != nil {
				return err
			}
			var items [][2]string
			for _, tb := range l {
				items = append(items, [2]string{strconv.Itoa(idxOf(c16Addrs, tb.Address) + 1), tb.Balance.String()})
			}
			hist = append(hist, fmt.Sprintf("SOwners %d %d", int(c16Kinds[st.Key.K]), st.Key.T))
			outs = append(outs, c16List(items))
			c.Count("owners")
		case "byaddr":
			raw := w.Peer.newStub(ch, "q", nil, nil)
			l, err := balance.ListBalancesByAddress(raw, c16Kinds[st.Key.K], c16Addrs[st.Key.A])
			if err != nil {
				return err
			}
			var items [][2]string
			for _, tb := range l {
				items = append(items, [2]string{strconv.Itoa(idxOf(c16Tokens, tb.Token)), tb.Balance.String()})
			}
			hist = append(hist, fmt.Sprintf("SByAddr %d %d", int(c16Kinds[st.Key.K]), st.Key.A+1))
			outs = append(outs, c16List(items))
			c.Count("byaddr")
		case "gets":
			raw := w.Peer.newStub(ch, "q", nil, nil)
			var items [][2]string
			var addrs []string
			for ai, a := range c16Addrs[:nAddr] {
				v, err := balance.Get(raw, c16Kinds[st.Key.K], a, c16Tokens[st.Key.T])
				if err != nil {
					return err
				}
				items = append(items, [2]string{strconv.Itoa(ai + 1), v.String()})
				addrs = append(addrs, strconv.Itoa(ai+1))
			}
			hist = append(hist, fmt.Sprintf("SGets %d %d %s", int(c16Kinds[st.Key.K]), st.Key.T, coqList(addrs)))
			outs = append(outs, c16List(items))
		}
	}
	// final projection
	in := NewInterner()
	for i, a := range c16Addrs {
		in.addr[a] = i + 1
	}
	for i, t := range c16Tokens {
		in.token[t] = i
	}
	prim := w.Balances("tt", in)
	var invItems, flags []string
	var flagN []int
	for k, v := range ch.State {
		ot, attrs, ok := splitComposite(k)
		if !ok {
			continue
		}
		if ot == balance.InverseBalanceObjectType && len(attrs) == 3 {
			kd, _ := strconv.ParseInt(attrs[0], 16, 32)
			invItems = append(invItems, fmt.Sprintf("(%d, %d, %d, %s)", kd, in.Token(attrs[1]), in.Addr(attrs[2]), coqZ(new(big.Int).SetBytes(v))))
		}
		if ot == balance.IndexCreatedKey && len(attrs) == 1 {
			kd, _ := strconv.ParseInt(attrs[0], 16, 32)
			flagN = append(flagN, int(kd))
		}
	}
	sort.Strings(invItems)
	sort.Ints(flagN)
	for _, f := range flagN {
		flags = append(flags, strconv.Itoa(f))
	}
	term := fmt.Sprintf("mkCase %s %s %s %s %s", coqList(hist), coqList(outs), coqBals(prim), coqList(invItems), coqList(flags))
	c.Emit(term, steps, len(invItems) > 0)
	return nil
}

func genC16(c *Ctx) error {
	c.ShardSize = 40
	c.Notes["rule"] = "histories of 10-30 steps over all 7 balance kinds (createIndex is called by the kind's name) x 4 addresses x 6 tokens (names that are prefixes of each other, the empty token, ids with an underscore whose last part is another token): transactions of 1-4 put/add/sub/move operations through the tx/batch caches or on a raw stub, committed or discarded, now and then followed in the SAME batch by a second transaction that takes everything back; optional legacy primaries written without inverse entries; createIndex via Invoke; every owners listing is followed by direct balance.Get of every address. Plus ledgers with 210-460 legacy holders of one kind (among the first ones also token-less balances), indexed and listed, one of them with 1001-1120 holders of ONE token. One case in five has all its amounts multiplied by 2^64. Non-trivial: at least one inverse entry exists at the end."
	rng := c.Rng
	n := c.N(240, 6000)
	for i := 0; i < n; i++ {
		var steps []c16Step
		key := func() c16Key {
			return c16Key{rng.Intn(len(c16Kinds)), rng.Intn(c16Base), rng.Intn(len(c16Tokens))}
		}
		if rng.Intn(3) == 0 {
			for k := 1 + rng.Intn(4); k > 0; k-- {
				steps = append(steps, c16Step{Kind: "legacy", Key: key(), Amt: int64(1 + rng.Intn(50))})
			}
		}
		ln := 10 + rng.Intn(21)
		bal := map[c16Key]int64{}
		for len(steps) < ln {
			switch r := rng.Intn(100); {
			case r < 55:
				st := c16Step{Kind: "tx", Mode: []string{"cached", "raw"}[rng.Intn(2)], Commit: rng.Intn(5) > 0}
				for k := 1 + rng.Intn(4); k > 0; k-- {
					o := c16Op{Op: []string{"put", "add", "add", "sub", "move", "move"}[rng.Intn(6)], K1: key(), K2: key()}
					cur := bal[o.K1]
					switch x := rng.Intn(10); {
					case x < 4:
						o.Amt = cur // drive to zero / move everything
					case x < 5:
						o.Amt = cur + 1
					case x < 6:
						o.Amt = 0
					case x < 7:
						o.Amt = -int64(1 + rng.Intn(3))
					default:
						o.Amt = int64(rng.Intn(40))
					}
					if o.Op == "put" && o.Amt < 0 {
						o.Amt = -o.Amt // Put stores the magnitude; negative values never reach it
					}
					if rng.Intn(12) == 0 {
						o.K2 = o.K1 // self move
					}
					st.Ops = append(st.Ops, o)
					// rough tracking only to pick interesting amounts
					switch o.Op {
					case "put":
						bal[o.K1] = o.Amt
					case "add":
						if o.Amt > 0 {
							bal[o.K1] += o.Amt
						}
					case "sub", "move":
						if o.Amt >= 0 && o.Amt <= cur {
							bal[o.K1] -= o.Amt
						}
					}
				}
				steps = append(steps, st)
				if st.Mode == "cached" && st.Commit && rng.Intn(3) == 0 {
					// a second transaction in the SAME batch that takes everything back (every balance returns to what the
					// batch found)
					inv := c16Step{Kind: "tx", Mode: "cached", Commit: true, Join: true}
					for j := len(st.Ops) - 1; j >= 0; j-- {
						o := st.Ops[j]
						switch o.Op {
						case "add":
							inv.Ops = append(inv.Ops, c16Op{Op: "sub", K1: o.K1, K2: o.K2, Amt: o.Amt})
						case "sub":
							inv.Ops = append(inv.Ops, c16Op{Op: "add", K1: o.K1, K2: o.K2, Amt: o.Amt})
						case "move":
							k2 := o.K2
							k2.T = o.K1.T
							k1 := o.K1
							inv.Ops = append(inv.Ops, c16Op{Op: "move", K1: k2, K2: k1, Amt: o.Amt})
						}
					}
					if len(inv.Ops) > 0 {
						steps = append(steps, inv)
					}
				}
			case r < 65:
				steps = append(steps, c16Step{Kind: "createIndex", Key: key()})
			case r < 90:
				k := key()
				steps = append(steps, c16Step{Kind: "owners", Key: k}, c16Step{Kind: "gets", Key: k})
			default:
				steps = append(steps, c16Step{Kind: "byaddr", Key: key()})
			}
		}
		if err := c16Case(c, steps, c16Base); err != nil {
			return err
		}
	}
	// ledgers with many holders: 210-460 legacy primaries of one kind (tokens and, among the first ones, token-less
	// balances), then createIndex, owners listings and direct reads; then ordinary traffic and another listing
	for i := c.N(2, 9); i > 0; i-- {
		kind := rng.Intn(len(c16Kinds))
		nh := 210 + rng.Intn(251)
		if i == 1 {
			nh = 1001 + rng.Intn(120) // more holders of ONE token than any page a listing might be read in
			c.Count("ledger_with_more_than_1000_holders_of_one_token")
		}
		var steps []c16Step
		for a := 0; a < nh; a++ {
			tk := 1 + rng.Intn(2)
			if i == 1 {
				tk = 1
			}
			steps = append(steps, c16Step{Kind: "legacy", Key: c16Key{kind, c16Base + a, tk}, Amt: int64(1 + rng.Intn(90))})
			if a < 40 && rng.Intn(6) == 0 {
				steps = append(steps, c16Step{Kind: "legacy", Key: c16Key{kind, c16Base + a, 0}, Amt: int64(1 + rng.Intn(90))})
			}
		}
		rng.Shuffle(len(steps), func(x, y int) { steps[x], steps[y] = steps[y], steps[x] })
		steps = append(steps, c16Step{Kind: "createIndex", Key: c16Key{kind, 0, 0}})
		for tk := 1; tk <= 2; tk++ {
			k := c16Key{kind, 0, tk}
			steps = append(steps, c16Step{Kind: "owners", Key: k}, c16Step{Kind: "gets", Key: k})
		}
		mv := c16Step{Kind: "tx", Mode: "cached", Commit: true}
		for j := 0; j < 3; j++ {
			a := c16Base + rng.Intn(nh)
			mv.Ops = append(mv.Ops, c16Op{Op: "move", K1: c16Key{kind, a, 1}, K2: c16Key{kind, c16Base + rng.Intn(nh), 1}, Amt: int64(rng.Intn(5))})
		}
		steps = append(steps, mv, c16Step{Kind: "owners", Key: c16Key{kind, 0, 1}}, c16Step{Kind: "gets", Key: c16Key{kind, 0, 1}})
		if err := c16Case(c, steps, c16Base+nh); err != nil {
			return err
		}
		c.Count("ledger_with_many_holders")
	}
	return nil
}

func init() { props["C16"] = genC16 }
