package main

import (
	"sync"
	"bufio"
	"encoding/hex"
	"encoding/json"
	"fmt"
	"math/big"
	"math/rand"
	"os"
	"os/exec"
	"sort"
	"strconv"
	"strings"

	"github.com/anoideaopen/foundation/core"
	"github.com/anoideaopen/foundation/core/balance"
	fpb "github.com/anoideaopen/foundation/proto"
	"github.com/golang/protobuf/proto" //nolint:staticcheck
	"github.com/hyperledger/fabric-protos-go/msp"
)

// C14: every vector is run in a CHILD process hosting the chaincode, so that a process death is an
// observation and not the end of the check.

type c14Rec struct {
	I       int      `json:"i"`
	Phase   string   `json:"phase"` // start | done
	Kind    string   `json:"kind,omitempty"`
	Desc    string   `json:"desc,omitempty"`
	Flags   [][]bool `json:"flags,omitempty"` // scripted faults per item list
	Replied bool     `json:"replied,omitempty"`
	Status  int32    `json:"status,omitempty"`
	Items   [][]bool `json:"items,omitempty"` // observed: per item, did it complete
	Msg     string   `json:"msg,omitempty"`
}

func boolsTerm(l []bool) string {
	s := make([]string, len(l))
	for i, b := range l {
		s[i] = coqBool(b)
	}
	return coqList(s)
}

func genC14(c *Ctx) error {
	c.ShardSize = 600
	c.Notes["rule"] = "(one vector in sixty is a burst: 8 goroutines x 150 queries at once, every one by a creator the process has not seen before) every vector runs in a child process hosting the chaincode (a process death is observed by the parent, which restarts the child after the crasher). plain: every entry point (Init, every function of the contract's router, batchExecute, executeTasks, swapDone, multiSwapDone, createIndex, the robot's transfer functions, unknown and empty names) x caller identity (robot, client, admin, garbage, empty, certificates with no / empty / several organisational units, RSA key, non-PEM and empty certificate bytes) x argument vectors of length 0..n+2 (correctly signed requests truncated / extended / permuted, addresses, numbers, JSON, protobuf, random bytes, empty, 64 KiB) x creator (robot, client, admin, garbage) x access-control replies (ok, error status, the shim's answer for a call that could not be delivered, empty, garbled, ok without address, key-type list short / long / missing). batch: batchExecute with 1-5 pending transactions whose bodies put / fail / panic / nil-map-panic, swap and multi-swap answers (well-formed, foreign token, unfunded, an owner that is missing or too short) and swap keys (unknown, empty id) - per item: completed or not. tasks: executeTasks with 1-5 tasks whose bodies put / panic, tasks with fewer or more arguments than the method expects, unknown methods, access-control replies garbled for one signer - per task: completed or not. Non-trivial: the vector makes at least one frame panic or is malformed."
	total := c.N(700, 12000)
	self, err := os.Executable()
	if err != nil {
		return err
	}
	resFile := c.Out + "/c14_child.jsonl"
	_ = os.MkdirAll(c.Out, 0o755)
	_ = os.Remove(resFile)
	from, deaths := 0, 0
	var recs []c14Rec
	for from < total && deaths < 50 {
		cmd := exec.Command(self, "-c14child", strconv.FormatInt(c.Seed, 10), strconv.Itoa(from), strconv.Itoa(total), resFile)
		cmd.Stdout, cmd.Stderr = nil, nil
		runErr := cmd.Run()
		// read what the child wrote
		recs = recs[:0]
		f, err := os.Open(resFile)
		if err != nil {
			return fmt.Errorf("child wrote nothing: %v (%v)", err, runErr)
		}
		sc := bufio.NewScanner(f)
		sc.Buffer(make([]byte, 1<<20), 1<<26)
		for sc.Scan() {
			var r c14Rec
			if json.Unmarshal(sc.Bytes(), &r) == nil {
				recs = append(recs, r)
			}
		}
		f.Close()
		last := -1
		doneSet := map[int]bool{}
		for _, r := range recs {
			if r.Phase == "done" {
				doneSet[r.I] = true
			}
			if r.I > last {
				last = r.I
			}
		}
		if runErr == nil && last >= total-1 && doneSet[total-1] {
			break
		}
		// the child died while running vector `last` (started, not done)
		deaths++
		c.Count("child_deaths")
		if last < from {
			return fmt.Errorf("child died before its first vector: %v", runErr)
		}
		from = last + 1
	}
	starts, dones := map[int]c14Rec{}, map[int]c14Rec{}
	for _, r := range recs {
		if r.Phase == "start" {
			starts[r.I] = r
		} else {
			dones[r.I] = r
		}
	}
	idx := make([]int, 0, len(starts))
	for i := range starts {
		idx = append(idx, i)
	}
	sort.Ints(idx)
	for _, i := range idx {
		s := starts[i]
		d, alive := dones[i]
		get := func(l [][]bool, k int) []bool {
			if k < len(l) {
				return l[k]
			}
			return nil
		}
		var term string
		switch s.Kind {
		case "batch":
			term = fmt.Sprintf("VBatch %s %s %s %s %s %s %s %s", boolsTerm(get(s.Flags, 0)), boolsTerm(get(s.Flags, 1)), boolsTerm(get(s.Flags, 2)),
				coqBool(alive), coqBool(d.Replied), boolsTerm(get(d.Items, 0)), boolsTerm(get(d.Items, 1)), boolsTerm(get(d.Items, 2)))
		case "tasks":
			term = fmt.Sprintf("VTasks %s %s %s %s %s", boolsTerm(get(s.Flags, 0)), boolsTerm(get(s.Flags, 1)), coqBool(alive), coqBool(d.Replied), boolsTerm(get(d.Items, 0)))
		default:
			term = fmt.Sprintf("VPlain %s %s", coqBool(alive), coqBool(d.Replied))
		}
		faulty := false
		for _, l := range s.Flags {
			for _, b := range l {
				faulty = faulty || b
			}
		}
		c.Emit(term, map[string]interface{}{"kind": s.Kind, "vector": s.Desc, "alive": alive, "status": d.Status, "message": d.Msg, "items": d.Items, "flags": s.Flags}, faulty || s.Kind == "plain")
		c.Count(s.Kind + "_alive_" + coqBool(alive))
		if alive {
			c.Count(s.Kind + "_status_" + strconv.Itoa(int(d.Status)/100) + "xx")
		}
	}
	return nil
}

// ---- the child ------------------------------------------------------------------------------

func c14Child(args []string) int {
	if len(args) != 4 {
		return 2
	}
	seed, _ := strconv.ParseInt(args[0], 10, 64)
	from, _ := strconv.Atoi(args[1])
	to, _ := strconv.Atoi(args[2])
	f, err := os.OpenFile(args[3], os.O_APPEND|os.O_CREATE|os.O_WRONLY, 0o644)
	if err != nil {
		return 2
	}
	defer f.Close()
	emit := func(r c14Rec) {
		b, _ := json.Marshal(r)
		f.Write(append(b, '\n'))
		f.Sync()
	}
	var w *World
	var accs []*Account
	var names []string
	var cc *core.Chaincode
	nonce := uint64(1700000000000)
	fresh := func() {
		w = NewWorld()
		cc, _ = core.NewCC(&HToken{})
		w.Peer.AddChannel("tt", cc)
		w.Peer.Init("tt", w.Admin.Creator, w.ConfigJSON("TT", ChanOpts{}))
		accs = []*Account{w.NewAccount(fpb.KeyType_ed25519), w.NewAccount(fpb.KeyType_ed25519), w.Issuer, w.AdminAcc, w.NewAccount(fpb.KeyType_secp256k1)}
		for _, a := range accs {
			w.SetBalance("tt", balance.BalanceTypeToken, a.AddrString(), "", big.NewInt(100000))
		}
		names = names[:0]
		for m := range cc.Router().Handlers() {
			names = append(names, cc.Router().Function(m))
		}
		sort.Strings(names)
		names = append(names, "batchExecute", "executeTasks", "swapDone", "multiSwapDone", "createIndex", "createCCTransferTo", "cancelCCTransferFrom",
			"commitCCTransferFrom", "deleteCCTransferFrom", "deleteCCTransferTo", "", "nosuchfunction", "BatchExecute")
	}
	for i := from; i < to; i++ {
		rng := rand.New(rand.NewSource(seed*1000003 + int64(i)))
		if w == nil || i%40 == 0 {
			fresh()
		}
		// access-control behaviour for this vector
		w.Peer.ACL.Fault = map[string]string{}
		w.Peer.ACL.KeyTypes = "match"
		aclDesc := "ok"
		if rng.Intn(4) == 0 {
			fn := []string{"checkKeys", "getAccountInfo", "getAccountsInfo", "checkAddress"}[rng.Intn(4)]
			mode := []string{"status", "empty", "garbled", "noaddr", "transport"}[rng.Intn(5)]
			w.Peer.ACL.Fault[fn] = mode
			aclDesc = fn + ":" + mode
		} else if rng.Intn(8) == 0 {
			w.Peer.ACL.KeyTypes = []string{"none", "short", "long"}[rng.Intn(3)]
			aclDesc = "keytypes:" + w.Peer.ACL.KeyTypes
		}
		nextNonce := func() string { nonce++; return strconv.FormatUint(nonce, 10) }
		if i%60 == 7 {
			c14Burst(w, i, emit)
			continue
		}
		switch k := rng.Intn(11); {
		case k == 10:
			c14Init(w, rng, accs, i, emit)
			w = nil // the configuration may have been replaced: start the next vector on a fresh world
		case k < 6:
			c14Plain(w, cc, rng, names, accs, nextNonce, aclDesc, i, emit)
		case k < 8:
			c14Batch(w, rng, accs, nextNonce, aclDesc, i, emit)
		default:
			c14Tasks(w, rng, accs, nextNonce, aclDesc, i, emit)
		}
	}
	return 0
}

// c14Burst: many invocations at once, every one by an identity this process has not seen before (the first burst after a
// restart, a certificate rotation): 8 goroutines x 150 queries, each with a creator of its own. The process must survive and
// every invocation must get a reply.
func c14Burst(w *World, i int, emit func(c14Rec)) {
	emit(c14Rec{I: i, Phase: "start", Kind: "plain", Desc: "burst: 8 goroutines x 150 metadata queries, every creator new to the process"})
	var si msp.SerializedIdentity
	_ = proto.Unmarshal(w.Client.Creator, &si)
	var wg sync.WaitGroup
	var mu sync.Mutex
	replied, worst := true, int32(200)
	for g := 0; g < 8; g++ {
		wg.Add(1)
		go func(g int) {
			defer wg.Done()
			for k := 0; k < 150; k++ {
				cr, _ := proto.Marshal(&msp.SerializedIdentity{Mspid: fmt.Sprintf("msp_%d_%d_%d", i, g, k), IdBytes: si.GetIdBytes()})
				res, _ := w.Peer.Simulate("tt", fmt.Sprintf("%064x", 900000000+i*10000+g*1000+k), cr, false, strArgs("metadata", nil))
				mu.Lock()
				if res.Panicked != nil || res.Status == 0 {
					replied = false
				}
				if res.Status > worst {
					worst = res.Status
				}
				mu.Unlock()
			}
		}(g)
	}
	wg.Wait()
	emit(c14Rec{I: i, Phase: "done", Replied: replied, Status: worst})
}

func randBytes(rng *rand.Rand, n int) string {
	b := make([]byte, n)
	rng.Read(b)
	return string(b)
}

func c14Arg(w *World, rng *rand.Rand, accs []*Account) string {
	switch rng.Intn(14) {
	case 0:
		return ""
	case 1:
		return accs[rng.Intn(len(accs))].AddrString()
	case 2:
		return strconv.Itoa(rng.Intn(100000))
	case 3:
		return "-" + strconv.Itoa(rng.Intn(100))
	case 4:
		return `{"assets":[{"group":"TT_G1","amount":"5"}]}`
	case 5:
		return `{"id":"x","from":"TT","to":"VT","token":"TT","user":"AQID","amount":"AQ==","forward_direction":true}`
	case 6:
		b, _ := proto.Marshal(&fpb.Batch{TxIDs: [][]byte{[]byte(randBytes(rng, 4))}, Swaps: []*fpb.Swap{{Id: []byte{1}}}, Keys: []*fpb.SwapKey{{}}})
		return string(b)
	case 7:
		b, _ := proto.Marshal(&fpb.ExecuteTasksRequest{Tasks: []*fpb.Task{{Id: "t", Method: "transfer", Args: []string{"a"}}, nil}})
		return string(b)
	case 8:
		return randBytes(rng, 1+rng.Intn(40))
	case 9:
		return strings.Repeat("A", 65536)
	case 10:
		return hex.EncodeToString([]byte(randBytes(rng, 32)))
	case 11:
		return "ed25519"
	case 12:
		return "\x00\xff\xfe"
	}
	return "TT"
}

// Init has no recover of its own: configurations whose fields are well-formed enough to pass the
// decoders but odd enough to trip the code behind them
func c14Init(w *World, rng *rand.Rand, accs []*Account, i int, emit func(c14Rec)) {
	odd := []string{"16L5yRNPTuciSgXGHqYwn9N6NeoKqopAu", "1111111111111111111114oLvT2", "3QJmnh", "", "2d 5", accs[0].AddrString(), accs[0].AddrString() + "1", strings.Repeat("1", 60), "0OIl"}
	pick := func() string { return odd[rng.Intn(len(odd))] }
	var args []string
	desc := ""
	if rng.Intn(6) == 0 {
		// positional
		n := 2 + rng.Intn(5)
		args = []string{"platformski", []string{w.Robot.SKI, "zz", ""}[rng.Intn(3)]}
		for len(args) < n {
			args = append(args, pick())
		}
		if rng.Intn(3) == 0 {
			args = make([]string, 1+rng.Intn(6)) // nothing but empty strings, of any count
		}
		desc = fmt.Sprintf("init positional %q", trunc(args))
	} else {
		cfg := map[string]interface{}{}
		contract := map[string]interface{}{"symbol": []string{"TT", "TT", "TT", "TT", "TT", "TT", "tt", "T-1", ""}[rng.Intn(9)], "robotSKI": []string{w.Robot.SKI, w.Robot.SKI, w.Robot.SKI, w.Robot.SKI, "abc", "zz", ""}[rng.Intn(7)]}
		if rng.Intn(4) > 0 {
			contract["admin"] = map[string]interface{}{"address": pick()}
		}
		if rng.Intn(3) == 0 {
			contract["options"] = map[string]interface{}{"disabledFunctions": []string{"TxScript", "nosuch"}, "disableSwaps": true}
		}
		cfg["contract"] = contract
		if rng.Intn(4) > 0 {
			tok := map[string]interface{}{"name": "n", "decimals": 8}
			tok["issuer"] = map[string]interface{}{"address": accs[2].AddrString()}
			for _, f := range []string{"issuer", "feeSetter", "feeAddressSetter", "redeemer"} {
				if rng.Intn(2) == 0 {
					tok[f] = map[string]interface{}{"address": pick()}
				}
			}
			cfg["token"] = tok
		}
		b, _ := json.Marshal(cfg)
		args = []string{string(b)}
		desc = "init json " + truncS(string(b), 300)
	}
	initCreator := w.Admin.Creator
	if rng.Intn(2) == 0 {
		oc := c14OddCreators()
		k := rng.Intn(len(oc))
		initCreator = oc[k].b
		desc += " | caller: " + oc[k].name
	}
	emit(c14Rec{I: i, Phase: "start", Kind: "plain", Desc: desc})
	var a [][]byte
	for _, x := range args {
		a = append(a, []byte(x))
	}
	res, _ := w.Peer.Simulate("tt", w.Peer.NextTxID(), initCreator, true, a)
	w.Peer.Commit("tt", res)
	// the configuration in force is applied by the next invocation
	res2, _ := w.Peer.Simulate("tt", w.Peer.NextTxID(), w.Client.Creator, false, strArgs("metadata", nil))
	emit(c14Rec{I: i, Phase: "done", Replied: res.Panicked == nil && res.Status != 0 && res2.Panicked == nil && res2.Status != 0, Status: res.Status, Msg: truncS(res.Message+" | "+res2.Message, 200)})
}

func c14Plain(w *World, cc *core.Chaincode, rng *rand.Rand, names []string, accs []*Account, nextNonce func() string, aclDesc string, i int, emit func(c14Rec)) {
	fn := names[rng.Intn(len(names))]
	isInit := rng.Intn(25) == 0
	var args []string
	method := cc.Router().Method(fn)
	argc := 0
	if method != "" {
		argc = cc.Router().ArgCount(method)
	}
	switch rng.Intn(3) {
	case 0: // a correctly signed request, then damaged
		margs := make([]string, 0, argc)
		for j := 1; j < argc; j++ {
			margs = append(margs, c14Arg(w, rng, accs))
		}
		args = w.SignedArgs("tt", fn, accs[rng.Intn(len(accs))], nextNonce(), margs...)
		switch rng.Intn(6) {
		case 0:
			if len(args) > 0 {
				args = args[:rng.Intn(len(args))]
			}
		case 1:
			args = append(args, c14Arg(w, rng, accs), c14Arg(w, rng, accs))
		case 2:
			if len(args) > 1 {
				a, b := rng.Intn(len(args)), rng.Intn(len(args))
				args[a], args[b] = args[b], args[a]
			}
		case 3:
			if len(args) > 0 {
				args[rng.Intn(len(args))] = c14Arg(w, rng, accs)
			}
		}
	case 1: // any length 0..n+2 of mixed values
		n := rng.Intn(argc + 3)
		for j := 0; j < n; j++ {
			args = append(args, c14Arg(w, rng, accs))
		}
	default: // the exact number of plain arguments
		for j := 0; j < argc; j++ {
			args = append(args, c14Arg(w, rng, accs))
		}
	}
	creators := []struct {
		name string
		b    []byte
	}{{"robot", w.Robot.Creator}, {"client", w.Client.Creator}, {"admin", w.Admin.Creator}, {"garbage", []byte{1, 2, 3}}, {"empty", nil}}
	creators = append(creators, c14OddCreators()...)
	cr := creators[rng.Intn(len(creators))]
	if isInit && rng.Intn(2) == 0 {
		oc := c14OddCreators()
		cr = oc[rng.Intn(len(oc))]
	}
	if fn == "batchExecute" || fn == "executeTasks" || strings.Contains(fn, "CCTransfer") {
		if rng.Intn(3) > 0 {
			cr = creators[0]
		}
	}
	desc := fmt.Sprintf("plain init=%v fn=%q creator=%s acl=%s nargs=%d args=%q", isInit, fn, cr.name, aclDesc, len(args), trunc(args))
	emit(c14Rec{I: i, Phase: "start", Kind: "plain", Desc: desc})
	var a [][]byte
	if isInit {
		for _, x := range args {
			a = append(a, []byte(x))
		}
	} else {
		a = strArgs(fn, args)
	}
	res, _ := w.Peer.Simulate("tt", w.Peer.NextTxID(), cr.b, isInit, a)
	if rng.Intn(3) == 0 && !isInit {
		w.Peer.Commit("tt", res)
	}
	emit(c14Rec{I: i, Phase: "done", Replied: res.Panicked == nil && res.Status != 0, Status: res.Status, Msg: truncS(res.Message, 200)})
}

// caller identities of unusual shape: well-formed X.509 certificates whose organisational-unit list is empty, holds an
// empty name, or holds several names (the admin unit first / last / absent), an RSA key, and a serialized identity
// whose certificate bytes are not PEM
var c14odd []struct {
	name string
	b    []byte
}

func c14OddCreators() []struct {
	name string
	b    []byte
} {
	if c14odd == nil {
		add := func(name string, b []byte) {
			c14odd = append(c14odd, struct {
				name string
				b    []byte
			}{name, b})
		}
		add("certificate without organisational units", NewECIdentityOUs("nou", nil).Creator)
		add("certificate with an empty unit name", NewECIdentityOUs("eou", []string{""}).Creator)
		add("certificate with units [client admin]", NewECIdentityOUs("ca", []string{"client", "admin"}).Creator)
		add("certificate with units [admin client]", NewECIdentityOUs("ac", []string{"admin", "client"}).Creator)
		add("certificate with units [a b c d]", NewECIdentityOUs("abcd", []string{"a", "b", "c", "d"}).Creator)
		add("RSA certificate of the admin unit", NewRSAIdentity("rsa", "admin").Creator)
		add("identity whose certificate is not PEM", makeCreatorRaw("verifMSP", []byte("not a pem block")))
		add("identity with an empty certificate", makeCreatorRaw("verifMSP", nil))
	}
	return c14odd
}

func trunc(args []string) []string {
	out := make([]string, len(args))
	for i, a := range args {
		out[i] = truncS(a, 80)
	}
	return out
}

func truncS(s string, n int) string {
	if len(s) > n {
		return s[:n] + "..."
	}
	return s
}

var c14Scripts = []struct {
	script string
	faulty bool
}{{"put,k1,v", false}, {"put,k2,v;get,k2", false}, {"panic", true}, {"nilpanic", true}, {"put,k3,v;panic", true}, {"fail", true}, {"put,k4,v;event,e,x", false}}

func c14Batch(w *World, rng *rand.Rand, accs []*Account, nextNonce func() string, aclDesc string, i int, emit func(c14Rec)) {
	// the access-control faults would make the submissions fail: submit with a healthy ACL, run the batch with the vector's
	fault, kt := w.Peer.ACL.Fault, w.Peer.ACL.KeyTypes
	w.Peer.ACL.Fault, w.Peer.ACL.KeyTypes = map[string]string{}, "match"
	b := &fpb.Batch{}
	var txFlags, swFlags, msFlags, keyFlags []bool
	var parts []string
	for n := 1 + rng.Intn(5); n > 0; n-- {
		s := c14Scripts[rng.Intn(len(c14Scripts))]
		req := w.SignedArgs("tt", "script", accs[rng.Intn(2)], nextNonce(), s.script)
		sub := w.Submit("tt", "script", req)
		if !sub.OK() {
			continue
		}
		raw, _ := hex.DecodeString(sub.TxID)
		b.TxIDs = append(b.TxIDs, raw)
		txFlags = append(txFlags, s.faulty)
		parts = append(parts, s.script)
	}
	if rng.Intn(3) == 0 { // a transaction id that is not pending: any length from empty to longer than a real one, anywhere in the list
		id := make([]byte, []int{0, 0, 0, 1, 2, 3, 5, 7, 8, 9, 31, 33}[rng.Intn(12)])
		for j := range id {
			id[j] = byte(0xd0 + rng.Intn(40))
		}
		at := rng.Intn(len(b.TxIDs) + 1)
		b.TxIDs = append(b.TxIDs[:at], append([][]byte{id}, b.TxIDs[at:]...)...)
		txFlags = append(txFlags[:at], append([]bool{true}, txFlags[at:]...)...)
		parts = append(parts[:at], append([]string{fmt.Sprintf("<unknown tx of %d bytes>", len(id))}, parts[at:]...)...)
	}
	for n := rng.Intn(3); n > 0; n-- {
		id := []byte{byte(0xa0 + rng.Intn(200)%90), byte(rng.Intn(250))}
		switch rng.Intn(5) {
		case 3: // an owner that is not an address: missing, or too short
			b.Swaps = append(b.Swaps, &fpb.Swap{Id: id, Creator: accs[0].Addr, Owner: [][]byte{nil, {1, 2, 3}, accs[0].Addr[:20]}[rng.Intn(3)], Token: "VT", Amount: big.NewInt(5).Bytes(), From: "VT", To: "TT", Hash: swHash("k1"), Timeout: 1})
			swFlags = append(swFlags, false) // the answer of a direct swap does not look at the owner: the record is stored
		case 4: // the same among the multi-swaps
			b.MultiSwaps = append(b.MultiSwaps, &fpb.MultiSwap{Id: id, Creator: accs[0].Addr, Owner: [][]byte{nil, {1, 2, 3}, accs[0].Addr[:20]}[rng.Intn(3)], Token: "VT",
				Assets: []*fpb.Asset{{Group: "VT_1", Amount: big.NewInt(5).Bytes()}}, From: "VT", To: "TT", Hash: swHash("k1"), Timeout: 1})
			msFlags = append(msFlags, false) // likewise stored; its reply follows those of the single swaps
		case 0: // a well-formed answer of a swap from VT
			b.Swaps = append(b.Swaps, &fpb.Swap{Id: id, Creator: accs[0].Addr, Owner: accs[0].Addr, Token: "VT", Amount: big.NewInt(5).Bytes(), From: "VT", To: "TT", Hash: swHash("k1"), Timeout: 1})
			swFlags = append(swFlags, false)
		case 1: // token of neither side
			b.Swaps = append(b.Swaps, &fpb.Swap{Id: id, Owner: accs[0].Addr, Token: "XX", From: "VT", To: "TT"})
			swFlags = append(swFlags, true)
		default: // reverse swap with nothing given out: insufficient
			b.Swaps = append(b.Swaps, &fpb.Swap{Id: id, Owner: accs[0].Addr, Token: "TT", Amount: big.NewInt(5).Bytes(), From: "VT", To: "TT"})
			swFlags = append(swFlags, true)
		}
	}
	for n := rng.Intn(3); n > 0; n-- {
		b.Keys = append(b.Keys, &fpb.SwapKey{Id: []byte{byte(rng.Intn(255))}, Key: "k1"}) // no such swap
		keyFlags = append(keyFlags, true)
	}
	swFlags = append(swFlags, msFlags...)
	w.Peer.ACL.Fault, w.Peer.ACL.KeyTypes = fault, kt
	desc := fmt.Sprintf("batch acl=%s txs=%q swaps=%d multiswaps=%d keys=%d", aclDesc, parts, len(b.Swaps), len(b.MultiSwaps), len(b.Keys))
	emit(c14Rec{I: i, Phase: "start", Kind: "batch", Desc: desc, Flags: [][]bool{txFlags, swFlags, keyFlags}})
	out := w.ExecBatch("tt", b)
	rec := c14Rec{I: i, Phase: "done", Replied: out.Res.Panicked == nil && out.Res.Status != 0, Status: out.Res.Status, Msg: truncS(out.Res.Message, 200)}
	if out.Resp != nil {
		var otx, osw, okeys []bool
		for _, r := range out.Resp.GetTxResponses() {
			otx = append(otx, r.GetError() == nil)
		}
		for _, r := range out.Resp.GetSwapResponses() {
			osw = append(osw, r.GetError() == nil)
		}
		for _, r := range out.Resp.GetSwapKeyResponses() {
			okeys = append(okeys, r.GetError() == nil)
		}
		rec.Items = [][]bool{otx, osw, okeys}
	}
	emit(rec)
}

func c14Tasks(w *World, rng *rand.Rand, accs []*Account, nextNonce func() string, aclDesc string, i int, emit func(c14Rec)) {
	// the vector's access-control fault applies to ONE signer only (the others must not be hurt)
	fault, kt := w.Peer.ACL.Fault, w.Peer.ACL.KeyTypes
	w.Peer.ACL.Fault, w.Peer.ACL.KeyTypes = map[string]string{}, "match"
	var tasks []*fpb.Task
	var predict, flags []bool
	var parts []string
	// the access-control service misbehaves for ONE signer (account 1); account 0's tasks must not be hurt
	sick := ""
	if rng.Intn(2) == 0 {
		sick = []string{"status", "empty", "garbled", "noaddr", "noaddr", "noaddr"}[rng.Intn(6)]
	}
	accs[1].ACLFault = sick
	prefetch := ""
	if rng.Intn(2) == 0 { // the grouped pre-fetch fails: every look-up then happens inside its own task
		prefetch = []string{"status", "empty", "garbled", "transport"}[rng.Intn(4)]
		w.Peer.ACL.Fault["getAccountsInfo"] = prefetch
	}
	defer func() { accs[1].ACLFault = ""; delete(w.Peer.ACL.Fault, "getAccountsInfo") }()
	for n := 1 + rng.Intn(5); n > 0; n-- {
		s := c14Scripts[rng.Intn(len(c14Scripts))]
		who := rng.Intn(2)
		accs[1].ACLFault = ""
		req := w.SignedArgs("tt", "script", accs[who], nextNonce(), s.script)
		accs[1].ACLFault = sick
		t := &fpb.Task{Id: w.Peer.NextTxID(), Method: "script", Args: req}
		faulty, pred := s.faulty, false
		part := s.script
		if who == 1 && sick != "" {
			faulty, part = true, s.script+"<signer's acl reply: "+sick+">"
		}
		switch rng.Intn(8) {
		case 0: // fewer arguments than the method expects
			t.Args = t.Args[:rng.Intn(len(t.Args))]
			faulty, pred, part = true, true, fmt.Sprintf("<%d args>", len(t.Args))
		case 1:
			t.Args = append(t.Args, "x", "y")
			faulty, part = true, "<2 extra args>"
		case 2:
			t.Method = "nosuchmethod"
			faulty, part = true, "<unknown method>"
		case 3: // a method without parameters given arguments
			t.Method, t.Args = "buildInfo", []string{"a", "b", "c"}
			faulty, pred, part = true, true, "<buildInfo with 3 args>"
		}
		tasks = append(tasks, t)
		flags = append(flags, faulty)
		predict = append(predict, pred)
		parts = append(parts, part)
	}
	if rng.Intn(6) == 0 {
		tasks = append(tasks, nil)
		flags = append(flags, true)
		predict = append(predict, true)
		parts = append(parts, "<nil task>")
	}
	_ = fault
	_ = kt
	desc := fmt.Sprintf("tasks acl(one signer)=%q prefetch=%q tasks=%q", sick, prefetch, parts)
	emit(c14Rec{I: i, Phase: "start", Kind: "tasks", Desc: desc, Flags: [][]bool{predict, flags}})
	out := w.ExecTasks("tt", w.Robot.Creator, tasks)
	rec := c14Rec{I: i, Phase: "done", Replied: out.Res.Panicked == nil && out.Res.Status != 0, Status: out.Res.Status, Msg: truncS(out.Res.Message, 200)}
	if out.Resp != nil {
		var ot []bool
		for _, r := range out.Resp.GetTxResponses() {
			ot = append(ot, r.GetError() == nil)
		}
		rec.Items = [][]bool{ot}
	}
	emit(rec)
}

func init() { props["C14"] = genC14 }
