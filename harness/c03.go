package main

import (
	"sort"
	"strconv"
	"strings"

	fpb "github.com/anoideaopen/foundation/proto"
)

// c03Base builds a correctly signed two-argument request and its symbolic signatures.
func (aw *authWorld) c03Base(chName string, route int, acc *Account, a, b string) (*authCase, string) {
	return aw.c03BaseFor(chName, chName, chName, route, acc, a, b)
}

// c03BaseFor signs a request whose chaincode / channel fields name ccField / chField and which is sent to chName.
func (aw *authWorld) c03BaseFor(chName, ccField, chField string, route int, acc *Account, a, b string) (*authCase, string) {
	aw.nonce++
	fn := map[int]string{0: "echo2", 1: "echo2", 2: "nbEcho2", 3: "qEcho2"}[route]
	kt := acc.Members[0].KeyType
	args := BuildRequest(fn, "", ccField, chField, []string{a, b}, strconv.FormatUint(aw.nonce, 10), acc.Members, nil, nil)
	msg := fn + strings.Join(args[:len(args)-len(acc.Members)], "")
	ac := &authCase{Route: route, Fn: fn, Args: args, KeyType: kt.String(), PolicyN: int(acc.ReqN), signers: acc.Members, account: acc, cc: chName, ch: chName}
	for _, m := range acc.Members {
		ac.Modes = append(ac.Modes, "valid")
		ac.sigSyms = append(ac.sigSyms, symSig(SigValid, m, nil, msg))
	}
	ac.valid = len(acc.Members)
	ac.required = int(acc.ReqN)
	return ac, msg
}

// a byte moved across a boundary next to the chaincode or channel field changes that field and is
// rejected by the name check; only the other boundaries are the known finding F2
func shiftClass(f int) string {
	if f <= 2 {
		return "boundary_shift_routing"
	}
	return "boundary_shift"
}

func cloneCase(ac *authCase) *authCase {
	c := *ac
	c.Args = append([]string(nil), ac.Args...)
	c.sigSyms = append([]string(nil), ac.sigSyms...)
	c.signers = append([]*User(nil), ac.signers...)
	return &c
}

func genC03(c *Ctx) error {
	c.ShardSize = 150
	c.Notes["rule"] = "for valid signed two-argument requests (3 key types, single key and 2-of-2, four routes): every single-field tamper operator applied to every signed field (request id, chaincode, channel, both method arguments, nonce, signer keys) and to the function name: substitute one byte, truncate, extend, swap neighbouring fields, move 1..2 bytes across each boundary (class boundary_shift), change the nonce, re-target to the second deployed chaincode/channel with and without renaming the fields - also with the proposal rewritten by the submitter so as to pass (the chaincode id inside the payload, which no peer checks, names the chaincode the request was signed for, or nothing; with and without a proposal header), deliver a request signed for chaincode tt on channel tt to another chaincode of the same channel (named vt, and named TT), replace / permute signer keys (with and without their signatures). The untampered request is included as control. Non-trivial: every tampered case."
	aw, err := newAuthWorld()
	if err != nil {
		return err
	}
	w := aw.w
	// two more chaincodes ON CHANNEL tt (not named after the channel): "vt", and "TT" (Fabric names are case-sensitive)
	if _, err := w.AddTokenAs("vt@tt", "VT", "vt", "tt", ChanOpts{}); err != nil {
		return err
	}
	if _, err := w.AddTokenAs("TT@tt", "TT", "TT", "tt", ChanOpts{}); err != nil {
		return err
	}
	kts := []fpb.KeyType{fpb.KeyType_ed25519, fpb.KeyType_secp256k1, fpb.KeyType_gost}
	other := w.NewAccount(fpb.KeyType_ed25519)
	other.ReqN = 1
	var lastBase *authCase
	emit := func(ac *authCase, tamper string, classes ...string) {
		ac.Tamper = tamper
		ac.Classes = classes
		ac.tampered = tamper != "none"
		if ac.tampered && lastBase != nil {
			// the honest request is processed first, by the same chaincode process: anything the
			// process remembers about it (caches) is in place when the tampered copy arrives
			honest := cloneCase(lastBase)
			authRun(aw.w, honest.ch, honest, honest.Args[3])
			if honest.Result != "accept" {
				c.Count("honest_not_accepted")
			}
		}
		aw.emit(c, ac, "ok", 3)
		c.Count("tamper_" + tamper)
	}
	for _, kt := range kts {
		for size := 1; size <= 2; size++ {
			members := make([]*User, size)
			for i := range members {
				members[i] = w.NewUser(kt)
			}
			acc := w.NewAccountOf(members...)
			acc.ReqN = uint32(size)
			for route := 0; route < 4; route++ {
				mk := func() *authCase {
					aw.tag++
					ac, _ := aw.c03Base("tt", route, acc, "a"+strconv.Itoa(aw.tag), "bb7")
					lastBase = cloneCase(ac)
					return ac
				}
				emit(mk(), "none")
				nSigned := 6 + size // reqId cc ch a b nonce keys
				for f := 0; f < nSigned; f++ {
					// substitute
					ac := mk()
					if len(ac.Args[f]) > 0 {
						b := []byte(ac.Args[f])
						if b[len(b)-1] == '1' {
							b[len(b)-1] = '2'
						} else {
							b[len(b)-1] = '1'
						}
						ac.Args[f] = string(b)
					} else {
						ac.Args[f] = "x"
					}
					emit(ac, "substitute")
					// truncate
					ac = mk()
					if len(ac.Args[f]) > 0 {
						ac.Args[f] = ac.Args[f][:len(ac.Args[f])-1]
						emit(ac, "truncate")
					}
					// extend
					ac = mk()
					ac.Args[f] += "1"
					emit(ac, "extend")
					if f+1 < nSigned {
						// swap neighbours
						ac = mk()
						if ac.Args[f] != ac.Args[f+1] {
							ac.Args[f], ac.Args[f+1] = ac.Args[f+1], ac.Args[f]
							emit(ac, "swap")
						}
						// move bytes across the boundary
						for k := 1; k <= 2; k++ {
							ac = mk()
							if len(ac.Args[f]) >= k {
								l := ac.Args[f]
								ac.Args[f], ac.Args[f+1] = l[:len(l)-k], l[len(l)-k:]+ac.Args[f+1]
								emit(ac, "shift_right", shiftClass(f))
							}
							ac = mk()
							if len(ac.Args[f+1]) >= k {
								r := ac.Args[f+1]
								ac.Args[f], ac.Args[f+1] = ac.Args[f]+r[:k], r[k:]
								emit(ac, "shift_left", shiftClass(f))
							}
						}
					}
				}
				// function name
				if route == 0 || route == 1 {
					ac := mk()
					ac.Fn = "script2"
					emit(ac, "function")
				}
				// nonce
				ac := mk()
				ac.Args[5] = strconv.FormatUint(aw.nonce+777, 10)
				emit(ac, "nonce")
				// re-target to the other deployed chaincode/channel, fields untouched
				ac = mk()
				ac.cc, ac.ch = "uu", "uu"
				emit(ac, "retarget")
				// ... and with the names rewritten
				ac = mk()
				ac.cc, ac.ch = "uu", "uu"
				ac.Args[1], ac.Args[2] = "uu", "uu"
				emit(ac, "retarget_renamed")
				ac = mk()
				ac.Args[1] = "uu"
				emit(ac, "rename_cc")
				ac = mk()
				ac.Args[2] = "uu"
				emit(ac, "rename_ch")
				// correctly signed, but for another channel / another chaincode (nothing tampered with afterwards)
				aw.tag++
				ac, _ = aw.c03BaseFor("tt", "tt", "staging", route, acc, "a"+strconv.Itoa(aw.tag), "bb7")
				ac.tampered = true
				emit(ac, "signed_for_other_channel")
				// ... for a channel whose name differs from this one's by letter case only
				aw.tag++
				ac, _ = aw.c03BaseFor("tt", "tt", "TT", route, acc, "a"+strconv.Itoa(aw.tag), "bb7")
				ac.tampered = true
				emit(ac, "signed_for_channel_in_other_case")
				aw.tag++
				ac, _ = aw.c03BaseFor("tt", "fiat", "tt", route, acc, "a"+strconv.Itoa(aw.tag), "bb7")
				emit(ac, "signed_for_other_chaincode")
				// correctly signed for chaincode tt on channel tt, delivered untouched to another chaincode of the SAME channel
				for _, dst := range []struct{ key, cc, class string }{{"vt@tt", "vt", "same_channel_other_chaincode"}, {"TT@tt", "TT", "same_channel_chaincode_name_in_other_case"}} {
					ac = mk()
					ac.cc, ac.ch, ac.deliverTo = dst.cc, "tt", dst.key
					emit(ac, dst.class)
				}
				// ... and the same with the proposal written by the submitter so as to pass: the invocation spec inside the
				// payload (which no peer checks; it routes by the header extension) names the chaincode the request was
				// signed for, or names nothing; with and without a header
				for _, v := range []struct {
					spec     string
					noHeader bool
					class    string
				}{{"tt", false, "other_chaincode_spec_names_signed_chaincode"}, {"-", false, "other_chaincode_spec_names_nothing"},
					{"-", true, "other_chaincode_spec_names_nothing_no_header"}} {
					ac = mk()
					ac.cc, ac.ch, ac.deliverTo, ac.specName, ac.noHeader = "vt", "tt", "vt@tt", v.spec, v.noHeader
					emit(ac, v.class)
				}
				// control: that chaincode accepts what was signed for it
				aw.tag++
				ac, _ = aw.c03BaseFor("tt", "vt", "tt", route, acc, "a"+strconv.Itoa(aw.tag), "bb7")
				ac.cc, ac.ch, ac.deliverTo = "vt", "tt", "vt@tt"
				emit(ac, "none")
				// ... also from a proposal without header
				aw.tag++
				ac, _ = aw.c03BaseFor("tt", "vt", "tt", route, acc, "a"+strconv.Itoa(aw.tag), "bb7")
				ac.cc, ac.ch, ac.deliverTo, ac.noHeader = "vt", "tt", "vt@tt", true
				emit(ac, "none")
				// signer keys
				ac = mk()
				ac.Args[6] = other.Members[0].Pub
				ac.signers = append([]*User{other.Members[0]}, ac.signers...)
				if size == 1 {
					ac.account = other
				}
				emit(ac, "replace_key")
				if size == 2 {
					ac = mk()
					ac.Args[6], ac.Args[7] = ac.Args[7], ac.Args[6]
					ac.Args[8], ac.Args[9] = ac.Args[9], ac.Args[8]
					ac.signers[0], ac.signers[1] = ac.signers[1], ac.signers[0]
					ac.sigSyms[0], ac.sigSyms[1] = ac.sigSyms[1], ac.sigSyms[0]
					emit(ac, "permute_keys")
					// the key list alone re-ordered, the signatures left where they were: what was signed names the keys in the
					// other order
					for _, asc := range []bool{true, false} { // from a request naming the keys in ascending and in descending order
						ordered := *acc
						ordered.Members = append([]*User(nil), acc.Members...)
						sort.Slice(ordered.Members, func(i, j int) bool { return (ordered.Members[i].Pub < ordered.Members[j].Pub) == asc })
						aw.tag++
						ac, _ = aw.c03Base("tt", route, &ordered, "a"+strconv.Itoa(aw.tag), "bb7")
						lastBase = cloneCase(ac)
						ac.Args[6], ac.Args[7] = ac.Args[7], ac.Args[6]
						ac.signers[0], ac.signers[1] = ac.signers[1], ac.signers[0]
						emit(ac, "permute_keys_only")
					}
				}
			}
		}
	}
	return nil
}

func init() { props["C03"] = genC03 }
