package main

import (
	"math/big"
	"encoding/hex"
	"fmt"
	"sort"
	"strconv"
	"strings"

	"github.com/anoideaopen/foundation/core"
	fpb "github.com/anoideaopen/foundation/proto"
	"github.com/golang/protobuf/proto" //nolint:staticcheck
)

const c02Base uint64 = 1700000000000
const c02TTL uint64 = 50000

func nerrTerm(err error) (string, string) {
	if err == nil {
		return "None", "ok"
	}
	switch errClass(err.Error()) {
	case "nonce_format":
		return "Some EFormat", "format"
	case "nonce_stale":
		return "Some EStale", "stale"
	case "nonce_dup":
		return "Some EDup", "dup"
	}
	return "Some EOTHER_" + err.Error(), "other"
}

func coqNList(ns []uint64) string {
	items := make([]string, len(ns))
	for i, n := range ns {
		items[i] = strconv.FormatUint(n, 10)
	}
	return coqList(items)
}

type c02Direct struct {
	Kind   string   `json:"kind"`
	Nonces []uint64 `json:"nonces"`
	Obs    []string `json:"obs"`
	Final  []uint64 `json:"final_window"`
}

func c02RunDirect(c *Ctx, ns []uint64, kind string) {
	var w []uint64
	obs := make([]string, len(ns))
	cls := make([]string, len(ns))
	acc := 0
	for i, n := range ns {
		var err error
		w, err = core.VerifSetNonce(n, w)
		obs[i], cls[i] = nerrTerm(err)
		c.Count("direct_" + cls[i])
		if err == nil {
			acc++
		}
	}
	term := fmt.Sprintf("CDirect %s %s %s", coqNList(ns), coqList(obs), coqNList(w))
	c.Emit(term, c02Direct{"direct", ns, cls, w}, acc >= 1 && acc < len(ns))
	c.Count(kind)
}

type c02Req struct {
	Route  string `json:"route"`
	Sender int    `json:"sender"`
	Nonce  uint64 `json:"nonce"`
	BodyOK bool   `json:"body_ok"`
	Group  int    `json:"group"` // index of the batch / task list it was executed in
}

type c02Sys struct {
	Kind  string           `json:"kind"`
	Reqs  []c02Req         `json:"requests"`
	Obs   []string         `json:"obs"`
	Final map[int][]uint64 `json:"final_windows"`
}

func c02Res(msg string) (string, string) {
	switch cl := errClass(msg); cl {
	case "ok":
		return "ROk", "ok"
	case "body_failed":
		return "RBodyFailed", "body_failed"
	case "nonce_format":
		return "RNonce EFormat", "format"
	case "nonce_stale":
		return "RNonce EStale", "stale"
	case "nonce_dup":
		return "RNonce EDup", "dup"
	default:
		return "RUNEXPECTED", cl
	}
}

// c02RunSys executes one history of signed requests on a fresh world.
func c02RunSys(c *Ctx, reqs []c02Req, legacy map[int]uint64) error {
	w := NewWorld()
	if _, err := w.AddToken("TT", ChanOpts{}); err != nil {
		return err
	}
	senders := []*Account{w.NewAccount(fpb.KeyType_ed25519), w.NewAccount(fpb.KeyType_ed25519), w.NewAccount(fpb.KeyType_ed25519)}
	// nonce records in the old format: the raw big-endian bytes of the newest accepted nonce
	var legItems []string
	for si := 0; si < len(senders); si++ {
		l, ok := legacy[si]
		if !ok {
			continue
		}
		raw := new(big.Int).SetUint64(l).Bytes()
		for proto.Unmarshal(raw, new(fpb.Nonce)) == nil { // (a number whose bytes happen to be a well-formed message would be read as one)
			l++
			raw = new(big.Int).SetUint64(l).Bytes()
		}
		key, _ := w.Peer.newStub(w.Peer.Channels["tt"], "", nil, nil).CreateCompositeKey(hex.EncodeToString([]byte{core.StateKeyNonce}), []string{senders[si].AddrString()})
		w.Peer.Channels["tt"].State[key] = raw
		legItems = append(legItems, fmt.Sprintf("(%d, %d)", si, l))
	}
	obs := make([]string, len(reqs))
	cls := make([]string, len(reqs))
	i := 0
	for i < len(reqs) {
		j := i
		for j < len(reqs) && reqs[j].Group == reqs[i].Group {
			j++
		}
		group := reqs[i:j]
		// the peers' clock moves on between requests, by seconds or by minutes: what a nonce is worth is measured against the
		// sender's newest accepted nonce, never against a clock
		w.Peer.Now += []int64{0, 1, 49, 51, 120, 3600}[c.Rng.Intn(6)]
		script := func(r c02Req) string {
			if r.BodyOK {
				return "put,k" + strconv.Itoa(r.Sender) + ",v"
			}
			return "put,k" + strconv.Itoa(r.Sender) + ",w;fail"
		}
		var out *BatchOut
		if group[0].Route == "batch" {
			var ids []string
			for _, r := range group {
				args := w.SignedArgs("tt", "script", senders[r.Sender], strconv.FormatUint(r.Nonce, 10), script(r))
				sub := w.Submit("tt", "script", args)
				if !sub.OK() {
					return fmt.Errorf("submission rejected: %s", sub.Message)
				}
				ids = append(ids, sub.TxID)
			}
			out = w.ExecBatchIDs("tt", ids...)
		} else {
			var tasks []*fpb.Task
			for _, r := range group {
				// a batched transaction method or a method executed without batching (NBTx): as tasks both consume their nonce
				fn := "script"
				if (r.Nonce+uint64(r.Sender))%3 == 0 {
					fn = "nbScript"
					c.Count("sys_task_of_nonbatched_method")
				}
				args := w.SignedArgs("tt", fn, senders[r.Sender], strconv.FormatUint(r.Nonce, 10), script(r))
				tasks = append(tasks, &fpb.Task{Id: w.Peer.NextTxID(), Method: fn, Args: args})
			}
			out = w.ExecTasks("tt", w.Robot.Creator, tasks)
		}
		if out.Resp == nil || len(out.Resp.GetTxResponses()) != len(group) {
			return fmt.Errorf("batch/task execution failed: %s", out.Res.Message)
		}
		for k, tr := range out.Resp.GetTxResponses() {
			obs[i+k], cls[i+k] = c02Res(tr.GetError().GetError())
			c.Count("sys_" + group[k].Route + "_" + cls[i+k])
		}
		i = j
	}
	// final windows from the ledger
	final := map[int][]uint64{}
	var finItems []string
	for si, acc := range senders {
		key, _ := w.Peer.newStub(w.Peer.Channels["tt"], "", nil, nil).CreateCompositeKey(hex.EncodeToString([]byte{core.StateKeyNonce}), []string{acc.AddrString()})
		data := w.Peer.Channels["tt"].State[key]
		if len(data) == 0 {
			continue
		}
		var n fpb.Nonce
		if err := proto.Unmarshal(data, &n); err != nil {
			if _, isLegacy := legacy[si]; !isLegacy {
				return err
			}
			n = fpb.Nonce{Nonce: []uint64{new(big.Int).SetBytes(data).Uint64()}} // still the old record: nothing was accepted
		}
		final[si] = n.GetNonce()
		finItems = append(finItems, fmt.Sprintf("(%d, %s)", si, coqNList(n.GetNonce())))
	}
	sort.Strings(finItems)
	rs := make([]string, len(reqs))
	nontrivial := false
	seen := map[string]bool{}
	for k, r := range reqs {
		rt := "RBatch"
		if r.Route == "task" {
			rt = "RTask"
		}
		rs[k] = fmt.Sprintf("Req %s %d %d %s", rt, r.Sender, r.Nonce, coqBool(r.BodyOK))
		id := fmt.Sprintf("%d/%d", r.Sender, r.Nonce)
		if seen[id] {
			nontrivial = true
		}
		seen[id] = true
	}
	term := fmt.Sprintf("CSys %s %s %s", coqList(rs), coqList(obs), coqList(finItems))
	if len(legItems) > 0 {
		term = fmt.Sprintf("CSysL %s %s %s %s", coqList(legItems), coqList(rs), coqList(obs), coqList(finItems))
		c.Count("system_history_with_legacy_nonce_records")
		nontrivial = true
	}
	if strings.Contains(term, "RUNEXPECTED") {
		c.Count("sys_unexpected_class")
	}
	c.Emit(term, c02Sys{"system", reqs, cls, final}, nontrivial)
	c.Count("system_history")
	return nil
}

func genC02(c *Ctx) error {
	c.Notes["rule"] = "(system histories: the peers clock moves on between requests by 0-3600 s; a quarter start with one or two senders whose nonce record is still in the old one-number format, which is also replayed; tasks call batched and non-batched methods) direct: all sequences up to the given length over 11 boundary values (offsets 0,+-1, ttl-1, ttl, ttl+1 above and below, 12/14 digits) fed to setNonce from the empty window, plus random clustered sequences; system: histories of signed requests of 3 senders through batchExecute and executeTasks with chosen nonces, replays and failing bodies. Non-trivial: at least one accept and one reject (direct) / at least one replayed (sender, nonce) pair (system)."
	B := c02Base
	vals := []uint64{B, B + 1, B - 1, B + c02TTL - 1, B + c02TTL, B + c02TTL + 1,
		B - (c02TTL - 1), B - c02TTL, B - (c02TTL + 1), 999999999999, 10000000000000}
	depth := 3
	if c.Thorough() {
		depth = 4
	}
	var rec func(h []uint64, d int)
	rec = func(h []uint64, d int) {
		if len(h) > 0 {
			c02RunDirect(c, append([]uint64(nil), h...), fmt.Sprintf("direct_exhaustive_len%d", len(h)))
		}
		if d == 0 {
			return
		}
		for _, v := range vals {
			rec(append(h, v), d-1)
		}
	}
	rec(nil, depth)
	// the corpus of boundary histories (mutant catalogue, DESIGN appendix C)
	corpus := [][]uint64{
		{B, B + c02TTL, B, B + c02TTL + 1, B, B + 1},
		{B - c02TTL, B, B - c02TTL},
		{B, B, B},
		{B + 5, B + 1, B + 3, B + 3, B + 2, B + 1, B + 4, B + 5},
		{B, B + 10, B + 5, B + 100000, B + 5, B + 50001, B + 50000, B + 49999},
	}
	for _, h := range corpus {
		c02RunDirect(c, h, "direct_corpus")
	}
	// many requests of one sender inside one window (no bound on how many the window remembers), then
	// replays of the oldest, of middle ones and of the newest
	for _, cnt := range []int{40, 70, 130, 300} {
		for _, step := range []uint64{1, 7, uint64(c02TTL-1) / uint64(cnt)} {
			if step == 0 {
				step = 1
			}
			var h []uint64
			for k := 0; k < cnt; k++ {
				h = append(h, B+uint64(k)*step)
			}
			h = append(h, B, B+step, B+uint64(cnt/2)*step, B+uint64(cnt-1)*step, B+5*step, B+uint64(cnt)*step, B+2*step)
			c02RunDirect(c, h, "direct_burst")
		}
	}
	n := c.N(800, 20000)
	for i := 0; i < n; i++ {
		ln := 10 + c.Rng.Intn(31)
		h := make([]uint64, ln)
		span := int64(1000)
		if c.Rng.Intn(2) == 0 {
			span = 120000
		}
		for k := range h {
			switch r := c.Rng.Intn(100); {
			case r < 15 && k > 0:
				h[k] = h[c.Rng.Intn(k)] // exact duplicate
			case r < 18:
				h[k] = vals[9+c.Rng.Intn(2)]
			case r < 30 && k > 0:
				// boundary around the current maximum
				mx := h[0]
				for _, x := range h[:k] {
					if x > mx && x < 9000000000000 {
						mx = x
					}
				}
				h[k] = uint64(int64(mx) - int64(c02TTL) + int64(c.Rng.Intn(3)) - 1)
			default:
				h[k] = uint64(int64(B) + c.Rng.Int63n(2*span) - span)
			}
		}
		c02RunDirect(c, h, "direct_random")
	}
	// system level
	m := c.N(60, 1500)
	for i := 0; i < m; i++ {
		ln := 8 + c.Rng.Intn(17)
		reqs := make([]c02Req, 0, ln)
		group := 0
		for len(reqs) < ln {
			route := "batch"
			if c.Rng.Intn(2) == 0 {
				route = "task"
			}
			gs := 1 + c.Rng.Intn(4)
			for g := 0; g < gs && len(reqs) < ln; g++ {
				r := c02Req{Route: route, Sender: c.Rng.Intn(3), BodyOK: c.Rng.Intn(100) < 70, Group: group}
				switch x := c.Rng.Intn(100); {
				case x < 25 && len(reqs) > 0:
					p := reqs[c.Rng.Intn(len(reqs))]
					r.Sender, r.Nonce = p.Sender, p.Nonce // replay (possibly through the other route)
				case x < 32:
					// not a 13-digit value: the neighbours of both bounds, zero (also what an absent nonce decodes to), one, the largest values
					r.Nonce = []uint64{999999999999, 10000000000000, 0, 1, 10000000000001, 1 << 63, ^uint64(0), 0}[c.Rng.Intn(8)]
				case x < 45:
					r.Nonce = uint64(int64(B) + int64(len(reqs))*700 - int64(c02TTL) + int64(c.Rng.Intn(3)) - 1)
				default:
					r.Nonce = uint64(int64(B) + int64(len(reqs))*700 + c.Rng.Int63n(60000) - 30000)
				}
				reqs = append(reqs, r)
			}
			group++
		}
		var legacy map[int]uint64
		if i%4 == 3 {
			// one or two senders still have their nonce record in the old format, a little above or below the requests to come
			legacy = map[int]uint64{}
			for k := 1 + c.Rng.Intn(2); k > 0; k-- {
				legacy[c.Rng.Intn(3)] = uint64(int64(B) + c.Rng.Int63n(80000) - 20000)
			}
			if len(reqs) > 2 && c.Rng.Intn(2) == 0 {
				for si, l := range legacy { // the recorded nonce itself is replayed
					reqs[1+c.Rng.Intn(len(reqs)-1)] = c02Req{Route: reqs[1].Route, Sender: si, Nonce: l, BodyOK: true, Group: reqs[1].Group}
					break
				}
			}
		}
		if err := c02RunSys(c, reqs, legacy); err != nil {
			return err
		}
	}
	return nil
}

func init() { props["C02"] = genC02 }
