package main

import (
	"sync"
	"encoding/json"
	"fmt"
	"reflect"
	"sort"
	"strconv"
	"strings"

	"github.com/anoideaopen/foundation/core"
	fpb "github.com/anoideaopen/foundation/proto"
	"github.com/golang/protobuf/proto" //nolint:staticcheck
	"github.com/hyperledger/fabric-chaincode-go/shim"
)

// classification of every method of shim.ChaincodeStubInterface (checked by reflection)
var stubOps = map[string]int{
	"PutState": 1, "DelState": 2, "SetStateValidationParameter": 3, "PutPrivateData": 4, "DelPrivateData": 5,
	"PurgePrivateData": 6, "SetPrivateDataValidationParameter": 7, "SetEvent": 8,
	"GetState": 20, "GetArgs": 21, "GetStringArgs": 21, "GetFunctionAndParameters": 21, "GetArgsSlice": 21,
	"GetTxID": 21, "GetChannelID": 21, "InvokeChaincode": 22, "GetStateValidationParameter": 20,
	"GetStateByRange": 23, "GetStateByRangeWithPagination": 23, "GetStateByPartialCompositeKey": 23,
	"GetStateByPartialCompositeKeyWithPagination": 23, "CreateCompositeKey": 21, "SplitCompositeKey": 21,
	"GetQueryResult": 23, "GetQueryResultWithPagination": 23, "GetHistoryForKey": 23, "GetPrivateData": 20,
	"GetPrivateDataHash": 20, "GetPrivateDataValidationParameter": 20, "GetPrivateDataByRange": 23,
	"GetPrivateDataByPartialCompositeKey": 23, "GetPrivateDataQueryResult": 23, "GetCreator": 21, "GetTransient": 21,
	"GetBinding": 21, "GetDecorations": 21, "GetSignedProposal": 21, "GetTxTimestamp": 21,
}

// script step -> stub operation number
var c15Steps = []struct {
	step string
	op   int
}{
	{"put,qk,v", 1}, {"del,qk", 2}, {"vp,qk", 3}, {"pput,qk,v", 4}, {"pdel,qk", 5}, {"ppurge,qk", 6}, {"pvp,qk", 7},
	{"event,qe,v", 8}, {"get,qk", 20}, {"put,d1,", 1}, {"get,d1", 20},
	{"acct,5", 8}, // an accounting record, as a balance move reports one: an output of the invocation like an event
}

// the same steps with their data, as terms of the model's second part (keys: qk -> 1, d1 -> 2)
var c15QopTerm = map[string]string{
	"put,qk,v": "QPut 1 [118]", "del,qk": "QDel 1", "vp,qk": "QOtherWrite 3", "pput,qk,v": "QOtherWrite 4", "pdel,qk": "QOtherWrite 5",
	"ppurge,qk": "QOtherWrite 6", "pvp,qk": "QOtherWrite 7", "event,qe,v": "QEvent 1 [118]", "get,qk": "QGet 1", "put,d1,": "QPut 2 []", "get,d1": "QGet 2",
	"acct,5": "QOtherWrite 8",
}

// effectsOf lists the mutating operations that reached the peer in one simulated transaction.
func effectsOf(res *TxResult, ownEvent string) []int {
	var eff []int
	for _, w := range res.Writes {
		switch {
		case w.Key == "qk" || w.Key == "d1":
			if w.Del && w.Key == "qk" {
				eff = append(eff, 2)
			} else {
				eff = append(eff, 1)
			}
		default:
			eff = append(eff, 1) // a framework write (nonce window, ACL synchronisation keys, ...)
		}
	}
	for _, o := range res.Other {
		switch {
		case strings.HasPrefix(o, "vp:"):
			eff = append(eff, 3)
		case strings.HasPrefix(o, "pput:"):
			eff = append(eff, 4)
		case strings.HasPrefix(o, "pdel:"):
			eff = append(eff, 5)
		case strings.HasPrefix(o, "ppurge:"):
			eff = append(eff, 6)
		case strings.HasPrefix(o, "pvp:"):
			eff = append(eff, 7)
		}
	}
	if res.Event != nil && res.Event.GetEventName() != ownEvent {
		eff = append(eff, 8)
	}
	if res.Event != nil && res.Event.GetEventName() == ownEvent && ownEvent == core.ExecuteTasksEvent {
		// the task list's own event: the accounting records it lists for its tasks (none of the bodies used next to a
		// query reports any)
		var be fpb.BatchEvent
		if proto.Unmarshal(res.Event.GetPayload(), &be) == nil {
			for _, e := range be.GetEvents() {
				if len(e.GetAccounting()) > 0 {
					eff = append(eff, 8)
				}
			}
		}
	}
	sort.Ints(eff)
	return eff
}

func intsTerm(l []int) string {
	s := make([]string, len(l))
	for i, x := range l {
		s[i] = strconv.Itoa(x)
	}
	return coqList(s)
}

func genC15(c *Ctx) error {
	c.ShardSize = 300
	// the interface must be fully classified
	it := reflect.TypeOf((*shim.ChaincodeStubInterface)(nil)).Elem()
	for i := 0; i < it.NumMethod(); i++ {
		if _, ok := stubOps[it.Method(i).Name]; !ok {
			return fmt.Errorf("stub method %s is not classified (mutating or not) - the C15 model must be extended", it.Method(i).Name)
		}
	}
	c.Notes["stub_methods_classified"] = it.NumMethod()
	c.Notes["rule"] = "scripted query bodies of 1-6 steps drawn from every mutating stub operation (put, put-empty, delete, event, validation parameter, private data put/delete/purge/validation parameter) and reads; query without a sender (direct call) and with a sender (direct call and as a task of executeTasks), with an access-control answer that does / does not carry changed-key transactions; on the task route a third of the queries share their request with a read-only transaction of a bystander, half of these under the same task id; the same bodies in a query method of a gRPC service registered through the gRPC router (the repository's sample BalanceService, METHOD_TYPE_QUERY), through the call context's stub and the contract's; plus every query function of the base contract and base token with valid and invalid arguments. A query is also run overlapping a transaction on the same instance (forced switch between the query's start and its first use of the stub), in a young process and in one that has used more than a million goroutine ids. For half of the sender-less direct queries also the values their reads returned are compared (the committed ones, whatever the body attempted before reading). Observed: the complete write set, event and private-data / validation-parameter attempts the simulated peer received for that invocation, and whether the committed ledger changed. Non-trivial: the body attempts at least one mutating operation. Plus queries sent to chaincodes whose ledger holds no configuration but what older releases may have left behind (initialisation arguments and a configuration under other keys)."
	rng := c.Rng
	w := NewWorld()
	if _, err := w.AddToken("TT", ChanOpts{}); err != nil {
		return err
	}
	ch := w.Peer.Channels["tt"]
	plain := w.NewAccount(fpb.KeyType_ed25519)
	changed := w.NewAccount(fpb.KeyType_ed25519)
	changed.SignedTx = []string{"tx1", "tx2"} // the ACL reports changed-key transactions for this account
	bystander := w.NewAccount(fpb.KeyType_ed25519)
	// committed values of the keys the bodies touch (a query must read these, whatever it "wrote" before)
	ch.State["qk"], ch.State["d1"] = []byte("committed"), []byte("old")
	nonce := uint64(1700000000000)
	n := c.N(400, 6000)
	for i := 0; i < n; i++ {
		k := 1 + rng.Intn(6)
		var steps []string
		var body []string
		for j := 0; j < k; j++ {
			s := c15Steps[rng.Intn(len(c15Steps))]
			steps = append(steps, s.step)
			body = append(body, strconv.Itoa(s.op))
		}
		if rng.Intn(10) == 0 {
			steps = append(steps, "fail")
		}
		script := strings.Join(steps, ";")
		route, sender, aclChanged := "QDirect", rng.Intn(3) > 0, rng.Intn(2) == 0
		if sender && rng.Intn(2) == 0 {
			route = "QTask"
		}
		acc := plain
		if aclChanged {
			acc = changed
		}
		before := stateSnapshot(ch)
		var res *TxResult
		own := ""
		neighbour := ""
		switch {
		case !sender:
			res, _ = w.Peer.Simulate("tt", w.Peer.NextTxID(), w.Client.Creator, false, strArgs("qScript", []string{script}))
		case route == "QDirect":
			nonce++
			args := w.SignedArgs("tt", "qScriptS", acc, strconv.FormatUint(nonce, 10), script)
			res, _ = w.Peer.Simulate("tt", w.Peer.NextTxID(), w.Client.Creator, false, strArgs("qScriptS", args))
		default:
			nonce++
			args := w.SignedArgs("tt", "qScriptS", acc, strconv.FormatUint(nonce, 10), script)
			tasks := []*fpb.Task{{Id: w.Peer.NextTxID(), Method: "qScriptS", Args: args}}
			if rng.Intn(3) == 0 {
				// the query shares its request with a transaction of a bystander that only reads - half of the time under the
				// SAME task id (ids are the submitter's labels, nothing makes them unique). The bystander's own nonce record is
				// not the query's doing and is left out of the observation.
				nonce++
				// ... or that writes, sets an event and is then refused: it leaves nothing, whoever comes next in the list
				bscript := []string{"get,d1", "put,dz,leak;event,ez,p;fail", "put,qk,leak;del,d1;fail"}[rng.Intn(3)]
				nb := w.SignedArgs("tt", "script", bystander, strconv.FormatUint(nonce, 10), bscript)
				id := w.Peer.NextTxID()
				if rng.Intn(2) == 0 {
					id = tasks[0].Id
					c.Count("query_task_shares_id_with_transaction")
				}
				if rng.Intn(2) == 0 {
					tasks = append(tasks, &fpb.Task{Id: id, Method: "script", Args: nb})
				} else {
					tasks = append([]*fpb.Task{{Id: id, Method: "script", Args: nb}}, tasks...)
					c.Count("query_task_after_a_transaction_task")
				}
				neighbour = bystander.AddrString()
			}
			data := mustMarshal(&fpb.ExecuteTasksRequest{Tasks: tasks})
			res, _ = w.Peer.Simulate("tt", w.Peer.NextTxID(), w.Client.Creator, false, strArgs("executeTasks", []string{string(data)}))
			own = core.ExecuteTasksEvent
		}
		if neighbour != "" {
			var kept []KVWrite
			for _, wr := range res.Writes {
				if strings.Contains(wr.Key, neighbour) {
					before[wr.Key] = string(wr.Value)
					continue
				}
				kept = append(kept, wr)
			}
			w.Peer.Commit("tt", res)
			res.Writes = kept
		} else {
			w.Peer.Commit("tt", res)
		}
		eff := effectsOf(res, own)
		if !aclChanged || !sender {
			aclChanged = aclChanged && sender
		}
		term := fmt.Sprintf("mkCase %s %s %s %s %s %s", route, coqBool(sender), coqBool(aclChanged), coqList(body), intsTerm(eff), coqBool(!stateEqual(before, ch)))
		if !sender && res.OK() && !strings.Contains(script, "fail") && i%2 == 0 {
			// the same invocation against the model with data: what the reads returned (the committed values, whatever the body
			// attempted before reading)
			var qops, reads []string
			for _, st := range steps {
				qops = append(qops, c15QopTerm[st])
			}
			var joined string
			if err := json.Unmarshal(res.Payload, &joined); err == nil && joined != "" {
				for _, kv := range strings.Split(joined, "|") {
					reads = append(reads, coqStr(strings.SplitN(kv, "=", 2)[1]))
				}
			}
			committed := fmt.Sprintf("[(1, %s); (2, %s)]", coqBytes(ch.State["qk"]), coqBytes(ch.State["d1"]))
			term = fmt.Sprintf("mkReads %s %s %s %s %s", committed, coqList(qops), coqList(reads), intsTerm(eff), coqBool(!stateEqual(before, ch)))
			c.Count("reads_compared")
		}
		mut := false
		for _, b := range body {
			if x, _ := strconv.Atoi(b); x <= 8 {
				mut = true
			}
		}
		c.Emit(term, map[string]interface{}{"route": route, "sender": sender, "acl_changed_keys": aclChanged, "script": script, "effects": eff, "status": res.Status, "message": res.Message}, mut)
		c.Count(route + "_sender_" + coqBool(sender))
	}
	// a query that only the gRPC router knows to be one (its name carries no "Query" prefix): the same scripted bodies,
	// through the stub of the call context and through the contract's stub
	gch, gfn, err := w.AddGrpcToken("GT", ChanOpts{})
	if err != nil {
		return err
	}
	for i := 0; i < c.N(120, 1500); i++ {
		k := 1 + rng.Intn(6)
		var steps, body []string
		for j := 0; j < k; j++ {
			s := c15Steps[rng.Intn(len(c15Steps))]
			steps = append(steps, s.step)
			body = append(body, strconv.Itoa(s.op))
		}
		if rng.Intn(10) == 0 {
			steps = append(steps, "fail")
		}
		grpcQueryScript, grpcQueryUseCtx = strings.Join(steps, ";"), rng.Intn(2) == 0
		before := stateSnapshot(gch)
		res, _ := w.Peer.Simulate("gt", w.Peer.NextTxID(), w.Client.Creator, false, strArgs(gfn, []string{"{}"}))
		w.Peer.Commit("gt", res)
		eff := effectsOf(res, "")
		term := fmt.Sprintf("mkCase QDirect false false %s %s %s", coqList(body), intsTerm(eff), coqBool(!stateEqual(before, gch)))
		mut := false
		for _, b := range body {
			if x, _ := strconv.Atoi(b); x <= 8 {
				mut = true
			}
		}
		c.Emit(term, map[string]interface{}{"route": "QDirect", "grpc_query": gfn, "stub_from_context": grpcQueryUseCtx, "script": grpcQueryScript, "effects": eff, "status": res.Status, "message": res.Message}, mut)
		c.Count(fmt.Sprintf("grpc_query_ctxstub_%v_status_%d", grpcQueryUseCtx, res.Status))
	}
	// a query overlapping a transaction on the same chaincode instance, in a young process and in one that has already used
	// more than a million goroutine ids: the query's attempted write must reach nobody's transaction
	for round := 0; round < 2; round++ {
		if round == 1 {
			var wg sync.WaitGroup
			for k := 0; k < 1000200; k++ {
				wg.Add(1)
				go wg.Done()
				if k%4096 == 0 {
					wg.Wait()
				}
			}
			wg.Wait()
			c.Count("process_aged_past_1e6_goroutines")
		}
		for i := c.N(15, 150); i > 0; i-- {
			qtag, ttag := fmt.Sprintf("q%d_%d", round, i), fmt.Sprintf("t%d_%d", round, i)
			hub := &GateHub{arrive: make(chan string), release: map[string]chan struct{}{qtag: make(chan struct{}), ttag: make(chan struct{})}}
			gateHub = hub
			type done struct {
				who string
				res *TxResult
			}
			dch := make(chan done, 2)
			run := func(who, fn, tag string) {
				res, _ := w.Peer.Simulate("tt", w.Peer.NextTxID(), w.Client.Creator, false, strArgs(fn, []string{tag, "1"}))
				dch <- done{who, res}
			}
			results := map[string]*TxResult{}
			wait := func(tag string) bool { // until the invocation parks at its gate - or ends
				select {
				case <-hub.arrive:
					return true
				case d := <-dch:
					results[d.who] = d.res
					return false
				}
			}
			go run("q", "gq", qtag)
			qParked := wait(qtag)
			go run("t", "gp", ttag)
			tParked := wait(ttag)
			if qParked {
				hub.release[qtag] <- struct{}{}
			}
			for results["q"] == nil {
				d := <-dch
				results[d.who] = d.res
			}
			if tParked && results["t"] == nil {
				hub.release[ttag] <- struct{}{}
			}
			for results["t"] == nil {
				d := <-dch
				results[d.who] = d.res
			}
			gateHub = nil
			eff := effectsOf(results["q"], "")
			for _, wr := range results["t"].Writes { // what the query attempted must not sit in the neighbour's write set either
				if strings.HasPrefix(wr.Key, "c17_"+qtag) {
					eff = append(eff, 1)
				}
			}
			term := fmt.Sprintf("mkCase QDirect false false [1] %s false", intsTerm(eff))
			c.Emit(term, map[string]interface{}{"route": "QDirect", "overlapping_transaction": true, "aged_process": round == 1, "effects": eff,
				"query_status": results["q"].Status, "transaction_status": results["t"].Status, "transaction_message": results["t"].Message}, true)
			c.Count(fmt.Sprintf("query_next_to_transaction_aged_%v", round == 1))
		}
	}
	// every query function of the contract, valid-looking and invalid arguments
	cc, _ := core.NewCC(&HToken{})
	handlers := cc.Router().Handlers()
	var names []string
	for m := range handlers {
		names = append(names, m)
	}
	sort.Strings(names)
	for _, m := range names {
		if !cc.Router().IsQuery(m) {
			continue
		}
		fn := handlers[m]
		argc := cc.Router().ArgCount(m)
		for variant := 0; variant < 3; variant++ {
			args := make([]string, argc)
			for i := range args {
				args[i] = []string{"1", plain.AddrString(), "x"}[(i+variant)%3]
			}
			if cc.Router().AuthRequired(m) {
				nonce++
				args = w.SignedArgs("tt", fn, plain, strconv.FormatUint(nonce, 10), args[1:]...)
			}
			before := stateSnapshot(ch)
			res, _ := w.Peer.Simulate("tt", w.Peer.NextTxID(), w.Client.Creator, false, strArgs(fn, args))
			w.Peer.Commit("tt", res)
			eff := effectsOf(res, "")
			term := fmt.Sprintf("mkCase QDirect %s false [] %s %s", coqBool(cc.Router().AuthRequired(m)), intsTerm(eff), coqBool(!stateEqual(before, ch)))
			c.Emit(term, map[string]interface{}{"library_query": fn, "args": args, "status": res.Status, "effects": eff}, false)
			c.Count("library_query")
		}
	}
	// ledgers without a stored configuration that hold what older releases may have left behind (the arguments of an
	// initialisation under several names, a configuration under another key): a query is refused or answered, and
	// changes nothing here either
	for _, chName := range []string{"ct", "nft", "curusd", "otf", "tt"} {
		cc2, err := core.NewCC(&HToken{})
		if err != nil {
			return err
		}
		w.Peer.AddChannel(chName+"-old", cc2)
		ch2 := w.Peer.Channels[chName+"-old"]
		ch2.CCName, ch2.ChannelID = chName, chName
		want := map[string]int{"ct": 4, "nft": 3, "curusd": 5, "otf": 4, "tt": 3}[chName]
		pos := []string{"platformski", w.Robot.SKI}
		for len(pos) < want {
			pos = append(pos, []string{w.Issuer.AddrString(), w.AdminAcc.AddrString(), w.FeeSet.AddrString()}[len(pos)%3])
		}
		posJSON, _ := json.Marshal(pos)
		cfgJSON := w.ConfigJSON(strings.ToUpper(chName), ChanOpts{})
		for _, k := range []string{"__init", "init", "__args", "__init_args", "args"} {
			ch2.State[k] = posJSON
		}
		for _, k := range []string{"config", "__config_old", "__cfg", "__config.bak"} {
			ch2.State[k] = []byte(cfgJSON)
		}
		for _, q := range [][]string{{"metadata"}, {"balanceOf", plain.AddrString()}, {"balanceOf", "x"}, {"sym"}, {"getNonce", plain.AddrString()}, {"documentsList"}, {"qScript", "put,k,v"}} {
			before := stateSnapshot(ch2)
			res, _ := w.Peer.Simulate(chName+"-old", w.Peer.NextTxID(), w.Client.Creator, false, strArgs(q[0], q[1:]))
			w.Peer.Commit(chName+"-old", res)
			eff := effectsOf(res, "")
			term := fmt.Sprintf("mkCase QDirect false false [] %s %s", intsTerm(eff), coqBool(!stateEqual(before, ch2)))
			c.Emit(term, map[string]interface{}{"query_on_unconfigured_ledger_with_leftovers": q, "channel": chName, "status": res.Status, "message": res.Message, "effects": eff}, false)
			c.Count("query_on_unconfigured_ledger_with_leftovers")
		}
	}
	return nil
}

func init() { props["C15"] = genC15 }
