package main

import (
	"encoding/json"
	"fmt"
	"strings"

	"github.com/anoideaopen/foundation/core"
	fpb "github.com/anoideaopen/foundation/proto"
	"github.com/golang/protobuf/proto" //nolint:staticcheck
)

// structured configuration from which the JSON text is rendered
type c18Wallet struct {
	Present bool
	Addr    string
}

type c18Cfg struct {
	HasContract bool
	Symbol      string
	Robot       string
	Admin       c18Wallet
	HasToken    bool
	EmptyTok    bool // the token section is present and holds nothing at all ("token":{})
	Issuer      c18Wallet
	FeeSetter   c18Wallet
	FeeASetter  c18Wallet
	Redeemer    c18Wallet
	Flaw        string // "", unknown_field, wrong_type, not_json
	Ext         string // chaincode-specific section: "" absent, "ok", "empty_addr"
	NoSwaps     bool   // options.disable_swaps
	NoMulti     bool   // options.disable_multi_swaps
}

func optStr(w c18Wallet) string {
	if !w.Present {
		return "None"
	}
	return "(Some " + coqStr(w.Addr) + ")"
}

func (v c18Cfg) term() string {
	tok := "None"
	if v.HasToken && v.EmptyTok {
		tok = "(Some (TConf None None None None))"
	} else if v.HasToken {
		tok = fmt.Sprintf("(Some (TConf %s %s %s %s))", optStr(v.Issuer), optStr(v.FeeSetter), optStr(v.FeeASetter), optStr(v.Redeemer))
	}
	return fmt.Sprintf("(CConf %s %s %s %s %s %s)", coqStr(v.Symbol), coqStr(v.Robot), optStr(v.Admin), tok, coqBool(v.NoSwaps), coqBool(v.NoMulti))
}

func (v c18Cfg) json() string {
	m := map[string]interface{}{}
	if v.HasContract {
		c := map[string]interface{}{"symbol": v.Symbol, "robotSKI": v.Robot}
		if v.Admin.Present {
			c["admin"] = map[string]interface{}{"address": v.Admin.Addr}
		}
		if v.Flaw == "unknown_field" {
			c["symbl"] = "TT"
		}
		if v.Flaw == "wrong_type" {
			c["symbol"] = 5
		}
		if v.NoSwaps || v.NoMulti {
			c["options"] = map[string]interface{}{"disable_swaps": v.NoSwaps, "disable_multi_swaps": v.NoMulti}
		}
		m["contract"] = c
	}
	if v.HasToken && v.EmptyTok {
		m["token"] = map[string]interface{}{}
	} else if v.HasToken {
		t := map[string]interface{}{"name": "n", "decimals": 8}
		for k, w := range map[string]c18Wallet{"issuer": v.Issuer, "feeSetter": v.FeeSetter, "feeAddressSetter": v.FeeASetter, "redeemer": v.Redeemer} {
			if w.Present {
				t[k] = map[string]interface{}{"address": w.Addr}
			}
		}
		m["token"] = t
	}
	switch v.Ext {
	case "ok":
		m["ext_config"] = map[string]interface{}{"@type": "type.googleapis.com/proto.Wallet", "address": "2d53vs8dwuYLhsBs45CpWwHgFQwLH1UoBN6DSQTzJeFjs5XvrB"}
	case "ok2":
		m["ext_config"] = map[string]interface{}{"@type": "type.googleapis.com/proto.Wallet", "address": "2VDbS7rFXXSwmrczSpNkfmv9Z1aH6BsqZPFcTbVGBdCUGmbZgK"}
	case "empty_addr":
		m["ext_config"] = map[string]interface{}{"@type": "type.googleapis.com/proto.Wallet"}
	}
	b, _ := json.Marshal(m)
	if v.Flaw == "not_json" {
		return string(b[:len(b)-1])
	}
	return string(b)
}

func genC18(c *Ctx) error {
	c.ShardSize = 60
	c.Notes["rule"] = "sequences of 1-5 initialisations on one chaincode (a token, a contract on the base contract alone, or a token with a chaincode-specific ext_config section and validator of its own, which then gets a valid / absent / invalid section): JSON configurations rendered from a structured value by field-wise mutation of a valid one (symbol / robot key / admin / issuer / setters missing, empty or ill-formatted, token section absent or present but empty, unknown field, ill-typed value, truncated JSON), legacy positional argument lists for every known channel name and unknown ones (right / wrong counts, empty arguments), each sent with an admin-OU, ordinary or malformed creator, or one whose PEM data holds several certificates (the first is the caller's). After every step: Init verdict, whether the stored bytes are what they have to be (untouched after a rejection, those of the request after an acceptance), and probes of the configuration in force (is an invocation refused for lack of configuration, the symbol in the metadata query, the wallets of the token section in force, which robot key opens batchExecute, whether a swap method is refused as disabled when called directly and as a task). Non-trivial: a sequence with at least one accepted and one rejected initialisation."
	rng := c.Rng
	symbols := []string{"TT", "T", "tt", "T1", "TT-1", "TT-", "1T", "T_T", "", "TT-A-B", "AB9", "A1-9Z", "TTé"}
	w0 := NewWorld()
	goodAddr := w0.Issuer.AddrString()
	addrs := []string{goodAddr, w0.AdminAcc.AddrString(), "", "0OIl", "2d 5", "abc"}
	goodAddrs := []string{goodAddr, w0.AdminAcc.AddrString(), w0.FeeSet.AddrString(), w0.NewAccount(fpb.KeyType_ed25519).AddrString()}
	n := c.N(150, 3000)
	for i := 0; i < n; i++ {
		w := NewWorld()
		chanNames := []string{"tt", "nft", "ct", "curusd", "otf", "nmmmulti", "vote", "unknownch"}
		chName := chanNames[1+rng.Intn(len(chanNames)-1)]
		if rng.Intn(4) == 0 {
			chName = "tt"
		}
		isToken := rng.Intn(3) > 0
		isExt := isToken && rng.Intn(3) == 0 // a token with a chaincode-specific section that has its own validator
		var contract core.BaseContractInterface = &HToken{}
		if !isToken {
			contract = &HBase{}
		}
		if isExt {
			contract = &HExtToken{}
		}
		cc, err := core.NewCC(contract)
		if err != nil {
			return err
		}
		w.Peer.AddChannel(chName, cc)
		ch := w.Peer.Channels[chName]
		robots := map[string]*Identity{w.Robot.SKI: w.Robot, w.Client.SKI: w.Client}
		// organisational units that merely contain "admin" are not the admin unit; the comparison ignores case
		nearAdmins := []*Identity{NewECIdentity("a1", "administrators"), NewECIdentity("a2", "sysadmin"), NewECIdentity("a3", "non-admin"), NewECIdentity("a4", "Admin")}
		var steps []string
		var jsteps []interface{}
		accepted, rejected := 0, 0
		var lastAccepted *c18Cfg
		for k := 1 + rng.Intn(5); k > 0; k-- {
			creators := []struct {
				b     []byte
				admin bool
				name  string
			}{{w.Admin.Creator, true, "adminOU"}, {w.Client.Creator, false, "user"}, {[]byte{9, 9}, false, "garbage"},
				{nearAdmins[0].Creator, false, "OU=administrators"}, {nearAdmins[1].Creator, false, "OU=sysadmin"}, {nearAdmins[2].Creator, false, "OU=non-admin"},
				{nearAdmins[3].Creator, true, "OU=Admin"},
				// several certificates in the identity's PEM data: the first one is the caller's
				{bundleCreator(w.Client, w.Admin), false, "bundle user+admin"}, {bundleCreator(w.Admin, w.Client), true, "bundle admin+user"},
				{bundleCreator(nearAdmins[2], w.Admin, w.Admin), false, "bundle non-admin+admin+admin"}}
			cr := creators[0]
			if rng.Intn(4) == 0 {
				cr = creators[1+rng.Intn(len(creators)-1)]
			}
			var args []string
			var jsonCfg *c18Cfg
			var argTerm string
			var desc interface{}
			hasLayout := map[string]bool{"nft": true, "nmmmulti": true, "ct": true, "vote": true, "curusd": true, "otf": true}[chName]
			if (rng.Intn(4) == 0 || (hasLayout && rng.Intn(2) == 0)) && !isExt {
				// positional arguments (they cannot carry a chaincode-specific section, so not for that contract)
				kind := map[string]int{"nft": 1, "nmmmulti": 1, "ct": 2, "vote": 2, "curusd": 3, "otf": 4}[chName]
				want := map[int]int{0: 3, 1: 3, 2: 4, 3: 5, 4: 4}[kind]
				cnt := want
				if rng.Intn(4) == 0 {
					cnt = rng.Intn(7)
				}
				// a list whose every value is well formed but which is too long or too short for this channel
				// (e.g. the list written for another channel's layout)
				wellFormedWrongCount := rng.Intn(4) == 0
				if wellFormedWrongCount {
					cnt = []int{want + 1, want + 2, want - 1, want + 1}[rng.Intn(4)]
					c.Count(fmt.Sprintf("positional_well_formed_count_%+d", cnt-want))
				} else if rng.Intn(2) == 0 {
					// the right number of well-formed values, the addresses all different: which role got which one is
					// read off the probes
					args = append(args, "platformski", []string{w.Robot.SKI, w.Client.SKI}[rng.Intn(2)])
					for _, j := range rng.Perm(len(goodAddrs))[:want-2] {
						args = append(args, goodAddrs[j])
					}
					cnt = 0
					c.Count("positional_all_well_formed_" + chName)
				}
				for a := 0; a < cnt; a++ {
					switch {
					case a == 0:
						args = append(args, "platformski")
					case a == 1 && wellFormedWrongCount:
						args = append(args, w.Robot.SKI)
					case a == 1:
						args = append(args, []string{w.Robot.SKI, w.Client.SKI, "XYZ", ""}[rng.Intn(4)])
					case wellFormedWrongCount:
						args = append(args, addrs[rng.Intn(2)])
					default:
						args = append(args, addrs[rng.Intn(len(addrs))])
					}
				}
				if len(args) == 1 && json.Valid([]byte(args[0])) {
					args[0] = "platform ski" // keep it positional
				}
				at := make([]string, len(args))
				for j, a := range args {
					at[j] = coqStr(a)
				}
				argTerm = fmt.Sprintf("(IPos %d %s %s)", kind, coqStr(chName), coqList(at))
				desc = map[string]interface{}{"positional": args, "channel": chName}
			} else {
				v := c18Cfg{HasContract: true, Symbol: "TT", Robot: w.Robot.SKI, Admin: c18Wallet{true, goodAddr}, HasToken: true, Issuer: c18Wallet{true, goodAddr}}
				if rng.Intn(3) == 0 {
					v.Robot = w.Client.SKI
				}
				if rng.Intn(3) == 0 {
					v.Symbol = []string{"TT", "AB9", "A1-9Z", "TT-1"}[rng.Intn(4)]
				}
				v.NoSwaps, v.NoMulti = rng.Intn(3) == 0, rng.Intn(3) == 0
				if rng.Intn(5) == 0 {
					v.HasToken = false // the token section is optional
				}
				if rng.Intn(12) == 0 {
					// ... but one that is there needs its issuer, also when it holds nothing else
					v.HasToken, v.EmptyTok = true, true
					v.Issuer, v.FeeSetter, v.FeeASetter, v.Redeemer = c18Wallet{}, c18Wallet{}, c18Wallet{}, c18Wallet{}
					c.Count("token_section_present_but_empty")
				}
				if rng.Intn(4) == 0 {
					v.FeeSetter = c18Wallet{true, addrs[rng.Intn(2)]}
				}
				for m := rng.Intn(3); m > 0; m-- {
					switch rng.Intn(12) {
					case 0:
						v.Symbol = symbols[rng.Intn(len(symbols))]
					case 1:
						v.Robot = []string{"", "XYZ", "ABCDEF", w.Client.SKI, "0A", "g1"}[rng.Intn(6)]
					case 2:
						v.Admin = c18Wallet{rng.Intn(2) == 0, addrs[rng.Intn(len(addrs))]}
					case 3:
						v.HasToken = false
					case 4:
						v.Issuer = c18Wallet{rng.Intn(2) == 0, addrs[rng.Intn(len(addrs))]}
					case 5:
						v.FeeSetter = c18Wallet{true, addrs[rng.Intn(len(addrs))]}
					case 6:
						v.FeeASetter = c18Wallet{true, addrs[rng.Intn(len(addrs))]}
					case 7:
						v.Redeemer = c18Wallet{true, addrs[rng.Intn(len(addrs))]}
					case 8:
						v.HasContract = false
					case 9:
						v.Flaw = []string{"unknown_field", "wrong_type", "not_json"}[rng.Intn(3)]
					}
				}
				if rng.Intn(10) == 0 {
					v.Flaw = []string{"unknown_field", "wrong_type", "not_json"}[rng.Intn(3)]
				}
				if !isToken && rng.Intn(3) == 0 {
					v.Flaw = "unknown_field" // a contract on the base contract alone has one validator only: it must be strict
				}
				// the chaincode-specific section: validated by the contract that declares one, carried along by the others
				if isExt {
					v.Ext = []string{"ok", "ok", "ok", "ok2", "ok2", "ok", "", "empty_addr"}[rng.Intn(8)]
				} else if rng.Intn(6) == 0 {
					v.Ext = []string{"ok", "empty_addr"}[rng.Intn(2)]
				}
				if isExt && lastAccepted != nil && rng.Intn(3) == 0 {
					// the configuration accepted last, sent again with nothing but the chaincode-specific section changed
					v = *lastAccepted
					v.Ext = map[string]string{"ok": "ok2", "ok2": "ok"}[v.Ext]
					c.Count("reinit_changing_only_the_chaincode_specific_section")
				}
				jsonCfg = &v
				args = []string{v.json()}
				decodes := v.Flaw == "" && (!isExt || v.Ext == "ok" || v.Ext == "ok2") // the contract's own section is part of what must decode
				c.Count(fmt.Sprintf("json_ext_contract_%v_section_%s", isExt, v.Ext))
				argTerm = fmt.Sprintf("(IJson %s %s %s)", coqBool(decodes), coqBool(v.HasContract), v.term())
				if v.Flaw == "not_json" {
					// not valid JSON: Init falls into the positional branch with one argument
					argTerm = fmt.Sprintf("(IPos 0 %s [%s])", coqStr(chName), coqStr(args[0]))
				}
				desc = map[string]interface{}{"json": args[0], "flaw": v.Flaw, "ext_section": v.Ext}
			}
			before := string(ch.State["__config"])
			res := w.Peer.Init(chName, cr.b, args...)
			// the stored bytes: untouched by a rejected initialisation, those of the request after an accepted one (JSON form)
			changed := string(ch.State["__config"]) == before
			if res.OK() {
				changed = len(args) != 1 || !json.Valid([]byte(args[0])) || string(ch.State["__config"]) == args[0]
			}
			// probes
			pr := w.Peer.Invoke(chName, w.Client.Creator, "sym")
			refused := !pr.OK() && strings.Contains(pr.Message, "config bytes is empty")
			if refused {
				// without a stored configuration EVERY invocation is refused, the built-in functions included
				emptyB, _ := proto.Marshal(&fpb.Batch{})
				emptyT, _ := proto.Marshal(&fpb.ExecuteTasksRequest{})
				for _, inv := range [][]string{{"createIndex", "Token"}, {"createIndex", "Allowed"}, {"batchExecute", string(emptyB)}, {"executeTasks", string(emptyT)},
					{"swapDone", "00", "k"}, {"multiSwapDone", "00", "k"}, {"metadata"}, {"nameOfFiles"}} {
					for _, cr := range [][]byte{w.Client.Creator, w.Robot.Creator} {
						r := w.Peer.Invoke(chName, cr, inv[0], inv[1:]...)
						if r.OK() || !strings.Contains(r.Message, "config bytes is empty") {
							refused = false
							c.Count("served_without_configuration_" + inv[0])
						}
					}
				}
			}
			symbol := ""
			if pr.OK() {
				_ = json.Unmarshal(pr.Payload, &symbol)
			} else if !refused {
				symbol = "PROBE FAILED: " + pr.Message
			}
			// the token section in force (token contracts only)
			wallets := "[]"
			if !refused && isToken {
				tw := w.Peer.Invoke(chName, w.Client.Creator, "tokWallets")
				parts := []string{"PROBE FAILED: " + tw.Message}
				if tw.OK() {
					var joined string
					_ = json.Unmarshal(tw.Payload, &joined)
					parts = strings.Split(joined, "|")
				}
				for j := range parts {
					parts[j] = coqStr(parts[j])
				}
				wallets = coqList(parts)
			}
			robotKey := ""
			if !refused {
				empty, _ := proto.Marshal(&fpb.Batch{})
				for ski, id := range robots {
					r := w.Peer.Invoke(chName, id.Creator, "batchExecute", string(empty))
					if r.OK() {
						robotKey = ski
					}
				}
			}
			// the swap switch of the configuration in force, on both routes by which a method is reached
			offDirect, offTask := false, false
			if !refused {
				offDirect = gateObs(w.Peer.Invoke(chName, w.Client.Creator, "swapGet", "00")) == "ONotFound"
				out := w.ExecTasks(chName, w.Client.Creator, []*fpb.Task{{Id: w.Peer.NextTxID(), Method: "swapGet", Args: []string{"00"}}})
				if out.Resp != nil && len(out.Resp.GetTxResponses()) == 1 {
					offTask = taskObs(out.Resp.GetTxResponses()[0].GetError().GetError()) == "ONotFound"
				}
			}
			// ... and a robot batch carrying one swap answer and one multi-swap answer (simulated, not committed)
			offBatchS, offBatchM := false, false
			if id := robots[robotKey]; !refused && id != nil {
				sid, mid := make([]byte, 32), make([]byte, 32)
				sid[0], mid[0] = 0xa1, 0xa2
				stranger := w.Issuer
				b := &fpb.Batch{
					Swaps:      []*fpb.Swap{{Id: sid, Owner: stranger.Addr, Token: "VT", Amount: []byte{5}, From: "VT", To: v0Symbol(symbol), Hash: make([]byte, 32)}},
					MultiSwaps: []*fpb.MultiSwap{{Id: mid, Owner: stranger.Addr, Token: "VT", Assets: []*fpb.Asset{{Group: "VT_1", Amount: []byte{5}}}, From: "VT", To: v0Symbol(symbol), Hash: make([]byte, 32)}},
				}
				data, _ := proto.Marshal(b)
				sim, _ := w.Peer.Simulate(chName, w.Peer.NextTxID(), id.Creator, false, strArgs("batchExecute", []string{string(data)}))
				offBatchS, offBatchM = true, true
				for _, wr := range sim.Writes {
					if ot, _, ok := splitComposite(wr.Key); ok && ot == "swaps" {
						offBatchS = false
					} else if ok && ot == "multi_swap" {
						offBatchM = false
					}
				}
			}
			probe := fmt.Sprintf("(Probe %s %s %s %s %s %s %s %s)", coqBool(refused), coqStr(symbol), wallets, coqStr(robotKey), coqBool(offDirect), coqBool(offTask), coqBool(offBatchS), coqBool(offBatchM))
			steps = append(steps, fmt.Sprintf("Step %s %s %s %s %s", coqBool(cr.admin), argTerm, coqBool(res.OK()), coqBool(changed), probe))
			jsteps = append(jsteps, map[string]interface{}{"creator": cr.name, "arg": desc, "accepted": res.OK(), "message": res.Message, "probe_symbol": symbol, "probe_refused": refused})
			if res.OK() && jsonCfg != nil {
				cp := *jsonCfg
				lastAccepted = &cp
			}
			if res.OK() {
				accepted++
				c.Count("init_accepted")
			} else {
				rejected++
				c.Count("init_rejected")
			}
		}
		c.Emit("mkCase "+coqBool(isToken)+" "+coqList(steps), map[string]interface{}{"token_contract": isToken, "ext_contract": isExt, "steps": jsteps}, accepted > 0 && rejected > 0)
		c.Count("contract_token_" + coqBool(isToken) + "_ext_" + coqBool(isExt))
	}
	return nil
}

func init() { props["C18"] = genC18 }

// the name a robot would put into the destination field: the symbol in force (any non-empty name does)
func v0Symbol(symbol string) string {
	if symbol == "" || strings.HasPrefix(symbol, "PROBE") {
		return "TT"
	}
	return symbol
}
