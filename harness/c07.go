package main

import (
	"encoding/hex"
	"crypto/sha256"
	"encoding/binary"
	"fmt"
	"math/big"
	"strconv"
	"strings"

	"github.com/anoideaopen/foundation/core"
	"github.com/anoideaopen/foundation/core/balance"
	fpb "github.com/anoideaopen/foundation/proto"
	"github.com/golang/protobuf/proto" //nolint:staticcheck
)

// C07: a long-lived chaincode instance (which also sees simulations that are never committed)
// against a fresh instance and against itself, proposal by proposal.

func resDigest(rs ...*TxResult) uint64 {
	h := sha256.New()
	for _, r := range rs {
		fmt.Fprintf(h, "status=%d|msg=%s|payload=%x|", r.Status, r.Message, r.Payload)
		for _, w := range r.Writes {
			fmt.Fprintf(h, "w:%x=%x,%v|", w.Key, w.Value, w.Del)
		}
		if r.Event != nil {
			fmt.Fprintf(h, "ev:%s=%x|", r.Event.GetEventName(), r.Event.GetPayload())
		}
		fmt.Fprintf(h, "other=%v|panic=%v;", r.Other, r.Panicked != nil)
	}
	return binary.BigEndian.Uint64(h.Sum(nil)[:8]) >> 8
}

type c07Prop struct {
	creator []byte
	isInit  bool
	args    [][]byte
}

func genC07(c *Ctx) error {
	c.ShardSize = 30
	c.Notes["rule"] = "one token chaincode instance A lives through the whole history; every proposal is run on A, on a fresh instance B created for that proposal over the same committed state, and on A again, with the same transaction id and timestamp; the three (status, message, payload bytes, write-set, event) are compared. Histories of 30-50 proposals: Init with one of two configurations (different robot; the second disables two functions), committed or simulated and dropped; token operations through executeTasks (emit, transfer, setFee with known / unknown currency, setFeeAddress, setRate, setLimits, buyToken, buyBack - right and wrong senders and amounts), committed or dropped, some in one task list of several tasks; queries (metadata, predictFee, balanceOf, allowedBalanceOf; also of an address the access-control service black-lists and clears between proposals); batched submissions whose proposal carries a trace parent in the transient map while each simulating peer's decorators add a different span of their own (the pending record is ledger data); probes which robot certificate the instance accepts; a transfer of several industrial groups refused for more than one reason, three times over; the token's document list (complete and incomplete additions, deletions, by the issuer and by others, then the listing); signed submissions sent to the same process under a second chaincode name (simulated and dropped); swaps begun in dropped simulations followed by an empty batchExecute (whose reply must not remember them); the cancellation of an open multi-swap sent with a timestamp before and with one after its deadline, both long past on the machine's own clock (the two replies must differ). Non-trivial: >= 3 dropped simulations that would have changed the metadata and >= 5 committed operations."
	n := c.N(60, 1000)
	for i := 0; i < n; i++ {
		if err := c07Case(c); err != nil {
			return err
		}
	}
	return nil
}

func c07Case(c *Ctx) error {
	rng := c.Rng
	w := NewWorld()
	newCC := func() (*core.Chaincode, error) { return core.NewCC(&HToken{}) }
	ccA, err := newCC()
	if err != nil {
		return err
	}
	ch := w.Peer.AddChannel("tt", ccA)
	u1, u2, u3, fa := w.NewAccount(fpb.KeyType_ed25519), w.NewAccount(fpb.KeyType_ed25519), w.NewAccount(fpb.KeyType_ed25519), w.NewAccount(fpb.KeyType_ed25519)
	u1.UserID, u2.UserID, u3.UserID, fa.UserID = "U1", "U1", "U3", "FA"
	w.Issuer.UserID = "ISS"
	cw := &c19World{w: w, in: w.Interner(), accs: map[int]*Account{}, nonce: 1700000000000,
		curN: map[string]int{"TT": 1, "CURA": 2, "CURB": 3, "NOPE": 4}, dealN: map[string]int{"buyToken": 0, "buyBack": 1, "other": 2}}
	cw.in.token["TT"], cw.in.token["CURA"], cw.in.token["CURB"], cw.in.token["NOPE"] = 1, 2, 3, 4
	for _, a := range w.Accounts {
		cw.accs[a.N()] = a
	}
	users := []*Account{u1, u2, u3}
	watched := w.NewAccount(fpb.KeyType_ed25519)
	// an account that takes part in nothing else holds a grouped balance and (below) an open multi-swap: its cancellation is
	// the proposal whose verdict depends on the proposal's time
	swapper := w.NewAccount(fpb.KeyType_ed25519)
	w.SetBalance("tt", balance.BalanceTypeToken, swapper.AddrString(), "G1", big.NewInt(500))
	for _, a := range append(users, w.Issuer, fa) {
		w.SetBalance("tt", balance.BalanceTypeAllowed, a.AddrString(), "CURA", big.NewInt(int64(1000+rng.Intn(4000))))
	}
	init := w.Balances("tt", cw.in)
	uidN := map[string]int{"": 0, "U1": 1, "U3": 3, "FA": 4, "ISS": 5}
	var uids []string
	for _, a := range w.Accounts {
		uids = append(uids, fmt.Sprintf("(%d, %d)", a.N(), uidN[a.UserID]))
	}
	robots := map[int]*Identity{1: w.Robot, 2: w.Client}
	// the second configuration also disables two functions (the document operations, which no modelled step uses): the
	// method list of the metadata query is that of the configuration in force, on every instance
	cfgJSON := func(v int) string {
		o := ChanOpts{RobotSKI: robots[v].SKI}
		if v == 2 {
			o.Disabled = []string{"TxAddDocs", "TxDeleteDoc"}
		}
		return w.ConfigJSON("TT", o)
	}

	// run one proposal on A, on a fresh B, on A again
	run3 := func(p c07Prop) (*TxResult, uint64, uint64, uint64, error) {
		txID := w.Peer.NextTxID()
		ra, _ := w.Peer.Simulate("tt", txID, p.creator, p.isInit, p.args)
		ccB, err := newCC()
		if err != nil {
			return nil, 0, 0, 0, err
		}
		ch.CC = ccB
		rb, _ := w.Peer.Simulate("tt", txID, p.creator, p.isInit, p.args)
		ch.CC = ccA
		ra2, _ := w.Peer.Simulate("tt", txID, p.creator, p.isInit, p.args)
		return ra, resDigest(ra), resDigest(rb), resDigest(ra2), nil
	}
	var steps []string
	var jsteps []interface{}
	committedCfg := 0
	dropped, committedOps := 0, 0
	z := func(v int64) *big.Int { return big.NewInt(v) }
	doInit := func(v int, commit bool) error {
		ra, dA, dB, dA2, err := run3(c07Prop{creator: w.Admin.Creator, isInit: true, args: [][]byte{[]byte(cfgJSON(v))}})
		if err != nil {
			return err
		}
		if commit && ra.OK() {
			w.Peer.Commit("tt", ra)
			committedCfg = v
		}
		steps = append(steps, fmt.Sprintf("SInit %s %d %d %d %d", coqBool(commit && ra.OK()), v, dA, dB, dA2))
		jsteps = append(jsteps, map[string]interface{}{"init": v, "committed": commit && ra.OK(), "status": ra.Status})
		c.Count("init_committed_" + coqBool(commit))
		return nil
	}
	if err := doInit(1+rng.Intn(2), true); err != nil {
		return err
	}
	randOp := func() c19Op {
		iss, fs := w.Issuer, w.FeeSet
		switch r := rng.Intn(100); {
		case r < 15:
			return c19Op{Kind: "emit", Sender: iss.N(), To: users[rng.Intn(3)].N(), Amount: z(int64(rng.Intn(5000)))}
		case r < 40:
			s := users[rng.Intn(3)]
			to := append(users, fa)[rng.Intn(4)]
			return c19Op{Kind: "transfer", Sender: s.N(), To: to.N(), Amount: z(int64(rng.Intn(600)))}
		case r < 60:
			cur := []string{"TT", "CURA", "NOPE", "CURB"}[rng.Intn(4)]
			s := fs
			if rng.Intn(6) == 0 {
				s = u1
			}
			return c19Op{Kind: "setFee", Sender: s.N(), Cur: cur, A: z(int64([]int{0, 1000000, 50000000, 100000001}[rng.Intn(4)])), B: z(int64(rng.Intn(20))), C: z(int64([]int{0, 5, 1000}[rng.Intn(3)]))}
		case r < 68:
			return c19Op{Kind: "setFeeAddress", Sender: fs.N(), To: fa.N()}
		case r < 80:
			return c19Op{Kind: "setRate", Sender: iss.N(), Deal: []string{"buyToken", "buyBack"}[rng.Intn(2)], Cur: []string{"CURA", "CURB", "TT"}[rng.Intn(3)], A: z(int64(rng.Intn(300000000)))}
		case r < 86:
			return c19Op{Kind: "setLimits", Sender: iss.N(), Deal: []string{"buyToken", "buyBack"}[rng.Intn(2)], Cur: "CURA", A: z(int64(rng.Intn(50))), B: z(int64(rng.Intn(200)))}
		case r < 93:
			return c19Op{Kind: "buyToken", Sender: users[rng.Intn(3)].N(), Amount: z(int64(rng.Intn(300))), Cur: "CURA"}
		default:
			return c19Op{Kind: "buyBack", Sender: users[rng.Intn(3)].N(), Amount: z(int64(rng.Intn(300))), Cur: "CURA"}
		}
	}
	taskOf := func(o c19Op) *fpb.Task {
		acc := cw.accs[o.Sender]
		var fn string
		var args []string
		switch o.Kind {
		case "emit":
			fn, args = "emit", []string{cw.accs[o.To].AddrString(), o.Amount.String()}
		case "transfer":
			fn, args = "transfer", []string{cw.accs[o.To].AddrString(), o.Amount.String(), "ref"}
		case "setFee":
			fn, args = "setFee", []string{o.Cur, o.A.String(), o.B.String(), o.C.String()}
		case "setFeeAddress":
			fn, args = "setFeeAddress", []string{cw.accs[o.To].AddrString()}
		case "setRate":
			fn, args = "setRate", []string{o.Deal, o.Cur, o.A.String()}
		case "setLimits":
			fn, args = "setLimits", []string{o.Deal, o.Cur, o.A.String(), o.B.String()}
		case "buyToken":
			fn, args = "buyToken", []string{o.Amount.String(), o.Cur}
		case "buyBack":
			fn, args = "buyBack", []string{o.Amount.String(), o.Cur}
		}
		cw.nonce++
		req := w.SignedArgs("tt", fn, acc, strconv.FormatUint(cw.nonce, 10), args...)
		return &fpb.Task{Id: w.Peer.NextTxID(), Method: fn, Args: req}
	}
	msID, msBegun, msAt := "", false, int64(0)
	for k := 30 + rng.Intn(21); k > 0; k-- {
		if rng.Intn(14) == 0 {
			// the same process serves the package under a second committed name: a proposal naming that chaincode,
			// signed for that name (simulated and dropped; its verdict is the proposal's, not an earlier one's)
			alias := []string{"tt2", "TT", "tt"}[rng.Intn(3)]
			cw.nonce++
			req := BuildRequest("script", "", alias, "tt", []string{"put,ka,v"}, strconv.FormatUint(cw.nonce, 10), users[rng.Intn(3)].Members, nil, nil)
			ch.CCName = alias
			ra, dA, dB, dA2, err := run3(c07Prop{creator: w.Client.Creator, args: strArgs("script", req)})
			ch.CCName = ""
			if err != nil {
				return err
			}
			steps = append(steps, fmt.Sprintf("SQuery %d %d %d", dA, dB, dA2))
			jsteps = append(jsteps, map[string]interface{}{"submission_under_chaincode_name": alias, "status": ra.Status, "message": ra.Message})
			c.Count(fmt.Sprintf("submission_under_name_%s_status_%d", alias, ra.Status))
			dropped++
			continue
		}
		if rng.Intn(10) == 0 && committedCfg != 0 {
			// a transfer of several groups at once of which more than one cannot be moved, each for a reason of its own
			// (not funded; a group name that cannot be a ledger key; nothing held): the refusal names the first in the
			// order of the request, on every instance and in every run
			assets := `[{"group":"CURA","amount":"99999999"},{"group":"CU\u0000RB","amount":"1"},{"group":"NOPE","amount":"5"},{"group":"CURB","amount":"77777777"}]`
			cw.nonce++
			req := w.SignedArgs("tt", "allowedIndustrialBalanceTransfer", users[rng.Intn(2)], strconv.FormatUint(cw.nonce, 10), u3.AddrString(), assets, "ref")
			data, _ := proto.Marshal(&fpb.ExecuteTasksRequest{Tasks: []*fpb.Task{{Id: w.Peer.NextTxID(), Method: "allowedIndustrialBalanceTransfer", Args: req}}})
			for rep := 0; rep < 3; rep++ {
				ra, dA, dB, dA2, err := run3(c07Prop{creator: robots[committedCfg].Creator, args: strArgs("executeTasks", []string{string(data)})})
				if err != nil {
					return err
				}
				steps = append(steps, fmt.Sprintf("SQuery %d %d %d", dA, dB, dA2))
				if rep == 0 {
					jsteps = append(jsteps, map[string]interface{}{"industrial_transfer_refused_for_several_reasons": true, "status": ra.Status})
				}
			}
			dropped++
			c.Count("industrial_transfer_refused_for_several_reasons")
			continue
		}
		if rng.Intn(12) == 0 && committedCfg != 0 {
			// the token's document list: additions (complete lists, a list with an entry that lacks its id or hash, text that
			// is no list), deletions of known and unknown ids, by the issuer and by others; committed or dropped; then the
			// listing query
			docs := []string{`[{"id":"d1","hash":"h1"}]`, `[{"id":"d2","hash":"h2"},{"id":"d3","hash":"h3"}]`, `[{"id":"d4","hash":"h4"},{"id":"","hash":"h5"},{"id":"d6","hash":"h6"}]`,
				`[{"id":"d7","hash":""}]`, `[]`, `not json`, `[{"id":"d1","hash":"other"}]`}[rng.Intn(7)]
			fn, args := "addDocs", []string{docs}
			if rng.Intn(3) == 0 {
				fn, args = "deleteDoc", []string{[]string{"d1", "d2", "nope", ""}[rng.Intn(4)]}
			}
			who := w.Issuer
			if rng.Intn(5) == 0 {
				who = u1
			}
			cw.nonce++
			req := w.SignedArgs("tt", fn, who, strconv.FormatUint(cw.nonce, 10), args...)
			data, _ := proto.Marshal(&fpb.ExecuteTasksRequest{Tasks: []*fpb.Task{{Id: w.Peer.NextTxID(), Method: fn, Args: req}}})
			ra, dA, dB, dA2, err := run3(c07Prop{creator: robots[committedCfg].Creator, args: strArgs("executeTasks", []string{string(data)})})
			if err != nil {
				return err
			}
			steps = append(steps, fmt.Sprintf("SQuery %d %d %d", dA, dB, dA2))
			if ra.OK() && rng.Intn(2) == 0 {
				w.Peer.Commit("tt", ra)
				committedOps++
			} else {
				dropped++
			}
			_, dA, dB, dA2, err = run3(c07Prop{creator: w.Client.Creator, args: strArgs("documentsList", nil)})
			if err != nil {
				return err
			}
			steps = append(steps, fmt.Sprintf("SQuery %d %d %d", dA, dB, dA2))
			jsteps = append(jsteps, map[string]interface{}{"documents": fn, "args": args, "status": ra.Status})
			c.Count("documents_" + fn)
			continue
		}
		switch r := rng.Intn(100); {
		case r < 8:
			if err := doInit(1+rng.Intn(2), rng.Intn(10) < 6); err != nil {
				return err
			}
		case r < 12 && committedCfg != 0:
			// (a) swaps begun through executeTasks in a simulation that is dropped, then an empty batchExecute: its reply must not
			// remember them; (b) once, a multi-swap of the bystander is really begun; afterwards its cancellation is sent with a
			// timestamp before and with one after the deadline (both long past on this machine's clock)
			js := `{"assets":[{"group":"TT_G1","amount":"7"}]}`
			if !msBegun {
				cw.nonce++
				msID = w.Peer.NextTxID()
				req := w.SignedArgs("tt", "multiSwapBegin", swapper, strconv.FormatUint(cw.nonce, 10), "TT", js, "VT", hex.EncodeToString(swHash("k1")))
				data, _ := proto.Marshal(&fpb.ExecuteTasksRequest{Tasks: []*fpb.Task{{Id: msID, Method: "multiSwapBegin", Args: req}}})
				ra, dA, dB, dA2, err := run3(c07Prop{creator: robots[committedCfg].Creator, args: strArgs("executeTasks", []string{string(data)})})
				if err != nil {
					return err
				}
				steps = append(steps, fmt.Sprintf("SQuery %d %d %d", dA, dB, dA2))
				if ra.OK() && len(ra.Writes) > 1 {
					w.Peer.Commit("tt", ra)
					msBegun, msAt = true, w.Peer.Now
				}
				jsteps = append(jsteps, map[string]interface{}{"multi_swap_begun": msBegun, "status": ra.Status, "message": ra.Message})
				c.Count("multiswap_begun_" + coqBool(msBegun))
				continue
			}
			if rng.Intn(2) == 0 {
				cw.nonce++
				req := w.SignedArgs("tt", "swapBegin", swapper, strconv.FormatUint(cw.nonce, 10), "TT_G1", "VT", "3", hex.EncodeToString(swHash("k2")))
				data, _ := proto.Marshal(&fpb.ExecuteTasksRequest{Tasks: []*fpb.Task{{Id: w.Peer.NextTxID(), Method: "swapBegin", Args: req}}})
				_, dA, dB, dA2, err := run3(c07Prop{creator: robots[committedCfg].Creator, args: strArgs("executeTasks", []string{string(data)})})
				if err != nil {
					return err
				}
				steps = append(steps, fmt.Sprintf("SQuery %d %d %d", dA, dB, dA2))
				empty, _ := proto.Marshal(&fpb.Batch{})
				_, dA, dB, dA2, err = run3(c07Prop{creator: robots[committedCfg].Creator, args: strArgs("batchExecute", []string{string(empty)})})
				if err != nil {
					return err
				}
				steps = append(steps, fmt.Sprintf("SQuery %d %d %d", dA, dB, dA2))
				c.Count("dropped_swap_begin_then_empty_batch")
				continue
			}
			cw.nonce++
			req := w.SignedArgs("tt", "multiSwapCancel", swapper, strconv.FormatUint(cw.nonce, 10), msID)
			data, _ := proto.Marshal(&fpb.ExecuteTasksRequest{Tasks: []*fpb.Task{{Id: w.Peer.NextTxID(), Method: "multiSwapCancel", Args: req}}})
			now := w.Peer.Now
			var ds [2]uint64
			for j, at := range []int64{msAt + 100, msAt + 10800 + 100} {
				w.Peer.Now = at
				_, dA, dB, dA2, err := run3(c07Prop{creator: robots[committedCfg].Creator, args: strArgs("executeTasks", []string{string(data)})})
				if err != nil {
					return err
				}
				steps = append(steps, fmt.Sprintf("SQuery %d %d %d", dA, dB, dA2))
				ds[j] = dA
			}
			w.Peer.Now = now
			steps = append(steps, fmt.Sprintf("SClock %d %d", ds[0], ds[1]))
			c.Count("cancel_before_and_after_the_deadline")
		case r < 62:
			o := randOp()
			commit := rng.Intn(10) < 6
			data, _ := proto.Marshal(&fpb.ExecuteTasksRequest{Tasks: []*fpb.Task{taskOf(o)}})
			ra, dA, dB, dA2, err := run3(c07Prop{creator: robots[committedCfg].Creator, args: strArgs("executeTasks", []string{string(data)})})
			if err != nil {
				return err
			}
			out := decodeBatchOut(ra, "executeTasks")
			msg := "TASKS FAILED: " + ra.Message
			if out.Resp != nil && len(out.Resp.GetTxResponses()) == 1 {
				msg = out.Resp.GetTxResponses()[0].GetError().GetError()
			}
			e := c19Err(msg)
			if commit {
				w.Peer.Commit("tt", ra)
				if e == "None" {
					committedOps++
				}
			} else if e == "None" || o.Kind == "setFee" {
				dropped++
			}
			steps = append(steps, fmt.Sprintf("STok %s (%s) (%s) %d %d %d", coqBool(commit), cw.term(o), e, dA, dB, dA2))
			jsteps = append(jsteps, map[string]interface{}{"op": o, "committed": commit, "error": msg})
			c.Count("tok_" + o.Kind + "_committed_" + coqBool(commit))
		case r < 72:
			// which robot certificate does the instance accept?
			empty, _ := proto.Marshal(&fpb.Batch{})
			txA := w.Peer.NextTxID()
			sim := func() (*TxResult, *TxResult) {
				r1, _ := w.Peer.Simulate("tt", txA, robots[1].Creator, false, strArgs("batchExecute", []string{string(empty)}))
				r2, _ := w.Peer.Simulate("tt", txA, robots[2].Creator, false, strArgs("batchExecute", []string{string(empty)}))
				return r1, r2
			}
			a1, a2 := sim()
			ccB, err := newCC()
			if err != nil {
				return err
			}
			ch.CC = ccB
			b1, b2 := sim()
			ch.CC = ccA
			c1, c2 := sim()
			seen := 0
			if a1.OK() {
				seen = 1
			}
			if a2.OK() {
				seen = 2
			}
			steps = append(steps, fmt.Sprintf("SProbe %d %d %d %d", seen, resDigest(a1, a2), resDigest(b1, b2), resDigest(c1, c2)))
			jsteps = append(jsteps, map[string]interface{}{"probe_robot": seen})
			c.Count("probe")
		case r < 80:
			// one batched transaction that sets several events and writes several keys: their order in the
			// reply and in the chaincode event must not depend on in-process iteration order
			var parts []string
			for _, j := range rng.Perm(6) {
				parts = append(parts, fmt.Sprintf("event,ev%d,p%d", j, j), fmt.Sprintf("put,key%d,v%d", j, j))
			}
			cw.nonce++
			req := w.SignedArgs("tt", "script", users[rng.Intn(3)], strconv.FormatUint(cw.nonce, 10), strings.Join(parts, ";"))
			data, _ := proto.Marshal(&fpb.ExecuteTasksRequest{Tasks: []*fpb.Task{{Id: w.Peer.NextTxID(), Method: "script", Args: req}}})
			ra, dA, dB, dA2, err := run3(c07Prop{creator: robots[committedCfg].Creator, args: strArgs("executeTasks", []string{string(data)})})
			if err != nil {
				return err
			}
			steps = append(steps, fmt.Sprintf("SQuery %d %d %d", dA, dB, dA2))
			jsteps = append(jsteps, map[string]interface{}{"multi_event_task": parts, "status": ra.Status})
			c.Count("multi_event_task")
		case r < 86:
			// a batched submission whose proposal carries the client's trace parent; each endorsing peer's
			// decorators add a span of their own (not part of the proposal). The pending record is ledger data.
			tp := func() []byte {
				return []byte(fmt.Sprintf("00-%032x-%016x-01", rng.Uint64()|1, rng.Uint64()|1))
			}
			cw.nonce++
			req := w.SignedArgs("tt", "script", users[rng.Intn(3)], strconv.FormatUint(cw.nonce, 10), "put,kt,v")
			w.Peer.Transient = map[string][]byte{"traceparent": tp()}
			if rng.Intn(2) == 0 {
				// the W3C baggage header travels with the trace parent
				w.Peer.Transient["baggage"] = []byte([]string{"a=1", "a=1,b=2", "tenant=t1,user=u7,shard=3,flag=on"}[rng.Intn(3)])
				c.Count("traced_submission_with_baggage")
			}
			decos := []map[string][]byte{{"traceparent": tp()}, {"traceparent": tp()}, nil}
			if rng.Intn(3) == 0 {
				decos[rng.Intn(2)] = nil
			}
			txID := w.Peer.NextTxID()
			var rs [3]*TxResult
			for j := 0; j < 3; j++ {
				w.Peer.Decorations = decos[j]
				if j == 1 {
					ccB, err := newCC()
					if err != nil {
						return err
					}
					ch.CC = ccB
				}
				rs[j], _ = w.Peer.Simulate("tt", txID, w.Client.Creator, false, strArgs("script", req))
				ch.CC = ccA
			}
			w.Peer.Transient, w.Peer.Decorations = nil, nil
			steps = append(steps, fmt.Sprintf("SQuery %d %d %d", resDigest(rs[0]), resDigest(rs[1]), resDigest(rs[2])))
			jsteps = append(jsteps, map[string]interface{}{"traced_submission": true, "status": rs[0].Status, "writes": len(rs[0].Writes)})
			c.Count(fmt.Sprintf("traced_submission_status_%d_writes_%d", rs[0].Status, len(rs[0].Writes)))
		default:
			var fn string
			var args []string
			switch rng.Intn(4) {
			case 0:
				fn = "metadata"
			case 1:
				fn, args = "predictFee", []string{strconv.Itoa(rng.Intn(100000))}
			case 2:
				fn, args = "balanceOf", []string{users[rng.Intn(3)].AddrString()}
				if rng.Intn(2) == 0 {
					// an address that takes part in nothing else; the access-control service (state of another channel) changes
					// its mind about it between proposals: every instance must ask again
					if rng.Intn(3) == 0 {
						watched.Black = !watched.Black
						c.Count("acl_blacklist_toggled")
					}
					args = []string{watched.AddrString()}
				}
			default:
				fn, args = "allowedBalanceOf", []string{users[rng.Intn(3)].AddrString(), "CURA"}
			}
			ra, dA, dB, dA2, err := run3(c07Prop{creator: w.Client.Creator, args: strArgs(fn, args)})
			if err != nil {
				return err
			}
			steps = append(steps, fmt.Sprintf("SQuery %d %d %d", dA, dB, dA2))
			jsteps = append(jsteps, map[string]interface{}{"query": fn, "args": args, "status": ra.Status, "payload": string(ra.Payload)})
			c.Count("query_" + fn)
		}
	}
	term := fmt.Sprintf("PCase %d %d %d %s %s %s", w.Issuer.N(), w.FeeSet.N(), w.FeeSet.N(), coqList(uids), coqBals(init), coqList(steps))
	c.Emit(term, map[string]interface{}{"steps": jsteps}, dropped >= 3 && committedOps >= 5)
	return nil
}

func init() { props["C07"] = genC07 }
