package main

// Scriptable access-control chaincode ("acl"), identities (x509 creators) and signing users.

import (
	"bytes"
	"crypto/ecdsa"
	"crypto/elliptic"
	"crypto/rand"
	"crypto/rsa"
	"crypto/sha256"
	"crypto/x509"
	"crypto/x509/pkix"
	"encoding/hex"
	"encoding/json"
	"encoding/pem"
	"math/big"
	"sort"
	"strings"
	"time"

	"github.com/anoideaopen/foundation/core/types"
	"github.com/anoideaopen/foundation/keys"
	fpb "github.com/anoideaopen/foundation/proto"
	"github.com/btcsuite/btcutil/base58"
	"github.com/golang/protobuf/proto" //nolint:staticcheck
	"github.com/hyperledger/fabric-protos-go/msp"
	pb "github.com/hyperledger/fabric-protos-go/peer"
	"golang.org/x/crypto/sha3"
)

// ---- users ------------------------------------------------------------------

// User is one key pair; an account is one user (ordinary) or several (multisig).
type User struct {
	ID      int
	KeyType fpb.KeyType
	Keys    *keys.Keys
	Pub     string // base58 public key
}

func NewUser(id int, kt fpb.KeyType) *User {
	k, err := keys.GenerateKeysByKeyType(kt)
	if err != nil {
		panic(err)
	}
	return &User{ID: id, KeyType: kt, Keys: k, Pub: k.PublicKeyBase58}
}

func (u *User) Sign(msg []byte) []byte {
	_, sig, err := keys.SignMessageByKeyType(u.KeyType, u.Keys, msg)
	if err != nil {
		panic(err)
	}
	return sig
}

// Account is what the ACL knows: a key list mapped to an address.
type Account struct {
	ID        int
	Members   []*User
	Addr      []byte // 32 bytes
	Black     bool
	Grey      bool
	ReqN      uint32 // required signatures (multisig policy)
	Multisig  bool
	UserID    string
	SignedTx  []string
	ReplaceTx []string
	ACLFault  string // how the access-control service answers checkKeys for THIS account: "", status, empty, garbled, noaddr
}

func (a *Account) AddrString() string { return base58.CheckEncode(a.Addr[1:], a.Addr[0]) }
func (a *Account) Address() *types.Address {
	return &types.Address{Address: a.Addr, UserID: a.UserID, IsMultisig: a.Multisig}
}

func keysKey(pubs []string) string {
	s := append([]string(nil), pubs...)
	sort.Strings(s)
	return strings.Join(s, "/")
}

func NewAccount(id int, members ...*User) *Account {
	bin := make([][]byte, len(members))
	for i, m := range members {
		bin[i] = base58.Decode(m.Pub)
	}
	sort.Slice(bin, func(i, j int) bool { return bytes.Compare(bin[i], bin[j]) < 0 })
	h := sha3.Sum256(bytes.Join(bin, nil))
	return &Account{ID: id, Members: members, Addr: h[:], ReqN: uint32(len(members)), Multisig: len(members) > 1}
}

// ---- ACL ----------------------------------------------------------------------

type ACL struct {
	byKeys map[string]*Account
	byAddr map[string]*Account
	// Fault per function: "" ok, "status" (status 500), "empty" (200, no payload), "garbled"
	Fault map[string]string
	// KeyTypes: "match" (one per presented key), "none", "short" (one entry fewer), "long"
	KeyTypes string
	Calls    []string
}

func NewACL() *ACL {
	return &ACL{byKeys: map[string]*Account{}, byAddr: map[string]*Account{}, Fault: map[string]string{}, KeyTypes: "match"}
}

func (a *ACL) Register(acc *Account) {
	pubs := make([]string, len(acc.Members))
	for i, m := range acc.Members {
		pubs[i] = m.Pub
	}
	a.byKeys[keysKey(pubs)] = acc
	a.byAddr[acc.AddrString()] = acc
}

func ok(payload []byte) pb.Response { return pb.Response{Status: 200, Payload: payload} }
func errResp(msg string) pb.Response { return pb.Response{Status: 500, Message: msg} }

func (a *ACL) fault(fn string) (pb.Response, bool) {
	switch a.Fault[fn] {
	case "status":
		return errResp("acl: injected failure"), true
	case "transport":
		// what the shim answers when the call could not be delivered at all
		return errResp("[tx] error sending INVOKE_CHAINCODE: stream closed"), true
	case "empty":
		return ok(nil), true
	case "garbled":
		return ok([]byte{0xff, 0xfe, 0x01, 0x02, 0x03}), true
	case "noaddr": // a well-formed "ok" reply that carries no address
		data, _ := proto.Marshal(&fpb.AclResponse{Account: &fpb.AccountInfo{KycHash: "kyc"}})
		return ok(data), true
	}
	return pb.Response{}, false
}

func (a *ACL) Invoke(args [][]byte) pb.Response {
	if len(args) == 0 {
		return errResp("acl: no function")
	}
	fn := string(args[0])
	if a.Fault[fn] == "refused_with_record" {
		// the service refuses (status 403) and attaches, for diagnostics, the record it would have answered with
		a.Fault[fn] = ""
		r := a.Invoke(args)
		a.Fault[fn] = "refused_with_record"
		return pb.Response{Status: 403, Message: "acl: access denied", Payload: r.Payload}
	}
	a.Calls = append(a.Calls, fn)
	if r, isFault := a.fault(fn); isFault {
		return r
	}
	switch fn {
	case "checkKeys":
		if len(args) < 2 {
			return errResp("acl: args")
		}
		presented := strings.Split(string(args[1]), "/")
		acc, found := a.byKeys[keysKey(presented)]
		if !found {
			return errResp("acl: keys not found")
		}
		if acc.ACLFault != "" {
			save := a.Fault[fn]
			a.Fault[fn] = acc.ACLFault
			r, _ := a.fault(fn)
			a.Fault[fn] = save
			if save == "" {
				delete(a.Fault, fn)
			}
			return r
		}
		var kts []fpb.KeyType
		switch a.KeyTypes {
		case "match":
			for _, p := range presented {
				kt := fpb.KeyType_ed25519
				for _, m := range acc.Members {
					if m.Pub == p {
						kt = m.KeyType
					}
				}
				kts = append(kts, kt)
			}
		case "short":
			for range presented[1:] {
				kts = append(kts, fpb.KeyType_ed25519)
			}
		case "long":
			for range presented {
				kts = append(kts, fpb.KeyType_ed25519)
			}
			kts = append(kts, fpb.KeyType_ed25519)
		}
		resp := &fpb.AclResponse{
			Account: &fpb.AccountInfo{KycHash: "kyc", GrayListed: acc.Grey, BlackListed: acc.Black},
			Address: &fpb.SignedAddress{
				Address:         &fpb.Address{Address: acc.Addr, UserID: acc.UserID, IsMultisig: acc.Multisig},
				SignedTx:        acc.SignedTx,
				SignaturePolicy: &fpb.SignaturePolicy{N: acc.ReqN, ReplaceKeysSignedTx: acc.ReplaceTx},
			},
			KeyTypes: kts,
		}
		data, _ := proto.Marshal(resp)
		return ok(data)
	case "checkAddress":
		if len(args) < 2 {
			return errResp("acl: args")
		}
		addr, err := types.AddrFromBase58Check(string(args[1]))
		if err != nil {
			return errResp(err.Error())
		}
		out := &fpb.Address{Address: addr.Address}
		if acc, found := a.byAddr[string(args[1])]; found {
			out.UserID, out.IsMultisig = acc.UserID, acc.Multisig
		}
		data, _ := proto.Marshal(out)
		return ok(data)
	case "getAccountInfo":
		if len(args) < 2 {
			return errResp("acl: args")
		}
		info := &fpb.AccountInfo{KycHash: "kyc"}
		if acc, found := a.byAddr[string(args[1])]; found {
			info.GrayListed, info.BlackListed = acc.Grey, acc.Black
		}
		data, _ := json.Marshal(info)
		return ok(data)
	case "getAccountsInfo":
		responses := make([]pb.Response, 0, len(args)-1)
		for _, x := range args[1:] {
			var sub []string
			if err := json.Unmarshal(x, &sub); err != nil {
				responses = append(responses, errResp("bad request"))
				continue
			}
			sa := make([][]byte, len(sub))
			for i, s := range sub {
				sa[i] = []byte(s)
			}
			a.Calls = a.Calls[:len(a.Calls)] // nested calls are recorded by Invoke
			responses = append(responses, a.Invoke(sa))
		}
		data, _ := json.Marshal(responses)
		return ok(data)
	}
	return errResp("acl: unknown function " + fn)
}

// ---- signed requests -----------------------------------------------------------

// SigMode says what is put in one signature position.
type SigMode int

const (
	SigValid    SigMode = iota // made by the key at this position over the request
	SigBlank                   // empty string
	SigCorrupt                 // valid signature with one bit flipped
	SigForeign                 // valid signature over the request by another key
	SigOtherMsg                // signature by the right key over another message
	SigGarbage                 // not base58 / wrong length
	SigLong                    // a valid signature followed by extra bytes (for secp256k1 the accepted 65-byte form r||s||v)
)

var sigModeNames = []string{"valid", "blank", "corrupt", "foreign", "othermsg", "garbage", "long"}

// BuildRequest returns the chaincode arguments (without the function name) of a signed
// request: reqID, chaincode, channel, method args, nonce, keys..., signatures...
func BuildRequest(fn, reqID, cc, ch string, margs []string, nonce string, signers []*User, modes []SigMode, foreign *User) []string {
	out := []string{reqID, cc, ch}
	out = append(out, margs...)
	out = append(out, nonce)
	for _, s := range signers {
		out = append(out, s.Pub)
	}
	msg := []byte(fn + strings.Join(out, ""))
	for i, s := range signers {
		mode := SigValid
		if i < len(modes) {
			mode = modes[i]
		}
		switch mode {
		case SigValid:
			out = append(out, base58.Encode(s.Sign(msg)))
		case SigBlank:
			out = append(out, "")
		case SigCorrupt:
			sig := s.Sign(msg)
			sig[len(sig)/2] ^= 0x04
			out = append(out, base58.Encode(sig))
		case SigForeign:
			out = append(out, base58.Encode(foreign.Sign(msg)))
		case SigOtherMsg:
			out = append(out, base58.Encode(s.Sign(append([]byte("x"), msg...))))
		case SigGarbage:
			out = append(out, "0OIl-not-base58")
		case SigLong:
			sig := s.Sign(msg)
			if s.KeyType == fpb.KeyType_secp256k1 {
				sig = append(sig[:64:64], 0x01) // r || s || v
			} else {
				sig = append(append([]byte(nil), sig...), 0x01, 0x02)
			}
			out = append(out, base58.Encode(sig))
		}
	}
	return out
}

// ---- creators (x509 identities) ---------------------------------------------------

type Identity struct {
	Name    string
	Creator []byte
	SKI     string // hex sha256 of the uncompressed EC point
	Hashed  string // hex sha3-256 of the serialized creator
}

func makeCreator(mspID string, certDER []byte) []byte {
	pemBytes := pem.EncodeToMemory(&pem.Block{Type: "CERTIFICATE", Bytes: certDER})
	b, _ := proto.Marshal(&msp.SerializedIdentity{Mspid: mspID, IdBytes: pemBytes})
	return b
}

// makeCreatorRaw: a serialized identity around arbitrary certificate bytes.
func makeCreatorRaw(mspID string, idBytes []byte) []byte {
	b, _ := proto.Marshal(&msp.SerializedIdentity{Mspid: mspID, IdBytes: idBytes})
	return b
}

// bundleCreator: a serialized identity whose certificate bytes are several PEM blocks, those of the given identities in
// their order (a certificate chain file). The library reads the first one.
func bundleCreator(ids ...*Identity) []byte {
	var pems []byte
	for _, id := range ids {
		var si msp.SerializedIdentity
		if proto.Unmarshal(id.Creator, &si) == nil {
			pems = append(pems, si.GetIdBytes()...)
		}
	}
	return makeCreatorRaw("verifMSP", pems)
}

func NewECIdentity(name, ou string) *Identity { return NewECIdentityOUs(name, []string{ou}) }

// NewECIdentityOUs: a certificate with any list of organisational units (none at all is legal X.509).
func NewECIdentityOUs(name string, ous []string) *Identity {
	priv, err := ecdsa.GenerateKey(elliptic.P256(), rand.Reader)
	if err != nil {
		panic(err)
	}
	tmpl := &x509.Certificate{SerialNumber: big.NewInt(int64(len(name)) + 7),
		Subject:   pkix.Name{CommonName: name, OrganizationalUnit: ous, Organization: []string{"verif"}},
		NotBefore: time.Unix(1600000000, 0), NotAfter: time.Unix(2600000000, 0), KeyUsage: x509.KeyUsageDigitalSignature}
	der, err := x509.CreateCertificate(rand.Reader, tmpl, tmpl, &priv.PublicKey, priv)
	if err != nil {
		panic(err)
	}
	creator := makeCreator("verifMSP", der)
	ski := sha256.Sum256(elliptic.Marshal(priv.Curve, priv.X, priv.Y))
	hc := sha3.Sum256(creator)
	return &Identity{Name: name, Creator: creator, SKI: hex.EncodeToString(ski[:]), Hashed: hex.EncodeToString(hc[:])}
}

func NewRSAIdentity(name, ou string) *Identity {
	priv, err := rsa.GenerateKey(rand.Reader, 1024)
	if err != nil {
		panic(err)
	}
	tmpl := &x509.Certificate{SerialNumber: big.NewInt(99),
		Subject:   pkix.Name{CommonName: name, OrganizationalUnit: []string{ou}},
		NotBefore: time.Unix(1600000000, 0), NotAfter: time.Unix(2600000000, 0)}
	der, err := x509.CreateCertificate(rand.Reader, tmpl, tmpl, &priv.PublicKey, priv)
	if err != nil {
		panic(err)
	}
	creator := makeCreator("verifMSP", der)
	hc := sha3.Sum256(creator)
	return &Identity{Name: name, Creator: creator, Hashed: hex.EncodeToString(hc[:])}
}
