package main

import (
	"encoding/hex"
	"encoding/json"
	"fmt"
	"math/big"
	"strconv"
	"strings"

	"github.com/anoideaopen/foundation/core"
	"github.com/anoideaopen/foundation/core/balance"
	fpb "github.com/anoideaopen/foundation/proto"
)

type gMethod struct {
	ID       int
	Name     string // Go method name (what DisabledFunctions lists)
	Fn       string // chaincode function
	Kind     string // MTx MNBTx MQuery
	Auth     bool
	Group    string // GNone GSwap GMultiSwap
	Admin    bool
	RobotFn  bool
	ArgCount int // method parameters besides the sender
}

var gMethods = []gMethod{
	{1, "TxScript", "script", "MTx", true, "GNone", false, false, 1},
	{2, "NBTxNbScript", "nbScript", "MNBTx", true, "GNone", false, false, 1},
	{3, "QueryQScript", "qScript", "MQuery", false, "GNone", false, false, 1},
	{4, "QueryQScriptS", "qScriptS", "MQuery", true, "GNone", false, false, 1},
	{5, "TxLockTokenBalance", "lockTokenBalance", "MTx", true, "GNone", true, false, 1},
	{6, "TxSwapBegin", "swapBegin", "MTx", true, "GSwap", false, false, 4},
	{7, "QuerySwapGet", "swapGet", "MQuery", false, "GSwap", false, false, 1},
	{8, "TxSwapCancel", "swapCancel", "MTx", true, "GSwap", false, false, 1},
	{9, "TxMultiSwapBegin", "multiSwapBegin", "MTx", true, "GMultiSwap", false, false, 4},
	{10, "QueryMultiSwapGet", "multiSwapGet", "MQuery", false, "GMultiSwap", false, false, 1},
	{11, "TxMultiSwapCancel", "multiSwapCancel", "MTx", true, "GMultiSwap", false, false, 1},
	{12, "TxTransferBalance", "transferBalance", "MTx", true, "GNone", true, false, 1},
	{13, "TxChannelTransferByAdmin", "channelTransferByAdmin", "MTx", true, "GNone", true, false, 5},
	{14, "TxCreateCCTransferTo", "createCCTransferTo", "MTx", false, "GNone", false, true, 1},
	{15, "NBTxDeleteCCTransferTo", "deleteCCTransferTo", "MNBTx", false, "GNone", false, true, 1},
	{16, "NBTxCommitCCTransferFrom", "commitCCTransferFrom", "MNBTx", false, "GNone", false, true, 1},
	{17, "TxCancelCCTransferFrom", "cancelCCTransferFrom", "MTx", false, "GNone", false, true, 1},
	{18, "NBTxDeleteCCTransferFrom", "deleteCCTransferFrom", "MNBTx", false, "GNone", false, true, 1},
	{19, "TxPlain", "plain", "MTx", false, "GNone", false, false, 1},
}

func (m gMethod) term() string {
	return fmt.Sprintf("(Method %d %s %s %s %s)", m.ID, m.Kind, coqBool(m.Auth), m.Group, coqBool(m.Admin))
}

func (m gMethod) fterm() string {
	if m.RobotFn {
		return "(FRobotFn " + m.term() + ")"
	}
	return "(FMethod " + m.term() + ")"
}

type gIdent struct {
	Name  string
	ID    *Identity
	Bytes []byte
	Term  string
}

func gateObs(res *TxResult) string {
	if res.OK() {
		return "OHandled"
	}
	m := strings.ToLower(res.Message)
	switch {
	case strings.Contains(m, "validating creator"), strings.Contains(m, "creator of transaction"):
		return "OCreatorErr"
	case strings.Contains(m, "unauthorized: robotski"):
		return "OUnauthorized"
	case strings.Contains(m, "finding method"), strings.Contains(m, "not found") && strings.Contains(m, "method"):
		return "ONotFound"
	case strings.Contains(m, "swap is disabled"):
		return "OSwapOff"
	}
	return "OHandled"
}

func taskObs(msg string) string {
	m := strings.ToLower(msg)
	switch {
	case msg == "":
		return "OHandled"
	case strings.Contains(m, "not found") && strings.Contains(m, "method"):
		return "ONotFound"
	case strings.Contains(m, "sender address is missing"):
		return "OUnauthorized"
	}
	return "OHandled"
}

func genC11(c *Ctx) error {
	c.ShardSize = 400
	c.Notes["rule"] = "entry points (createIndex, batchExecute, swapDone, multiSwapDone, executeTasks, the five robot functions, 14 other methods of all kinds incl. swap / multi-swap / admin-only ones, an unknown function) x caller identities (robot certificate, configuration holding its SKI or its hashed certificate or another identity's key, admin-OU certificate, ordinary certificate, RSA certificate, garbage, empty creator, identities whose PEM data holds two certificates - the first is the caller's) x configurations (subsets of 8 disabled functions - among them a swap and a multi-swap method, which may be disabled by name while their switch is off -, both swap switches); the same functions as single signed tasks through executeTasks; Init with every identity (also certificates with no organisational unit, an empty one, several); admin-only methods signed by admin / issuer / stranger through batches and tasks, also on chaincodes initialised with the legacy positional list of each channel layout. Observed: gate verdict class and whether the ledger changed. Non-trivial: all (each is a distinct decision point)."
	rng := c.Rng
	w := NewWorld()
	rsa := NewRSAIdentity("rsa", "client")
	idents := []gIdent{
		{"robot", w.Robot, w.Robot.Creator, "(Creator true 1 11 false)"},
		{"adminOU", w.Admin, w.Admin.Creator, "(Creator true 2 12 true)"},
		{"user", w.Client, w.Client.Creator, "(Creator true 3 13 false)"},
		{"rsa", rsa, rsa.Creator, "(Creator false 0 14 false)"},
		{"garbage", nil, []byte{1, 2, 3, 4, 5}, "(Creator false 0 15 false)"},
		{"empty", nil, nil, "(Creator false 0 0 false)"},
		// several certificates in the identity's PEM data: the first one is the caller's
		{"bundle user+robot", w.Client, bundleCreator(w.Client, w.Robot), "(Creator true 3 16 false)"},
		{"bundle robot+user", w.Robot, bundleCreator(w.Robot, w.Client), "(Creator true 1 17 false)"},
		{"bundle user+adminOU", w.Client, bundleCreator(w.Client, w.Admin), "(Creator true 3 18 false)"},
		{"bundle adminOU+user", w.Admin, bundleCreator(w.Admin, w.Client), "(Creator true 2 19 true)"},
	}
	robotKeys := []struct {
		hexKey string
		n      int
	}{{w.Robot.SKI, 1}, {w.Robot.Hashed, 11}, {w.Client.SKI, 3}}
	disablePool := []string{"TxScript", "NBTxNbScript", "QueryQScript", "TxLockTokenBalance", "TxCreateCCTransferTo", "NBTxCommitCCTransferFrom", "TxSwapBegin", "QueryMultiSwapGet"}
	stranger := w.NewAccount(fpb.KeyType_ed25519)
	if _, err := w.AddToken("TT", ChanOpts{}); err != nil {
		return err
	}
	ch := w.Peer.Channels["tt"]
	nonce := uint64(1700000000000)

	nCfg := c.N(40, 400)
	for ci := 0; ci < nCfg; ci++ {
		// configuration
		var dis []string
		var disN []string
		mask := rng.Intn(256)
		if ci < 16 {
			mask = ci // exhaustive over the first four
		}
		if ci >= 16 && ci < 24 {
			mask = (ci & 3) << 6 // the swap and the multi-swap method named in the list (or an empty list), every switch setting
		}
		for i, d := range disablePool {
			if mask&(1<<i) != 0 {
				dis = append(dis, d)
				for _, m := range gMethods {
					if m.Name == d {
						disN = append(disN, strconv.Itoa(m.ID))
					}
				}
			}
		}
		rk := robotKeys[rng.Intn(len(robotKeys))]
		if ci%3 == 0 {
			rk = robotKeys[0]
		}
		noSwaps, noMulti := rng.Intn(2) == 0, rng.Intn(2) == 0
		if ci < 4 {
			noSwaps, noMulti = ci&1 != 0, ci&2 != 0 // an empty or one-entry list with every switch setting
		}
		if ci >= 16 && ci < 24 {
			noSwaps, noMulti = ci&4 != 0, ci&4 == 0
		}
		opts := ChanOpts{Disabled: dis, DisableSwaps: noSwaps, DisableMultiSwaps: noMulti, RobotSKI: rk.hexKey}
		res := w.Peer.Init("tt", w.Admin.Creator, w.ConfigJSON("TT", opts))
		if !res.OK() {
			return fmt.Errorf("re-init: %s", res.Message)
		}
		cfgTerm := fmt.Sprintf("(GCfg %d %d %s %s %s)", rk.n, w.AdminAcc.N(), coqList(disN), coqBool(noSwaps), coqBool(noMulti))
		c.Count("configurations")

		// Invoke entry points x identities
		type entry struct {
			fn   string
			args []string
			term string
		}
		entries := []entry{
			{"createIndex", []string{"Token"}, "FCreateIndex"},
			{"batchExecute", []string{""}, "FBatchExecute"},
			{"swapDone", []string{"00", "k"}, "FSwapDone"},
			{"multiSwapDone", []string{"00", "k"}, "FMultiSwapDone"},
			{"executeTasks", []string{""}, "FExecuteTasks"},
			{"noSuchFunction", []string{"x"}, "FUnknown"},
		}
		for _, m := range gMethods {
			args := make([]string, m.ArgCount)
			for i := range args {
				args[i] = "x"
			}
			entries = append(entries, entry{m.Fn, args, m.fterm()})
			// the same name with a capital first letter is no registered function
			entries = append(entries, entry{strings.ToUpper(m.Fn[:1]) + m.Fn[1:], args, "ALIAS " + m.fterm()})
		}
		for _, e := range entries {
			for _, id := range idents {
				if !c.Thorough() && ci >= 24 && rng.Intn(3) != 0 {
					continue
				}
				before := stateSnapshot(ch)
				r := w.Peer.Invoke("tt", id.Bytes, e.fn, e.args...)
				o := gateObs(r)
				changed := !stateEqual(before, ch)
				term := fmt.Sprintf("CInvoke %s %s %s %s %s", cfgTerm, id.Term, e.term, o, coqBool(changed))
				if strings.HasPrefix(e.term, "ALIAS ") {
					term = fmt.Sprintf("CAlias %s %s %s %s %s", cfgTerm, id.Term, strings.TrimPrefix(e.term, "ALIAS "), o, coqBool(changed))
				}
				c.Emit(term, map[string]interface{}{"kind": "invoke", "fn": e.fn, "identity": id.Name, "disabled": dis, "no_swaps": noSwaps, "no_multiswaps": noMulti, "robot_key": rk.n, "observed": o, "message": r.Message}, true)
				c.Count("invoke_" + o)
			}
		}
		// task route: one correctly signed task per method
		lockReq, _ := json.Marshal(&fpb.BalanceLockRequest{Id: "L" + strconv.Itoa(ci), Address: stranger.AddrString(), Token: "TT", Amount: "1", Reason: "r"})
		for _, m := range gMethods {
			if !c.Thorough() && ci >= 24 && rng.Intn(2) != 0 {
				continue
			}
			var margs []string
			switch m.Fn {
			case "lockTokenBalance":
				margs = []string{string(lockReq)}
			case "swapBegin":
				margs = []string{"TT", "VT", "1", "00"}
			default:
				margs = make([]string, m.ArgCount)
				for i := range margs {
					margs[i] = "x"
				}
			}
			nonce++
			var args []string
			if m.Auth {
				args = w.SignedArgs("tt", m.Fn, stranger, strconv.FormatUint(nonce, 10), margs...)
			} else {
				args = append([]string{"", "tt", "tt"}, margs...)
			}
			before := stateSnapshot(ch)
			out := w.ExecTasks("tt", w.Client.Creator, []*fpb.Task{{Id: w.Peer.NextTxID(), Method: m.Fn, Args: args}})
			msg := "TASKS FAILED " + out.Res.Message
			if out.Resp != nil && len(out.Resp.GetTxResponses()) == 1 {
				msg = out.Resp.GetTxResponses()[0].GetError().GetError()
			}
			o := taskObs(msg)
			// the nonce window of the signer is framework bookkeeping, not an effect of the function
			changed := false
			for k, v := range ch.State {
				if before[k] != string(v) && !strings.Contains(k, "\x002a\x00") {
					changed = true
				}
			}
			if o == "OHandled" {
				changed = false
			}
			term := fmt.Sprintf("CTask %s %s %s %s", cfgTerm, m.fterm(), o, coqBool(changed))
			c.Emit(term, map[string]interface{}{"kind": "task", "fn": m.Fn, "disabled": dis, "no_swaps": noSwaps, "no_multiswaps": noMulti, "observed": o, "message": msg}, true)
			c.Count("task_" + o)
		}
		// a robot batch carrying one swap answer and one multi-swap answer
		if rk.n != 3 {
			sid := make([]byte, 32)
			sid[0], sid[1], sid[2] = byte(ci), 1, byte(ci>>8)
			mid := make([]byte, 32)
			mid[0], mid[1], mid[2] = byte(ci), 2, byte(ci>>8)
			b := &fpb.Batch{
				Swaps:      []*fpb.Swap{{Id: sid, Owner: stranger.Addr, Token: "VT", Amount: []byte{5}, From: "VT", To: "TT", Hash: make([]byte, 32)}},
				MultiSwaps: []*fpb.MultiSwap{{Id: mid, Owner: stranger.Addr, Token: "VT", Assets: []*fpb.Asset{{Group: "VT_1", Amount: []byte{5}}}, From: "VT", To: "TT", Hash: make([]byte, 32)}},
			}
			w.ExecBatch("tt", b)
			sk, _ := w.Peer.newStub(ch, "", nil, nil).CreateCompositeKey("swaps", []string{hex.EncodeToString(sid)})
			mk, _ := w.Peer.newStub(ch, "", nil, nil).CreateCompositeKey("multi_swap", []string{hex.EncodeToString(mid)})
			_, sOK := ch.State[sk]
			_, mOK := ch.State[mk]
			c.Emit(fmt.Sprintf("CBatchSwaps %s %s %s", cfgTerm, coqBool(sOK), coqBool(mOK)),
				map[string]interface{}{"kind": "batch_swaps", "no_swaps": noSwaps, "no_multiswaps": noMulti, "swap_record": sOK, "multiswap_record": mOK}, true)
			c.Count("batch_swaps")
		}
		// unknown method as a task
		out := w.ExecTasks("tt", w.Client.Creator, []*fpb.Task{{Id: w.Peer.NextTxID(), Method: "noSuchFunction", Args: []string{"", "tt", "tt", "x"}}})
		if out.Resp != nil && len(out.Resp.GetTxResponses()) == 1 {
			c.Emit(fmt.Sprintf("CTask %s FUnknown %s false", cfgTerm, taskObs(out.Resp.GetTxResponses()[0].GetError().GetError())), map[string]interface{}{"kind": "task", "fn": "noSuchFunction"}, true)
		}
		// admin-only methods: by admin, issuer, stranger; batch and task route
		if ci%4 == 0 && !(mask&8 != 0) && rk.n != 3 {
			w.SetBalance("tt", balance.BalanceTypeToken, stranger.AddrString(), "", big.NewInt(1000))
			for si, s := range []*Account{w.AdminAcc, w.Issuer, stranger} {
				for route := 0; route < 2; route++ {
					req, _ := json.Marshal(&fpb.BalanceLockRequest{Id: fmt.Sprintf("A%d_%d_%d", ci, si, route), Address: stranger.AddrString(), Token: "TT", Amount: "1", Reason: "r"})
					before := stateSnapshot(ch)
					msg := ""
					if route == 0 {
						msg = tokenRun(w, "tt", s, &nonce, "lockTokenBalance", string(req))
					} else {
						nonce++
						args := w.SignedArgs("tt", "lockTokenBalance", s, strconv.FormatUint(nonce, 10), string(req))
						o2 := w.ExecTasks("tt", w.Client.Creator, []*fpb.Task{{Id: w.Peer.NextTxID(), Method: "lockTokenBalance", Args: args}})
						msg = "TASKS FAILED"
						if o2.Resp != nil && len(o2.Resp.GetTxResponses()) == 1 {
							msg = o2.Resp.GetTxResponses()[0].GetError().GetError()
						}
					}
					accepted := msg == ""
					changed := false
					for k, v := range ch.State {
						if before[k] != string(v) && !strings.Contains(k, "\x002a\x00") {
							changed = true
						}
					}
					for k := range before {
						if _, still := ch.State[k]; !still && !strings.Contains(k, "batchTransactions") {
							changed = true
						}
					}
					c.Emit(fmt.Sprintf("CAdmin %s %d %s %s", cfgTerm, s.N(), coqBool(accepted), coqBool(changed && !accepted)),
						map[string]interface{}{"kind": "admin_method", "sender": s.N(), "route": route, "message": msg}, true)
					c.Count("admin_" + coqBool(accepted))
				}
			}
		}
	}
	// the administrator of a chaincode initialised with the legacy positional list is the address that channel's layout puts
	// in the admin place: admin-only method by that address, by the issuer of the list and by a stranger
	for _, lay := range []struct {
		ch    string
		admin int // index of the admin in the list
		n     int
	}{{"nft", 2, 3}, {"nmmmulti", 2, 3}, {"ct", 3, 4}, {"vote", 3, 4}, {"curusd", 2, 5}, {"otf", 2, 4}} {
		parties := []*Account{w.Issuer, w.AdminAcc, w.FeeSet}
		rng.Shuffle(len(parties), func(a, b int) { parties[a], parties[b] = parties[b], parties[a] })
		args := []string{"platformski", w.Robot.SKI}
		for len(args) < lay.n {
			args = append(args, parties[len(args)-2].AddrString())
		}
		ccL, err := core.NewCC(&HToken{})
		if err != nil {
			return err
		}
		key := lay.ch + "-legacy"
		chL := w.Peer.AddChannel(key, ccL)
		chL.CCName, chL.ChannelID = lay.ch, lay.ch
		if r := w.Peer.Init(key, w.Admin.Creator, args...); !r.OK() {
			return fmt.Errorf("legacy init %s: %s", lay.ch, r.Message)
		}
		adminN := parties[lay.admin-2].N()
		cfgL := fmt.Sprintf("(GCfg 1 %d [] false false)", adminN)
		w.SetBalance(key, balance.BalanceTypeToken, stranger.AddrString(), "", big.NewInt(1000))
		for si, s := range []*Account{parties[0], parties[1], parties[2], stranger} {
			req, _ := json.Marshal(&fpb.BalanceLockRequest{Id: fmt.Sprintf("P%d", si), Address: stranger.AddrString(), Token: strings.ToUpper(lay.ch), Amount: "1", Reason: "r"})
			before := stateSnapshot(chL)
			nonce++
			args := BuildRequest("lockTokenBalance", "", lay.ch, lay.ch, []string{string(req)}, strconv.FormatUint(nonce, 10), s.Members, nil, nil)
			o2 := w.ExecTasks(key, w.Robot.Creator, []*fpb.Task{{Id: w.Peer.NextTxID(), Method: "lockTokenBalance", Args: args}})
			msg := "TASKS FAILED " + o2.Res.Message
			if o2.Resp != nil && len(o2.Resp.GetTxResponses()) == 1 {
				msg = o2.Resp.GetTxResponses()[0].GetError().GetError()
			}
			accepted := msg == ""
			changed := false
			for k, v := range chL.State {
				if before[k] != string(v) && !strings.Contains(k, "\x002a\x00") {
					changed = true
				}
			}
			c.Emit(fmt.Sprintf("CAdmin %s %d %s %s", cfgL, s.N(), coqBool(accepted), coqBool(changed && !accepted)),
				map[string]interface{}{"kind": "admin_method_after_positional_init", "channel": lay.ch, "sender": s.N(), "message": msg}, true)
			c.Count("admin_after_positional_init_" + coqBool(accepted))
		}
	}
	// Init with every identity (on a second channel, valid and invalid configs are C18's subject)
	if _, err := w.AddToken("UU", ChanOpts{}); err != nil {
		return err
	}
	chU := w.Peer.Channels["uu"]
	// certificates whose organisational unit merely contains "admin" are not admin certificates; case is ignored
	near := []struct{ ou string; admin bool }{{"administrators", false}, {"sysadmin", false}, {"non-admin-auditor", false}, {"Admin", true}, {"ADMIN", true}, {"admi", false}}
	initIdents := append([]gIdent(nil), idents...)
	for k, n := range near {
		idn := NewECIdentity("near"+strconv.Itoa(k), n.ou)
		initIdents = append(initIdents, gIdent{"OU=" + n.ou, idn, idn.Creator, fmt.Sprintf("(Creator true %d %d %s)", 20+k, 40+k, coqBool(n.admin))})
	}
	// certificates with no organisational unit, an empty one, and several: admin iff one of them is the admin unit
	for k, n := range []struct {
		ous   []string
		admin bool
	}{{nil, false}, {[]string{""}, false}, {[]string{"client", "admin"}, true}, {[]string{"admin", "client"}, true}, {[]string{"client", "peer"}, false}} {
		idn := NewECIdentityOUs("ous"+strconv.Itoa(k), n.ous)
		initIdents = append(initIdents, gIdent{fmt.Sprintf("OUs=%q", n.ous), idn, idn.Creator, fmt.Sprintf("(Creator true %d %d %s)", 30+k, 50+k, coqBool(n.admin))})
	}
	for _, id := range initIdents {
		before := stateSnapshot(chU)
		r := w.Peer.Init("uu", id.Bytes, w.ConfigJSON("UU", ChanOpts{DisableSwaps: true}))
		c.Emit(fmt.Sprintf("CInit %s %s %s", id.Term, coqBool(r.OK()), coqBool(!stateEqual(before, chU))),
			map[string]interface{}{"kind": "init", "identity": id.Name, "message": r.Message}, true)
		c.Count("init_" + coqBool(r.OK()))
		// restore
		w.Peer.Init("uu", w.Admin.Creator, w.ConfigJSON("UU", ChanOpts{}))
	}
	return nil
}

func init() { props["C11"] = genC11 }
