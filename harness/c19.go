package main

import (
	"encoding/json"
	"fmt"
	"math/big"
	"math/rand"
	"strconv"
	"strings"

	"github.com/anoideaopen/foundation/core/balance"
	fpb "github.com/anoideaopen/foundation/proto"
)

// error classes of the token layer -> constructors of Prelude.err
func c19Err(msg string) string {
	m := strings.ToLower(msg)
	switch {
	case msg == "":
		return "None"
	case strings.Contains(m, "insufficient balance"):
		return "Some EInsufficient"
	case strings.Contains(m, "negative number"), strings.Contains(m, "must be non-negative"):
		return "Some ENegative"
	case strings.Contains(m, "unauthorized"):
		return "Some EUnauthorized"
	case strings.Contains(m, "more than zero"):
		return "Some EZeroAmount"
	case strings.Contains(m, "same users"):
		return "Some ESameUser"
	case strings.Contains(m, "fee address is not set"):
		return "Some EFeeAddr"
	case strings.Contains(m, "incorrect fee currency"), strings.Contains(m, "unknown currency. rate"), strings.Contains(m, "unknown dealtype"):
		if strings.Contains(m, "rate for deal type") {
			return "Some ENoRate"
		}
		return "Some EFeeCurrency"
	case strings.Contains(m, "unknown currency"), strings.Contains(m, "fee currency can't be empty"):
		return "Some EFeeCurrency"
	case strings.Contains(m, "out of limits"):
		return "Some ELimits"
	case strings.Contains(m, "impossible to buy"):
		return "Some ENoRate"
	case strings.Contains(m, "impossible operation"):
		return "Some EIssuerOp"
	case strings.Contains(m, "less than 100%"):
		return "Some EFeeTooBig"
	case strings.Contains(m, "incorrect limits"), strings.Contains(m, "min limit is greater"):
		return "Some EBadLimits"
	case strings.Contains(m, "rate = 0"):
		return "Some ERateZero"
	case strings.Contains(m, "currency is equals token"):
		return "Some ECurrencyIsToken"
	}
	return "Some EOther (* " + strings.ReplaceAll(msg, "*", "x") + " *)"
}

type c19Op struct {
	Kind   string   `json:"op"`
	Sender int      `json:"sender"` // account N
	To     int      `json:"to,omitempty"`
	Amount *big.Int `json:"amount,omitempty"`
	Cur    string   `json:"cur,omitempty"`
	Deal   string   `json:"deal,omitempty"`
	A      *big.Int `json:"a,omitempty"`
	B      *big.Int `json:"b,omitempty"`
	C      *big.Int `json:"c,omitempty"`
}

type c19World struct {
	w      *World
	in     *Interner
	accs   map[int]*Account
	nonce  uint64
	curN   map[string]int
	dealN  map[string]int
	errors []string
}

// tokenRun executes one signed batched operation and returns the error text ("" = ok).
func tokenRun(w *World, ch string, acc *Account, nonce *uint64, fn string, args ...string) string {
	*nonce++
	req := w.SignedArgs(ch, fn, acc, strconv.FormatUint(*nonce, 10), args...)
	sub := w.Submit(ch, fn, req)
	if !sub.OK() {
		return sub.Message
	}
	out := w.ExecBatchIDs(ch, sub.TxID)
	if out.Resp == nil || len(out.Resp.GetTxResponses()) != 1 {
		return "BATCH FAILED: " + out.Res.Message
	}
	return out.Resp.GetTxResponses()[0].GetError().GetError()
}

func (cw *c19World) run(o c19Op) string {
	acc := cw.accs[o.Sender]
	switch o.Kind {
	case "emit":
		return tokenRun(cw.w, "tt", acc, &cw.nonce, "emit", cw.accs[o.To].AddrString(), o.Amount.String())
	case "transfer":
		return tokenRun(cw.w, "tt", acc, &cw.nonce, "transfer", cw.accs[o.To].AddrString(), o.Amount.String(), "ref")
	case "setFee":
		return tokenRun(cw.w, "tt", acc, &cw.nonce, "setFee", o.Cur, o.A.String(), o.B.String(), o.C.String())
	case "setFeeAddress":
		return tokenRun(cw.w, "tt", acc, &cw.nonce, "setFeeAddress", cw.accs[o.To].AddrString())
	case "setRate":
		return tokenRun(cw.w, "tt", acc, &cw.nonce, "setRate", o.Deal, o.Cur, o.A.String())
	case "setLimits":
		return tokenRun(cw.w, "tt", acc, &cw.nonce, "setLimits", o.Deal, o.Cur, o.A.String(), o.B.String())
	case "buyToken":
		return tokenRun(cw.w, "tt", acc, &cw.nonce, "buyToken", o.Amount.String(), o.Cur)
	case "buyBack":
		return tokenRun(cw.w, "tt", acc, &cw.nonce, "buyBack", o.Amount.String(), o.Cur)
	}
	panic("unknown op " + o.Kind)
}

func (cw *c19World) term(o c19Op) string {
	switch o.Kind {
	case "emit":
		return fmt.Sprintf("OEmit %d %d %s", o.Sender, o.To, coqZ(o.Amount))
	case "transfer":
		return fmt.Sprintf("OTransfer %d %d %s", o.Sender, o.To, coqZ(o.Amount))
	case "setFee":
		return fmt.Sprintf("OSetFee %d %d %s %s %s", o.Sender, cw.curN[o.Cur], coqZ(o.A), coqZ(o.B), coqZ(o.C))
	case "setFeeAddress":
		return fmt.Sprintf("OSetFeeAddr %d %d", o.Sender, o.To)
	case "setRate":
		return fmt.Sprintf("OSetRate %d %d %d %s", o.Sender, cw.dealN[o.Deal], cw.curN[o.Cur], coqZ(o.A))
	case "setLimits":
		return fmt.Sprintf("OSetLimits %d %d %d %s %s", o.Sender, cw.dealN[o.Deal], cw.curN[o.Cur], coqZ(o.A), coqZ(o.B))
	case "buyToken":
		return fmt.Sprintf("OBuy %d %s %d", o.Sender, coqZ(o.Amount), cw.curN[o.Cur])
	case "buyBack":
		return fmt.Sprintf("OBuyBack %d %s %d", o.Sender, coqZ(o.Amount), cw.curN[o.Cur])
	}
	panic("unknown op")
}

func bi(s string) *big.Int {
	z, ok := new(big.Int).SetString(s, 10)
	if !ok {
		panic(s)
	}
	return z
}

// dealAmount: small amounts, and (for funded cases) amounts of 30-45 bits, so that amount x rate (rates have up to 29 bits)
// lies on both sides of 2^64
func dealAmount(rng *rand.Rand, whale bool) *big.Int {
	if !whale || rng.Intn(2) == 0 {
		return big.NewInt(int64(rng.Intn(200)))
	}
	k := uint(30 + rng.Intn(16))
	a := new(big.Int).Add(pow2(k), new(big.Int).Rand(rng, pow2(k)))
	if rng.Intn(4) == 0 {
		a = new(big.Int).Sub(pow2(k+1), big.NewInt(int64(1+rng.Intn(3)))) // all ones: the largest k+1-bit values
	}
	return a
}

func pow2(n uint) *big.Int { return new(big.Int).Lsh(big.NewInt(1), n) }

func genC19(c *Ctx) error {
	c.ShardSize = 8
	c.Notes["rule"] = "each case: fresh chaincode; a fee setting (share 0..100%+1, floor, cap incl. 0, own/foreign currency with buyToken rate), optional fee address, rates and limits for buy/buy-back, genesis allowed balances; then 15-30 signed operations through real batches with amounts at the break points of the configuration (raw fee = floor, = cap, +-1; limit bounds +-1; exact balance, balance+1, balance minus fee; 2^64, 2^256; in a third of the cases buy / buy-back amounts of 30-45 bits with funded parties, so that amount x rate lies on both sides of 2^64). Now and then the access-control service re-binds an address to another user. Observed: error class and the complete balance projection after every operation, token metadata and predictFee at the end. Non-trivial: at least one successful transfer with a positive fee or one successful buy/buy-back."
	n := c.N(160, 2500)
	for i := 0; i < n; i++ {
		if err := c19Case(c, i); err != nil {
			return err
		}
	}
	return nil
}

func c19Case(c *Ctx, idx int) error {
	rng := c.Rng
	w := NewWorld()
	// the token's number of decimals is a display property: fee shares and rates are fixed-point numbers with 8 digits
	// whatever it is
	decOff := []int{0, 0, -2, 2, -8, 10}[c.Rng.Intn(6)]
	c.Count(fmt.Sprintf("token_decimals_%d", 8+decOff))
	if _, err := w.AddToken("TT", ChanOpts{DecimalsOff: decOff}); err != nil {
		return err
	}
	u1, u2, u3, u4, fa := w.NewAccount(fpb.KeyType_ed25519), w.NewAccount(fpb.KeyType_ed25519), w.NewAccount(fpb.KeyType_ed25519), w.NewAccount(fpb.KeyType_ed25519), w.NewAccount(fpb.KeyType_ed25519)
	u1.UserID, u2.UserID, u3.UserID, fa.UserID = "U1", "U1", "U3", "FA"
	w.Issuer.UserID = "ISS"
	cw := &c19World{w: w, in: w.Interner(), accs: map[int]*Account{}, nonce: 1700000000000,
		curN: map[string]int{"TT": 1, "CURA": 2, "CURB": 3, "NOPE": 4}, dealN: map[string]int{"buyToken": 0, "buyBack": 1, "other": 2}}
	cw.in.token["TT"], cw.in.token["CURA"], cw.in.token["CURB"], cw.in.token["NOPE"] = 1, 2, 3, 4
	for _, a := range w.Accounts {
		cw.accs[a.N()] = a
	}
	users := []*Account{u1, u2, u3, u4}
	iss, fs := w.Issuer, w.FeeSet
	// large deals: amounts whose product with the rate is around and beyond 2^64 (the parties are funded for them)
	whale := rng.Intn(3) == 0
	// genesis allowed balances
	for _, a := range append(users, iss, fa) {
		for _, cur := range []string{"CURA", "CURB"} {
			if rng.Intn(4) > 0 {
				amt := big.NewInt(int64(rng.Intn(5000)))
				if rng.Intn(10) == 0 {
					amt = new(big.Int).Add(pow2(64), big.NewInt(int64(rng.Intn(1000))))
				}
				if whale && (a == iss || a == u1 || a == u3) {
					amt = new(big.Int).Add(pow2(70), big.NewInt(int64(rng.Intn(1000))))
				}
				w.SetBalance("tt", balance.BalanceTypeAllowed, a.AddrString(), cur, amt)
			}
		}
	}
	init := w.Balances("tt", cw.in)

	var ops []c19Op
	z := func(v int64) *big.Int { return big.NewInt(v) }
	// configuration phase
	shares := []int64{0, 1, 1000000, 2500000, 50000000, 100000000, 100000001}
	floors := []int64{0, 1, 10, 1000}
	share, floor := shares[rng.Intn(len(shares))], floors[rng.Intn(len(floors))]
	caps := []int64{0, floor, floor + 5, floor + 1000, 1000000}
	if floor > 0 {
		caps = append(caps, floor-1)
	}
	cp := caps[rng.Intn(len(caps))]
	feeCur := "TT"
	if rng.Intn(2) == 0 {
		feeCur = []string{"CURA", "CURB", "NOPE"}[rng.Intn(3)]
	}
	rateA, rateB := int64(1+rng.Intn(3))*50000000, int64(1+rng.Intn(400000000))
	if rng.Intn(2) == 0 {
		rateA = int64(1 + rng.Intn(400000000))
	}
	cfg := []c19Op{
		{Kind: "setRate", Sender: iss.N(), Deal: "buyToken", Cur: "CURA", A: z(rateA)},
		{Kind: "setRate", Sender: iss.N(), Deal: "buyBack", Cur: "CURA", A: z(rateB)},
		{Kind: "setFee", Sender: fs.N(), Cur: feeCur, A: z(share), B: z(floor), C: z(cp)},
		{Kind: "setFeeAddress", Sender: fs.N(), To: fa.N()},
		{Kind: "emit", Sender: iss.N(), To: u1.N(), Amount: z(int64(1000 + rng.Intn(100000)))},
		{Kind: "emit", Sender: iss.N(), To: u3.N(), Amount: z(int64(1000 + rng.Intn(100000)))},
		{Kind: "emit", Sender: iss.N(), To: iss.N(), Amount: z(int64(rng.Intn(100000)))},
	}
	if rng.Intn(2) == 0 {
		cfg = append(cfg, c19Op{Kind: "setRate", Sender: iss.N(), Deal: "buyToken", Cur: "CURB", A: z(rateB)})
	}
	if rng.Intn(2) == 0 {
		cfg = append(cfg, c19Op{Kind: "setRate", Sender: iss.N(), Deal: "buyBack", Cur: "CURB", A: z(int64(1 + rng.Intn(300000000)))})
	}
	if rng.Intn(6) == 0 { // drop the fee address: transfers then fail once a fee is configured
		cfg = append(cfg[:3], cfg[4:]...)
	}
	rng.Shuffle(len(cfg), func(a, b int) { cfg[a], cfg[b] = cfg[b], cfg[a] })
	limits := map[string][2]int64{} // the limits last requested per deal type and currency (to aim deals at their bounds)
	atBounds := func(deal, cur string, a *big.Int) *big.Int {
		if l, ok := limits[deal+"/"+cur]; ok && rng.Intn(2) == 0 {
			return z([]int64{l[0] - 1, l[0], l[0] + 1, l[1] - 1, l[1], l[1], l[1] + 1}[rng.Intn(7)])
		}
		return a
	}
	for k := rng.Intn(4); k > 0; k-- {
		mn := int64(rng.Intn(50))
		mx := []int64{0, mn, mn + 100, mn - 1}[rng.Intn(4)]
		if mx < 0 {
			mx = 0
		}
		lop := c19Op{Kind: "setLimits", Sender: iss.N(), Deal: []string{"buyToken", "buyBack", "other"}[rng.Intn(3)], Cur: []string{"CURA", "CURB"}[rng.Intn(2)], A: z(mn), B: z(mx)}
		cfg = append(cfg, lop)
		limits[lop.Deal+"/"+lop.Cur] = [2]int64{mn, mx}
	}
	// wrong-sender and invalid variants
	if rng.Intn(4) == 0 {
		cfg = append(cfg, c19Op{Kind: "setFee", Sender: u1.N(), Cur: "TT", A: z(1), B: z(0), C: z(0)})
	}
	if rng.Intn(4) == 0 {
		cfg = append(cfg, c19Op{Kind: "setRate", Sender: iss.N(), Deal: "buyToken", Cur: []string{"TT", "CURB"}[rng.Intn(2)], A: z(int64(rng.Intn(2)))})
	}
	if rng.Intn(8) == 0 {
		cfg = append(cfg, c19Op{Kind: "emit", Sender: iss.N(), To: u2.N(), Amount: new(big.Int).Add(pow2(256), z(int64(rng.Intn(9))))})
	}
	if whale {
		for _, a := range []*Account{iss, u1, u3} {
			cfg = append(cfg, c19Op{Kind: "emit", Sender: iss.N(), To: a.N(), Amount: new(big.Int).Add(pow2(46), z(int64(rng.Intn(1000))))})
		}
		c.Count("cases_with_large_deals")
	}
	ops = append(ops, cfg...)

	var steps []string
	var errs []string
	var jsteps []interface{}
	positiveFee, bought := false, false
	var xops []string
	uidNum := map[string]int{"U1": 1, "U3": 3, "FA": 5, "ISS": 6, "U9": 9}
	var uids []string // the bindings at the start
	for _, a := range w.Accounts {
		if a.UserID != "" {
			uids = append(uids, fmt.Sprintf("(%d, %d)", a.N(), uidNum[a.UserID]))
		}
	}
	exec := func(o c19Op) {
		before := w.Balances("tt", cw.in)
		msg := cw.run(o)
		e := c19Err(msg)
		after := w.Balances("tt", cw.in)
		steps = append(steps, fmt.Sprintf("(%s, %s)", e, coqBals(after)))
		errs = append(errs, e)
		jsteps = append(jsteps, map[string]interface{}{"op": o, "error": msg})
		xops = append(xops, "XOp ("+cw.term(o)+")")
		c.Count("op_" + o.Kind)
		if e == "None" {
			c.Count("ok_" + o.Kind)
			if o.Kind == "buyToken" || o.Kind == "buyBack" {
				bought = true
			}
			if o.Kind == "transfer" {
				// fee charged iff the sender lost more than the amount (any balance kind)
				lost := new(big.Int)
				for _, b := range before {
					if b.Addr == o.Sender {
						lost.Add(lost, b.Amount)
					}
				}
				for _, b := range after {
					if b.Addr == o.Sender {
						lost.Sub(lost, b.Amount)
					}
				}
				if lost.Cmp(o.Amount) > 0 {
					positiveFee = true
					c.Count("transfer_with_fee")
				}
			}
		} else {
			c.Count("err_" + strings.TrimPrefix(strings.SplitN(e, " (*", 2)[0], "Some "))
		}
	}
	for _, o := range ops {
		exec(o)
	}
	// business phase
	balOf := func(a *Account, kind, tok int) *big.Int {
		for _, b := range w.Balances("tt", cw.in) {
			if b.Kind == kind && b.Addr == a.N() && b.Token == tok {
				return b.Amount
			}
		}
		return new(big.Int)
	}
	breakpoints := func() []*big.Int {
		out := []*big.Int{z(1), z(2), z(99), z(100), z(101)}
		if share > 0 && share <= 100000000 {
			for _, lim := range []int64{floor, cp} {
				if lim > 0 {
					a := new(big.Int).Div(new(big.Int).Mul(z(lim), z(100000000)), z(share))
					out = append(out, a, new(big.Int).Add(a, z(1)), new(big.Int).Sub(a, z(1)), new(big.Int).Add(a, z(int64(100000000/share)+1)))
				}
			}
		}
		return out
	}()
	m := 15 + rng.Intn(16)
	all := append(append([]*Account{}, users...), iss, fa)
	for k := 0; k < m; k++ {
		s := all[rng.Intn(len(all))]
		if rng.Intn(3) > 0 {
			s = []*Account{u1, u3}[rng.Intn(2)]
		}
		switch r := rng.Intn(100); {
		case r < 65:
			to := all[rng.Intn(len(all))]
			if rng.Intn(20) > 0 && to == s {
				to = u2
			}
			bal := balOf(s, 43, 0)
			var amt *big.Int
			switch x := rng.Intn(10); {
			case x < 4:
				amt = breakpoints[rng.Intn(len(breakpoints))]
			case x < 6:
				amt = new(big.Int).Sub(bal, z(int64(rng.Intn(60))))
			case x < 7:
				amt = new(big.Int).Add(bal, z(1))
			case x < 8:
				amt = z(0)
			case x < 9:
				amt = z(int64(-1 - rng.Intn(5)))
			default:
				amt = z(int64(rng.Intn(3000)))
			}
			if rng.Intn(40) == 0 {
				amt = new(big.Int).Add(pow2(64), z(int64(rng.Intn(5))))
			}
			exec(c19Op{Kind: "transfer", Sender: s.N(), To: to.N(), Amount: amt})
		case r < 80:
			cur := []string{"CURA", "CURA", "CURB", "NOPE"}[rng.Intn(4)]
			exec(c19Op{Kind: "buyToken", Sender: s.N(), Amount: atBounds("buyToken", cur, dealAmount(rng, whale)), Cur: cur})
		case r < 92:
			cur := []string{"CURA", "CURB", "CURB"}[rng.Intn(3)]
			exec(c19Op{Kind: "buyBack", Sender: s.N(), Amount: atBounds("buyBack", cur, dealAmount(rng, whale)), Cur: cur})
		case r < 94:
			// the access-control service re-binds an address to another user (or to the user of another address): whether a
			// transfer between two addresses is free of fee follows the binding in force when it runs
			if rng.Intn(2) == 0 {
				// the issuer removes a rate that was never set (another currency, or this deal type for a currency that has only
				// the other one): whatever it answers, nothing the business relies on is touched. No step of the model.
				msg := tokenRun(cw.w, "tt", iss, &cw.nonce, "deleteRate", []string{"buyToken", "buyBack"}[rng.Intn(2)], []string{"GBP", "GBP", "NOPE"}[rng.Intn(3)])
				c.Count("delete_of_a_rate_never_set: " + c19Err(msg))
			}
			a := []*Account{u1, u2, u3}[rng.Intn(3)]
			a.UserID = []string{"U1", "U3", "U9"}[rng.Intn(3)]
			xops = append(xops, fmt.Sprintf("XRebind %d %d", a.N(), uidNum[a.UserID]))
			c.Count("user_rebound")
		case r < 95:
			fop := c19Op{Kind: "setFee", Sender: fs.N(), Cur: []string{"TT", "CURA", "NOPE"}[rng.Intn(3)], A: z(shares[rng.Intn(len(shares))]), B: z(floors[rng.Intn(len(floors))]), C: z(caps[rng.Intn(len(caps))])}
			exec(fop)
			if fop.C.Sign() > 0 && fop.Cur != "NOPE" && rng.Intn(2) == 0 {
				// the cap is taken away again (0 = none): the next large transfer pays the uncapped fee
				fop.C = z(0)
				exec(fop)
				exec(c19Op{Kind: "transfer", Sender: u1.N(), To: u3.N(), Amount: z(int64(50000 + rng.Intn(100000)))})
				c.Count("fee_cap_removed_then_large_transfer")
			}
		case r < 98:
			// a rate is updated while the business runs: its limits must survive
			exec(c19Op{Kind: "setRate", Sender: iss.N(), Deal: []string{"buyToken", "buyBack"}[rng.Intn(2)], Cur: []string{"CURA", "CURB"}[rng.Intn(2)], A: z(int64(1 + rng.Intn(300000000)))})
		default:
			mn := int64(rng.Intn(100))
			lop := c19Op{Kind: "setLimits", Sender: iss.N(), Deal: []string{"buyToken", "buyBack"}[rng.Intn(2)], Cur: "CURA", A: z(mn), B: z([]int64{0, mn + 50, mn}[rng.Intn(3)])}
			exec(lop)
			limits[lop.Deal+"/"+lop.Cur] = [2]int64{mn, lop.B.Int64()}
		}
	}
	// final metadata
	meta := w.TokenMeta("tt")
	feeTerm := "FeeCfg false 0 (0)%Z (0)%Z (0)%Z"
	if meta.GetFee() != nil {
		feeTerm = fmt.Sprintf("FeeCfg true %d %s %s %s", cw.in.Token(meta.GetFee().GetCurrency()),
			coqZ(new(big.Int).SetBytes(meta.GetFee().GetFee())), coqZ(new(big.Int).SetBytes(meta.GetFee().GetFloor())), coqZ(new(big.Int).SetBytes(meta.GetFee().GetCap())))
	}
	faTerm := "None"
	if len(meta.GetFeeAddress()) == 32 {
		faTerm = fmt.Sprintf("(Some %d)", cw.in.Addr((&Account{Addr: meta.GetFeeAddress()}).AddrString()))
	}
	var rates []string
	for _, r := range meta.GetRates() {
		d, okd := cw.dealN[r.GetDealType()]
		if !okd {
			d = 99
		}
		rates = append(rates, fmt.Sprintf("Rate %d %d %s %s %s", d, cw.in.Token(r.GetCurrency()),
			coqZ(new(big.Int).SetBytes(r.GetRate())), coqZ(new(big.Int).SetBytes(r.GetMin())), coqZ(new(big.Int).SetBytes(r.GetMax()))))
	}
	// predictFee queries
	var preds []string
	for _, a := range append(breakpoints[:3], z(int64(rng.Intn(100000))), pow2(70)) {
		res := w.Peer.Invoke("tt", w.Client.Creator, "predictFee", a.String())
		if res.OK() {
			var p struct {
				Currency string `json:"currency"`
				Fee      string `json:"fee"`
			}
			if err := json.Unmarshal(res.Payload, &p); err != nil {
				return fmt.Errorf("predictFee payload %q: %v", res.Payload, err)
			}
			preds = append(preds, fmt.Sprintf("(%s, Some (%s, %d))", coqZ(a), coqZ(bi(p.Fee)), cw.in.Token(p.Currency)))
		} else {
			preds = append(preds, fmt.Sprintf("(%s, None)", coqZ(a)))
		}
	}
	opTerms := xops
	env := fmt.Sprintf("(TEnv 1 %d %d %d %s)", iss.N(), fs.N(), fs.N(), coqList(uids))
	term := fmt.Sprintf("mkCase %s %s %s %s (%s) %s %s %s %s", env, coqBals(init), coqList(opTerms), coqList(steps),
		feeTerm, faTerm, coqList(rates), coqZ(new(big.Int).SetBytes(meta.GetTotalEmission())), coqList(preds))
	c.Emit(term, map[string]interface{}{"steps": jsteps, "share": share, "floor": floor, "cap": cp, "fee_currency": feeCur}, positiveFee || bought)
	return nil
}

func init() { props["C19"] = genC19 }
