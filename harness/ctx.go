package main

import (
	"bufio"
	"encoding/json"
	"fmt"
	"math/rand"
	"os"
	"path/filepath"
	"sort"
	"strings"
)

// Ctx collects cases of one run and writes cases_*.v, cases.jsonl and meta.json.
type Ctx struct {
	Prop, Tier string
	Seed       int64
	Scale      int
	Out        string
	Rng        *rand.Rand
	ShardSize  int
	Header     string // Coq imports of the cases file
	CaseType   string // Coq type of one case
	terms      []string
	descs      []json.RawMessage
	counts     map[string]int
	distinct   map[string]bool
	nontrivial int
	samples    []json.RawMessage
	Notes      map[string]interface{}
}

func NewCtx(prop, tier string, seed int64, out string, scale int) *Ctx {
	if out == "" {
		out = filepath.Join("work", prop)
	}
	if scale < 1 {
		scale = 1
	}
	return &Ctx{Prop: prop, Tier: tier, Seed: seed, Scale: scale, Out: out,
		Rng: rand.New(rand.NewSource(seed)), ShardSize: 600,
		Header:   fmt.Sprintf("From Fnd Require Import Base.Prelude Corr.Run_%s.", prop),
		CaseType: "case",
		counts:   map[string]int{}, distinct: map[string]bool{}, Notes: map[string]interface{}{}}
}

func (c *Ctx) Thorough() bool { return c.Tier == "thorough" }

// N returns quick or thorough budget, multiplied by the search scale.
func (c *Ctx) N(quick, thorough int) int {
	n := quick
	if c.Thorough() {
		n = thorough
	}
	return n * c.Scale
}

func (c *Ctx) Count(kind string) { c.counts[kind]++ }
func (c *Ctx) CountN(kind string, n int) { c.counts[kind] += n }

// Emit adds one case: its Coq term, a JSON description for replay, and whether it is
// non-trivial by the generator's rule.
func (c *Ctx) Emit(term string, desc interface{}, nontrivial bool) {
	b, err := json.Marshal(desc)
	if err != nil {
		panic(err)
	}
	c.terms = append(c.terms, term)
	c.descs = append(c.descs, b)
	if !c.distinct[term] {
		c.distinct[term] = true
		if nontrivial {
			c.nontrivial++
		}
	}
	if len(c.samples) < 3 || (len(c.terms)%997 == 0 && len(c.samples) < 6) {
		c.samples = append(c.samples, b)
	}
}

func (c *Ctx) Finish() error {
	if err := os.MkdirAll(c.Out, 0o755); err != nil {
		return err
	}
	old, _ := filepath.Glob(filepath.Join(c.Out, "cases_*"))
	for _, f := range old {
		os.Remove(f)
	}
	nshards := 0
	for i := 0; i < len(c.terms); i += c.ShardSize {
		j := i + c.ShardSize
		if j > len(c.terms) {
			j = len(c.terms)
		}
		f, err := os.Create(filepath.Join(c.Out, fmt.Sprintf("cases_%d.v", nshards)))
		if err != nil {
			return err
		}
		w := bufio.NewWriter(f)
		fmt.Fprintln(w, c.Header)
		fmt.Fprintln(w, "Local Open Scope N_scope.")
		fmt.Fprintf(w, "Definition cases : list %s := [\n", c.CaseType)
		for k := i; k < j; k++ {
			sep := ";"
			if k == j-1 {
				sep = ""
			}
			fmt.Fprintf(w, " %s%s\n", c.terms[k], sep)
		}
		fmt.Fprintln(w, "].")
		fmt.Fprintln(w, "Definition corr_bad := Eval vm_compute in bad_idx corr cases.")
		fmt.Fprintln(w, "Definition prop_bad := Eval vm_compute in bad_idx holds cases.")
		fmt.Fprintln(w, "Definition labels := Eval vm_compute in histogram (List.map label cases).")
		fmt.Fprintln(w, "Print corr_bad. Print prop_bad. Print labels.")
		w.Flush()
		f.Close()
		nshards++
	}
	jf, err := os.Create(filepath.Join(c.Out, "cases.jsonl"))
	if err != nil {
		return err
	}
	w := bufio.NewWriter(jf)
	for _, d := range c.descs {
		w.Write(d)
		w.WriteByte('\n')
	}
	w.Flush()
	jf.Close()
	kinds := make([]string, 0, len(c.counts))
	for k := range c.counts {
		kinds = append(kinds, k)
	}
	sort.Strings(kinds)
	meta := map[string]interface{}{
		"property": c.Prop, "tier": c.Tier, "seed": c.Seed, "scale": c.Scale,
		"evaluations": len(c.terms), "distinct": len(c.distinct), "distinct_nontrivial": c.nontrivial,
		"shards": nshards, "shard_size": c.ShardSize, "distribution": c.counts, "samples": c.samples,
		"notes": c.Notes,
	}
	mb, _ := json.MarshalIndent(meta, "", " ")
	return os.WriteFile(filepath.Join(c.Out, "meta.json"), mb, 0o644)
}

// ---- Coq term helpers -----------------------------------------------------

func coqBytes(b []byte) string {
	if len(b) == 0 {
		return "[]"
	}
	var sb strings.Builder
	sb.WriteByte('[')
	for i, x := range b {
		if i > 0 {
			sb.WriteByte(';')
		}
		fmt.Fprintf(&sb, "%d", x)
	}
	sb.WriteByte(']')
	return sb.String()
}

func coqList(items []string) string {
	if len(items) == 0 {
		return "[]"
	}
	return "[" + strings.Join(items, "; ") + "]"
}

func coqBool(b bool) string {
	if b {
		return "true"
	}
	return "false"
}
