package main

import (
	"encoding/hex"
	"encoding/json"
	"fmt"
	"math/big"
	"strconv"
	"strings"
	"time"

	"github.com/anoideaopen/foundation/core/balance"
	fpb "github.com/anoideaopen/foundation/proto"
	"google.golang.org/protobuf/types/known/timestamppb"
)

// C06: sequences over the union of all balance-moving operations of one channel.

type c06World struct {
	*ccWorld
	accN   map[int]*Account
	lockID int
}

func (cw *c06World) emission() *big.Int {
	m := cw.w.TokenMeta("tt")
	if m == nil {
		return big.NewInt(0)
	}
	return new(big.Int).SetBytes(m.GetTotalEmission())
}

func (cw *c06World) ccRecs(prefix string) string {
	// "(CObs <bal> <from> <to>)": reuse the C10 projection and cut out the wanted list
	o := cw.obs("tt")
	o = strings.TrimSuffix(strings.TrimPrefix(o, "(CObs "), ")")
	parts := splitTop(o)
	if len(parts) != 3 {
		return "[]"
	}
	if prefix == "from" {
		return parts[1]
	}
	return parts[2]
}

// splitTop splits "[..] [..] [..]" into its top-level bracketed lists.
func splitTop(s string) []string {
	var out []string
	depth, start := 0, -1
	for i, c := range s {
		switch c {
		case '[':
			if depth == 0 {
				start = i
			}
			depth++
		case ']':
			depth--
			if depth == 0 && start >= 0 {
				out = append(out, s[start:i+1])
				start = -1
			}
		}
	}
	return out
}

func (cw *c06World) uObs() string {
	sw := strings.TrimSuffix(strings.TrimPrefix(cw.swObs("tt"), "(SObs "), ")")
	ms := strings.TrimSuffix(strings.TrimPrefix(cw.msObs("tt"), "(MObs "), ")")
	swp, msp := splitTop(sw), splitTop(ms)
	swl, msl := "[]", "[]"
	if len(swp) == 2 {
		swl = swp[1]
	}
	if len(msp) == 2 {
		msl = msp[1]
	}
	return fmt.Sprintf("(UObs %s %s %s %s %s %s)", cw.balTerm("tt"), coqZ(cw.emission()), swl, msl, cw.ccRecs("from"), cw.ccRecs("to"))
}

func (cw *c06World) bal(kind balance.BalanceType, a *Account, token string) *big.Int {
	k, err := (&TxStub{}).CreateCompositeKey(kind.String(), []string{a.AddrString(), token})
	if token == "" {
		k, err = (&TxStub{}).CreateCompositeKey(kind.String(), []string{a.AddrString()})
	}
	if err != nil {
		return big.NewInt(0)
	}
	v, ok := cw.w.Peer.Channels["tt"].State[k]
	if !ok {
		return big.NewInt(0)
	}
	return new(big.Int).SetBytes(v)
}

// edge amounts around a balance
func edgeAmount(c *Ctx, b *big.Int) *big.Int {
	switch c.Rng.Intn(12) {
	case 0:
		return big.NewInt(0)
	case 1:
		return big.NewInt(1)
	case 2:
		return new(big.Int).Set(b)
	case 3:
		return new(big.Int).Add(b, big.NewInt(1))
	case 4:
		return new(big.Int).Add(pow2(64), big.NewInt(int64(c.Rng.Intn(9))))
	case 5:
		return pow2(256)
	case 6:
		if b.Sign() > 0 {
			return new(big.Int).Sub(b, big.NewInt(1))
		}
	}
	if b.Sign() > 0 && b.IsInt64() && b.Int64() < 1<<40 {
		return big.NewInt(c.Rng.Int63n(b.Int64()/2 + 1))
	}
	return big.NewInt(int64(c.Rng.Intn(500)))
}

func c06Err(family, msg string) string {
	if strings.HasPrefix(msg, "BATCH FAILED") || strings.HasPrefix(msg, "TASKS FAILED") {
		return "Some EPanic"
	}
	switch family {
	case "tok":
		if strings.Contains(msg, "emission can't become negative") {
			return "Some EOther"
		}
		return c19Err(msg)
	case "lock":
		return c13Err(msg)
	case "cc":
		return ccErr(msg)
	case "swap":
		return swErr(msg)
	case "mswap":
		return msErr(msg)
	case "force":
		m := strings.ToLower(msg)
		switch {
		case msg == "":
			return "None"
		case strings.Contains(m, "not an admin"), strings.Contains(m, "unauthorised"), strings.Contains(m, "admin is not set"):
			return "Some EUnauthorized"
		case strings.Contains(m, "must be different"):
			return "Some ESameUser"
		case strings.Contains(m, "greater than zero"):
			return "Some EZeroAmount"
		case strings.Contains(m, "insufficient"):
			return "Some EInsufficient"
		}
	}
	return "Some EOther (* " + strings.ReplaceAll(msg, "*", "x") + " *)"
}

func genC06(c *Ctx) error {
	c.ShardSize = 10
	c.Notes["rule"] = "one deployed token chaincode (TT) next to a second channel (VT); issuer, fee setter, admin and two users. Sequences of 25-45 operations drawn from the union: emit, burn, transfer (fee unset / in TT / in VT, fee address = a user, also the sender), buyToken / buyBack, lock / unlock of token and allowed balances (also an unlock of one lock by more than it holds while a second lock of the address covers the rest), channelTransferByCustomer / ByAdmin with createCCTransferTo / cancel / commit / delete, swapBegin (both routes) / cancel / robot answer / robot done / user done, the same for multi-swaps (1-3 assets, duplicates, three-part tickers), forced transferBalance by the admin - with amounts 0, 1, balance-1, exactly the balance, balance+1, 2^64+x, 2^256 and random ones, all account pairs incl. self. After every step: error class, every balance of every kind, the total emission in the token metadata, all swap / multi-swap / transfer records. Non-trivial: >= 4 operation families used and >= 8 successful steps. Half of the token operations share their batch with a second, successful transaction that writes nothing (what a rejected operation wrote before it failed must not surface through a neighbour)."
	n := c.N(100, 1500)
	for i := 0; i < n; i++ {
		if err := c06Case(c); err != nil {
			return err
		}
	}
	return nil
}

func c06Case(c *Ctx) error {
	rng := c.Rng
	base, err := newCCWorld()
	if err != nil {
		return err
	}
	cw := &c06World{ccWorld: base, accN: map[int]*Account{}}
	cw.grpN["G2"] = 2
	w := cw.w
	u1, u2 := cw.users[0], cw.users[1]
	u1.UserID, u2.UserID = "U1", "U2"
	if rng.Intn(4) == 0 {
		u2.UserID = "U1" // the two addresses belong to one user: no fee between them
	}
	w.Issuer.UserID, w.FeeSet.UserID, w.AdminAcc.UserID = "ISS", "FS", "ADM"
	for _, a := range w.Accounts {
		cw.accN[a.N()] = a
	}
	parties := []*Account{u1, u2, w.Issuer}
	// allowed balances of the other channel's token exist from earlier transfers; they are not units of TT
	for _, u := range parties {
		w.SetBalance("tt", balance.BalanceTypeAllowed, u.AddrString(), "VT", big.NewInt(int64(200+rng.Intn(800))))
		w.SetBalance("tt", balance.BalanceTypeAllowed, u.AddrString(), "VT_G1", big.NewInt(int64(rng.Intn(300))))
	}
	uidN := map[string]int{"": 0, "U1": 1, "U2": 2, "ISS": 3, "FS": 4, "ADM": 5}
	var uids []string
	for _, a := range w.Accounts {
		uids = append(uids, fmt.Sprintf("(%d, %d)", a.N(), uidN[a.UserID]))
	}
	// initial allowed balances are part of the model's start state: they come first as "operations"
	// of kind UForce are not suitable; instead the case starts from the observed balances by emitting
	// them through createCCTransferTo (forward transfers from VT), which is how they arise.
	for _, k := range []string{"\x00"} {
		_ = k
	}
	// reset: remove the direct writes and create the allowed balances through the protocol instead
	for k := range w.Peer.Channels["tt"].State {
		if ot, _, ok := splitComposite(k); ok && ot == "2c" {
			delete(w.Peer.Channels["tt"].State, k)
		}
	}
	var ops, steps []string
	fam := map[string]bool{}
	okN := 0
	obsOverride := "" // the observation to record for the next operation, when it is not the present state
	record := func(family, term, msg, ev string) {
		e := c06Err(family, msg)
		ops = append(ops, term)
		obs := cw.uObs()
		if obsOverride != "" {
			obs, obsOverride = obsOverride, ""
		}
		steps = append(steps, fmt.Sprintf("(%s, %s, %s)", e, ev, obs))
		c.Count(family + "_" + strings.SplitN(strings.TrimPrefix(e, "Some "), " ", 2)[0])
		if e == "None" {
			okN++
			fam[family] = true
		}
	}
	var feeAddr *Account
	ccN := 0
	giveAllowed := func(u *Account, tok string, amt int64) {
		ccN++
		id := "g" + strconv.Itoa(ccN)
		tr := &fpb.CCTransfer{Id: id, From: "VT", To: "TT", Token: tok, User: u.Addr, Amount: big.NewInt(amt).Bytes(), ForwardDirection: true}
		data, _ := json.Marshal(tr)
		msg := cw.robotTx("tt", "createCCTransferTo", string(data))
		s, g := cw.tokN(tok)
		term := fmt.Sprintf("UCC (OCreateTo %d (CC 2 1 %d %d %d %s true false) true)", cw.idN(id), s, g, u.N(), coqZi(amt))
		record("cc", term, msg, "None")
	}
	for _, u := range parties {
		giveAllowed(u, "VT", int64(200+rng.Intn(800)))
		if rng.Intn(2) == 0 {
			giveAllowed(u, "VT_G1", int64(1+rng.Intn(300)))
		}
	}
	// Half of the time the operation's transaction shares its batch with a second, successful transaction that writes
	// nothing (a script that only reads, signed by a bystander): whatever a rejected operation wrote before it failed
	// must not surface through its neighbour.
	bystander := w.NewAccount(fpb.KeyType_ed25519)
	tokRun := func(acc *Account, fn string, args ...string) string {
		if rng.Intn(2) == 0 {
			return tokenRun(w, "tt", acc, &cw.nonce, fn, args...)
		}
		cw.nonce++
		sub := w.Submit("tt", fn, w.SignedArgs("tt", fn, acc, strconv.FormatUint(cw.nonce, 10), args...))
		if !sub.OK() {
			return sub.Message
		}
		cw.nonce++
		nb := w.Submit("tt", "script", w.SignedArgs("tt", "script", bystander, strconv.FormatUint(cw.nonce, 10), "get,d0"))
		if !nb.OK() {
			return "BATCH FAILED: neighbour refused: " + nb.Message
		}
		out := w.ExecBatchIDs("tt", sub.TxID, nb.TxID)
		if out.Resp == nil || len(out.Resp.GetTxResponses()) != 2 {
			return "BATCH FAILED: " + out.Res.Message
		}
		if e := out.Resp.GetTxResponses()[1].GetError().GetError(); e != "" {
			return "BATCH FAILED: neighbour failed: " + e
		}
		c.Count("operation_with_neighbour_in_batch")
		return out.Resp.GetTxResponses()[0].GetError().GetError()
	}
	pick := func() *Account { return parties[rng.Intn(len(parties))] }
	swIDs := []string{"a1", "a2", "a3"}
	ccIDs := []string{"i1", "i2", "i3"}
	// a start: emissions
	for _, u := range parties {
		amt := big.NewInt(int64(500 + rng.Intn(5000)))
		msg := tokRun(w.Issuer, "emit", u.AddrString(), amt.String())
		record("tok", fmt.Sprintf("UTok (OEmit %d %d %s)", w.Issuer.N(), u.N(), coqZ(amt)), msg, "None")
	}
	for _, u := range []*Account{u1, u2} {
		for _, g := range []string{"G1", "G2"} {
			if rng.Intn(3) > 0 {
				amt := big.NewInt(int64(100 + rng.Intn(900)))
				msg := tokRun(w.Issuer, "emitG", u.AddrString(), amt.String(), g)
				record("tok", fmt.Sprintf("UEmitG %d %d %d %s", w.Issuer.N(), u.N(), cw.grpN[g], coqZ(amt)), msg, "None")
			}
		}
	}
	if rng.Intn(2) == 0 {
		// half of the histories start with a fee in force (own token, positive floor) and a fee address among the parties,
		// so that transfers pay fees - also transfers sent BY the fee address, whose fee moves from the sender to the sender
		share, floor, cp := int64([]int{0, 1000000, 50000000}[rng.Intn(3)]), int64(1+rng.Intn(19)), int64([]int{0, 1000}[rng.Intn(2)])
		msg := tokRun(w.FeeSet, "setFee", "TT", strconv.FormatInt(share, 10), strconv.FormatInt(floor, 10), strconv.FormatInt(cp, 10))
		record("tok", fmt.Sprintf("UTok (OSetFee %d %d %s %s %s)", w.FeeSet.N(), cw.chNum("TT"), coqZi(share), coqZi(floor), coqZi(cp)), msg, "None")
		fa := pick()
		feeAddr = fa
		msg = tokRun(w.FeeSet, "setFeeAddress", fa.AddrString())
		record("tok", fmt.Sprintf("UTok (OSetFeeAddr %d %d)", w.FeeSet.N(), fa.N()), msg, "None")
	}
	for k := 25 + rng.Intn(21); k > 0; k-- {
		if meta := w.TokenMeta("tt"); rng.Intn(4) == 0 && len(meta.GetRates()) == 0 && meta.GetFee() == nil && len(meta.GetFeeAddress()) == 0 && len(meta.GetTotalEmission()) > 0 {
			// a rate for a currency nobody uses is set and removed again while the token has no other rate, no fee and no fee
			// address: the recorded emission (kept in the same metadata record) is what it was. No step of the model.
			m1 := tokRun(w.Issuer, "setRate", "buyToken", "XX9", "5")
			m2 := tokRun(w.Issuer, "deleteRate", "buyToken", "XX9")
			c.Count("rate_set_and_deleted_on_a_bare_token: " + errClass(m1) + " / " + errClass(m2))
		}
		switch r := rng.Intn(100); {
		case r < 6: // emit
			s := w.Issuer
			if rng.Intn(6) == 0 {
				s = u1
			}
			to := pick()
			amt := edgeAmount(c, big.NewInt(1000))
			msg := tokRun(s, "emit", to.AddrString(), amt.String())
			record("tok", fmt.Sprintf("UTok (OEmit %d %d %s)", s.N(), to.N(), coqZ(amt)), msg, "None")
		case r < 12: // burn
			s := pick()
			amt := edgeAmount(c, cw.bal(balance.BalanceTypeToken, s, ""))
			msg := tokRun(s, "burn", amt.String())
			record("tok", fmt.Sprintf("UBurn %d %s", s.N(), coqZ(amt)), msg, "None")
		case r < 26: // transfer
			s, to := pick(), pick()
			if feeAddr != nil && rng.Intn(3) == 0 {
				s = feeAddr // the fee then moves from the sender to the sender
			}
			amt := edgeAmount(c, cw.bal(balance.BalanceTypeToken, s, ""))
			if rng.Intn(4) == 0 {
				// two transfers of one sender in ONE batch, the first mostly of the whole balance: the second must see what the
				// first left. The state between them is taken from a run of the batch cut after the first transaction, on a copy
				// of the ledger; the errors come from the full batch.
				if rng.Intn(3) > 0 {
					amt = cw.bal(balance.BalanceTypeToken, s, "")
				}
				to2 := pick()
				amt2 := big.NewInt(int64(1 + rng.Intn(50)))
				if rng.Intn(3) == 0 {
					amt2 = new(big.Int).Set(amt)
				}
				cw.nonce++
				s1 := w.Submit("tt", "transfer", w.SignedArgs("tt", "transfer", s, strconv.FormatUint(cw.nonce, 10), to.AddrString(), amt.String(), "ref"))
				cw.nonce++
				s2 := w.Submit("tt", "transfer", w.SignedArgs("tt", "transfer", s, strconv.FormatUint(cw.nonce, 10), to2.AddrString(), amt2.String(), "ref"))
				if s1.OK() && s2.OK() {
					chn := w.Peer.Channels["tt"]
					snap := stateSnapshot(chn)
					w.ExecBatchIDs("tt", s1.TxID)
					mid := cw.uObs()
					chn.State = map[string][]byte{}
					for k, v := range snap {
						chn.State[k] = []byte(v)
					}
					out := w.ExecBatchIDs("tt", s1.TxID, s2.TxID)
					m1, m2 := "BATCH FAILED: "+out.Res.Message, "BATCH FAILED: "+out.Res.Message
					if out.Resp != nil && len(out.Resp.GetTxResponses()) == 2 {
						m1, m2 = out.Resp.GetTxResponses()[0].GetError().GetError(), out.Resp.GetTxResponses()[1].GetError().GetError()
					}
					obsOverride = mid
					record("tok", fmt.Sprintf("UTok (OTransfer %d %d %s)", s.N(), to.N(), coqZ(amt)), m1, "None")
					record("tok", fmt.Sprintf("UTok (OTransfer %d %d %s)", s.N(), to2.N(), coqZ(amt2)), m2, "None")
					c.Count("transfer_pair_in_one_batch")
					continue
				}
			}
			msg := tokRun(s, "transfer", to.AddrString(), amt.String(), "ref")
			record("tok", fmt.Sprintf("UTok (OTransfer %d %d %s)", s.N(), to.N(), coqZ(amt)), msg, "None")
		case r < 31: // fee configuration
			if rng.Intn(2) == 0 {
				cur := []string{"TT", "VT"}[rng.Intn(2)]
				share, floor, cp := int64([]int{0, 1000000, 50000000, 100000000}[rng.Intn(4)]), int64(rng.Intn(20)), int64([]int{0, 10, 1000}[rng.Intn(3)])
				msg := tokRun(w.FeeSet, "setFee", cur, strconv.FormatInt(share, 10), strconv.FormatInt(floor, 10), strconv.FormatInt(cp, 10))
				record("tok", fmt.Sprintf("UTok (OSetFee %d %d %s %s %s)", w.FeeSet.N(), cw.chNum(cur), coqZi(share), coqZi(floor), coqZi(cp)), msg, "None")
			} else {
				fa := pick()
				feeAddr = fa
				msg := tokRun(w.FeeSet, "setFeeAddress", fa.AddrString())
				record("tok", fmt.Sprintf("UTok (OSetFeeAddr %d %d)", w.FeeSet.N(), fa.N()), msg, "None")
			}
		case r < 36: // rates and buy / buy-back in VT
			switch rng.Intn(3) {
			case 0:
				deal := []string{"buyToken", "buyBack"}[rng.Intn(2)]
				rate := int64(1 + rng.Intn(300000000))
				msg := tokRun(w.Issuer, "setRate", deal, "VT", strconv.FormatInt(rate, 10))
				record("tok", fmt.Sprintf("UTok (OSetRate %d %d 2 %s)", w.Issuer.N(), map[string]int{"buyToken": 0, "buyBack": 1}[deal], coqZi(rate)), msg, "None")
			case 1:
				s := pick()
				amt := edgeAmount(c, cw.bal(balance.BalanceTypeToken, w.Issuer, ""))
				msg := tokRun(s, "buyToken", amt.String(), "VT")
				record("tok", fmt.Sprintf("UTok (OBuy %d %s 2)", s.N(), coqZ(amt)), msg, "None")
			default:
				s := pick()
				amt := edgeAmount(c, cw.bal(balance.BalanceTypeToken, s, ""))
				msg := tokRun(s, "buyBack", amt.String(), "VT")
				record("tok", fmt.Sprintf("UTok (OBuyBack %d %s 2)", s.N(), coqZ(amt)), msg, "None")
			}
		case r < 48: // external locks
			famName := []string{"token", "allowed"}[rng.Intn(2)]
			unlock := rng.Intn(2) == 0
			id := 1 + rng.Intn(3)
			a := pick()
			tokS, tokNum := "TT", 1
			bk := balance.BalanceTypeToken
			if famName == "allowed" {
				tokS, tokNum, bk = "VT", 2, balance.BalanceTypeAllowed
			}
			cur := cw.bal(bk, a, map[string]string{"token": "", "allowed": "VT"}[famName])
			if unlock {
				lk := balance.BalanceTypeTokenLocked
				if famName == "allowed" {
					lk = balance.BalanceTypeAllowedLocked
				}
				cur = cw.bal(lk, a, map[string]string{"token": "", "allowed": "VT"}[famName])
			}
			if !unlock && cur.Cmp(big.NewInt(10)) > 0 && cur.IsInt64() && rng.Intn(3) == 0 {
				// two locks on one address, then an unlock of the first by more than it holds but no more than both hold
				// together: not funded by THAT lock
				famT := map[string]string{"token": "FTok", "allowed": "FAllowed"}[famName]
				a1, a2 := 1+rng.Int63n(cur.Int64()/3), 1+rng.Int63n(cur.Int64()/3)
				for k, st := range []struct {
					fn  string
					kd  string
					id  int
					amt int64
				}{{"lock", "LLock", 7, a1}, {"lock", "LLock", 8, a2}, {"unlock", "LUnlock", 7, a1 + 1 + rng.Int63n(a2)}} {
					fn := map[string]string{"locktoken": "lockTokenBalance", "lockallowed": "lockAllowedBalance", "unlocktoken": "unlockTokenBalance", "unlockallowed": "unlockAllowedBalance"}[st.fn+famName]
					req := &fpb.BalanceLockRequest{Id: "L" + strconv.Itoa(st.id), Address: a.AddrString(), Token: tokS, Amount: strconv.FormatInt(st.amt, 10), Reason: "r"}
					data, _ := json.Marshal(req)
					msg := tokRun(w.AdminAcc, fn, string(data))
					record("lock", fmt.Sprintf("ULock (%s %s %d %d %d %d %s)", st.kd, famT, w.AdminAcc.N(), st.id, a.N(), tokNum, coqZ(big.NewInt(st.amt))), msg, "None")
					_ = k
				}
				c.Count("unlock_beyond_its_lock_within_the_locked_total")
				break
			}
			amt := edgeAmount(c, cur)
			sender := w.AdminAcc
			if rng.Intn(8) == 0 {
				sender = u1
			}
			req := &fpb.BalanceLockRequest{Id: "L" + strconv.Itoa(id), Address: a.AddrString(), Token: tokS, Amount: amt.String(), Reason: "r"}
			data, _ := json.Marshal(req)
			fn := map[string]string{"token": "lockTokenBalance", "allowed": "lockAllowedBalance"}[famName]
			kind := "LLock"
			if unlock {
				fn = map[string]string{"token": "unlockTokenBalance", "allowed": "unlockAllowedBalance"}[famName]
				kind = "LUnlock"
			}
			msg := tokRun(sender, fn, string(data))
			record("lock", fmt.Sprintf("ULock (%s %s %d %d %d %d %s)", kind, map[string]string{"token": "FTok", "allowed": "FAllowed"}[famName], sender.N(), id, a.N(), tokNum, coqZ(amt)), msg, "None")
		case r < 62: // cross-channel transfer steps
			id := ccIDs[rng.Intn(len(ccIDs))]
			switch rng.Intn(6) {
			case 0, 1:
				u := []*Account{u1, u2}[rng.Intn(2)]
				tok := []string{"TT", "TT", "TT_G1", "VT", "VT_G1"}[rng.Intn(5)]
				s, g := cw.tokN(tok)
				var b *big.Int
				if s == 1 {
					b = cw.bal(balance.BalanceTypeToken, u, map[int]string{0: "", 1: "G1"}[g])
				} else {
					b = cw.bal(balance.BalanceTypeAllowed, u, tok)
				}
				amt := edgeAmount(c, b)
				msg := tokRun(u, "channelTransferByCustomer", id, "VT", tok, amt.String())
				record("cc", fmt.Sprintf("UCC (OFromCustomer %d %d 2 %d %d %s true)", u.N(), cw.idN(id), s, g, coqZ(amt)), msg, "None")
			case 2:
				msg := cw.robotTx("tt", "cancelCCTransferFrom", id)
				record("cc", fmt.Sprintf("UCC (OCancelFrom %d)", cw.idN(id)), msg, "None")
			case 3:
				msg := cw.robotNB("tt", "commitCCTransferFrom", id)
				record("cc", fmt.Sprintf("UCC (OCommitFrom %d)", cw.idN(id)), msg, "None")
			case 4:
				msg := cw.robotNB("tt", "deleteCCTransferFrom", id)
				record("cc", fmt.Sprintf("UCC (ODeleteFrom %d)", cw.idN(id)), msg, "None")
			default:
				// tokens of TT coming home from VT, or VT tokens arriving
				u := []*Account{u1, u2}[rng.Intn(2)]
				fwd := rng.Intn(2) == 0
				tok := "TT"
				if fwd {
					tok = "VT"
				}
				amt := big.NewInt(int64(rng.Intn(300)))
				if rng.Intn(5) == 0 {
					amt = edgeAmount(c, big.NewInt(100))
				}
				tr := &fpb.CCTransfer{Id: id, From: "VT", To: "TT", Token: tok, User: u.Addr, Amount: amt.Bytes(), ForwardDirection: fwd}
				data, _ := json.Marshal(tr)
				msg := cw.robotTx("tt", "createCCTransferTo", string(data))
				s, g := cw.tokN(tok)
				record("cc", fmt.Sprintf("UCC (OCreateTo %d (CC 2 1 %d %d %d %s %s false) true)", cw.idN(id), s, g, u.N(), coqZ(amt), coqBool(fwd)), msg, "None")
			}
		case r < 78: // swaps
			id := swIDs[rng.Intn(len(swIDs))]
			key := swKeys[rng.Intn(3)]
			if rec := cw.swapRec("tt", id); rec != nil && rng.Intn(4) > 0 {
				if n := swHashN(rec.GetHash()); n >= 11 && n < 11+len(swKeys) {
					key = swKeys[n-11]
				}
			}
			switch rng.Intn(6) {
			case 0, 1:
				u := []*Account{u1, u2}[rng.Intn(2)]
				tok := []string{"TT", "TT", "TT_G1", "VT", "TT_G1_G2"}[rng.Intn(5)]
				var b *big.Int
				s, g := cw.tokN3(tok)
				if s == 1 {
					b = cw.bal(balance.BalanceTypeToken, u, map[int]string{0: "", 1: "G1", 2: "G2"}[g])
				} else {
					b = cw.bal(balance.BalanceTypeAllowed, u, tok)
				}
				amt := edgeAmount(c, b)
				viaTask := rng.Intn(2) == 0
				// towards the other channel - or, now and then, towards the own one (accepted: such a swap has an origin record
				// only, which its owner can cancel but never complete)
				to := []string{"VT", "VT", "VT", "TT"}[rng.Intn(4)]
				msg, _ := cw.swBeginS("tt", u, id, tok, to, amt.String(), key, viaTask)
				record("swap", fmt.Sprintf("USwap (SBegin %d %d %d %d %d %s %d)", u.N(), cw.idN(id), s, g, cw.chNum(to), coqZ(amt), swKeyN(key)), msg, "None")
				if to == "TT" && msg == "" && rng.Intn(3) > 0 {
					// ... its owner tries, with the right key
					dmsg, ev := cw.swUserDone("tt", id, key)
					record("swap", fmt.Sprintf("USwap (SUserDone %d %d)", cw.idN(id), swKeyN(key)), dmsg, ev)
				}
			case 2:
				msg := cw.swCancel("tt", u1, id)
				record("swap", fmt.Sprintf("USwap (SCancel %d)", cw.idN(id)), msg, "None")
			case 3:
				// the robot's copy of a swap begun in VT: TT coming home (reverse there) or VT tokens arriving
				u := []*Account{u1, u2}[rng.Intn(2)]
				tok := []string{"TT", "VT"}[rng.Intn(2)]
				amt := big.NewInt(int64(rng.Intn(300)))
				if rng.Intn(6) == 0 {
					amt = edgeAmount(c, big.NewInt(0))
				}
				s := &fpb.Swap{Creator: u.Addr, Owner: u.Addr, Token: tok, Amount: amt.Bytes(), From: "VT", To: "TT", Hash: swHash(key), Timeout: 1}
				s.Id, _ = hex.DecodeString(id)
				term := fmt.Sprintf("USwap (SAnswer %d (%s))", cw.idN(id), cw.swapTerm(s))
				msg := cw.swAnswer("tt", s)
				record("swap", term, msg, "None")
				if msg == "" && rng.Intn(4) == 0 {
					// the platform cancels the answered copy (nothing is refunded here for a direct swap: the escrow is at the origin)
					cmsg := cw.swCancel("tt", []*Account{u1, u2}[rng.Intn(2)], id)
					record("swap", fmt.Sprintf("USwap (SCancel %d)", cw.idN(id)), cmsg, "None")
				}
			case 4:
				if rec := cw.swapRec("tt", id); rec != nil && string(rec.GetCreator()) == "0000" {
					continue // the robot closes only this channel's own swaps
				}
				msg := cw.swRobotDone("tt", id, key)
				record("swap", fmt.Sprintf("USwap (SRobotDone %d %d)", cw.idN(id), swKeyN(key)), msg, "None")
			default:
				msg, ev := cw.swUserDone("tt", id, key)
				record("swap", fmt.Sprintf("USwap (SUserDone %d %d)", cw.idN(id), swKeyN(key)), msg, ev)
				if msg == "" {
					msg, ev = cw.swUserDone("tt", id, key)
					record("swap", fmt.Sprintf("USwap (SUserDone %d %d)", cw.idN(id), swKeyN(key)), msg, ev)
				}
			}
		case r < 92: // multi-swaps
			id := swIDs[rng.Intn(len(swIDs))]
			key := swKeys[rng.Intn(3)]
			rec := cw.mswapRec("tt", id)
			if rec != nil && rng.Intn(4) > 0 {
				if n := swHashN(rec.GetHash()); n >= 11 && n < 11+len(swKeys) {
					key = swKeys[n-11]
				}
			}
			if rng.Intn(3) == 0 {
				w.Peer.Now += []int64{1, 100, 10800}[rng.Intn(3)]
			}
			switch rng.Intn(6) {
			case 0, 1:
				b := cw.msRandBegin(c, "tt", swIDs, true)
				for i := range b.assets {
					if rng.Intn(10) < 6 {
						b.assets[i].group = b.tok // the plain (ungrouped) balance
					} else if b.tok == "TT" && rng.Intn(3) == 0 {
						b.assets[i].group = "TT_G1_G2" // a three-part ticker: the group is the last part
					}
				}
				for i := range b.assets {
					var cur *big.Int
					s, g := cw.tokN3(b.assets[i].group)
					if s == 1 {
						cur = cw.bal(balance.BalanceTypeToken, cw.users[b.u], map[int]string{0: "", 1: "G1", 2: "G2"}[g])
					} else {
						cur = cw.bal(balance.BalanceTypeAllowed, cw.users[b.u], b.assets[i].group)
					}
					if e := edgeAmount(c, cur); e.IsInt64() && rng.Intn(2) == 0 {
						b.assets[i].amt = e.Int64()
					}
				}
				msg, _ := cw.msBegin("tt", cw.users[b.u], b.id, b.tok, b.assets, b.to, b.key, b.viaTask)
				record("mswap", fmt.Sprintf("UMSwap (MBegin %s %s)", coqZi(w.Peer.Now), cw.msBeginTerm(b)), msg, "None")
			case 2:
				u := []*Account{u1, u2}[rng.Intn(2)]
				if rec != nil && rng.Intn(4) > 0 {
					if a, ok := cw.accN[cw.addrN(rec.GetCreator())]; ok {
						u = a
					}
					if rng.Intn(3) > 0 {
						w.Peer.Now = rec.GetTimeout() + int64(rng.Intn(3)) - 1
					}
				}
				msg := cw.msCancel("tt", u, id)
				record("mswap", fmt.Sprintf("UMSwap (MCancel %s %d %d)", coqZi(w.Peer.Now), u.N(), cw.idN(id)), msg, "None")
			case 3:
				u := []*Account{u1, u2}[rng.Intn(2)]
				tok := []string{"TT", "VT"}[rng.Intn(2)]
				s := &fpb.MultiSwap{Creator: u.Addr, Owner: u.Addr, Token: tok, From: "VT", To: "TT", Hash: swHash(key), Timeout: 1}
				for i := 1 + rng.Intn(3); i > 0; i-- {
					s.Assets = append(s.Assets, &fpb.Asset{Group: tok + "_" + []string{"G1", "G2"}[rng.Intn(2)], Amount: big.NewInt(int64(rng.Intn(150))).Bytes()})
				}
				s.Id, _ = hex.DecodeString(id)
				term := fmt.Sprintf("UMSwap (MAnswer %s %d (%s))", coqZi(w.Peer.Now), cw.idN(id), cw.mswapTerm(s))
				msg := cw.msAnswer("tt", s)
				record("mswap", term, msg, "None")
			case 4:
				if rec != nil && string(rec.GetCreator()) == "0000" {
					continue
				}
				msg := cw.msRobotDone("tt", id, key)
				record("mswap", fmt.Sprintf("UMSwap (MRobotDone %d %d)", cw.idN(id), swKeyN(key)), msg, "None")
			default:
				msg, ev := cw.msUserDone("tt", id, key)
				record("mswap", fmt.Sprintf("UMSwap (MUserDone %d %d)", cw.idN(id), swKeyN(key)), msg, ev)
				if msg == "" { // the key is public now: a second completion must find nothing
					msg, ev = cw.msUserDone("tt", id, key)
					record("mswap", fmt.Sprintf("UMSwap (MUserDone %d %d)", cw.idN(id), swKeyN(key)), msg, ev)
				}
			}
		default: // forced transfer by the admin
			from, to := pick(), pick()
			grp := []string{"", "", "G1"}[rng.Intn(3)]
			kind := fpb.BalanceType_BALANCE_TYPE_TOKEN
			if rng.Intn(8) == 0 {
				kind = fpb.BalanceType_BALANCE_TYPE_TOKEN_EXTERNAL_LOCKED
			}
			amt := edgeAmount(c, cw.bal(balance.BalanceTypeToken, from, grp))
			sender := w.AdminAcc
			if rng.Intn(8) == 0 {
				sender = u2
			}
			req := &fpb.TransferRequest{Basis: fpb.TransferBasis_TRANSFER_BASIS_INHERITANCE, AdministratorId: sender.AddrString(),
				DocumentType: fpb.DocumentType_DOCUMENT_TYPE_INHERITANCE, DocumentNumber: "1", DocumentDate: timestamppb.New(time.Unix(1700000000, 0)), DocumentHashes: []string{"h1"},
				RequestId: "r" + strconv.Itoa(k), FromAddress: from.AddrString(), ToAddress: to.AddrString(), Token: grp, Amount: amt.String(), Reason: "x", BalanceType: kind}
			data, _ := json.Marshal(req)
			msg := tokRun(sender, "transferBalance", string(data))
			record("force", fmt.Sprintf("UForce %d %d %d %d %d %s", sender.N(), int(kind), from.N(), to.N(), cw.grpN[grp], coqZ(amt)), msg, "None")
		}
	}
	// at the end everything this channel's users have in escrow is cancelled (refunds on every path)
	w.Peer.Now += 10800
	for _, id := range swIDs {
		if rec := cw.swapRec("tt", id); rec != nil && string(rec.GetCreator()) != "0000" {
			msg := cw.swCancel("tt", u1, id)
			record("swap", fmt.Sprintf("USwap (SCancel %d)", cw.idN(id)), msg, "None")
		}
		if rec := cw.mswapRec("tt", id); rec != nil && string(rec.GetCreator()) != "0000" {
			if a, ok := cw.accN[cw.addrN(rec.GetCreator())]; ok {
				msg := cw.msCancel("tt", a, id)
				record("mswap", fmt.Sprintf("UMSwap (MCancel %s %d %d)", coqZi(w.Peer.Now), a.N(), cw.idN(id)), msg, "None")
			}
		}
	}
	term := fmt.Sprintf("UCase 1 %d %d %d %d %s %s %s", w.AdminAcc.N(), w.Issuer.N(), w.FeeSet.N(), w.FeeSet.N(), coqList(uids), coqList(ops), coqList(steps))
	c.Emit(term, map[string]interface{}{"ops": ops}, len(fam) >= 4 && okN >= 8)
	c.CountN("successful_steps", okN)
	return nil
}

// three-part tickers: the group is the last part (as the library splits them)
func (cw *ccWorld) tokN3(tok string) (int, int) {
	parts := strings.Split(tok, "_")
	s, ok := cw.chN[strings.ToUpper(parts[0])]
	if !ok {
		s = 9
	}
	if len(parts) == 1 {
		return s, 0
	}
	return s, cw.grpN[parts[len(parts)-1]]
}

// swBeginS is swBegin with an arbitrary-size amount
func (cw *ccWorld) swBeginS(ch string, u *Account, id, tok, to, amt, key string, viaTask bool) (string, []*fpb.Swap) {
	cw.nonce++
	req := cw.w.SignedArgs(ch, "swapBegin", u, strconv.FormatUint(cw.nonce, 10), tok, to, amt, hex.EncodeToString(swHash(key)))
	if viaTask {
		out := cw.w.ExecTasks(ch, cw.w.Robot.Creator, []*fpb.Task{{Id: id, Method: "swapBegin", Args: req}})
		if out.Resp == nil || len(out.Resp.GetTxResponses()) != 1 {
			return "TASKS FAILED: " + out.Res.Message, nil
		}
		return out.Resp.GetTxResponses()[0].GetError().GetError(), nil
	}
	sub := cw.w.Peer.InvokeTx(ch, id, cw.w.Client.Creator, "swapBegin", req...)
	if !sub.OK() {
		return sub.Message, nil
	}
	out := cw.w.ExecBatchIDs(ch, sub.TxID)
	if out.Resp == nil || len(out.Resp.GetTxResponses()) != 1 {
		return "BATCH FAILED: " + out.Res.Message, nil
	}
	return out.Resp.GetTxResponses()[0].GetError().GetError(), out.Resp.GetCreatedSwaps()
}

func init() { props["C06"] = genC06 }
