package main

import (
	"encoding/json"
	"fmt"
	"math/big"
	"sort"
	"strconv"
	"strings"

	"github.com/anoideaopen/foundation/core/balance"
	fpb "github.com/anoideaopen/foundation/proto"
)

func c13Err(msg string) string {
	m := strings.ToLower(msg)
	switch {
	case msg == "":
		return "None"
	case strings.Contains(m, "lock already exist"):
		return "Some EExists"
	case strings.Contains(m, "lock not exists"):
		return "Some ENotFound"
	case strings.Contains(m, "insufficient balance"):
		return "Some EInsufficient"
	case strings.Contains(m, "not an admin"), strings.Contains(m, "unauthorised"):
		return "Some EUnauthorized"
	case strings.Contains(m, "must be non-negative"):
		return "Some ENegative"
	case strings.Contains(m, "amount must be positive"):
		return "Some EZeroAmount"
	case strings.Contains(m, "big int from string"), strings.Contains(m, "token ticker required"), strings.Contains(m, "empty lock id"), strings.Contains(m, "amount required"):
		return "Some EBadArg"
	}
	return "Some EOther (* " + strings.ReplaceAll(msg, "*", "x") + " *)"
}

type c13Op struct {
	Unlock bool   `json:"unlock"`
	Fam    string `json:"fam"` // token | allowed
	Sender int    `json:"sender"`
	ID     int    `json:"id"`
	Addr   int    `json:"addr"`
	Tok    int    `json:"tok"`
	Amt    string `json:"amt"`
}

var c13Toks = []string{"", "TT", "CURA", "CURB", "CU_RB", "RB"} // "CU_RB" and "RB" are two different allowed tokens

func c13Records(w *World, in *Interner, prefix string) string {
	type rec struct {
		id                     int
		addr, tok              int
		initAmount, currentAmt string
	}
	var rs []rec
	for k, v := range w.Peer.Channels["tt"].State {
		ot, attrs, ok := splitComposite(k)
		if !ok || ot != prefix || len(attrs) != 1 || len(v) == 0 || v[0] != '{' {
			continue
		}
		var l fpb.TokenBalanceLock
		if err := json.Unmarshal(v, &l); err != nil {
			panic(err)
		}
		id := c13IDNum(l.GetId())
		rs = append(rs, rec{id, in.Addr(l.GetAddress()), in.Token(l.GetToken()), l.GetInitAmount(), l.GetCurrentAmount()})
	}
	sort.Slice(rs, func(i, j int) bool { return rs[i].id < rs[j].id })
	items := make([]string, len(rs))
	for i, r := range rs {
		// the record keeps the request's spelling of the amount ("0450", "+450"): compare values
		norm := func(x string) string {
			if z, ok := new(big.Int).SetString(x, 10); ok {
				return z.String()
			}
			return x
		}
		items[i] = fmt.Sprintf("(%d, %d, %d, (%s)%%Z, (%s)%%Z)", r.id, r.addr, r.tok, norm(r.initAmount), norm(r.currentAmt))
	}
	return coqList(items)
}

func c13Case(c *Ctx) error {
	rng := c.Rng
	w := NewWorld()
	if _, err := w.AddToken("TT", ChanOpts{}); err != nil {
		return err
	}
	users := []*Account{w.NewAccount(fpb.KeyType_ed25519), w.NewAccount(fpb.KeyType_ed25519), w.NewAccount(fpb.KeyType_ed25519)}
	in := w.Interner()
	for i, t := range c13Toks {
		in.token[t] = i
	}
	accs := map[int]*Account{}
	for _, a := range w.Accounts {
		accs[a.N()] = a
	}
	for _, u := range users {
		if rng.Intn(5) > 0 {
			w.SetBalance("tt", balance.BalanceTypeToken, u.AddrString(), "", big.NewInt(int64(rng.Intn(300))))
		}
		for _, cur := range []string{"CURA", "CURB", "CU_RB", "RB"} {
			if rng.Intn(3) > 0 {
				w.SetBalance("tt", balance.BalanceTypeAllowed, u.AddrString(), cur, big.NewInt(int64(rng.Intn(300))))
			}
		}
	}
	// one history in three has an address with a balance beyond 2^64 and a lock on it that is unlocked in steps which
	// leave exact multiples of 2^64
	whaleStage := -1
	if rng.Intn(3) == 0 {
		whaleStage = 0
		w.SetBalance("tt", balance.BalanceTypeToken, users[0].AddrString(), "", new(big.Int).Lsh(big.NewInt(1), 70))
		c.Count("history_with_amounts_beyond_2^64")
	}
	init := w.Balances("tt", in)
	nonce := uint64(1700000000000)
	n := 12 + rng.Intn(19)
	foreign := rng.Intn(8) == 0 // a few histories outside the quantifier: unlock naming another address
	type lk struct {
		fam       string
		addr, tok int
		cur       int64
	}
	known := map[int]*lk{}
	var ops []string
	var steps []string
	var jops []interface{}
	nextID := 1
	success := 0
	for k := 0; k < n; k++ {
		o := c13Op{Sender: w.AdminAcc.N(), Fam: []string{"token", "allowed"}[rng.Intn(2)]}
		if rng.Intn(12) == 0 {
			o.Sender = []*Account{w.Issuer, users[0]}[rng.Intn(2)].N()
		}
		var ids []int
		for id := range known {
			ids = append(ids, id)
		}
		sort.Ints(ids)
		if len(ids) > 0 && rng.Intn(100) < 55 {
			o.Unlock = true
			o.ID = ids[rng.Intn(len(ids))]
			l := known[o.ID]
			o.Fam, o.Addr, o.Tok = l.fam, l.addr, l.tok
			if rng.Intn(15) == 0 {
				o.Fam = map[string]string{"token": "allowed", "allowed": "token"}[o.Fam]
			}
			if rng.Intn(4) == 0 {
				o.Tok = 1 + rng.Intn(3) // the request may carry another ticker; the lock's own token counts
			}
			if foreign && rng.Intn(3) == 0 {
				o.Addr = users[rng.Intn(len(users))].N()
			}
			switch x := rng.Intn(10); {
			case x < 3:
				o.Amt = strconv.FormatInt(l.cur, 10)
			case x < 4:
				o.Amt = strconv.FormatInt(l.cur+1, 10)
			case x < 5:
				o.Amt = strconv.FormatInt(l.cur-1, 10)
			case x < 6:
				o.Amt = "0"
			case x < 7:
				o.Amt = []string{"-1", "abc", "1e3"}[rng.Intn(3)]
			default:
				o.Amt = strconv.FormatInt(int64(rng.Intn(int(l.cur)+2)), 10)
			}
			if rng.Intn(20) == 0 {
				o.ID = 90 + rng.Intn(3) // unknown lock
			}
		} else {
			o.ID = nextID
			nextID++
			if len(ids) > 0 && rng.Intn(8) == 0 {
				o.ID = ids[rng.Intn(len(ids))] // duplicate id
			}
			o.Addr = users[rng.Intn(len(users))].N()
			o.Tok = 1
			if o.Fam == "allowed" {
				o.Tok = 2 + rng.Intn(4)
			}
			if rng.Intn(25) == 0 {
				o.Tok = 0
			}
			var bal int64
			for _, b := range w.Balances("tt", in) {
				if b.Addr == o.Addr && ((o.Fam == "token" && b.Kind == 43) || (o.Fam == "allowed" && b.Kind == 44 && b.Token == o.Tok)) {
					bal = b.Amount.Int64()
					if !b.Amount.IsInt64() || bal > 1<<40 {
						bal = 250 // an address with a balance beyond 2^64: the random requests stay small
					}
				}
			}
			switch x := rng.Intn(10); {
			case x < 2:
				o.Amt = strconv.FormatInt(bal, 10)
			case x < 3:
				o.Amt = strconv.FormatInt(bal+1, 10)
			case x < 4:
				o.Amt = "0"
			case x < 5:
				o.Amt = []string{"-3", "x1", ""}[rng.Intn(3)]
			default:
				o.Amt = strconv.FormatInt(int64(rng.Intn(int(bal)+2)), 10)
			}
		}
		whaleOp := false
		if whaleStage >= 0 && whaleStage < 4 && rng.Intn(3) == 0 {
			two64 := new(big.Int).Lsh(big.NewInt(1), 64)
			amt := []*big.Int{new(big.Int).Add(new(big.Int).Lsh(big.NewInt(1), 65), big.NewInt(7)), big.NewInt(7), two64, two64}[whaleStage]
			o = c13Op{Unlock: whaleStage > 0, Fam: "token", Sender: w.AdminAcc.N(), ID: 390, Addr: users[0].N(), Tok: 1, Amt: amt.String()}
			whaleStage++
			whaleOp = true
		}
		reqOf := func(o c13Op) (string, string) {
			req := &fpb.BalanceLockRequest{Id: c13IDStr(o.ID), Address: accs[o.Addr].AddrString(), Token: c13Toks[o.Tok], Amount: o.Amt, Reason: "r"}
			data, _ := json.Marshal(req)
			fn := map[string]string{"token": "lockTokenBalance", "allowed": "lockAllowedBalance"}[o.Fam]
			if o.Unlock {
				fn = map[string]string{"token": "unlockTokenBalance", "allowed": "unlockAllowedBalance"}[o.Fam]
			}
			return fn, string(data)
		}
		obsNow := func() string {
			return fmt.Sprintf("%s %s %s", coqBals(w.Balances("tt", in)), c13Records(w, in, "32"), c13Records(w, in, "31"))
		}
		// what one request did: appended to the history with the observation after it
		record := func(o c13Op, msg string, obs string) error {
			e := c13Err(msg)
			amtZ, okAmt := new(big.Int).SetString(o.Amt, 10)
			if !okAmt {
				// not a number: the model sees it as a bad argument; encode as amount 0 and skip
				// the case-specific amount (the error class must be EBadArg when it is reached)
				amtZ = big.NewInt(0)
			}
			famT := map[string]string{"token": "FTok", "allowed": "FAllowed"}[o.Fam]
			kind := "LLock"
			if o.Unlock {
				kind = "LUnlock"
			}
			if !okAmt {
				// keep non-numeric amounts out of the model's op list: the request is observed only
				// through its (required) rejection; it must leave the state unchanged
				if e == "None" {
					return fmt.Errorf("non-numeric amount %q accepted", o.Amt)
				}
				c.Count("nonnumeric_rejected")
				return nil
			}
			ops = append(ops, fmt.Sprintf("%s %s %d %d %d %d %s", kind, famT, o.Sender, o.ID, o.Addr, o.Tok, coqZ(amtZ)))
			steps = append(steps, fmt.Sprintf("mkObs (%s) %s", e, obs))
			jops = append(jops, map[string]interface{}{"op": o, "error": msg})
			c.Count(kind + "_" + strings.SplitN(strings.TrimPrefix(e, "Some "), " ", 2)[0])
			if e == "None" {
				success++
				if o.Unlock {
					if l := known[o.ID]; l != nil {
						l.cur -= amtZ.Int64()
						if l.cur <= 0 {
							delete(known, o.ID)
						}
					}
				} else {
					known[o.ID] = &lk{o.Fam, o.Addr, o.Tok, amtZ.Int64()}
				}
			}

			return nil
		}
		if whaleOp {
			fn, data := reqOf(o)
			msg := tokenRun(w, "tt", accs[o.Sender], &nonce, fn, data)
			if err := record(o, msg, obsNow()); err != nil {
				return err
			}
			delete(known, o.ID) // the random requests below work with small amounts
			continue
		}
		// a spelling of the same number that is not the canonical one ("0450", "+450")
		if z, ok := new(big.Int).SetString(o.Amt, 10); ok && z.Sign() >= 0 && !strings.HasPrefix(o.Amt, "-") && rng.Intn(5) == 0 {
			o.Amt = []string{"0", "+", "00"}[rng.Intn(3)] + o.Amt
			c.Count("noncanonical_amount")
		}
		if l := known[o.ID]; o.Unlock && l != nil && l.cur >= 2 && o.Sender == w.AdminAcc.N() && rng.Intn(4) == 0 {
			// two unlocks of one lock in ONE executeTasks request (mostly: a part, then the rest). The state between
			// them is not observable: it is taken from a run of the list cut after the first task, on a copy of the ledger.
			a := 1 + rng.Int63n(l.cur-1)
			o1, o2 := o, o
			o1.Fam, o1.Addr, o1.Tok = l.fam, l.addr, l.tok
			o2.Fam, o2.Addr, o2.Tok = l.fam, l.addr, l.tok
			o1.Amt = strconv.FormatInt(a, 10)
			o2.Amt = strconv.FormatInt(l.cur-a+int64([]int{0, 0, 0, 1, -1}[rng.Intn(5)]), 10)
			var tasks []*fpb.Task
			for _, x := range []c13Op{o1, o2} {
				fn, data := reqOf(x)
				nonce++
				tasks = append(tasks, &fpb.Task{Id: w.Peer.NextTxID(), Method: fn, Args: w.SignedArgs("tt", fn, accs[x.Sender], strconv.FormatUint(nonce, 10), data)})
			}
			chn := w.Peer.Channels["tt"]
			snap := stateSnapshot(chn)
			w.ExecTasks("tt", w.Robot.Creator, tasks[:1])
			mid := obsNow()
			chn.State = map[string][]byte{}
			for k, v := range snap {
				chn.State[k] = []byte(v)
			}
			out := w.ExecTasks("tt", w.Robot.Creator, tasks)
			m1, m2 := "TASKS FAILED: "+out.Res.Message, "TASKS FAILED: "+out.Res.Message
			if out.Resp != nil && len(out.Resp.GetTxResponses()) == 2 {
				m1, m2 = out.Resp.GetTxResponses()[0].GetError().GetError(), out.Resp.GetTxResponses()[1].GetError().GetError()
			}
			if err := record(o1, m1, mid); err != nil {
				return err
			}
			if err := record(o2, m2, obsNow()); err != nil {
				return err
			}
			c.Count("unlock_pair_in_one_request")
			continue
		}
		if !o.Unlock && o.Sender == w.AdminAcc.N() && rng.Intn(6) == 0 {
			// ONE request (a task list or a batch) of two: a lock under an id that cannot become a ledger key (it holds
			// U+0000 or U+10FFFF) - refused after the library has begun to move the balance -, then the operation at hand.
			// The refused one is no step of the model's history: it must be refused and leave nothing to its neighbour.
			bad := &fpb.BalanceLockRequest{Id: []string{"x\x00y", "\U0010FFFF", "L1\x00"}[rng.Intn(3)], Address: accs[o.Addr].AddrString(), Token: c13Toks[o.Tok], Amount: "1", Reason: "r"}
			if bal := new(big.Int); true {
				for _, b := range w.Balances("tt", in) {
					if b.Addr == o.Addr && ((o.Fam == "token" && b.Kind == int(balance.BalanceTypeToken)) || (o.Fam == "allowed" && b.Kind == int(balance.BalanceTypeAllowed) && b.Token == o.Tok)) {
						bal = b.Amount
					}
				}
				if bal.Sign() > 0 && rng.Intn(3) == 0 {
					bad.Amount = bal.String() // the whole spendable balance (else one unit, so that the neighbour still finds funds)
				}
			}
			badRaw, _ := json.Marshal(bad)
			fn, data := reqOf(o)
			var m1, m2 string
			if rng.Intn(2) == 0 {
				var tasks []*fpb.Task
				for _, d := range []string{string(badRaw), data} {
					nonce++
					tasks = append(tasks, &fpb.Task{Id: w.Peer.NextTxID(), Method: fn, Args: w.SignedArgs("tt", fn, accs[o.Sender], strconv.FormatUint(nonce, 10), d)})
				}
				out := w.ExecTasks("tt", w.Robot.Creator, tasks)
				m1, m2 = "TASKS FAILED: "+out.Res.Message, "TASKS FAILED: "+out.Res.Message
				if out.Resp != nil && len(out.Resp.GetTxResponses()) == 2 {
					m1, m2 = out.Resp.GetTxResponses()[0].GetError().GetError(), out.Resp.GetTxResponses()[1].GetError().GetError()
				}
			} else {
				var ids []string
				for _, d := range []string{string(badRaw), data} {
					nonce++
					sub := w.Submit("tt", fn, w.SignedArgs("tt", fn, accs[o.Sender], strconv.FormatUint(nonce, 10), d))
					if sub.OK() {
						ids = append(ids, sub.TxID)
					} else if len(ids) == 0 {
						m1 = sub.Message
					} else {
						m2 = sub.Message
					}
				}
				if len(ids) > 0 {
					out := w.ExecBatchIDs("tt", ids...)
					if out.Resp == nil || len(out.Resp.GetTxResponses()) != len(ids) {
						return fmt.Errorf("c13: batch failed: %s", out.Res.Message)
					}
					k := 0
					if m1 == "" {
						m1 = out.Resp.GetTxResponses()[k].GetError().GetError()
						k++
					}
					if m2 == "" && k < len(ids) {
						m2 = out.Resp.GetTxResponses()[k].GetError().GetError()
					}
				}
			}
			if m1 == "" {
				return fmt.Errorf("c13: a lock under an id that cannot be a key was accepted")
			}
			c.Count("lock_after_refused_neighbour_in_one_request")
			if err := record(o, m2, obsNow()); err != nil {
				return err
			}
			continue
		}
		fn, data := reqOf(o)
		if !o.Unlock && rng.Intn(5) == 0 {
			// a lock request WITHOUT an id, sent as a task: the id then defaults to the transaction id, which on this route
			// is the task id the submitter chose - here the id the request would otherwise have carried (often one in use)
			req := &fpb.BalanceLockRequest{Address: accs[o.Addr].AddrString(), Token: c13Toks[o.Tok], Amount: o.Amt, Reason: "r"}
			raw, _ := json.Marshal(req)
			nonce++
			tasks := []*fpb.Task{{Id: c13IDStr(o.ID), Method: fn, Args: w.SignedArgs("tt", fn, accs[o.Sender], strconv.FormatUint(nonce, 10), string(raw))}}
			out := w.ExecTasks("tt", w.Robot.Creator, tasks)
			msg := "TASKS FAILED: " + out.Res.Message
			if out.Resp != nil && len(out.Resp.GetTxResponses()) == 1 {
				msg = out.Resp.GetTxResponses()[0].GetError().GetError()
			}
			c.Count("lock_with_default_id_as_task")
			if err := record(o, msg, obsNow()); err != nil {
				return err
			}
			continue
		}
		msg := tokenRun(w, "tt", accs[o.Sender], &nonce, fn, data)
		if err := record(o, msg, obsNow()); err != nil {
			return err
		}
	}
	term := fmt.Sprintf("mkCase %d %s %s %s", w.AdminAcc.N(), coqBals(init), coqList(ops), coqList(steps))
	c.Emit(term, map[string]interface{}{"steps": jops, "foreign_address_unlocks": foreign}, success >= 3)
	if foreign {
		c.Count("history_with_foreign_unlock")
	}
	return nil
}

// c13IDStr: the lock id of number n. Numbers 2k and 2k+1 are spelled alike except for white space at an end ("L7" and
// "L7 ", "L7\n", "\tL7"): different ids, which no step of the library may confuse.
func c13IDStr(n int) string {
	s := "L" + strconv.Itoa(n/2)
	if n%2 == 1 {
		switch (n / 2) % 4 {
		case 0:
			s += " "
		case 1:
			s += "\n"
		case 2:
			s = "\t" + s
		default:
			s = " " + s + " "
		}
	}
	return s
}

// c13IDNum: the number of a lock id as c13IDStr spells it (0: none of them).
func c13IDNum(s string) int {
	for n := 0; n < 400; n++ {
		if c13IDStr(n) == s {
			return n
		}
	}
	return 0
}

func genC13(c *Ctx) error {
	c.ShardSize = 12
	c.Notes["rule"] = "each case: fresh chaincode, 3 addresses funded with token and allowed balances; 12-30 signed lock/unlock requests by the admin (sometimes by others) through real batches: one history in three with a lock beyond 2^64 unlocked in steps that leave exact multiples of 2^64; new ids (every second one differs from its neighbour only by white space at an end), duplicate ids, unknown ids, amounts 0, cur-1, cur, cur+1, balance, balance+1, negative and non-numeric, amounts spelled with leading zeros or a plus sign, wrong family, missing token; lock requests without an id sent as tasks whose task id (the default lock id on that route) is a chosen, often used, id; a lock that follows, in ONE task list or batch, a lock under an id that cannot become a ledger key (refused after the balance move has begun); two unlocks of one lock (a part, then the rest or one more / less) in ONE executeTasks request, the state between them taken from a run of the list cut after the first task on a copy of the ledger; 1 in 8 histories also unlock naming a foreign address (outside the property's quantifier; only correspondence is checked). Observed after every request: error class, all balances, all lock records. Non-trivial: >= 3 successful requests."
	n := c.N(150, 3000)
	for i := 0; i < n; i++ {
		if err := c13Case(c); err != nil {
			return err
		}
	}
	return nil
}

func init() { props["C13"] = genC13 }
