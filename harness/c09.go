package main

import (
	"encoding/hex"
	"encoding/json"
	"fmt"
	"math/big"
	"sort"
	"strconv"
	"strings"

	"github.com/anoideaopen/foundation/core/balance"
	"github.com/anoideaopen/foundation/core/types"
	fpb "github.com/anoideaopen/foundation/proto"
	"github.com/golang/protobuf/proto" //nolint:staticcheck
)

func msErr(msg string) string {
	m := strings.ToLower(msg)
	switch {
	case msg == "":
		return "None"
	case strings.HasPrefix(msg, "BATCH FAILED"), strings.HasPrefix(msg, "TASKS FAILED"):
		return "Some EPanic" // not a rejection of this step: the whole batch / task list failed
	case strings.Contains(m, "insufficient"):
		return "Some EInsufficient"
	case strings.Contains(m, "multiswap already exists"):
		return "Some EExists"
	case strings.Contains(m, "swap doesn't exist"):
		return "Some ENotFound"
	case strings.Contains(m, "incorrect key"):
		return "Some EBadKey"
	case strings.Contains(m, "incorrect swap"), strings.Contains(m, "assets can't be empty"):
		return "Some EBadArg"
	case strings.Contains(m, "unauthorized"):
		return "Some EUnauthorized"
	case strings.Contains(m, "wait for timeout"):
		return "Some ETimeout"
	case strings.Contains(m, "should be positive"), strings.Contains(m, "negative"):
		return "Some ENegative"
	}
	return "Some EOther (* " + strings.ReplaceAll(msg, "*", "x") + " *)"
}

type msAsset struct {
	group string
	amt   int64
}

func (cw *ccWorld) assetsTerm(l []*fpb.Asset) string {
	var items []string
	for _, a := range l {
		s, g := cw.tokN3(a.GetGroup())
		items = append(items, fmt.Sprintf("AS %d %d %s", s, g, coqZ(new(big.Int).SetBytes(a.GetAmount()))))
	}
	return coqList(items)
}

func (cw *ccWorld) msAssetsTerm(l []msAsset) string {
	var items []string
	for _, a := range l {
		s, g := cw.tokN3(a.group)
		items = append(items, fmt.Sprintf("AS %d %d %s", s, g, coqZi(a.amt)))
	}
	return coqList(items)
}

func (cw *ccWorld) mswapTerm(s *fpb.MultiSwap) string {
	return fmt.Sprintf("MW %d %d %d %s %d %d %d %s", cw.addrN(s.GetCreator()), cw.addrN(s.GetOwner()), cw.chNum(s.GetToken()), cw.assetsTerm(s.GetAssets()),
		cw.chNum(s.GetFrom()), cw.chNum(s.GetTo()), swHashN(s.GetHash()), coqZi(s.GetTimeout()))
}

func (cw *ccWorld) mswapRec(ch, id string) *fpb.MultiSwap {
	data, ok := cw.w.Peer.Channels[ch].State["\x00multi_swap\x00"+id+"\x00"]
	if !ok {
		return nil
	}
	var s fpb.MultiSwap
	if err := proto.Unmarshal(data, &s); err != nil {
		return nil
	}
	return &s
}

func (cw *ccWorld) msObs(ch string) string {
	var keys []string
	for k := range cw.w.Peer.Channels[ch].State {
		if ot, attrs, ok := splitComposite(k); ok && ot == "multi_swap" && len(attrs) == 1 {
			keys = append(keys, attrs[0])
		}
	}
	sort.Strings(keys)
	var items []string
	for _, id := range keys {
		if s := cw.mswapRec(ch, id); s != nil {
			items = append(items, fmt.Sprintf("(%d, %s)", cw.idN(id), cw.mswapTerm(s)))
		}
	}
	return fmt.Sprintf("(MObs %s %s)", cw.balTerm(ch), coqList(items))
}

func (cw *ccWorld) msBegin(ch string, u *Account, id, tok string, assets []msAsset, to, key string, viaTask bool) (string, []*fpb.MultiSwap) {
	cw.nonce++
	in := types.MultiSwapAssets{}
	for _, a := range assets {
		in.Assets = append(in.Assets, &types.MultiSwapAsset{Group: a.group, Amount: strconv.FormatInt(a.amt, 10)})
	}
	if in.Assets == nil {
		in.Assets = []*types.MultiSwapAsset{}
	}
	js, _ := json.Marshal(in)
	req := cw.w.SignedArgs(ch, "multiSwapBegin", u, strconv.FormatUint(cw.nonce, 10), tok, string(js), to, hex.EncodeToString(swHash(key)))
	if viaTask {
		out := cw.w.ExecTasks(ch, cw.w.Robot.Creator, []*fpb.Task{{Id: id, Method: "multiSwapBegin", Args: req}})
		if out.Resp == nil || len(out.Resp.GetTxResponses()) != 1 {
			return "TASKS FAILED: " + out.Res.Message, nil
		}
		return out.Resp.GetTxResponses()[0].GetError().GetError(), nil
	}
	sub := cw.w.Peer.InvokeTx(ch, id, cw.w.Client.Creator, "multiSwapBegin", req...)
	if !sub.OK() {
		return sub.Message, nil
	}
	out := cw.w.ExecBatchIDs(ch, sub.TxID)
	if out.Resp == nil || len(out.Resp.GetTxResponses()) != 1 {
		return "BATCH FAILED: " + out.Res.Message, nil
	}
	return out.Resp.GetTxResponses()[0].GetError().GetError(), out.Resp.GetCreatedMultiSwap()
}

func (cw *ccWorld) msCreatedTerm(l []*fpb.MultiSwap) string {
	var items []string
	for _, s := range l {
		items = append(items, fmt.Sprintf("(%d, %s)", cw.idN(hex.EncodeToString(s.GetId())), cw.mswapTerm(s)))
	}
	return "(Some " + coqList(items) + ")"
}

func (cw *ccWorld) msAnswer(ch string, s *fpb.MultiSwap) string {
	out := cw.w.ExecBatch(ch, &fpb.Batch{MultiSwaps: []*fpb.MultiSwap{s}})
	if out.Resp == nil || len(out.Resp.GetSwapResponses()) != 1 {
		return "BATCH FAILED: " + out.Res.Message
	}
	return out.Resp.GetSwapResponses()[0].GetError().GetError()
}

func (cw *ccWorld) msRobotDone(ch, id, key string) string {
	raw, _ := hex.DecodeString(id)
	out := cw.w.ExecBatch(ch, &fpb.Batch{MultiSwapsKeys: []*fpb.SwapKey{{Id: raw, Key: key}}})
	if out.Resp == nil || len(out.Resp.GetSwapKeyResponses()) != 1 {
		return "BATCH FAILED: " + out.Res.Message
	}
	return out.Resp.GetSwapKeyResponses()[0].GetError().GetError()
}

func (cw *ccWorld) msUserDone(ch, id, key string) (string, string) {
	res := cw.w.Peer.Invoke(ch, cw.w.Client.Creator, "multiSwapDone", id, key)
	ev := "None"
	if res.Event != nil && res.Event.GetEventName() == "multi_swap_key" {
		parts := strings.Split(string(res.Event.GetPayload()), "\t")
		if len(parts) == 3 {
			ev = fmt.Sprintf("(Some (%d, %d, %d))", cw.chNum(parts[0]), cw.idN(parts[1]), swKeyN(parts[2]))
		} else {
			ev = "(Some (0, 0, 0))"
		}
	}
	if res.OK() {
		return "", ev
	}
	return res.Message, ev
}

func (cw *ccWorld) msCancel(ch string, u *Account, id string) string {
	return tokenRun(cw.w, ch, u, &cw.nonce, "multiSwapCancel", id)
}

func (cw *ccWorld) msFund() {
	cw.grpN["G2"] = 2
	for _, u := range cw.users {
		for _, ch := range []string{"tt", "vt"} {
			other := map[string]string{"tt": "VT", "vt": "TT"}[ch]
			cw.w.SetBalance(ch, balance.BalanceTypeToken, u.AddrString(), "G1", big.NewInt(500))
			cw.w.SetBalance(ch, balance.BalanceTypeToken, u.AddrString(), "G2", big.NewInt(300))
			cw.w.SetBalance(ch, balance.BalanceTypeAllowed, u.AddrString(), other+"_G1", big.NewInt(200))
			cw.w.SetBalance(ch, balance.BalanceTypeAllowed, u.AddrString(), other+"_G2", big.NewInt(100))
		}
	}
	cw.w.SetBalance("tt", balance.BalanceTypeGiven, "VT", "", big.NewInt(600))
	cw.w.SetBalance("vt", balance.BalanceTypeGiven, "TT", "", big.NewInt(600))
}

type msBeginArgs struct {
	u       int
	id      string
	tok, to string
	assets  []msAsset
	key     string
	viaTask bool
}

// msWhale: user 0 holds 2^66 of every group on both channels, so that the amounts of one multi-swap can add up beyond 2^64
func (cw *ccWorld) msWhale() {
	cw.whale = true
	big66 := new(big.Int).Lsh(big.NewInt(1), 66)
	for _, ch := range []string{"tt", "vt"} {
		for _, g := range []string{"G1", "G2"} {
			cw.w.SetBalance(ch, balance.BalanceTypeToken, cw.users[0].AddrString(), g, big66)
		}
	}
}

func (cw *ccWorld) msRandBegin(c *Ctx, ch string, ids []string, wellFormed bool) msBeginArgs {
	rng := c.Rng
	own := strings.ToUpper(ch)
	other := map[string]string{"tt": "VT", "vt": "TT"}[ch]
	b := msBeginArgs{u: rng.Intn(2), id: ids[rng.Intn(len(ids))], to: other, key: swKeys[rng.Intn(3)], viaTask: rng.Intn(2) == 0}
	switch r := rng.Intn(100); {
	case r < 46:
		b.tok = own
	case r < 82:
		b.tok = other // reverse
	case r < 85 && !wellFormed:
		b.tok = "XX"
	case r < 89 && !wellFormed:
		// a token or a destination spelled in another letter case is another name: no such swap
		if rng.Intn(2) == 0 {
			b.tok = strings.ToLower([]string{own, other}[rng.Intn(2)])
		} else {
			b.tok, b.to = other, strings.ToLower(own)
		}
	default:
		b.tok = own
		if !wellFormed {
			// towards the own channel (accepted: such a swap has an origin record only, which can be cancelled but
			// never completed by its owner) or towards a channel that does not exist
			b.to = []string{own, own, "XX"}[rng.Intn(3)]
		}
	}
	if cw.whale && b.tok == own && rng.Intn(3) == 0 {
		// three assets just below 2^63 each: every one fits 64 bits, their sum does not
		b.u, b.to = 0, other
		for _, g := range []string{"G1", "G2", "G1"} {
			b.assets = append(b.assets, msAsset{group: own + "_" + g, amt: (1 << 62) + (1 << 61) + int64(rng.Intn(1000))})
		}
		c.Count("multi_swap_adding_up_beyond_2^64")
		return b
	}
	n := 1 + rng.Intn(3)
	if !wellFormed && rng.Intn(25) == 0 {
		n = 0
	}
	for i := 0; i < n; i++ {
		a := msAsset{group: b.tok + "_" + []string{"G1", "G2"}[rng.Intn(2)], amt: int64(rng.Intn(160))}
		if b.tok == own && !wellFormed && rng.Intn(5) == 0 {
			// a ticker with a second separator: the group of a token balance is what follows the LAST one
			a.group = b.tok + "_X_" + []string{"G1", "G2"}[rng.Intn(2)]
		}
		if i > 0 && rng.Intn(3) == 0 {
			a.group = b.assets[i-1].group // the same group listed twice in a row
		}
		if !wellFormed && rng.Intn(20) == 0 {
			a.group = other + "_G1" // an asset labelled with another token
			if b.tok == other {
				a.group = own + "_G1"
			}
		}
		if rng.Intn(12) == 0 {
			a.amt = 450 // the 2nd or 3rd asset is often the under-funded one
		}
		if rng.Intn(7) == 0 {
			// exactly what the user holds of that group right now: the entry takes the balance to zero (a group that is
			// listed again after it finds nothing left)
			u := cw.users[b.u]
			grp := a.group[strings.LastIndex(a.group, "_")+1:]
			var cur *big.Int
			if b.tok == own {
				cur = cw.w.GetBalance(ch, balance.BalanceTypeToken, u.AddrString(), grp)
			} else {
				cur = cw.w.GetBalance(ch, balance.BalanceTypeAllowed, u.AddrString(), a.group)
			}
			if cur.Sign() > 0 && cur.IsInt64() {
				a.amt = cur.Int64()
				c.Count("asset_of_exactly_the_balance")
			}
		}
		if !wellFormed && rng.Intn(40) == 0 {
			a.amt = -3
		}
		b.assets = append(b.assets, a)
	}
	return b
}

func (cw *ccWorld) msBeginTerm(b msBeginArgs) string {
	return fmt.Sprintf("%d %d %d %s %d %d", cw.users[b.u].N(), cw.idN(b.id), cw.chNum(b.tok), cw.msAssetsTerm(b.assets), cw.chNum(b.to), swKeyN(b.key))
}

func genC09(c *Ctx) error {
	c.ShardSize = 20
	c.Notes["rule"] = "two deployed chaincodes (TT, VT), two users, a settable clock. (one) arbitrary step sequences on one channel: multiSwapBegin through a batch and through executeTasks (ids from a pool of three incl. one in upper-case hex), asset lists of 0-3 groups (a quarter of the worlds have a holder of 2^66 per group whose multi-swaps add up beyond 2^64; a group listed twice, an asset labelled with another token, the 2nd/3rd asset under-funded, negative amounts), direct / reverse / foreign-token / wrong-channel begins, robot answers with arbitrary records (also onto occupied ids), robot and user completions with right and wrong keys, cancels by the creator and by a stranger with the clock at time-out -1 / 0 / +1 and elsewhere; every step observed (error class, key event, all balances, all records, the multi-swaps the batch reply announces). (two) interleavings of well-formed begins on both channels with the robot (answers what batch replies announced), completions at any time with any key, clock ticks, creator and stranger cancels; disciplined runs (cancel only unanswered swaps) and undisciplined ones (the creator also cancels after the answer: finding F8); half of the runs drained. Non-trivial: >= 2 successful and >= 2 rejected steps / >= 3 successful protocol steps."
	n := c.N(120, 2500)
	for i := 0; i < n; i++ {
		if i%2 == 0 {
			if err := c09One(c); err != nil {
				return err
			}
		} else if err := c09Two(c, i%4 == 1); err != nil {
			return err
		}
	}
	return nil
}

func c09One(c *Ctx) error {
	rng := c.Rng
	// the switch for single swaps does not concern multi-swaps: one world in three has it set
	o := ChanOpts{DisableSwaps: c.Rng.Intn(3) == 0}
	c.Count(fmt.Sprintf("single_swaps_switched_off_%v", o.DisableSwaps))
	cw, err := newCCWorldOpts(o)
	if err != nil {
		return err
	}
	cw.msFund()
	if c.Rng.Intn(4) == 0 {
		cw.msWhale()
	}
	ch := []string{"tt", "vt"}[rng.Intn(2)]
	own := strings.ToUpper(ch)
	other := map[string]string{"tt": "VT", "vt": "TT"}[ch]
	init := cw.balTerm(ch)
	ids := []string{"a1", "b2", "B2"} // record keys are case-sensitive; the robot's ids are lower-case hex
	var ops, steps []string
	okN, rejN := 0, 0
	for k := 12 + rng.Intn(14); k > 0; k-- {
		var term, msg string
		ev, crt := "None", "None"
		id := ids[rng.Intn(len(ids))]
		key := swKeys[rng.Intn(3)]
		rec := cw.mswapRec(ch, id)
		if rec != nil && rng.Intn(3) > 0 {
			if n := swHashN(rec.GetHash()); n >= 11 && n < 11+len(swKeys) {
				key = swKeys[n-11]
			}
		}
		key = padKey(rng, key)
		switch rng.Intn(6) {
		case 0:
			cw.w.Peer.Now += int64(rng.Intn(200))
		case 1:
			cw.w.Peer.Now += 10800
		}
		switch r := rng.Intn(100); {
		case r < 30:
			b := cw.msRandBegin(c, ch, ids, false)
			if b.id != strings.ToLower(b.id) {
				b.viaTask = true // a peer's transaction ids are lower-case hex; only a task id can be anything
			}
			var created []*fpb.MultiSwap
			msg, created = cw.msBegin(ch, cw.users[b.u], b.id, b.tok, b.assets, b.to, b.key, b.viaTask)
			if !b.viaTask {
				crt = cw.msCreatedTerm(created)
			}
			term = fmt.Sprintf("MBegin %s %s", coqZi(cw.w.Peer.Now), cw.msBeginTerm(b))
			c.Count("one_begin_task_" + coqBool(b.viaTask))
			c.Count("one_begin_assets_" + strconv.Itoa(len(b.assets)))
		case r < 48:
			lid := strings.ToLower(id)
			tok := []string{other, other, own, own, "XX"}[rng.Intn(5)]
			u := cw.users[rng.Intn(2)]
			s := &fpb.MultiSwap{Creator: u.Addr, Owner: u.Addr, Token: tok, From: other, To: own, Hash: swHash(swKeys[rng.Intn(3)]), Timeout: 1}
			for i := 1 + rng.Intn(3); i > 0; i-- {
				a := &fpb.Asset{Group: tok + "_" + []string{"G1", "G2"}[rng.Intn(2)], Amount: big.NewInt(int64(rng.Intn(150))).Bytes()}
				if len(s.Assets) > 0 && rng.Intn(3) == 0 {
					a.Group = s.Assets[0].Group
				}
				s.Assets = append(s.Assets, a)
			}
			s.Id, _ = hex.DecodeString(lid)
			if rng.Intn(10) == 0 {
				s.Assets[len(s.Assets)-1].Amount = big.NewInt(5000).Bytes()
			}
			term = fmt.Sprintf("MAnswer %s %d (%s)", coqZi(cw.w.Peer.Now), cw.idN(lid), cw.mswapTerm(s))
			if rng.Intn(3) == 0 {
				// two answers in ONE batch (mostly for the same id): the second must see the first.
				// The state between them is not observable, so it is taken from a run of the batch cut after
				// the first answer (on a copy of the ledger); the errors come from the full batch.
				s2 := proto.Clone(s).(*fpb.MultiSwap)
				if rng.Intn(4) == 0 {
					s2.Id, _ = hex.DecodeString(strings.ToLower(ids[rng.Intn(len(ids))]))
				}
				if rng.Intn(2) == 0 {
					s2.Owner = cw.users[rng.Intn(2)].Addr
				}
				lid2 := hex.EncodeToString(s2.Id)
				term2 := fmt.Sprintf("MAnswer %s %d (%s)", coqZi(cw.w.Peer.Now), cw.idN(lid2), cw.mswapTerm(s2))
				chn := cw.w.Peer.Channels[ch]
				snap := stateSnapshot(chn)
				cw.msAnswer(ch, s)
				mid := cw.msObs(ch)
				chn.State = map[string][]byte{}
				for k, v := range snap {
					chn.State[k] = []byte(v)
				}
				out := cw.w.ExecBatch(ch, &fpb.Batch{MultiSwaps: []*fpb.MultiSwap{s, s2}})
				m1, m2 := "BATCH FAILED: "+out.Res.Message, "BATCH FAILED: "+out.Res.Message
				if out.Resp != nil && len(out.Resp.GetSwapResponses()) == 2 {
					m1, m2 = out.Resp.GetSwapResponses()[0].GetError().GetError(), out.Resp.GetSwapResponses()[1].GetError().GetError()
				}
				ops = append(ops, term)
				steps = append(steps, fmt.Sprintf("(%s, None, None, %s)", swErr(m1), mid))
				c.Count("one_answer_pair_" + strings.SplitN(strings.TrimPrefix(swErr(m1), "Some "), " ", 2)[0] + "_" + strings.SplitN(strings.TrimPrefix(swErr(m2), "Some "), " ", 2)[0])
				term, msg = term2, m2
				break
			}
			msg = cw.msAnswer(ch, s)
		case r < 60:
			lid := strings.ToLower(id)
			if r2 := cw.mswapRec(ch, lid); r2 != nil && rng.Intn(3) > 0 {
				if n := swHashN(r2.GetHash()); n >= 11 && n < 11+len(swKeys) {
					key = swKeys[n-11]
				}
			}
			msg = cw.msRobotDone(ch, lid, key)
			term = fmt.Sprintf("MRobotDone %d %d", cw.idN(lid), swKeyN(key))
		case r < 80:
			msg, ev = cw.msUserDone(ch, id, key)
			term = fmt.Sprintf("MUserDone %d %d", cw.idN(id), swKeyN(key))
		default:
			u := cw.users[rng.Intn(2)]
			if rec != nil && rng.Intn(4) > 0 {
				if n := cw.addrN(rec.GetCreator()); n != 0 {
					for _, x := range cw.users {
						if x.N() == n {
							u = x
						}
					}
				}
				if rng.Intn(3) > 0 {
					cw.w.Peer.Now = rec.GetTimeout() + int64(rng.Intn(3)) - 1 // time-out -1 / 0 / +1
					// ... and any fraction of that second: a deadline is a whole second, reached when the second begins
					cw.w.Peer.NowNanos = []int32{0, 1, 499999999, 500000000, 600000000, 999999999}[rng.Intn(6)]
				}
			}
			msg = cw.msCancel(ch, u, id)
			term = fmt.Sprintf("MCancel %s %d %d", coqZi(cw.w.Peer.Now), u.N(), cw.idN(id))
		}
		e := msErr(msg)
		ops = append(ops, term)
		steps = append(steps, fmt.Sprintf("(%s, %s, %s, %s)", e, ev, crt, cw.msObs(ch)))
		c.Count("one_" + strings.SplitN(term, " ", 2)[0] + "_" + strings.SplitN(strings.TrimPrefix(e, "Some "), " ", 2)[0])
		if e == "None" {
			okN++
		} else {
			rejN++
		}
	}
	term := fmt.Sprintf("MOneC %d %s %s %s", cw.chN[own], init, coqList(ops), coqList(steps))
	c.Emit(term, map[string]interface{}{"kind": "one_channel", "channel": ch, "ops": ops}, okN >= 2 && rejN >= 2)
	return nil
}

func c09Two(c *Ctx, disc bool) error {
	rng := c.Rng
	// the switch for single swaps does not concern multi-swaps: one world in three has it set
	o := ChanOpts{DisableSwaps: c.Rng.Intn(3) == 0}
	c.Count(fmt.Sprintf("single_swaps_switched_off_%v", o.DisableSwaps))
	cw, err := newCCWorldOpts(o)
	if err != nil {
		return err
	}
	cw.msFund()
	if c.Rng.Intn(4) == 0 {
		cw.msWhale()
	}
	t0 := cw.w.Peer.Now
	initA, initB := cw.balTerm("tt"), cw.balTerm("vt")
	ids := []string{"a1", "a2", "a3"}
	var acts []string
	status := map[swKeyT]swStatus{}
	pubKey := map[swKeyT]string{}
	inbox := map[swKeyT]*fpb.MultiSwap{}
	good, f8 := 0, 0
	chans := func(d bool) (string, string) {
		if d {
			return "tt", "vt"
		}
		return "vt", "tt"
	}
	userOf := func(n int) *Account {
		for _, x := range cw.users {
			if x.N() == n {
				return x
			}
		}
		return cw.users[0]
	}
	perform := func(kind string, d bool, id, key string, who *Account) {
		org, dst := chans(d)
		k := swKeyT{d, id}
		switch kind {
		case "answer":
			acts = append(acts, fmt.Sprintf("MRAnswer %s %d", coqBool(d), cw.idN(id)))
			r := cw.mswapRec(org, id)
			if a := inbox[k]; a != nil {
				r = a
			}
			if status[k] == stNone && r != nil && string(r.GetCreator()) != "0000" && r.GetTo() == strings.ToUpper(dst) {
				if cw.msAnswer(dst, proto.Clone(r).(*fpb.MultiSwap)) == "" {
					status[k] = stAnswered
					good++
				}
			}
		case "udone":
			acts = append(acts, fmt.Sprintf("MUDone %s %d %d", coqBool(d), cw.idN(id), swKeyN(key)))
			msg, _ := cw.msUserDone(dst, id, key)
			if msg == "" {
				if status[k] != stAnswered {
					c.Count("two_completion_outside_protocol")
				}
				status[k] = stDestDone
				pubKey[k] = key
				good++
			}
		case "rdone":
			acts = append(acts, fmt.Sprintf("MRDone %s %d", coqBool(d), cw.idN(id)))
			if r := cw.mswapRec(org, id); status[k] == stDestDone && r != nil {
				// the published key; it opens the origin record because the copy carried the same hash
				kk := pubKey[k]
				if n := swHashN(r.GetHash()); !disc && n >= 11 && n < 11+len(swKeys) {
					kk = swKeys[n-11] // undisciplined runs: the record may be a later swap under a stale checkpoint
				}
				if cw.msRobotDone(org, id, kk) == "" {
					delete(status, k)
					delete(inbox, k)
					good++
				}
			}
		case "cancel":
			acts = append(acts, fmt.Sprintf("MUCancel %s %d %d", coqBool(d), who.N(), cw.idN(id)))
			r := cw.mswapRec(org, id)
			if r != nil && string(r.GetCreator()) != "0000" && (!disc || status[k] == stNone) {
				if cw.msCancel(org, who, id) == "" {
					if status[k] == stNone {
						delete(inbox, k)
					} else {
						f8++ // refunded at the origin while the answered copy is open or completed
					}
					good++
				}
			}
		}
		c.Count("two_" + kind)
	}
	rightKey := func(d bool, id string) string {
		org, _ := chans(d)
		if r := cw.mswapRec(org, id); r != nil {
			if n := swHashN(r.GetHash()); n >= 11 && n < 11+len(swKeys) {
				return swKeys[n-11]
			}
		}
		if r := inbox[swKeyT{d, id}]; r != nil {
			if n := swHashN(r.GetHash()); n >= 11 && n < 11+len(swKeys) {
				return swKeys[n-11]
			}
		}
		return swKeys[rng.Intn(3)]
	}
	creatorOf := func(d bool, id string) *Account {
		org, _ := chans(d)
		if r := cw.mswapRec(org, id); r != nil {
			return userOf(cw.addrN(r.GetCreator()))
		}
		return cw.users[rng.Intn(2)]
	}
	tick := func(dt int64) {
		cw.w.Peer.Now += dt
		cw.w.Peer.NowNanos = []int32{0, 500000000, 999999999}[rng.Intn(3)]
		acts = append(acts, fmt.Sprintf("MTick %d", dt))
	}
	for k := 14 + rng.Intn(18); k > 0; k-- {
		switch r := rng.Intn(100); {
		case r < 28:
			d := rng.Intn(2) == 0
			org, _ := chans(d)
			b := cw.msRandBegin(c, org, ids, true)
			_, created := cw.msBegin(org, cw.users[b.u], b.id, b.tok, b.assets, b.to, b.key, b.viaTask)
			for _, s := range created {
				inbox[swKeyT{d, hex.EncodeToString(s.GetId())}] = s
			}
			acts = append(acts, fmt.Sprintf("MUBegin %s %s", coqBool(d), cw.msBeginTerm(b)))
			c.Count("two_begin")
			continue
		case r < 38:
			tick([]int64{1, 100, 10800, 10800}[rng.Intn(4)])
			continue
		}
		d := rng.Intn(2) == 0
		id := ids[rng.Intn(len(ids))]
		kind := []string{"answer", "udone", "rdone", "cancel"}[rng.Intn(4)]
		if rng.Intn(10) < 7 {
			type cand struct {
				d    bool
				id   string
				kind string
			}
			var en []cand
			for _, dd := range []bool{true, false} {
				org, _ := chans(dd)
				for _, i := range ids {
					st := status[swKeyT{dd, i}]
					r := cw.mswapRec(org, i)
					if a := inbox[swKeyT{dd, i}]; a != nil && r == nil {
						r = a
					}
					switch {
					case st == stNone && r != nil && string(r.GetCreator()) != "0000":
						en = append(en, cand{dd, i, "answer"}, cand{dd, i, "answer"}, cand{dd, i, "cancel"})
					case st == stAnswered:
						en = append(en, cand{dd, i, "udone"}, cand{dd, i, "udone"})
						if !disc {
							en = append(en, cand{dd, i, "cancel"})
						}
					case st == stDestDone:
						en = append(en, cand{dd, i, "rdone"})
						if !disc {
							en = append(en, cand{dd, i, "cancel"})
						}
					}
				}
			}
			if len(en) > 0 {
				x := en[rng.Intn(len(en))]
				d, id, kind = x.d, x.id, x.kind
			}
		}
		key := padKey(rng, rightKey(d, id))
		if rng.Intn(5) == 0 {
			key = swKeys[rng.Intn(len(swKeys))]
		}
		who := creatorOf(d, id)
		if kind == "cancel" {
			if rng.Intn(5) == 0 {
				who = cw.users[rng.Intn(2)] // maybe a stranger
			}
			org, _ := chans(d)
			if r := cw.mswapRec(org, id); r != nil && rng.Intn(3) > 0 && r.GetTimeout() > cw.w.Peer.Now {
				tick(r.GetTimeout() - cw.w.Peer.Now - int64(rng.Intn(2))) // at the time-out, or one second before
			}
		}
		perform(kind, d, id, key, who)
	}
	drained := rng.Intn(2) == 0
	if drained {
		tick(10800)
		for round := 0; round < 4; round++ {
			for _, d := range []bool{true, false} {
				org, _ := chans(d)
				for _, id := range ids {
					k := swKeyT{d, id}
					r := cw.mswapRec(org, id)
					switch {
					case status[k] == stAnswered:
						perform("udone", d, id, rightKey(d, id), nil)
					case status[k] == stDestDone:
						if r != nil {
							perform("rdone", d, id, "", nil)
						}
					case status[k] == stNone && r != nil && string(r.GetCreator()) != "0000":
						if r.GetTo() == strings.ToUpper(map[string]string{"tt": "vt", "vt": "tt"}[org]) && rng.Intn(2) == 0 {
							perform("answer", d, id, "", nil)
						} else {
							perform("cancel", d, id, "", creatorOf(d, id))
						}
					}
				}
			}
		}
	}
	term := fmt.Sprintf("MTwoC %s 1 2 %s %s %s %s %s %s", coqBool(disc), coqZi(t0), initA, initB, coqList(acts), cw.msObs("tt"), cw.msObs("vt"))
	desc := map[string]interface{}{"kind": "two_channels", "acts": acts, "drained": drained, "disciplined": disc}
	if f8 > 0 {
		desc["classes"] = []string{"cancel_after_answer"}
		c.Count("two_cancel_after_answer_runs")
	}
	c.Emit(term, desc, good >= 3)
	c.CountN("two_protocol_steps_performed", good)
	c.Count("two_disciplined_" + coqBool(disc))
	return nil
}

func init() { props["C09"] = genC09 }
