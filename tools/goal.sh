#!/bin/bash
# usage: goal.sh FILE LINE  -- show the proof state after line LINE of FILE (relative to /verif/coq)
cd /verif/coq
f=$1; n=$2
tmp=$(mktemp /verif/work/goalXXXX.v)
head -n "$n" "$f" > "$tmp"
echo "Show." >> "$tmp"
timeout 120 coqtop -Q theories Fnd -quiet < "$tmp" 2>&1 | tail -n ${3:-40}
rm -f "$tmp"
