#!/bin/bash
# usage: try.sh FILE.v  -- compile a scratch file against the theories; on error show the goal before the failing line
cd /verif/coq
out=$(timeout 600 coqc -Q theories Fnd "$1" 2>&1)
echo "$out" | grep -v "^Closed under" | head -${2:-40}
ln=$(echo "$out" | grep -o 'line [0-9]*' | head -1 | awk '{print $2}')
if [ -n "$ln" ]; then
  tmp=$(mktemp /verif/work/goalXXXX.v); head -n $((ln-1)) "$1" > "$tmp"; echo "Show." >> "$tmp"
  timeout 120 coqtop -Q theories Fnd -quiet < "$tmp" 2>&1 | tail -n ${3:-30}; rm -f "$tmp"
fi
