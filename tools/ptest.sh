#!/bin/bash
# usage: ptest.sh PROP PATCH [TAG]  -- try a seeded change WITHOUT touching /repo: a scratch worktree of /repo's HEAD
# gets the patch, the check of PROP runs against it in scratch mode (own work dir, theories as built).
# Safe to run several at once.  Prints the summary lines.
prop=$1; patch=$2; tag=${3:-$$}
wt=/tmp/pt_repo_$tag; wk=/tmp/pt_work_$tag
git -C /repo worktree remove --force $wt >/dev/null 2>&1; rm -rf $wt $wk
git -C /repo worktree add --detach $wt HEAD >/dev/null 2>&1 || { echo "worktree failed"; exit 2; }
if ! git -C $wt apply --check "$patch" 2>/dev/null; then echo "PATCH DOES NOT APPLY: $patch"; git -C /repo worktree remove --force $wt; exit 3; fi
git -C $wt apply "$patch"
mkdir -p $wk
cd /verif && VERIF_REPO=$wt VERIF_WORK=$wk timeout 2400 ./check "$prop" 2>&1 | grep -E "VIOLATION|KNOWN-FINDING|tier=" | cut -c1-400 | head -8
git -C /repo worktree remove --force $wt >/dev/null 2>&1
if [ -z "$KEEP" ]; then rm -rf $wk; fi
