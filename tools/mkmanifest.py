#!/usr/bin/env python3
"""Regenerates /verif/MANIFEST.json from the table below (claimed checks) and properties.jsonl."""
import json, subprocess
props=[json.loads(l) for l in open('/verif/properties.jsonl')]
TECH="Coq/Rocq proof over a Gallina model + in-Coq correspondence check against the Go code"
done={
"C12":{"text":"Theorems over all histories/ledgers (refinement of the two cache layers to an overlay map, discarded transactions invisible, commit exact, writes list exact and sorted) proved in Coq about a field-for-field Gallina model of core/cachestub; the model is tied to the working tree by evaluating model and property predicate inside Coq on behaviour observed from the real package (exhaustive small scope + random histories).",
       "note":"Trusted: Coq kernel + vm_compute, std++; hand-written model (tie = correspondence check, not proof); in-memory ledger stub of the harness; the underlying ledger does not change during one invocation; range queries are outside the property."},
"C02":{"text":"Refinement theorem: for every sequence of nonces the 50 s window machine (model of setNonce) decides exactly like a machine remembering every accepted nonce; corollaries at-most-once (per sender and system-wide over any interleaving of senders and of both routes), consumption independent of the body outcome, sender independence, format/stale/in-window rules. Tied to the code by (i) setNonce called directly through a verif-tagged export on exhaustive boundary sequences and (ii) signed requests through real batchExecute/executeTasks on a simulated peer, both evaluated against model and specification inside Coq.",
       "note":"Trusted: Coq kernel + vm_compute, std++; hand-written model; simulated peer, scripted ACL and signing code of the harness. Not verified: the legacy non-protobuf branch of checkNonce; immediate (NBTx) methods do not check nonces (excluded by the property)."},
"C19":{"text":"Theorems for all amounts and configurations: closed form of the fee (share rounded down, rate conversion, floor, cap), bounds and monotonicity, setFee guard, exact settlement of the three legs of a transfer (with coinciding parties) and of buy/buy-back at amount*rate/10^8 within limits, failure leaves the state unchanged, balances never negative over any history. Tied to the code by signed operations through real batches on the base token with amounts at the break points of each configuration; error class and the complete balance projection after every operation, token metadata and predictFee are compared with the model and checked against the closed forms inside Coq.",
       "note":"Trusted: Coq kernel + vm_compute, std++; hand-written model; simulated peer/ACL/signing and ledger projection of the harness. Per-transaction atomicity is C04's subject (the model returns the old state on error). User ids come from the scripted ACL."},
"C16":{"text":"Theorems over all histories of put/add/sub/move in transactions that read their own writes or run on a raw stub, committed or discarded, interleaved with createIndex and queries: the owners listing of a (kind, token) is exactly the set of addresses with non-zero balance with the amounts of a direct read - from the empty ledger, and from un-indexed legacy data once createIndex ran; createIndex changes no balance. Tied to the code by histories over core/balance through the real tx/batch caches and raw stubs of the simulated peer, createIndex through Invoke, with prefix-related address/token names; listings, direct reads and the final primary/inverse/flag projection are compared inside Coq.",
       "note":"Trusted: Coq kernel + vm_compute, std++; hand-written model; simulated peer (range scans in byte order, end-exclusive) and projection of the harness. Listing order is not part of the property (compared as sorted lists)."},
"C13":{"text":"Theorems over all histories of lock/unlock requests (any sender, id, amount) whose unlock requests name the lock's own address: locked balance = sum of remaining amounts of the address's locks (gmap sum invariant), every lock has 0 < remaining = initial - unlocked, exact settlement of every successful request (only the two balances of that address move, by the amount), rejections of over-unlock/unknown/duplicate/non-admin. Tied to the code by signed requests of the admin and others through real batches; error class, all balances and all lock records after every request are compared with the model and checked against the property inside Coq.",
       "note":"Trusted: Coq kernel + vm_compute, std++; hand-written model; harness (peer, ACL, signing, projection). Unlock uses the address given in the request (modelled as such); the theorems quantify over requests naming the lock's own address, as the property does. Non-numeric amounts are only checked to be rejected without effect."},
}
checks=[];na=[]
for p in props:
    i=p['id']
    if i in done:
        checks.append({"property_id":i,"quick_cmd":"./check %s --tier quick"%i,"thorough_cmd":"./check %s --tier thorough"%i,
          "evidence_file":"/verif/evidence/%s.json"%i,"replay_cmd_template":"./check %s --replay {path}"%i,"engine":"coq-corr",
          "level_claimed":{"category":"proof","text":done[i]["text"],"design_ref":"DESIGN.md §5 "+i},
          "level_note":done[i]["note"],"technique":TECH})
    else:
        na.append({"property_id":i,"reason":"not yet built in this revision (construction in progress, see DESIGN.md §10); will be claimed when its model, theorems and correspondence check are committed"})
hooks=subprocess.run(["git","-C","/repo","log","--format=%H %s"],capture_output=True,text=True).stdout.splitlines()
hook_commits=[l.split()[0] for l in hooks if 'verif hook' in l]
m={"version":1,"setup_cmd":"./setup.sh",
 "hooks":{"guard":"verif","enable":"go build -tags verif (harness module replaces github.com/anoideaopen/foundation => /repo)","baseline_off_cmd":"cd /repo && go test -vet=off -count=1 ./core/... ./token/... ./hlfcreator/... ./version/... ./test/unit/...","source_commits":hook_commits,"add_only":True},
 "engines":[{"name":"coq-corr","path":"/verif/check","serves_properties":[c["property_id"] for c in checks],"kind_free_text":"Coq 8.16 theorems over hand-written Gallina models; Go harness runs the real code and coqc evaluates correspondence and property predicates on the observed behaviour"}],
 "checks":checks,"not_applicable":na,
 "notes":"See DESIGN.md. All properties are intended to be claimed; the not_applicable list shrinks as checks are committed."}
json.dump(m,open('/verif/MANIFEST.json','w'),indent=1)
print("claimed",[c["property_id"] for c in checks])
