#!/usr/bin/env python3
# usage: mkprompts.py ROUND PROP...  -- writes /tmp/promptROUND_PROP.txt: the mutant prompt of tools/mutant_prompt.py for this
# round (own worktree / output names) plus the list of mechanisms already stored for the property (from seeded/*/notes.txt)
import sys,subprocess,glob,re,os
rnd=sys.argv[1]
for pid in sys.argv[2:]:
    base=subprocess.run(['python3','/verif/tools/mutant_prompt.py',pid],capture_output=True,text=True).stdout
    base=base.replace('/tmp/mut_'+pid,'/tmp/mut%s_%s'%(rnd,pid)).replace('/tmp/seeded_%s_k'%pid,'/tmp/seeded%s_%s_k'%(rnd,pid)).replace('zz_seeded_%s_test.go'%pid,'zz_seeded%s_%s_test.go'%(rnd,pid))
    tried=[]
    for d in sorted(glob.glob('/verif/seeded/%s_*'%pid),key=lambda p:int(p.rsplit('_',1)[1])):
        n=os.path.join(d,'notes.txt')
        if os.path.exists(n):
            t=re.sub(r'\s+',' ',open(n).read()).strip()
            t=re.sub(r'[=\-#*]{3,}','',t)
            tried.append(' - '+t[:330])
    extra='\n\nALREADY TRIED in earlier rounds for this property (choose a DIFFERENT mechanism and a different code site where possible; do not repeat these):\n'+'\n'.join(tried)
    extra+='\nProduce ONE good change (a second only if cheap). Prefer a site and a triggering condition that none of the above touches. Ideas that were rarely used so far: error paths and partial failures (a step fails after an earlier step wrote), ordering of checks, default / zero values of optional fields, very long or very short inputs, unicode, numeric formats, protobuf/JSON field presence, time (transaction timestamp vs. durations), the interplay of two features (e.g. fees with locks, swaps with channel transfers, indexes with batches), state left behind by an earlier version (legacy formats), optional routers / options of core.NewCC, the less-travelled entry points of the library, and the exact content of replies / events (not only the ledger). The property text above is the specification; anything it quantifies over is fair game.'
    open('/tmp/prompt%s_%s.txt'%(rnd,pid),'w').write(base+extra)
    print(pid,len(tried),'earlier')
