#!/bin/bash
# re-run every claimed quick check on the unchanged tree and rewrite its evidence file
cd /verif
git -C /repo status --short | grep -v '^??' && { echo "/repo has local changes"; exit 1; }
for p in $(python3 -c "import json;print(' '.join(c['property_id'] for c in json.load(open('MANIFEST.json'))['checks']))"); do
  ./check $p --tier quick | tail -3
done
python3-vt tools/validate.py | tail -1
