#!/bin/bash
# usage: mutant_test.sh PROP PATCH [-R]  -- apply patch to /repo, run quick check, undo; print the summary lines
prop=$1; patch=$2; rev=$3
cd /repo || exit 2
if ! git apply $rev --check "$patch" 2>/dev/null; then echo "PATCH DOES NOT APPLY: $patch"; exit 3; fi
git apply $rev "$patch"
cd /verif && timeout 1800 ./check "$prop" 2>&1 | grep -E "VIOLATION|KNOWN-FINDING|tier=" | head -8
cd /repo && git apply -R $rev "$patch" 2>/dev/null || { [ -n "$rev" ] && git apply "$patch"; }
git -C /repo status --short | grep -v "fixture/gost/gost"
