#!/bin/bash
# regenerate harness/go.mod and go.sum from /repo's (same dependency versions, offline)
set -e
H=/verif/harness
{
  echo "module verif/harness"
  echo
  grep -E '^go ' /repo/go.mod
  echo
  echo "require github.com/anoideaopen/foundation v0.0.0"
  echo
  echo "replace github.com/anoideaopen/foundation => /repo"
  echo
  awk '/^require \(/{p=1} p{print} /^\)/{if(p){p=0;print ""}}' /repo/go.mod
  grep -E '^require [^(]' /repo/go.mod || true
  awk '/^replace \(/{p=1} p{print} /^\)/{if(p){p=0;print ""}}' /repo/go.mod
  grep -E '^replace [^(]' /repo/go.mod || true
} > $H/go.mod.new
mv $H/go.mod.new $H/go.mod
cp /repo/go.sum $H/go.sum
