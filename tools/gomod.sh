#!/bin/bash
# regenerate harness/go.mod and go.sum from /repo's (same dependency versions, offline)
# usage: gomod.sh [harness-dir [repo-dir]]   (defaults: /verif/harness /repo)
set -e
H=${1:-/verif/harness}
R=${2:-/repo}
{
  echo "module verif/harness"
  echo
  grep -E '^go ' $R/go.mod
  echo
  echo "require github.com/anoideaopen/foundation v0.0.0"
  echo
  echo "replace github.com/anoideaopen/foundation => $R"
  echo
  awk '/^require \(/{p=1} p{print} /^\)/{if(p){p=0;print ""}}' $R/go.mod
  grep -E '^require [^(]' $R/go.mod || true
  awk '/^replace \(/{p=1} p{print} /^\)/{if(p){p=0;print ""}}' $R/go.mod
  grep -E '^replace [^(]' $R/go.mod || true
} > $H/go.mod.new
mv $H/go.mod.new $H/go.mod
cp $R/go.sum $H/go.sum
