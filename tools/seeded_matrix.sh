#!/bin/bash
# run every stored seeded change against the check of its property (scratch worktrees, several at once; /repo is not
# touched); write seeded/RESULTS.json.   usage: seeded_matrix.sh [parallelism]
cd /verif
out=/verif/work/seeded_matrix.txt; : > $out
ls -d seeded/*/ | while read d; do name=$(basename $d); [ -f $d/patch.diff ] && echo $name; done | \
  xargs -P ${1:-6} -I{} bash -c 'n={}; p=${n%_*}; r=$(tools/ptest.sh $p /verif/seeded/$n/patch.diff m_$n 2>&1 | grep -E "tier=|VIOLATION|PATCH DOES NOT" | sed "s#/tmp/pt_work_m_$n#work#" | tr "\n" " "); echo "$n | $r" >> /verif/work/seeded_matrix.txt'
sort -o $out $out
python3 - <<'PY'
import json,re
rows=[]
for l in open('/verif/work/seeded_matrix.txt'):
    if '|' not in l: continue
    name,res=l.split('|',1)
    name=name.strip()
    m=re.search(r'corr_bad=(\d+) prop_bad=(\d+)',res)
    rows.append({"seeded":name,"property":name.split('_')[0],"check":"./check %s --tier quick"%name.split('_')[0],
      "detected":"VIOLATION" in res,"concrete_failing_input":"VIOLATION" in res and "no-failing-input-found" not in res,
      "correspondence_disagreements":int(m.group(1)) if m else None,"property_failures_on_implementation":int(m.group(2)) if m else None})
json.dump({"comment":"every stored seeded change applied to a scratch worktree of /repo's HEAD (git apply), the quick check of its property run against it (tools/ptest.sh: scratch mode of ./check), the worktree removed; produced by tools/seeded_matrix.sh","results":rows},open('/verif/seeded/RESULTS.json','w'),indent=1)
print(sum(r['detected'] for r in rows),'of',len(rows),'detected;',sum(r['concrete_failing_input'] for r in rows),'with a concrete failing input')
for r in rows:
    if not r['concrete_failing_input']: print('  NOT:',r['seeded'],r)
PY
