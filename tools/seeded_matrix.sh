#!/bin/bash
# run every stored seeded change against the check of its property; write seeded/RESULTS.json
cd /verif
out=/verif/work/seeded_matrix.txt; : > $out
for d in seeded/*/; do
  name=$(basename $d); prop=${name%_*}
  [ -f $d/patch.diff ] || continue
  res=$(tools/mutant_test.sh $prop /verif/$d/patch.diff 2>&1 | grep -E "tier=|VIOLATION|PATCH DOES NOT" | tr '\n' ' ')
  echo "$name | $res" >> $out
done
git -C /repo status --short | grep -v "^??" >> $out
python3 - <<'PY'
import json,re
rows=[]
for l in open('/verif/work/seeded_matrix.txt'):
    if '|' not in l: continue
    name,res=l.split('|',1)
    name=name.strip()
    m=re.search(r'corr_bad=(\d+) prop_bad=(\d+)',res)
    rows.append({"seeded":name,"property":name.split('_')[0],"check":"./check %s --tier quick"%name.split('_')[0],
      "detected":"VIOLATION" in res,"concrete_failing_input":"VIOLATION" in res and "no-failing-input-found" not in res,
      "correspondence_disagreements":int(m.group(1)) if m else None,"property_failures_on_implementation":int(m.group(2)) if m else None})
json.dump({"comment":"every stored seeded change applied to /repo (git apply), the quick check of its property run, the change removed (git apply -R); produced by tools/seeded_matrix.sh","results":rows},open('/verif/seeded/RESULTS.json','w'),indent=1)
print(sum(r['detected'] for r in rows),'of',len(rows),'detected;',sum(r['concrete_failing_input'] for r in rows),'with a concrete failing input')
PY
