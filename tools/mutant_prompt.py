#!/usr/bin/env python3
import json,sys
pid=sys.argv[1]
p=[json.loads(l) for l in open('/verif/properties.jsonl') if json.loads(l)['id']==pid][0]
print(f"""You are helping to evaluate a verification effort on the Go library github.com/anoideaopen/foundation (Hyperledger Fabric token chaincode library). Your job: produce a realistic code change (a "seeded defect") that BREAKS the property below while the code still compiles and the existing test suite still passes, plus a demonstration that shows the breakage.

PROPERTY {p['id']}: {p['title']}
Statement: {p['statement']}
Quantification: {p['quantifier']['text']}
Code anchors: files {', '.join(p['anchors']['files'])}; mechanisms: {'; '.join(m.get('name','')+' ('+m.get('where','')+')' for m in p['anchors']['mechanism'])}

RULES
- Work ONLY in your own scratch git worktree: run `git -C /repo worktree add --detach /tmp/mut_{pid} HEAD` and work in /tmp/mut_{pid}. Never edit /repo itself. Do not read or write anything under /verif.
- Offline sandbox. Before any go command: `export GOFLAGS=-mod=mod GOPROXY=off GOSUMDB=off GOTOOLCHAIN=local`.
- The change must be small and realistic (the kind of slip a maintainer could make in a refactor or "optimisation": a flipped comparison, a dropped guard, a wrong stub/cache layer, a forgotten delete, an off-by-one, state kept in memory, ...). It must need something SPECIFIC to manifest (a particular multi-step sequence of operations, a boundary value, an unusual input, a particular interleaving, two cooperating sites that each look fine alone) - NOT something ordinary use exposes at once.
- It must compile and the existing tests must still pass: run `go build ./core/... ./token/... && go test -vet=off -count=1 ./core/... ./token/... ./hlfcreator/... ./version/...` (seconds) and then `go test -vet=off -count=1 ./test/unit/...` (under a minute) inside the worktree. Do not modify existing tests.
- Write a demonstration: a NEW Go test file (e.g. test/unit/zz_seeded_{pid}_test.go, package unit, you may use the repo's mock package as the other unit tests do) that FAILS with your change and PASSES on the unmodified code. Verify both (to test without the change use `git diff > /tmp/p.diff; git apply -R /tmp/p.diff; ...; git apply /tmp/p.diff` — do NOT use `git stash`, it is shared between worktrees of other people working in parallel).
- Produce up to TWO different changes if you can do so cheaply (different mechanisms); one good one is enough.
- Be economical: read only the files you need.

DELIVERABLE: for each change k (1 or 2) create the directory /tmp/seeded_{pid}_k/ containing: patch.diff (output of `git diff` for the library change only, WITHOUT the demonstration test), the demonstration test file, and notes.txt (what the change is, why existing tests miss it, what exactly is needed for it to manifest, the commands you ran and their results). When finished, remove the worktree with `git -C /repo worktree remove --force /tmp/mut_{pid}` and reply with a short summary (paths + one paragraph per change).""")
