#!/usr/bin/env python3-vt
import json,jsonschema,glob,sys
jsonschema.validate(json.load(open('/verif/MANIFEST.json')),json.load(open('/root/.vp/MANIFEST.schema.json')))
s=json.load(open('/root/.vp/EVIDENCE.schema.json'))
for f in sorted(glob.glob('/verif/evidence/*.json')):
    jsonschema.validate(json.load(open(f)),s)
    print('ok',f)
ids=[json.loads(l)['id'] for l in open('/verif/properties.jsonl')]
m=json.load(open('/verif/MANIFEST.json'))
claimed=[c['property_id'] for c in m['checks']]; na=[c['property_id'] for c in m.get('not_applicable',[])]
assert sorted(claimed+na)==sorted(ids),(claimed,na)
print('manifest valid; claimed',claimed)
