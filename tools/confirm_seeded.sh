#!/bin/bash
# usage: confirm_seeded.sh <srcdir with patch.diff + demo test + notes.txt> <property> <name>
# Confirms in a scratch worktree: patch applies and builds, existing tests pass with it,
# demo fails with it and passes without it.  Writes /verif/seeded/<name>/{patch.diff,demo,meta.json}.
src=$1; prop=$2; name=$3
export GOFLAGS=-mod=mod GOPROXY=off GOSUMDB=off GOTOOLCHAIN=local
wt=/tmp/confirm_$name
git -C /repo worktree remove --force $wt >/dev/null 2>&1
git -C /repo worktree add --detach $wt HEAD >/dev/null 2>&1 || { echo "worktree failed"; exit 1; }
out=/verif/seeded/$name; mkdir -p $out
cp $src/patch.diff $out/patch.diff
demo=$(ls $src/*_test.go | head -1); cp $demo $out/
cp $src/notes.txt $out/notes.txt 2>/dev/null
dn=$(basename $demo)
pkgdir=test/unit
grep -q "^package unit" $demo || pkgdir=$(grep -o "^package [a-z_]*" $demo | awk '{print $2}')
cd $wt
git apply $out/patch.diff || { echo "patch does not apply"; exit 1; }
build=$(go build ./core/... ./token/... ./mock/... 2>&1 | tail -3); brc=$?
t1=$(go test -vet=off -count=1 ./core/... ./token/... ./hlfcreator/... ./version/... 2>&1 | grep -c "^FAIL\|^---\ FAIL")
t2=$(go test -vet=off -count=1 ./test/unit/... 2>&1 | grep -c "^--- FAIL")
cp $out/$dn $wt/test/unit/$dn
tests=$(grep -o "^func Test[A-Za-z0-9_]*" $out/$dn | sed 's/func //' | paste -sd'|')
with=$(go test -vet=off -count=1 -run "^($tests)\$" ./test/unit/ 2>&1 | tail -1)
git apply -R $out/patch.diff
without=$(go test -vet=off -count=1 -run "^($tests)\$" ./test/unit/ 2>&1 | tail -1)
cd /; git -C /repo worktree remove --force $wt
python3 - "$out" "$prop" "$name" "$t1" "$t2" "$with" "$without" "$dn" <<'PY'
import json,sys,os
out,prop,name,t1,t2,w,wo,dn=sys.argv[1:]
notes=open(os.path.join(out,'notes.txt')).read() if os.path.exists(os.path.join(out,'notes.txt')) else ''
meta={"property":prop,"name":name,"demonstration":dn,
 "needs_to_manifest":"see notes.txt (written by the independent sub-agent that produced the change)",
 "confirmed":{"existing_fast_tests_failures_with_patch":int(t1),"existing_unit_tests_failures_with_patch":int(t2),
   "demo_with_patch":w,"demo_without_patch":wo,
   "ok": (int(t1)==0 and int(t2)==0 and w.startswith("FAIL") and wo.startswith("ok"))},
 "ran":["git apply patch.diff in a scratch worktree of /repo","go test -vet=off -count=1 ./core/... ./token/... ./hlfcreator/... ./version/...","go test -vet=off -count=1 ./test/unit/...","go test -run <demo tests> ./test/unit/ with and without the patch"]}
json.dump(meta,open(os.path.join(out,'meta.json'),'w'),indent=1)
print(name,meta["confirmed"])
PY
