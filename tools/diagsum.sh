#!/bin/bash
# usage: diagsum.sh PROP IDX...  -- one line per case: failing step, flags, impl error, model error, the op
prop=$1; shift
for i in "$@"; do
  out=$(/verif/tools/diag.sh $prop $i 400 2>&1)
  head=$(echo "$out" | grep -m1 -A1 "(Some" | tr -d '\n' | cut -c1-160)
  n=$(echo "$head" | grep -o "([0-9]*, [0-9]*," | head -1 | tr -d '(,' | awk '{print $1}')
  op=$(python3 -c "
import json
for i,l in enumerate(open('/verif/work/$prop/cases.jsonl')):
    if i==$i:
        d=json.loads(l); ops=d.get('ops') or d.get('acts') or []
        n='$n'
        print(ops[int(n)] if n.isdigit() and int(n)<len(ops) else '?')
")
  echo "case $i: $head  ## $op"
done
