#!/usr/bin/env python3
"""Rewrite the generated parts of DESIGN.md: the seeded-change table of 11.5 (from seeded/RESULTS.json) and the
theorem / case counts of the table in 11.1 (from evidence/*.json and the property files)."""
import json, re, glob, os
R = '/verif'
s = open(R + '/DESIGN.md').read()
# ---- 11.5 table
res = json.load(open(R + '/seeded/RESULTS.json'))['results']
def key(r):
    p, k = r['seeded'].split('_'); return (p, int(k))
rows = ["| %s | `./check %s` | %s | %s | %s | %s |" % (r['seeded'], r['property'], 'yes' if r['detected'] else '**no**',
        'yes' if r['concrete_failing_input'] else '**no**', r['property_failures_on_implementation'], r['correspondence_disagreements'])
        for r in sorted(res, key=key)]
head = "| seeded change | check | detected | concrete failing input | cases failing the property predicate | cases where model and implementation differ |\n|---|---|---|---|---:|---:|\n"
i = s.index(head); j = s.index("\n\n", i)
s = s[:i] + head + "\n".join(rows) + s[j:]
# ---- 11.1 counts
def thms(p):
    src = open(R + '/coq/theories/Props/%s_Property.v' % p).read()
    return len(re.findall(r"^\s*(?:Theorem|Corollary)\s+", src, re.M))
def cases(p):
    e = json.load(open(R + '/evidence/%s.json' % p)); t = json.dumps(e)
    m = re.search(r'"cases":\s*(\d+)', t) or re.search(r'"evaluations":\s*(\d+)', t)
    return m.group(1) if m else '?'
def fix(m):
    p = m.group(1); cells = m.group(0).split('|')
    cells[3] = ' %d ' % thms(p)
    old = cells[4].strip()
    n = cases(p)
    cells[4] = ' ' + (re.sub(r'^\d+', n, old) if re.match(r'^\d+', old) else old) + ' '
    return '|'.join(cells)
a = s.index("### 11.1 What exists"); b = s.index("### 11.2", a)   # only the table of 11.1
s = s[:a] + re.sub(r"^\| (C\d\d) \|[^\n]*\|[^\n]*\|[^\n]*\|[^\n]*\|$", fix, s[a:b], flags=re.M) + s[b:]
open(R + '/DESIGN.md', 'w').write(s)
print(len(rows), 'seeded rows written')
