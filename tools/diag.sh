#!/bin/bash
# usage: diag.sh PROP IDX  -- evaluate Run_PROP.diag on case IDX of work/PROP (needs a `diag` in Corr/Run_PROP.v)
prop=$1; idx=$2
cd /verif
ss=$(python3 -c "
import re,glob
f=sorted(glob.glob('work/$prop/cases_*.v'),key=lambda p:int(re.findall(r'cases_(\d+)',p)[0]))
n=0
for p in f:
    k=sum(1 for l in open(p) if l.startswith(' ') and not l.startswith('  '))
    if $idx < n+k: print(p, $idx-n); break
    n+=k
")
file=${ss% *}; pos=${ss#* }
tmp=work/diag_$prop.v
sed -e '/^Definition corr_bad/,$d' $file > $tmp
echo "Definition D := Eval vm_compute in match nth_error cases $pos with Some c => Some (diag c) | None => None end." >> $tmp
echo "Print D." >> $tmp
(cd coq && make theories/Corr/Run_$prop.vo >/dev/null 2>&1; coqc -Q theories Fnd ../$tmp 2>&1 | tail -${3:-40})
python3 - <<PY
import json
for i,l in enumerate(open('/verif/work/$prop/cases.jsonl')):
    if i==$idx:
        d=json.loads(l); 
        for k,v in d.items():
            if isinstance(v,list):
                print(k+':'); [print('  %d: %s'%(j,x)) for j,x in enumerate(v)]
            else: print(k,v)
PY
