#!/bin/bash
# Offline setup: full .vo build of the Coq development and a first build of the harness.
set -e
cd "$(dirname "$0")"
export GOFLAGS=-mod=mod GOPROXY=off GOSUMDB=off GOTOOLCHAIN=local
mkdir -p work/bin evidence
(cd coq && coq_makefile -f _CoqProject -o Makefile >/dev/null && timeout 3000 make -j16)
tools/gomod.sh
(cd harness && go build -tags verif -o ../work/bin/harness .)
echo setup ok
