(* Model of QueryChannelTransfersFrom / LoadCCFromTransfers over the peer's paginated
   range scan.  Keys are byte strings (list N) ordered lexicographically, exactly the
   ledger's key order.  Definitions only.                                         *)
From Fnd Require Import Base.Prelude.
From stdpp Require Import lexico.

Notation kstr := (list N) (only parsing).

Definition kltb (x y : list N) : bool :=
  match trichotomyT lexico x y with inleft (left _) => true | _ => false end.
Definition kleb (x y : list N) : bool := negb (kltb y x).
Definition in_range (lo hi k : list N) : bool := kleb lo k && kltb k hi.

Fixpoint has_prefix (pre k : list N) : bool :=
  match pre, k with
  | [], _ => true
  | a :: p, b :: k' => N.eqb a b && has_prefix p k'
  | _ :: _, [] => false
  end.

Section paging.
  Context {V : Type}.
  Notation kv := (list N * V)%type.

  (* GetStateByRangeWithPagination(start, end, size, bookmark) over the committed ledger,
     given as the list of all its entries in key order *)
  Definition page (l : list kv) (lo hi : list N) (size : nat) (bm : list N) : list kv * list N :=
    let start := match bm with [] => lo | _ => bm end in
    let items := List.filter (fun p => in_range start hi (fst p)) l in
    (firstn size items, match skipn size items with x :: _ => fst x | [] => [] end).

  (* "/transfer/from/" and the end key: the prefix with its last byte incremented, "/transfer/from0"
     (until the repair F22 the end key was prefix + utf8.MaxRune, F4 8F BF BF: [maxrune] is kept to state what
     that range missed) *)
  Definition pfx : list N := [47; 116; 114; 97; 110; 115; 102; 101; 114; 47; 102; 114; 111; 109; 47]%N.
  Definition pfx_end : list N := [47; 116; 114; 97; 110; 115; 102; 101; 114; 47; 102; 114; 111; 109; 48]%N.
  Definition maxrune : list N := [244; 143; 191; 191]%N.

  Inductive qerr := QPageSize | QBookmark.
  Definition query (l : list kv) (size : Z) (bm : list N) : qerr + (list kv * list N) :=
    if (size <=? 0)%Z then inl QPageSize
    else match bm with
         | _ :: _ => if has_prefix pfx bm then inr (page l pfx pfx_end (Z.to_nat size) bm)
                     else inl QBookmark
         | [] => inr (page l pfx pfx_end (Z.to_nat size) bm)
         end.

  (* follow the returned bookmarks from the empty bookmark *)
  Fixpoint all_pages (fuel : nat) (l : list kv) (size : Z) (bm : list N) : option (list kv) :=
    match fuel with
    | O => None
    | S f =>
      match query l size bm with
      | inl _ => None
      | inr (items, next) =>
        match next with
        | [] => Some items
        | _ => match all_pages f l size next with Some r => Some (items ++ r) | None => None end
        end
      end
    end.
End paging.
