(* Model of core/balance (Get/Put/Add/Sub/Move) over typed balance keys.
   A balance key is (kind, address, token); token 0 is the empty token string.
   Amounts are unbounded integers like big.Int.  The code stores value.Bytes(), i.e. the
   magnitude, and an empty byte string (zero) is a delete: the model stores no zeros.  *)
From Fnd Require Import Base.Prelude.
Local Open Scope Z_scope.

Notation bkey := (N * N * N)%type (only parsing).
Notation bals := (gmap (N * N * N) Z).

(* balance kinds: the byte of core/balance/type.go *)
Definition KTok : N := 43.        (* 0x2b token *)
Definition KAllowed : N := 44.    (* 0x2c allowed *)
Definition KGiven : N := 45.      (* 0x2d given *)
Definition KTokLocked : N := 46.  (* 0x2e *)
Definition KAllowedLocked : N := 47. (* 0x2f *)
Definition KAllowedExt : N := 49. (* 0x31 allowed, external lock *)
Definition KTokExt : N := 50.     (* 0x32 token, external lock *)

Definition bget (m : bals) (k : bkey) : Z := default 0 (m !! k).
Definition bput (m : bals) (k : bkey) (v : Z) : bals :=
  if v =? 0 then delete k m else <[k:=v]> m.

Definition badd (m : bals) (k : bkey) (a : Z) : res bals :=
  if a <? 0 then Err ENegative else Ok (bput m k (bget m k + a)).
Definition bsub (m : bals) (k : bkey) (a : Z) : res bals :=
  if a <? 0 then Err ENegative
  else if bget m k <? a then Err EInsufficient
  else Ok (bput m k (bget m k - a)).
(* Move = Sub then Add (through a write cache: a self-move is the identity) *)
Definition bmove (m : bals) (k1 k2 : bkey) (a : Z) : res bals :=
  m1 <- bsub m k1 a ;; badd m1 k2 a.

Definition tok (a : N) : bkey := (KTok, a, 0%N).
Definition allowed (a : N) (c : N) : bkey := (KAllowed, a, c).

Definition bals_list (m : bals) : list (N * N * N * Z) := map_to_list m.
