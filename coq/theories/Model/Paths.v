(* Model of core/cctransfer/paths.go: the ledger keys of cross-channel transfer records.
   path.Join(prefix, id) = path.Clean(prefix + "/" + id) for the two rooted prefixes; path.Base;
   IsValidID.  Strings are byte lists.  Definitions only.                                   *)
From Fnd Require Import Base.Prelude.

Definition slash : N := 47.
Definition dot : N := 46.

(* the elements between the slashes (never an empty list of elements) *)
Fixpoint split (s : list N) : list (list N) :=
  match s with
  | [] => [[]]
  | c :: r => if N.eqb c slash then [] :: split r
              else match split r with h :: t => (c :: h) :: t | [] => [[c]] end
  end.

(* path.Clean of a ROOTED path: empty elements and "." vanish, ".." removes the element before it
   (at the root it vanishes).  The stack holds the kept elements, last one first. *)
Definition is_dot (e : list N) : bool := match e with [c] => N.eqb c dot | _ => false end.
Definition is_dotdot (e : list N) : bool := match e with [c; d] => N.eqb c dot && N.eqb d dot | _ => false end.
Definition cstep (st : list (list N)) (e : list N) : list (list N) :=
  match e with
  | [] => st
  | _ => if is_dot e then st else if is_dotdot e then tl st else e :: st
  end.
Fixpoint render (els : list (list N)) : list N :=
  match els with [] => [] | e :: r => slash :: e ++ render r end.
Definition clean_rooted (s : list N) : list N :=
  match rev (fold_left cstep (split s) []) with [] => [slash] | els => render els end.

(* path.Join(prefix, id) for a non-empty prefix: the elements are joined by a slash (an empty id too) and cleaned *)
Definition join (prefix id : list N) : list N := clean_rooted (prefix ++ slash :: id).

(* "/transfer/from/" and "/transfer/to/" *)
Definition pfx_from : list N := [47; 116; 114; 97; 110; 115; 102; 101; 114; 47; 102; 114; 111; 109; 47]%N.
Definition pfx_to : list N := [47; 116; 114; 97; 110; 115; 102; 101; 114; 47; 116; 111; 47]%N.
Definition from_key (id : list N) : list N := join pfx_from id.
Definition to_key (id : list N) : list N := join pfx_to id.

(* path.Base: trailing slashes removed, then what follows the last slash; "." for the empty path, "/" for slashes only *)
Fixpoint strip_slashes_rev (r : list N) : list N :=
  match r with c :: t => if N.eqb c slash then strip_slashes_rev t else r | [] => [] end.
Definition base (p : list N) : list N :=
  match p with
  | [] => [dot]
  | _ => match rev (strip_slashes_rev (rev p)) with
         | [] => [slash]
         | q => List.last (split q) []
         end
  end.

Definition beq (a b : list N) : bool := bool_decide (a = b).
Definition is_valid_id (id : list N) : bool :=
  negb (beq id []) && beq (from_key id) (pfx_from ++ id) && beq (to_key id) (pfx_to ++ id) && beq (base (from_key id)) id.

(* what a valid id looks like *)
Definition plain (id : list N) : bool :=
  negb (beq id []) && forallb (fun c => negb (N.eqb c slash)) id && negb (is_dot id) && negb (is_dotdot id).
