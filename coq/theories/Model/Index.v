(* Model of core/balance storage.go (Put writes primary + inverse entry), operations.go,
   indexer.go (CreateIndex) and queries.go (ListOwnersByToken / ListBalancesByAddress),
   under both stub semantics: cached (a transaction reads its own writes) and raw
   (a transaction reads committed state only; writes are buffered).  Definitions only. *)
From Fnd Require Import Base.Prelude Model.Balance.
Local Open Scope Z_scope.

(* primary key (kind, addr, token); inverse key (kind, token, addr) *)
Definition inv_key (k : N * N * N) : N * N * N := (fst (fst k), snd k, snd (fst k)).
Definition ktoken (k : N * N * N) : N := snd k.
Definition kkind (k : N * N * N) : N := fst (fst k).
Definition kaddr (k : N * N * N) : N := snd (fst k).

Record istate := IS { prim : bals; inv : bals; flags : list N }.

(* balance.Put *)
Definition iwrite (s : istate) (k : N * N * N) (v : Z) : istate :=
  IS (bput (prim s) k v)
     (if N.eqb (ktoken k) 0 then inv s else bput (inv s) (inv_key k) v)
     (flags s).

Inductive prim_op := PPut (k : N * N * N) (v : Z) | PAdd (k : N * N * N) (a : Z) | PSub (k : N * N * N) (a : Z).

(* one primitive: reads from [rd], writes into [acc] *)
Definition prim_step (rd acc : istate) (p : prim_op) : res istate :=
  match p with
  | PPut k v => Ok (iwrite acc k v)
  | PAdd k a => if a <? 0 then Err ENegative else Ok (iwrite acc k (bget (prim rd) k + a))
  | PSub k a => if a <? 0 then Err ENegative
                else if bget (prim rd) k <? a then Err EInsufficient
                else Ok (iwrite acc k (bget (prim rd) k - a))
  end.

Inductive iop :=
| IPut (k : N * N * N) (v : Z) | IAdd (k : N * N * N) (a : Z) | ISub (k : N * N * N) (a : Z)
| IMove (k1 k2 : N * N * N) (a : Z).       (* Move = Sub then Add *)

Definition prims (o : iop) : list prim_op :=
  match o with
  | IPut k v => [PPut k v] | IAdd k a => [PAdd k a] | ISub k a => [PSub k a]
  | IMove k1 k2 a => [PSub k1 a; PAdd k2 a]
  end.

Inductive smode := Cached | Raw.

(* run the primitives of one operation, stopping at the first error (what was written
   before the error stays in the transaction's write set, as in the code) *)
Fixpoint run_prims (m : smode) (snap acc : istate) (ps : list prim_op) : istate * option err :=
  match ps with
  | [] => (acc, None)
  | p :: r =>
    match prim_step (match m with Cached => acc | Raw => snap end) acc p with
    | Ok acc' => run_prims m snap acc' r
    | Err e => (acc, Some e)
    end
  end.

Fixpoint run_ops (m : smode) (snap acc : istate) (os : list iop) : istate * list (option err) :=
  match os with
  | [] => (acc, [])
  | o :: r => let '(acc', e) := run_prims m snap acc (prims o) in
              let '(acc'', es) := run_ops m snap acc' r in (acc'', e :: es)
  end.

(* CreateIndex: scan committed primaries of the kind, write inverse entries, set the flag *)
Definition create_index (s : istate) (kd : N) : istate :=
  IS (prim s)
     (map_fold (fun k v acc => if N.eqb (kkind k) kd && negb (N.eqb (ktoken k) 0)
                               then <[inv_key k := v]> acc else acc) (inv s) (prim s))
     (if existsb (N.eqb kd) (flags s) then flags s else kd :: flags s).

(* ListOwnersByToken: inverse entries of (kind, token) *)
Definition owners (s : istate) (kd tk : N) : list (N * Z) :=
  omap (fun p => if N.eqb (fst (fst (fst p))) kd && N.eqb (snd (fst (fst p))) tk
                 then Some (snd (fst p), snd p) else None) (map_to_list (inv s)).
(* ListBalancesByAddress: primaries of (kind, addr) with a token component *)
Definition by_addr (s : istate) (kd a : N) : list (N * Z) :=
  omap (fun p => if N.eqb (kkind (fst p)) kd && N.eqb (kaddr (fst p)) a && negb (N.eqb (ktoken (fst p)) 0)
                 then Some (ktoken (fst p), snd p) else None) (map_to_list (prim s)).

(* top-level steps of a history *)
Inductive istep :=
| STx (m : smode) (commit : bool) (os : list iop)   (* one transaction (batch item or raw invocation) *)
| SCreateIndex (kd : N)
| SLegacy (k : N * N * N) (v : Z)                    (* data written before indexing existed: primary only *)
| SOwners (kd tk : N)
| SByAddr (kd a : N)
| SGets (kd tk : N) (addrs : list N).               (* direct balance.Get of each address *)

Inductive iout :=
| OErrs (es : list (option err)) | OList (l : list (N * Z)) | OUnit.

Definition i_step (s : istate) (st : istep) : istate * iout :=
  match st with
  | STx m c os => let '(s', es) := run_ops m s s os in ((if c then s' else s), OErrs es)
  | SCreateIndex kd => (create_index s kd, OUnit)
  | SLegacy k v => (IS (bput (prim s) k v) (inv s) (flags s), OUnit)
  | SOwners kd tk => (s, OList (owners s kd tk))
  | SByAddr kd a => (s, OList (by_addr s kd a))
  | SGets kd tk addrs => (s, OList (List.map (fun a => (a, bget (prim s) (kd, a, tk))) addrs))
  end.

Fixpoint i_run (s : istate) (h : list istep) : istate * list iout :=
  match h with
  | [] => (s, [])
  | x :: r => let '(s', o) := i_step s x in
              let '(s'', os) := i_run s' r in (s'', o :: os)
  end.

Definition i_init : istate := IS ∅ ∅ [].
