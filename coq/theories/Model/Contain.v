(* Model of fault containment (C14): the call structure of an invocation as a tree of frames -
   leaves that may panic, sequences, frames with a deferred recover(), helper goroutines the caller
   waits for - and the shapes the library gives to Invoke, batchExecute and executeTasks.
   Definitions only.                                                                          *)
From Fnd Require Import Base.Prelude.

Inductive frame :=
| Leaf (id : N * N) (panics : bool)  (* a piece of code (class, index); panics: it panics on this input *)
| Seq (l : list frame)               (* one after the other, in the same goroutine *)
| Recover (f : frame)                (* defer func() { recover() }: a panic below ends this frame only *)
| Go (f : frame).                    (* a helper goroutine; the caller waits for it *)

Inductive outcome := Done | Panicking | Dead.      (* Dead: the process terminated *)
Global Instance outcome_eq_dec : EqDecision outcome.
Proof. solve_decision. Defined.

(* log: the leaves that ran, with whether they completed *)
Fixpoint run (f : frame) : outcome * list (N * N * bool) :=
  match f with
  | Leaf id p => (if p then Panicking else Done, [(id, negb p)])
  | Seq l =>
    (fix go (l : list frame) : outcome * list (N * N * bool) :=
       match l with
       | [] => (Done, [])
       | x :: r => let '(o, lg) := run x in
                   match o with
                   | Done => let '(o', lg') := go r in (o', lg ++ lg')
                   | _ => (o, lg)
                   end
       end) l
  | Recover g => let '(o, lg) := run g in (match o with Panicking => Done | _ => o end, lg)
  | Go g => let '(o, lg) := run g in (match o with Panicking => Dead | _ => o end, lg)
  end.

(* ---- the shapes of the library -------------------------------------------------------------- *)
(* any ordinary function (query, immediate, submission of a batched one, swapDone, multiSwapDone):
   Invoke's deferred recover around routing, authentication and the body *)
Definition shape_plain (route auth body : bool) : frame :=
  Recover (Seq [Leaf (0, 1)%N route; Leaf (0, 2)%N auth; Leaf (0, 3)%N body]).

(* Init has NO recover of its own (cc_core_init_invoke.go): creator check, decoding / validating the
   configuration, saving it *)
Definition shape_init (creator validate save : bool) : frame :=
  Seq [Leaf (0, 1)%N creator; Leaf (0, 2)%N validate; Leaf (0, 3)%N save].

Definition items (base : N) (wrap : frame -> frame) (ps : list bool) : list frame :=
  List.map (fun ip => wrap (Leaf (base, N.of_nat (fst ip)) (snd ip))) (combine (seq 0 (length ps)) ps).

(* batchExecute: decode; every pending transaction, swap answer and swap key under its own recover;
   commit and marshal the reply *)
Definition shape_batch (pre : bool) (txs swaps keys : list bool) (post : bool) : frame :=
  Recover (Seq (Leaf (0, 1)%N pre :: items 1 Recover txs ++ items 2 Recover swaps ++ items 3 Recover keys ++ [Leaf (0, 2)%N post])).

(* executeTasks: decode; the access-control prediction runs one goroutine per task (each with its own
   recover); every task under its own recover; commit and marshal *)
Definition shape_tasks (pre : bool) (predict tasks : list bool) (post : bool) : frame :=
  Recover (Seq (Leaf (0, 1)%N pre :: items 4 (fun f => Go (Recover f)) predict ++ items 1 Recover tasks ++ [Leaf (0, 2)%N post])).

(* the pinned commit: prediction goroutines without recover, tasks without their own recover *)
Definition shape_tasks_pinned (pre : bool) (predict tasks : list bool) (post : bool) : frame :=
  Recover (Seq (Leaf (0, 1)%N pre :: items 4 Go predict ++ items 1 (fun f => f) tasks ++ [Leaf (0, 2)%N post])).

(* what the caller sees of the items: completed or failed, in order *)
Definition item_log (base : N) (n : nat) (lg : list (N * N * bool)) : list (option bool) :=
  List.map (fun i => match List.find (fun e => bool_decide (fst e = (base, N.of_nat i))) lg with Some e => Some (snd e) | None => None end) (seq 0 n).
