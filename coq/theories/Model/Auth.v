(* Model of core/cc_auth.go: parseInvocationDetails, checkChaincodeAndChannelName,
   checkACLSignerStatus, key-type selection, the signed message, signature validation
   (with the required number of valid signatures) and the result handed to the callers.
   Cryptography is symbolic: a signature is "made with secret sk, for key type kt, over
   message m"; it verifies for public key pk under type t iff sk is pk's secret, kt = t =
   the key's own type, and m is the verified message.  Definitions only.             *)
From Fnd Require Import Base.Prelude.

Notation bytes := (list N) (only parsing).

(* key types as in proto.KeyType *)
Definition KEd : N := 0.   Definition KSecp : N := 1.   Definition KGost : N := 2.

(* what the harness knows about a presented key string *)
Record keyinfo := KI { k_id : N; k_type : N; k_len64 : bool }.

Inductive sigv :=
| SigBy (sk : N) (kt : N) (msg : list N)   (* well-formed signature made with secret sk (of key id sk) *)
| SigJunk.                                  (* decodes to something that is no signature at all *)

Inductive acl_reply :=
| AclFail                                   (* status <> 200, empty payload, or undecodable payload *)
| AclOk (addr : N) (black grey : bool) (n : N) (ktypes : list N).

Record authin := AuthIn {
  a_argc : nat;                 (* parameters of the method incl. the sender *)
  a_fn : list N;                (* function name *)
  a_args : list (list N);       (* arguments after the function name *)
  a_cc : list N; a_ch : list N; (* the chaincode id found in the proposal payload's invocation spec - written by whoever
                                   submits the proposal, no peer checks it - and the channel the stub reports *)
  a_acl : acl_reply;            (* what the access-control service answers for the presented key list *)
  a_keys : list (list N * keyinfo);   (* presented key string -> identity (absent: not a key) *)
  a_sigs : list sigv;           (* symbolic content of the signature positions *)
  a_routed : option (list N)    (* the chaincode name of the proposal's header extension: the name the peer has validated and
                                   routed the proposal by, i.e. the name of THIS chaincode (None: a proposal without header,
                                   as the repository's mock ledger builds it) *)
}.

Definition lookup_key (tbl : list (list N * keyinfo)) (s : list N) : option keyinfo :=
  match List.find (fun p => bool_decide (fst p = s)) tbl with Some p => Some (snd p) | None => None end.

Definition is_digits (s : list N) : bool :=
  match s with [] => false | _ => forallb (fun c => (48 <=? c)%N && (c <=? 57)%N) s end.

(* required number of valid signatures: the policy's n, at most (and by default) the number of signers *)
Definition required (n : N) (s : nat) : nat :=
  if (N.eqb n 0) || (s <? N.to_nat n)%nat then s else N.to_nat n.

(* the bytes that are verified *)
Definition signed_bytes (fn : list N) (args : list (list N)) (s : nat) : list N :=
  fn ++ concat (firstn (length args - s) args).

Definition sig_valid (ki : keyinfo) (t : N) (msg : list N) (sg : sigv) : bool :=
  match sg with
  | SigBy sk kt m => N.eqb sk (k_id ki) && N.eqb kt (k_type ki) && N.eqb t (k_type ki) && bool_decide (m = msg)
  | SigJunk => false
  end.

(* validateSignaturesInInvocation: blank signatures are skipped, any other must verify;
   returns the number of verified signatures *)
Fixpoint validate (keys : list (option keyinfo)) (types : list N) (sigargs : list (list N)) (sigs : list sigv)
         (msg : list N) : res nat :=
  match keys, types, sigargs, sigs with
  | k :: kr, t :: tr, sa :: sr, sg :: gr =>
    match sa with
    | [] => validate kr tr sr gr msg
    | _ => match k with
           | Some ki => if sig_valid ki t msg sg
                        then (c <- validate kr tr sr gr msg ;; Ok (S c)) else Err EBadSig
           | None => Err EBadSig
           end
    end
  | [], _, _, _ => Ok O
  | _, _, _, _ => Err EBadSig
  end.

Record authout := AuthOut { r_addr : N; r_margs : list (list N); r_nonce : list N }.

Definition auth (i : authin) : res authout :=
  let args := a_args i in
  let expected := (a_argc i - 1 + 4)%nat in
  if (length args <? expected)%nat then Err EArgs else
  if Nat.odd (length args - expected) then Err EArgs else
  let s := ((length args - expected) / 2)%nat in
  if (s =? 0)%nat then Err ENotSigned else
  if negb (bool_decide (nth 1 args [] = a_cc i)) then Err EName else
  if negb (match a_routed i with Some r => bool_decide (nth 1 args [] = r) | None => true end) then Err EName else
  if negb (bool_decide (nth 2 args [] = a_ch i)) then Err EName else
  match a_acl i with
  | AclFail => Err EAcl
  | AclOk addr black grey n ktypes =>
    if black then Err EBlack else if grey then Err EGrey else
    let keyargs := firstn s (skipn expected args) in
    let sigargs := firstn s (skipn (expected + s) args) in
    let kis := List.map (lookup_key (a_keys i)) keyargs in
    let old := negb (s =? length ktypes)%nat in
    let types := if old
                 then List.map (fun k => match k with Some ki => if k_len64 ki then KGost else KEd | None => KEd end) kis
                 else ktypes in
    let msg := signed_bytes (a_fn i) args s in
    c <- validate kis types sigargs (a_sigs i) msg ;;
    if (c <? required n s)%nat then Err EBadSig else
    let nonce := nth (expected - 1) args [] in
    if negb (is_digits nonce) then Err EBadNonce else
    Ok (AuthOut addr (firstn (a_argc i - 1) (skipn 3 args)) nonce)
  end.

(* ---- the older request format -------------------------------------------------------------- *)
(* core/auth_deprecated.go, CheckSign (kept "for backward compatibility", exported): the older request format - method
   arguments, then the keys, then the signatures; EVERY presented key must carry a valid ed25519 signature over function
   name, arguments and keys (no blank signatures, no other key types); then the access-control service *)
Fixpoint validate_all (kis : list (option keyinfo)) (sigs : list sigv) (msg : list N) : bool :=
  match kis, sigs with
  | k :: kr, sg :: gr => match k with Some ki => sig_valid ki KEd msg sg | None => false end && validate_all kr gr msg
  | [], _ => true
  | _, [] => false
  end.

Definition cs_margs (i : authin) := firstn (a_argc i - 1) (a_args i).
Definition cs_auth (i : authin) := skipn (a_argc i - 1) (a_args i).
Definition cs_signers (i : authin) : nat := (length (cs_auth i) / 2)%nat.
Definition cs_keyargs (i : authin) := firstn (cs_signers i) (cs_auth i).
Definition cs_msg (i : authin) := a_fn i ++ concat (cs_margs i ++ cs_keyargs i).
Definition cs_kis (i : authin) := List.map (lookup_key (a_keys i)) (cs_keyargs i).

Definition check_sign (i : authin) : res N :=
  if (cs_signers i =? 0)%nat then Err ENotSigned else
  if negb (validate_all (cs_kis i) (a_sigs i) (cs_msg i)) then Err EBadSig else
  match a_acl i with
  | AclFail => Err EAcl
  | AclOk addr black grey _ _ => if black then Err EBlack else if grey then Err EGrey else Ok addr
  end.

