(* Model of core/query_stub.go and of the two routes by which a query method can be reached
   (noBatchHandler in cc_core.go, ExecuteTask in task_executor.go).  Definitions only.

   A stub operation is identified by a number (the harness checks by reflection that every
   method of shim.ChaincodeStubInterface is in its table):
     1 PutState 2 DelState 3 SetStateValidationParameter 4 PutPrivateData 5 DelPrivateData
     6 PurgePrivateData 7 SetPrivateDataValidationParameter 8 SetEvent   -- mutating
     >= 20: reads and everything else (GetState, ranges, GetCreator, InvokeChaincode, ...)  *)
From Fnd Require Import Base.Prelude.

Definition mutating (op : N) : bool := (1 <=? op)%N && (op <=? 8)%N.

(* what reaches the stub underneath when [body] runs on a stub, wrapped by queryStub or not *)
Definition through (wrapped : bool) (body : list N) : list N :=
  if wrapped then List.filter (fun o => negb (mutating o)) body else body.

(* effects on the ledger / write set / event of the invocation *)
Definition effects (ops : list N) : list N := List.filter mutating ops.

Inductive qroute := QDirect | QTask.

(* one query invocation: the authentication stage (for a method with a sender: an ACL
   synchronisation write when the ACL reports changed keys; on the task route also the nonce
   window), then the body.  Both stages run on the wrapped stub; on the task route nothing of
   the transaction cache is committed for a query. *)
Definition auth_ops (r : qroute) (has_sender acl_changed : bool) : list N :=
  (if has_sender then (if acl_changed then [20; 1] else [20]) ++ (match r with QTask => [20; 1] | QDirect => [] end)
   else [])%N.

Definition run_query (r : qroute) (has_sender acl_changed : bool) (body : list N) : list N :=
  through true (auth_ops r has_sender acl_changed ++ body).
