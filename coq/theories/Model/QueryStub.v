(* Model of core/query_stub.go and of the two routes by which a query method can be reached
   (noBatchHandler in cc_core.go, ExecuteTask in task_executor.go).  Definitions only.

   A stub operation is identified by a number (the harness checks by reflection that every
   method of shim.ChaincodeStubInterface is in its table):
     1 PutState 2 DelState 3 SetStateValidationParameter 4 PutPrivateData 5 DelPrivateData
     6 PurgePrivateData 7 SetPrivateDataValidationParameter 8 SetEvent   -- mutating
     >= 20: reads and everything else (GetState, ranges, GetCreator, InvokeChaincode, ...)  *)
From Fnd Require Import Base.Prelude.

Definition mutating (op : N) : bool := (1 <=? op)%N && (op <=? 8)%N.

(* what reaches the stub underneath when [body] runs on a stub, wrapped by queryStub or not *)
Definition through (wrapped : bool) (body : list N) : list N :=
  if wrapped then List.filter (fun o => negb (mutating o)) body else body.

(* effects on the ledger / write set / event of the invocation *)
Definition effects (ops : list N) : list N := List.filter mutating ops.

Inductive qroute := QDirect | QTask.

(* one query invocation: the authentication stage (for a method with a sender: an ACL
   synchronisation write when the ACL reports changed keys; on the task route also the nonce
   window), then the body.  Both stages run on the wrapped stub; on the task route nothing of
   the transaction cache is committed for a query. *)
Definition auth_ops (r : qroute) (has_sender acl_changed : bool) : list N :=
  (if has_sender then (if acl_changed then [20; 1] else [20]) ++ (match r with QTask => [20; 1] | QDirect => [] end)
   else [])%N.

Definition run_query (r : qroute) (has_sender acl_changed : bool) (body : list N) : list N :=
  through true (auth_ops r has_sender acl_changed ++ body).

(* ---- the same with data: what the peer sees, what the body reads ------------------------------ *)
(* stub operations with their data; the peer's stub reads committed state only (a simulation never reads its own
   writes), buffers writes / deletes, keeps the last event and passes everything else on *)
Inductive qop :=
| QPut (k : N) (v : list N) | QDel (k : N) | QEvent (n : N) (v : list N)
| QOtherWrite (o : N)                       (* validation parameters, private-data writes: operations 3..7 *)
| QGet (k : N) | QOtherRead (o : N).

Definition op_no (o : qop) : N :=
  match o with QPut _ _ => 1 | QDel _ => 2 | QEvent _ _ => 8 | QOtherWrite o => o | QGet _ => 20 | QOtherRead o => o end%N.

Record peer := Peer { committed : gmap N (list N); writes : list (N * option (list N)); event : option (N * list N); others : list N }.

Definition peer_step (p : peer) (o : qop) : peer * option (list N) :=
  match o with
  | QPut k v => (Peer (committed p) (writes p ++ [(k, Some v)]) (event p) (others p), None)
  | QDel k => (Peer (committed p) (writes p ++ [(k, None)]) (event p) (others p), None)
  | QEvent n v => (Peer (committed p) (writes p) (Some (n, v)) (others p), None)
  | QOtherWrite x => (Peer (committed p) (writes p) (event p) (others p ++ [x]), None)
  | QGet k => (p, Some (default [] (committed p !! k)))
  | QOtherRead _ => (p, None)
  end.

Definition is_write (o : qop) : bool := match o with QGet _ | QOtherRead _ => false | _ => true end.

(* core/query_stub.go: the eight mutating methods answer nil without touching the stub underneath *)
Definition wrapped_step (p : peer) (o : qop) : peer * option (list N) :=
  if is_write o then (p, None) else peer_step p o.

Fixpoint run_with (step : peer -> qop -> peer * option (list N)) (p : peer) (body : list qop) : peer * list (option (list N)) :=
  match body with
  | [] => (p, [])
  | o :: r => let '(p', x) := step p o in let '(p'', xs) := run_with step p' r in (p'', x :: xs)
  end.

