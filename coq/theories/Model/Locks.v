(* Model of core/bc_external_locks.go: external locks of token and allowed balances.
   Definitions only.  [l_unl] is a ghost field (total unlocked so far).            *)
From Fnd Require Import Base.Prelude Model.Balance.
Local Open Scope Z_scope.

Record lockrec := LR { l_addr : N; l_tok : N; l_init : Z; l_cur : Z; l_unl : Z }.
Inductive fam := FTok | FAllowed.
Global Instance fam_eq_dec : EqDecision fam.
Proof. solve_decision. Defined.

Notation locks := (gmap N lockrec).
Record lstate := LS { ls_bal : bals; ls_tl : locks; ls_al : locks }.

(* spendable / locked balance keys of a family; token locks use the plain token balance *)
Definition sp_key (f : fam) (a tk : N) : N * N * N :=
  match f with FTok => (KTok, a, 0%N) | FAllowed => (KAllowed, a, tk) end.
Definition lk_key (f : fam) (a tk : N) : N * N * N :=
  match f with FTok => (KTokLocked, a, 0%N) | FAllowed => (KAllowedLocked, a, tk) end.

Definition fam_locks (st : lstate) (f : fam) : locks := match f with FTok => ls_tl st | FAllowed => ls_al st end.
Definition set_locks (st : lstate) (f : fam) (b : bals) (l : locks) : lstate :=
  match f with FTok => LS b l (ls_al st) | FAllowed => LS b (ls_tl st) l end.

Inductive lop :=
| LLock (f : fam) (sender id addr tk : N) (amt : Z)
| LUnlock (f : fam) (sender id addr tk : N) (amt : Z).

(* id 0 / tk 0 stand for the empty string *)
Definition l_apply (admin : N) (st : lstate) (o : lop) : res lstate :=
  match o with
  | LLock f s id a tk amt =>
    if negb (N.eqb s admin) then Err EUnauthorized else
    if N.eqb id 0 || N.eqb tk 0 then Err EBadArg else
    match fam_locks st f !! id with
    | Some _ => Err EExists
    | None =>
      if amt <=? 0 then Err EZeroAmount else
      b <- bmove (ls_bal st) (sp_key f a tk) (lk_key f a tk) amt ;;
      Ok (set_locks st f b (<[id := LR a tk amt amt 0]> (fam_locks st f)))
    end
  | LUnlock f s id a tk amt =>
    if negb (N.eqb s admin) then Err EUnauthorized else
    if N.eqb id 0 || N.eqb tk 0 then Err EBadArg else
    match fam_locks st f !! id with
    | None => Err ENotFound
    | Some r =>
      if l_cur r <? amt then Err EInsufficient else
      b <- bmove (ls_bal st) (lk_key f a (l_tok r)) (sp_key f a (l_tok r)) amt ;;
      Ok (set_locks st f b
            (if l_cur r =? amt then delete id (fam_locks st f)
             else <[id := LR (l_addr r) (l_tok r) (l_init r) (l_cur r - amt) (l_unl r + amt)]> (fam_locks st f)))
    end
  end.

Definition l_step (admin : N) (st : lstate) (o : lop) : lstate * option err :=
  match l_apply admin st o with Ok st' => (st', None) | Err e => (st, Some e) end.

Fixpoint l_run (admin : N) (st : lstate) (os : list lop) : lstate * list (option err) :=
  match os with
  | [] => (st, [])
  | o :: r => let '(st', e) := l_step admin st o in
              let '(st'', es) := l_run admin st' r in (st'', e :: es)
  end.

(* a request names the lock's own address (the property's quantifier) *)
Definition own_addr (st : lstate) (o : lop) : bool :=
  match o with
  | LUnlock f _ id a _ _ => match fam_locks st f !! id with Some r => N.eqb (l_addr r) a | None => true end
  | _ => true
  end.
Fixpoint all_own (admin : N) (st : lstate) (os : list lop) : bool :=
  match os with
  | [] => true
  | o :: r => own_addr st o && all_own admin (fst (l_step admin st o)) r
  end.
