(* The request pipeline end to end, composed of the component models: the gate of Chaincode.Invoke
   (Model/Gate.v: creator, robot, disabled method), the authentication of a signed request (Model/Auth.v), the
   pending store and the batch / task execution through the layered caches (Model/Batch.v, Model/Cache.v,
   Model/Nonce.v), for a contract with one scripted batched method.  Definitions only.

   A request is one chaincode invocation:
     PSubmit  - a direct call of the batched method with a signed request (BatchHandler: gate, authentication,
                saveToBatch); [bi] is the index of the script it carries in the body table
     PBatch   - batchExecute with a list of transaction ids
     PTasks   - executeTasks with a list of signed requests (each: method gate, authentication, nonce, body)   *)
From Fnd Require Import Base.Prelude Model.Cache Model.Nonce Model.Batch Model.Auth Model.Gate.

(* value of a decimal string (the nonce argument) *)
Definition dec_val (s : list N) : N := fold_left (fun a c => (10 * a + (c - 48))%N) s 0%N.

Record penv := PEnv { pe_cfg : gcfg; pe_bodies : list body; pe_method : method }.

Inductive preq :=
| PSubmit (cr : creator) (id : N) (i : authin) (bi : N)
| PBatch (cr : creator) (ids : list N)
| PTasks (cr : creator) (ts : list (authin * N)).

Inductive presp :=
| RGate (g : gres)           (* refused before any handler ran: creator error, unauthorised, not found *)
| RAuth (e : err)            (* the submission failed authentication *)
| RRecorded                  (* pending record written *)
| RItems (rs : list ires).   (* batch / task list executed: one reply per item *)

Global Instance mkind_eq_dec : EqDecision mkind.
Proof. solve_decision. Defined.
Global Instance sgroup_eq_dec : EqDecision sgroup.
Proof. solve_decision. Defined.
Global Instance method_eq_dec : EqDecision method.
Proof. solve_decision. Defined.
Global Instance handler_eq_dec : EqDecision handler.
Proof. solve_decision. Defined.
Global Instance gres_eq_dec : EqDecision gres.
Proof. solve_decision. Defined.
Global Instance presp_eq_dec : EqDecision presp.
Proof. solve_decision. Defined.

Definition ptask_item (e : penv) (b : bcs) (t : authin * N) : bcs * ires :=
  match task_gate (pe_cfg e) (FMethod (pe_method e)) with
  | GHandled _ =>
    match auth (fst t) with
    | Ok o => exec_body b (r_addr o) (dec_val (r_nonce o)) (nth_body (pe_bodies e) (snd t))
    | Err _ => (b, IErr IOther)
    end
  | _ => (b, IErr IOther)
  end.

Fixpoint ptask_items (e : penv) (b : bcs) (ts : list (authin * N)) : bcs * list ires :=
  match ts with
  | [] => (b, [])
  | t :: r => let '(b', x) := ptask_item e b t in
              let '(b'', xs) := ptask_items e b' r in (b'', x :: xs)
  end.

Definition p_step (e : penv) (l : ledger) (r : preq) : ledger * presp :=
  match r with
  | PSubmit cr id i bi =>
    match invoke_gate (pe_cfg e) cr (FMethod (pe_method e)) with
    | GHandled (Gate.HSubmit _) =>
      match auth i with
      | Ok o => (submit l id (r_addr o) (dec_val (r_nonce o)) bi, RRecorded)
      | Err x => (l, RAuth x)
      end
    | g => (l, RGate g)
    end
  | PBatch cr ids =>
    match invoke_gate (pe_cfg e) cr FBatchExecute with
    | GHandled Gate.HBatch => let '(l', rs) := batch_exec (pe_bodies e) l ids in (l', RItems rs)
    | g => (l, RGate g)
    end
  | PTasks cr ts =>
    match invoke_gate (pe_cfg e) cr FExecuteTasks with
    | GHandled HTasks => let '(b, rs) := ptask_items e (BCS l ∅ ∅) ts in (b_commit b, RItems rs)
    | g => (l, RGate g)
    end
  end.

Fixpoint p_run (e : penv) (l : ledger) (h : list preq) : ledger * list presp :=
  match h with
  | [] => (l, [])
  | r :: t => let '(l', x) := p_step e l r in let '(l'', xs) := p_run e l' t in (l'', x :: xs)
  end.

