(* Model of the per-goroutine context table of BaseContract (C17): setEnv / getEnv / delEnv keyed by
   the goroutine id, GetStub reading it, and invocations that re-obtain their context at every use,
   interleaved arbitrarily on one contract object.  Definitions only.                          *)
From Fnd Require Import Base.Prelude.

Inductive instr :=
| ISet              (* InvokeContractMethod / the swap-done branches install the context *)
| IUse (k : N)      (* the body calls GetStub() and writes key k through what it gets *)
| IDel.             (* deferred removal *)

(* an invocation: the goroutine serving it, its transaction (stub), what is left to run *)
Record cthread := CT { ct_gid : N; ct_stub : N; ct_todo : list instr }.

Record cstate := CS {
  cs_table : gmap N N;              (* context table: key -> stub *)
  cs_writes : gmap N (list N);      (* per transaction: the keys written through its stub, in order *)
  cs_nil : list N;                  (* goroutines whose GetStub() returned nil *)
  cs_threads : gmap nat cthread }.

Section Envs.
  Variable key : cthread -> N.      (* what the table is keyed by: the goroutine id in the library *)

  Definition c_step (s : cstate) (i : nat) : cstate :=
    match cs_threads s !! i with
    | None => s
    | Some t =>
      match ct_todo t with
      | [] => s
      | ins :: rest =>
        let ths := <[i := CT (ct_gid t) (ct_stub t) rest]> (cs_threads s) in
        match ins with
        | ISet => CS (<[key t := ct_stub t]> (cs_table s)) (cs_writes s) (cs_nil s) ths
        | IUse k =>
          match cs_table s !! key t with
          | Some st => CS (cs_table s) (<[st := default [] (cs_writes s !! st) ++ [k]]> (cs_writes s)) (cs_nil s) ths
          | None => CS (cs_table s) (cs_writes s) (ct_gid t :: cs_nil s) ths
          end
        | IDel => CS (delete (key t) (cs_table s)) (cs_writes s) (cs_nil s) ths
        end
      end
    end.

  Definition c_run (s : cstate) (schedule : list nat) : cstate := fold_left c_step schedule s.
End Envs.

Definition prog (ks : list N) : list instr := ISet :: List.map IUse ks ++ [IDel].
Definition mk_thread (it : N * N * list N) : cthread := CT (fst (fst it)) (snd (fst it)) (prog (snd it)).
Definition c_init (ths : list (N * N * list N)) : cstate := CS ∅ ∅ [] (map_seq 0 (List.map mk_thread ths)).
Definition by_gid (t : cthread) : N := ct_gid t.
