(* Model of core/cc_batch.go (batchExecute / batchedTxExecute / loadFromBatch / saveToBatch)
   and core/task_executor.go (ExecuteTasks / ExecuteTask) over the cache model of
   Model/Cache.v, with scripted transaction bodies.  Definitions only.

   Ledger keys are numbers: data key k -> 4k, pending record of tx id -> 4 id + 1,
   nonce window of a sender -> 4 s + 2, and 3 is the empty key "" (the code deletes it for
   an unknown id).  A pending record is the value [sender; nonce; body index].        *)
From Fnd Require Import Base.Prelude Model.Cache Model.Nonce.

Definition dk (k : N) : N := (4 * k)%N.
Definition pk (id : N) : N := (4 * id + 1)%N.
Definition nk (s : N) : N := (4 * s + 2)%N.
Definition empty_key : N := 3%N.

Inductive sstep :=
| SPut (k : N) (v : list N) | SDel (k : N) | SGet (k : N) | SEvent (n : N) (v : list N) | SFail | SPanic.
Notation body := (list sstep).

Inductive outcome := OOk | OFail | OPanic.

(* run a body on a transaction cache (reads its own writes, then the batch, then the ledger) *)
Fixpoint run_c (b : bcs) (t : tcs) (ev : gmap N (list N)) (gets : list (list N)) (bd : body)
  : outcome * bcs * tcs * gmap N (list N) * list (list N) :=
  match bd with
  | [] => (OOk, b, t, ev, gets)
  | SPut k v :: r => run_c b (t_put t k v) ev gets r
  | SDel k :: r => run_c b (t_del t k) ev gets r
  | SGet k :: r => let '(b', v) := t_get b t k in run_c b' t ev (gets ++ [v]) r
  | SEvent n v :: r => run_c b t (<[n := v]> ev) gets r
  | SFail :: _ => (OFail, b, t, ev, gets)
  | SPanic :: _ => (OPanic, b, t, ev, gets)
  end.

Definition ev_le (a b : N * list N) : Prop := (fst a <= fst b)%N.
Global Instance ev_le_dec a b : Decision (ev_le a b) := N_le_dec _ _.
Definition ev_list (ev : gmap N (list N)) : list (N * list N) := merge_sort ev_le (map_to_list ev).

Inductive ierr := INotFound | IMalformed | INonce (e : nerr) | IBody | IPanic | IOther.
Inductive ires :=
| IErr (e : ierr)
| IOk (writes : list write) (events : list (N * list N)) (gets : list (list N)).

Global Instance ierr_eq_dec : EqDecision ierr.
Proof. solve_decision. Defined.
Global Instance ires_eq_dec : EqDecision ires.
Proof. solve_decision. Defined.

(* checkNonce on the batch-level stub *)
Definition check_nonce_c (b : bcs) (s n : N) : bcs * option nerr :=
  let '(b1, w) := b_get b (nk s) in
  match set_nonce n w with
  | (w', None) => (b_put b1 (nk s) w', None)
  | (_, Some e) => (b1, Some e)
  end.

(* the body on its own transaction cache, committed only when it returns no error; a panic
   is caught per item (recover in batchedTxExecute / ExecuteTask) *)
Definition run_tx (b : bcs) (bd : body) : bcs * ires :=
  match run_c b ∅ ∅ [] bd with
  | (OOk, b2, t, ev, gets) => let '(b3, ws) := t_commit b2 t in (b3, IOk ws (ev_list ev) gets)
  | (OFail, b2, _, _, _) => (b2, IErr IBody)
  | (OPanic, b2, _, _, _) => (b2, IErr IPanic)
  end.

(* a task: nonce on the batch-level stub, then the body *)
Definition exec_body (b : bcs) (s n : N) (bd : body) : bcs * ires :=
  match check_nonce_c b s n with
  | (b1, Some e) => (b1, IErr (INonce e))
  | (b1, None) => run_tx b1 bd
  end.

Definition nth_body (bodies : list body) (i : N) : body := nth (N.to_nat i) bodies [].

(* batchedTxExecute for one listed id: load the pending record, check the nonce, remove the
   record (deferred delete of loadFromBatch, on the batch-level stub: it is removed whether
   the transaction succeeds, fails or panics), then run the body *)
Definition batch_item (bodies : list body) (b : bcs) (id : N) : bcs * ires :=
  let '(b1, data) := b_get b (pk id) in
  match data with
  | [s; n; bi] =>
    if N.eqb s 0 then run_tx (b_del b1 (pk id)) (nth_body bodies bi)   (* method without a sender: no nonce *)
    else
    match check_nonce_c b1 s n with
    | (b2, Some e) => (b_del b2 (pk id), IErr (INonce e))
    | (b2, None) => run_tx (b_del b2 (pk id)) (nth_body bodies bi)
    end
  | [] => (b1, IErr INotFound)          (* unknown id: nothing else is touched *)
  | _ => (b_del b1 (pk id), IErr IMalformed)   (* undecodable record: removed, reported *)
  end.

Fixpoint batch_items (bodies : list body) (b : bcs) (ids : list N) : bcs * list ires :=
  match ids with
  | [] => (b, [])
  | id :: r => let '(b', x) := batch_item bodies b id in
               let '(b'', xs) := batch_items bodies b' r in (b'', x :: xs)
  end.

(* batchExecute: one batch cache over the ledger, one commit at the end *)
Definition batch_exec (bodies : list body) (l : ledger) (ids : list N) : ledger * list ires :=
  let '(b, rs) := batch_items bodies (BCS l ∅ ∅) ids in (b_commit b, rs).

(* saveToBatch *)
Definition submit (l : ledger) (id s n bi : N) : ledger := led_put l (pk id) [s; n; bi].

(* executeTasks: a task carries its sender, nonce and body itself *)
Record task := Task { tk_sender : N; tk_nonce : N; tk_body : N }.
Fixpoint task_items (bodies : list body) (b : bcs) (ts : list task) : bcs * list ires :=
  match ts with
  | [] => (b, [])
  | t :: r => let '(b', x) := exec_body b (tk_sender t) (tk_nonce t) (nth_body bodies (tk_body t)) in
              let '(b'', xs) := task_items bodies b' r in (b'', x :: xs)
  end.
Definition tasks_exec (bodies : list body) (l : ledger) (ts : list task) : ledger * list ires :=
  let '(b, rs) := task_items bodies (BCS l ∅ ∅) ts in (b_commit b, rs).

(* ---- specification: serial, all-or-nothing execution on a plain ledger map ---------- *)
Fixpoint run_p (m : ledger) (ev : gmap N (list N)) (gets : list (list N)) (bd : body)
  : outcome * ledger * gmap N (list N) * list (list N) :=
  match bd with
  | [] => (OOk, m, ev, gets)
  | SPut k v :: r => run_p (led_put m k v) ev gets r
  | SDel k :: r => run_p (led_del m k) ev gets r
  | SGet k :: r => run_p m ev (gets ++ [led_get m k]) r
  | SEvent n v :: r => run_p m (<[n := v]> ev) gets r
  | SFail :: _ => (OFail, m, ev, gets)
  | SPanic :: _ => (OPanic, m, ev, gets)
  end.

(* the writes a body produces: its final write or delete per key *)
Fixpoint body_writes (t : tcs) (bd : body) : tcs :=
  match bd with
  | [] => t
  | SPut k v :: r => body_writes (t_put t k v) r
  | SDel k :: r => body_writes (t_del t k) r
  | SFail :: _ | SPanic :: _ => t
  | _ :: r => body_writes t r
  end.

Definition spec_tx (l : ledger) (bd : body) : ledger * ires :=
  match run_p l ∅ [] bd with
  | (OOk, l2, ev, gets) => (l2, IOk (wlist (body_writes ∅ bd)) (ev_list ev) gets)
  | (OFail, _, _, _) => (l, IErr IBody)
  | (OPanic, _, _, _) => (l, IErr IPanic)
  end.

Definition spec_body (l : ledger) (s n : N) (bd : body) : ledger * ires :=
  match set_nonce n (led_get l (nk s)) with
  | (_, Some e) => (l, IErr (INonce e))
  | (w', None) => spec_tx (led_put l (nk s) w') bd     (* the nonce is consumed whatever the body does *)
  end.

Definition spec_item (bodies : list body) (l : ledger) (id : N) : ledger * ires :=
  match led_get l (pk id) with
  | [s; n; bi] =>
    if N.eqb s 0 then spec_tx (led_del l (pk id)) (nth_body bodies bi)
    else
    match set_nonce n (led_get l (nk s)) with
    | (_, Some e) => (led_del l (pk id), IErr (INonce e))
    | (w', None) => spec_tx (led_del (led_put l (nk s) w') (pk id)) (nth_body bodies bi)
    end
  | [] => (l, IErr INotFound)
  | _ => (led_del l (pk id), IErr IMalformed)
  end.

Fixpoint spec_batch (bodies : list body) (l : ledger) (ids : list N) : ledger * list ires :=
  match ids with
  | [] => (l, [])
  | id :: r => let '(l', x) := spec_item bodies l id in
               let '(l'', xs) := spec_batch bodies l' r in (l'', x :: xs)
  end.

Fixpoint spec_tasks (bodies : list body) (l : ledger) (ts : list task) : ledger * list ires :=
  match ts with
  | [] => (l, [])
  | t :: r => let '(l', x) := spec_body l (tk_sender t) (tk_nonce t) (nth_body bodies (tk_body t)) in
              let '(l'', xs) := spec_tasks bodies l' r in (l'', x :: xs)
  end.
