(* Model of the access decisions of Chaincode.Init / Chaincode.Invoke (cc_core_init_invoke.go,
   cc_core.go), the executeTasks route (task_executor.go), hlfcreator (creator checks) and the
   admin-only methods.  Definitions only.                                              *)
From Fnd Require Import Base.Prelude.

(* what matters of a creator: is it a parsable ECDSA x509 identity, its SKI, the hash of the
   serialized identity, and whether its OU is "admin" *)
Record creator := Creator { cr_ok : bool; cr_ski : N; cr_hash : N; cr_admin_ou : bool }.

(* a method of the contract *)
Inductive mkind := MTx | MNBTx | MQuery.
Inductive sgroup := GNone | GSwap | GMultiSwap.
Record method := Method { m_id : N; m_kind : mkind; m_auth : bool; m_group : sgroup; m_admin_only : bool }.

Record gcfg := GCfg {
  g_robot : N;                 (* configured robotSKI (0: empty) *)
  g_admin : N;                 (* configured admin address (0: not set) *)
  g_disabled : list N;         (* ids of disabled methods *)
  g_noswaps : bool; g_nomultiswaps : bool
}.

Inductive fname :=
| FCreateIndex | FBatchExecute | FSwapDone | FMultiSwapDone | FExecuteTasks
| FRobotFn (m : method)        (* createCCTransferTo, deleteCCTransferTo, commit/cancel/deleteCCTransferFrom *)
| FMethod (m : method)         (* any other function that maps to a method *)
| FUnknown.

Inductive handler := HIndex | HBatch | HSwapDone | HMultiSwapDone | HTasks | HImmediate (m : method) | HSubmit (m : method).
Inductive gres := GCreatorErr | GUnauthorized | GNotFound | GSwapOff | GHandled (h : handler).

Definition is_robot (c : gcfg) (cr : creator) : bool :=
  negb (N.eqb (g_robot c) 0) && (N.eqb (g_robot c) (cr_ski cr) || N.eqb (g_robot c) (cr_hash cr)).

Definition disabled (c : gcfg) (m : method) : bool :=
  existsb (N.eqb (m_id m)) (g_disabled c) ||
  (g_noswaps c && match m_group m with GSwap => true | _ => false end) ||
  (g_nomultiswaps c && match m_group m with GMultiSwap => true | _ => false end).

Definition route_method (c : gcfg) (m : method) : gres :=
  if disabled c m then GNotFound
  else match m_kind m with MTx => GHandled (HSubmit m) | _ => GHandled (HImmediate m) end.

(* Chaincode.Invoke up to the hand-over to a handler (a stored configuration exists) *)
Definition invoke_gate (c : gcfg) (cr : creator) (f : fname) : gres :=
  if negb (cr_ok cr) then GCreatorErr else
  match f with
  | FCreateIndex => GHandled HIndex
  | FBatchExecute => if is_robot c cr then GHandled HBatch else GUnauthorized
  | FSwapDone => if g_noswaps c then GSwapOff else GHandled HSwapDone
  | FMultiSwapDone => if g_nomultiswaps c then GSwapOff else GHandled HMultiSwapDone
  | FExecuteTasks => GHandled HTasks
  | FRobotFn m => if is_robot c cr then route_method c m else GUnauthorized
  | FMethod m => route_method c m
  | FUnknown => GNotFound
  end.

(* one task inside executeTasks: method lookup and the disabled-function test *)
Definition task_gate (c : gcfg) (f : fname) : gres :=
  match f with
  | FMethod m | FRobotFn m => if disabled c m then GNotFound else if m_auth m then GHandled (HImmediate m) else GUnauthorized
  | _ => GNotFound
  end.

(* Init *)
Definition init_gate (cr : creator) : bool := cr_ok cr && cr_admin_ou cr.

(* admin-only methods (external locks, forced transfer, transfer by admin): inside the body *)
Definition admin_gate (c : gcfg) (sender : N) : bool := negb (N.eqb (g_admin c) 0) && N.eqb sender (g_admin c).

(* batchExecute: the swap answers / keys and the multi-swap answers / keys carried by a batch
   are processed only while the respective switch is on *)
Definition batch_sections (c : gcfg) : bool * bool := (negb (g_noswaps c), negb (g_nomultiswaps c)).
