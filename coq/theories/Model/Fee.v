(* Model of token/transfer.go, token/buy_buyback.go, proto/limit.go, token/methods.go
   (rates, limits) and the harness token's emit: fee and price arithmetic and the legs
   of transfer / buy / buy-back.  Definitions only.                                 *)
From Fnd Require Import Base.Prelude Model.Balance.
Local Open Scope Z_scope.

Definition dec8 : Z := 100000000.          (* 10^feeDecimals = 10^RateDecimal *)

Record feecfg := FeeCfg { f_set : bool; f_cur : N; f_share : Z; f_floor : Z; f_cap : Z }.
Record rate := Rate { r_deal : N; r_cur : N; r_rate : Z; r_min : Z; r_max : Z }.
Definition DBuy : N := 0.      (* "buyToken" *)
Definition DBack : N := 1.     (* "buyBack" *)

Record tstate := TS {
  ts_bal : bals;
  ts_fee : feecfg;
  ts_feeaddr : option N;
  ts_rates : list rate;
  ts_emission : Z
}.

(* static environment: own symbol (currency id), role addresses, user ids from the ACL *)
Record tenv := TEnv {
  e_sym : N; e_issuer : N; e_feesetter : N; e_feeaddrsetter : N;
  e_uid : list (N * N)        (* address -> user id, 0 / absent = empty *)
}.
Definition uid (env : tenv) (a : N) : N :=
  match List.find (fun p => N.eqb (fst p) a) (e_uid env) with Some p => snd p | None => 0%N end.
Definition same_user (env : tenv) (a b : N) : bool :=
  negb (N.eqb (uid env a) 0) && negb (N.eqb (uid env b) 0) && N.eqb (uid env a) (uid env b).

Definition find_rate (rs : list rate) (deal cur : N) : option rate :=
  List.find (fun r => N.eqb (r_deal r) deal && N.eqb (r_cur r) cur) rs.

(* calcFee *)
Definition calc_fee (env : tenv) (st : tstate) (a : Z) : res (Z * N) :=
  let f := ts_fee st in
  if negb (f_set f) || (f_share f =? 0) then Ok (0, e_sym env) else
  let raw := a * f_share f / dec8 in
  conv <- (if N.eqb (f_cur f) (e_sym env) then Ok raw
           else match find_rate (ts_rates st) DBuy (f_cur f) with
                | Some r => Ok (raw * r_rate r / dec8)
                | None => Err EFeeCurrency
                end) ;;
  let f1 := if conv <? f_floor f then f_floor f else conv in
  let f2 := if (0 <? f_cap f) && (f_cap f <? f1) then f_cap f else f1 in
  Ok (f2, f_cur f).

(* calcTransferFee *)
Definition calc_transfer_fee (env : tenv) (st : tstate) (a : Z) (s r : N) : res (Z * N) :=
  fc <- calc_fee env st a ;;
  if negb (same_user env s r) && (0 <? fst fc) then Ok fc else Ok (0, e_sym env).

(* transferFee *)
Definition transfer_fee (env : tenv) (st : tstate) (b : bals) (a : Z) (s r : N) : res bals :=
  let f := ts_fee st in
  match f_set f, ts_feeaddr st with
  | true, None => Err EFeeAddr
  | _, _ =>
    if f_set f && N.eqb (f_cur f) 0 then Err EFeeCurrency else
    fc <- calc_transfer_fee env st a s r ;;
    if fst fc <=? 0 then Ok b else
    match ts_feeaddr st with
    | None => Err EFeeAddr     (* unreachable: a positive fee needs f_set *)
    | Some fa =>
      if N.eqb (f_cur f) (e_sym env) then bmove b (tok s) (tok fa) (fst fc)
      else bmove b (allowed s (snd fc)) (allowed fa (snd fc)) (fst fc)
    end
  end.

Inductive top :=
| OEmit (s to : N) (a : Z)
| OTransfer (s r : N) (a : Z)
| OSetFee (s : N) (cur : N) (share floor cap : Z)
| OSetFeeAddr (s : N) (addr : N)
| OSetRate (s : N) (deal cur : N) (r : Z)
| OSetLimits (s : N) (deal cur : N) (mn mx : Z)
| OBuy (s : N) (a : Z) (cur : N)
| OBuyBack (s : N) (a : Z) (cur : N).

Definition with_bal (st : tstate) (b : bals) : tstate :=
  TS b (ts_fee st) (ts_feeaddr st) (ts_rates st) (ts_emission st).

Fixpoint set_rate (rs : list rate) (deal cur : N) (r : Z) : list rate :=
  match rs with
  | [] => [Rate deal cur r 0 0]
  | x :: t => if N.eqb (r_deal x) deal && N.eqb (r_cur x) cur
              then Rate deal cur r (r_min x) (r_max x) :: t else x :: set_rate t deal cur r
  end.
Fixpoint set_limits (rs : list rate) (deal cur : N) (mn mx : Z) : option (list rate) :=
  match rs with
  | [] => None
  | x :: t => if N.eqb (r_deal x) deal && N.eqb (r_cur x) cur
              then Some (Rate deal cur (r_rate x) mn mx :: t)
              else match set_limits t deal cur mn mx with Some t' => Some (x :: t') | None => None end
  end.

Definition in_limit (r : rate) (a : Z) : bool := (r_min r <=? a) && ((r_max r =? 0) || (a <=? r_max r)).
Definition price (r : rate) (a : Z) : Z := a * r_rate r / dec8.

(* one batched transaction: Ok new state, or Err (the state is left unchanged: the
   transaction cache is dropped, see C04) *)
Definition t_apply (env : tenv) (st : tstate) (o : top) : res tstate :=
  match o with
  | OEmit s to a =>
    if negb (N.eqb s (e_issuer env)) then Err EUnauthorized else
    if a <? 0 then Err ENegative else
    if a =? 0 then Err EZeroAmount else
    b <- badd (ts_bal st) (tok to) a ;;
    Ok (TS b (ts_fee st) (ts_feeaddr st) (ts_rates st) (ts_emission st + a))
  | OTransfer s r a =>
    if a <? 0 then Err ENegative else
    if N.eqb s r then Err ESameUser else
    if a =? 0 then Err EZeroAmount else
    b1 <- bmove (ts_bal st) (tok s) (tok r) a ;;
    b2 <- transfer_fee env st b1 a s r ;;
    Ok (with_bal st b2)
  | OSetFee s cur share floor cap =>
    if (share <? 0) || (floor <? 0) || (cap <? 0) then Err ENegative else
    if negb (N.eqb s (e_feesetter env)) then Err EUnauthorized else
    if dec8 <? share then Err EFeeTooBig else
    if (0 <? cap) && (cap <? floor) then Err EBadLimits else
    if N.eqb cur (e_sym env) || existsb (fun r => N.eqb (r_cur r) cur) (ts_rates st)
    then Ok (TS (ts_bal st) (FeeCfg true cur share floor cap) (ts_feeaddr st) (ts_rates st) (ts_emission st))
    else Err EFeeCurrency
  | OSetFeeAddr s addr =>
    if negb (N.eqb s (e_feeaddrsetter env)) then Err EUnauthorized else
    Ok (TS (ts_bal st) (ts_fee st) (Some addr) (ts_rates st) (ts_emission st))
  | OSetRate s deal cur r =>
    if r <? 0 then Err ENegative else
    if negb (N.eqb s (e_issuer env)) then Err EUnauthorized else
    if r =? 0 then Err ERateZero else
    if N.eqb cur (e_sym env) then Err ECurrencyIsToken else
    Ok (TS (ts_bal st) (ts_fee st) (ts_feeaddr st) (set_rate (ts_rates st) deal cur r) (ts_emission st))
  | OSetLimits s deal cur mn mx =>
    if (mn <? 0) || (mx <? 0) then Err ENegative else
    if negb (N.eqb s (e_issuer env)) then Err EUnauthorized else
    if (mx <? mn) && (0 <? mx) then Err EBadLimits else
    match set_limits (ts_rates st) deal cur mn mx with
    | Some rs => Ok (TS (ts_bal st) (ts_fee st) (ts_feeaddr st) rs (ts_emission st))
    | None => Err ENoRate
    end
  | OBuy s a cur =>
    if a <? 0 then Err ENegative else
    if N.eqb s (e_issuer env) then Err EIssuerOp else
    if a =? 0 then Err EZeroAmount else
    match find_rate (ts_rates st) DBuy cur with
    | None => Err ENoRate
    | Some r =>
      if negb (in_limit r a) then Err ELimits else
      b1 <- bmove (ts_bal st) (allowed s cur) (allowed (e_issuer env) cur) (price r a) ;;
      b2 <- bmove b1 (tok (e_issuer env)) (tok s) a ;;
      Ok (with_bal st b2)
    end
  | OBuyBack s a cur =>
    if a <? 0 then Err ENegative else
    if N.eqb s (e_issuer env) then Err EIssuerOp else
    if a =? 0 then Err EZeroAmount else
    match find_rate (ts_rates st) DBack cur with
    | None => Err ENoRate
    | Some r =>
      if negb (in_limit r a) then Err ELimits else
      b1 <- bmove (ts_bal st) (allowed (e_issuer env) cur) (allowed s cur) (price r a) ;;
      b2 <- bmove b1 (tok s) (tok (e_issuer env)) a ;;
      Ok (with_bal st b2)
    end
  end.

Definition t_step (env : tenv) (st : tstate) (o : top) : tstate * option err :=
  match t_apply env st o with Ok st' => (st', None) | Err e => (st, Some e) end.

Fixpoint t_run (env : tenv) (st : tstate) (os : list top) : tstate * list (option err) :=
  match os with
  | [] => (st, [])
  | o :: r => let '(st', e) := t_step env st o in
              let '(st'', es) := t_run env st' r in (st'', e :: es)
  end.
