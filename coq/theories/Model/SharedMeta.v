(* Model of the token metadata object kept on the contract (token/token.go, field config): every
   metadata operation loads the committed record into a fresh object and stores the pointer in the
   contract's field, mutates the object the field points to, and saves the object the field points
   to through its own transaction.  Invocations interleave on one contract.  Definitions only. *)
From Fnd Require Import Base.Prelude.

Inductive minstr := MLoad | MMut (bit : N) | MSave.

Record mthread := MT { mt_todo : list minstr; mt_saved : option (list N) }.
Record mstate := MS {
  ms_objs : gmap N (list N);      (* heap: object -> the settings it holds *)
  ms_field : gmap nat N;          (* the contract's field(s): -> object *)
  ms_next : N;
  ms_threads : gmap nat mthread }.

Section SharedMeta.
  Variable base : list N.          (* the committed metadata *)
  Variable slot : nat -> nat.      (* which field an invocation uses: fun _ => 0 (one field on the contract) *)

  Definition m_step (s : mstate) (i : nat) : mstate :=
    match ms_threads s !! i with
    | None => s
    | Some t =>
      match mt_todo t with
      | [] => s
      | ins :: rest =>
        match ins with
        | MLoad =>
          MS (<[ms_next s := base]> (ms_objs s)) (<[slot i := ms_next s]> (ms_field s)) (ms_next s + 1)
             (<[i := MT rest (mt_saved t)]> (ms_threads s))
        | MMut b =>
          match ms_field s !! slot i with
          | Some o => MS (<[o := default [] (ms_objs s !! o) ++ [b]]> (ms_objs s)) (ms_field s) (ms_next s)
                         (<[i := MT rest (mt_saved t)]> (ms_threads s))
          | None => MS (ms_objs s) (ms_field s) (ms_next s) (<[i := MT rest (mt_saved t)]> (ms_threads s))
          end
        | MSave =>
          let v := match ms_field s !! slot i with Some o => default [] (ms_objs s !! o) | None => [] end in
          MS (ms_objs s) (ms_field s) (ms_next s) (<[i := MT rest (Some v)]> (ms_threads s))
        end
      end
    end.

  Definition m_meta_run (bits : list N) (schedule : list nat) : mstate :=
    fold_left m_step schedule
      (MS ∅ ∅ 0 (map_seq 0 (List.map (fun b => MT [MLoad; MMut b; MSave] None) bits))).
  Definition saved_of (s : mstate) (i : nat) : option (list N) :=
    match ms_threads s !! i with Some t => mt_saved t | None => None end.
End SharedMeta.
