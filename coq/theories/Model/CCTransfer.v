(* Model of core/bc_chtransfer.go + core/cctransfer: cross-channel transfers.
   A channel is identified with its token symbol (a number); a token is (symbol, group),
   group 0 = the plain token.  Definitions only.                                       *)
From Fnd Require Import Base.Prelude Model.Balance.
Local Open Scope Z_scope.

(* full token name as one number; channel / token symbols are interned below 1000 *)
Definition tk_enc (sym grp : N) : N := (grp * 1000 + sym)%N.
Definition tk_sym (t : N) : N := (t mod 1000)%N.

Record ccrec := CC { cc_from : N; cc_to : N; cc_sym : N; cc_grp : N; cc_user : N; cc_amt : Z;
                     cc_fwd : bool; cc_commit : bool }.
Global Instance ccrec_eq_dec : EqDecision ccrec.
Proof. solve_decision. Defined.

Notation ccmap := (gmap N ccrec).
Record chan := Chan { ch_me : N; ch_admin : N; ch_bal : bals; ch_from : ccmap; ch_to : ccmap }.

Definition with_bal (c : chan) (b : bals) : chan := Chan (ch_me c) (ch_admin c) b (ch_from c) (ch_to c).

(* ccTransferChangeBalance *)
Inductive cckind := KCreateFrom | KCreateTo | KCancelFrom.
Definition change_balance (k : cckind) (b : bals) (r : ccrec) : res bals :=
  let u := cc_user r in let a := cc_amt r in
  let tokk := (KTok, u, cc_grp r) in let allk := (KAllowed, u, tk_enc (cc_sym r) (cc_grp r)) in
  match k, cc_fwd r with
  | KCreateFrom, true => b1 <- bsub b tokk a ;; badd b1 (KGiven, cc_to r, 0%N) a
  | KCreateFrom, false => bsub b allk a
  | KCreateTo, true => badd b allk a
  | KCreateTo, false => b1 <- badd b tokk a ;; bsub b1 (KGiven, cc_from r, 0%N) a
  | KCancelFrom, true => b1 <- badd b tokk a ;; bsub b1 (KGiven, cc_to r, 0%N) a
  | KCancelFrom, false => badd b allk a
  end.

Inductive ccop :=
| OFromCustomer (sender id to sym grp : N) (amt : Z) (valid_id : bool)
| OFromAdmin (sender id to user sym grp : N) (amt : Z) (valid_id : bool)
| OCreateTo (id : N) (r : ccrec) (valid_id : bool)          (* robot; r is the record handed over *)
| OCancelFrom (id : N)
| OCommitFrom (id : N)
| ODeleteFrom (id : N)
| ODeleteTo (id : N).

Definition create_from (c : chan) (id to user sym grp : N) (amt : Z) (valid_id : bool) : res chan :=
  if amt <? 0 then Err ENegative else
  if negb valid_id || (1000 <=? sym)%N || (1000 <=? to)%N then Err EBadArg else
  if N.eqb (ch_me c) to then Err EChannel else
  if negb (N.eqb (ch_me c) sym) && negb (N.eqb to sym) then Err EToken else
  match ch_from c !! id with
  | Some _ => Err EExists
  | None =>
    let r := CC (ch_me c) to sym grp user amt (N.eqb (ch_me c) sym) false in
    b <- change_balance KCreateFrom (ch_bal c) r ;;
    Ok (Chan (ch_me c) (ch_admin c) b (<[id := r]> (ch_from c)) (ch_to c))
  end.

Definition cc_apply (c : chan) (o : ccop) : res chan :=
  match o with
  | OFromCustomer s id to sym grp amt v => create_from c id to s sym grp amt v
  | OFromAdmin s id to user sym grp amt v =>
    if amt <? 0 then Err ENegative else
    if N.eqb (ch_admin c) 0 || negb (N.eqb s (ch_admin c)) then Err EUnauthorized else
    if N.eqb s user then Err EBadArg else
    create_from c id to user sym grp amt v
  | OCreateTo id r v =>
    if negb v || (1000 <=? cc_sym r)%N then Err EBadArg else
    match ch_to c !! id with
    | Some _ => Err EExists
    | None =>
      if negb (N.eqb (ch_me c) (cc_from r)) && negb (N.eqb (ch_me c) (cc_to r)) then Err EChannel else
      if N.eqb (cc_from r) (cc_to r) then Err EChannel else
      if negb (N.eqb (cc_from r) (cc_sym r)) && negb (N.eqb (cc_to r) (cc_sym r)) then Err EToken else
      if negb (Bool.eqb (N.eqb (cc_from r) (cc_sym r)) (cc_fwd r)) then Err EToken else
      let r' := CC (cc_from r) (cc_to r) (cc_sym r) (cc_grp r) (cc_user r) (cc_amt r) (cc_fwd r) true in
      b <- change_balance KCreateTo (ch_bal c) r' ;;
      Ok (Chan (ch_me c) (ch_admin c) b (ch_from c) (<[id := r']> (ch_to c)))
    end
  | OCancelFrom id =>
    match ch_from c !! id with
    | None => Err ENotFound
    | Some r =>
      if cc_commit r then Err ECommitted else
      b <- change_balance KCancelFrom (ch_bal c) r ;;
      Ok (Chan (ch_me c) (ch_admin c) b (delete id (ch_from c)) (ch_to c))
    end
  | OCommitFrom id =>
    match ch_from c !! id with
    | None => Err ENotFound
    | Some r =>
      if cc_commit r then Err ECommitted else
      Ok (Chan (ch_me c) (ch_admin c) (ch_bal c)
               (<[id := CC (cc_from r) (cc_to r) (cc_sym r) (cc_grp r) (cc_user r) (cc_amt r) (cc_fwd r) true]> (ch_from c)) (ch_to c))
    end
  | ODeleteFrom id =>
    match ch_from c !! id with
    | None => Err ENotFound
    | Some r => if cc_commit r then Ok (Chan (ch_me c) (ch_admin c) (ch_bal c) (delete id (ch_from c)) (ch_to c))
                else Err ENotCommitted
    end
  | ODeleteTo id =>
    match ch_to c !! id with
    | None => Err ENotFound
    | Some r => if cc_commit r then Ok (Chan (ch_me c) (ch_admin c) (ch_bal c) (ch_from c) (delete id (ch_to c)))
                else Err ENotCommitted
    end
  end.

Definition cc_step (c : chan) (o : ccop) : chan * option err :=
  match cc_apply c o with Ok c' => (c', None) | Err e => (c, Some e) end.

Fixpoint cc_run (c : chan) (os : list ccop) : chan * list (option err) :=
  match os with
  | [] => (c, [])
  | o :: r => let '(c', e) := cc_step c o in let '(c'', es) := cc_run c' r in (c'', e :: es)
  end.

(* ---- two channels and a robot that follows the protocol ----------------------------- *)
Record sys := Sys { sA : chan; sB : chan }.

Inductive act :=
| AUser (at_a : bool) (o : ccop)        (* an initiation attempt by a customer / the admin, on either channel *)
| ACreateTo (a2b : bool) (id : N)       (* robot: hand the origin record to the destination *)
| ACommit (a2b : bool) (id : N)
| ADeleteTo (a2b : bool) (id : N)
| ADeleteFrom (a2b : bool) (id : N)
| ACancel (a2b : bool) (id : N).

Definition origin (s : sys) (a2b : bool) : chan := if a2b then sA s else sB s.
Definition dest (s : sys) (a2b : bool) : chan := if a2b then sB s else sA s.
Definition put_origin (s : sys) (a2b : bool) (c : chan) : sys := if a2b then Sys c (sB s) else Sys (sA s) c.
Definition put_dest (s : sys) (a2b : bool) (c : chan) : sys := if a2b then Sys (sA s) c else Sys c (sB s).

Definition is_user_op (o : ccop) : bool :=
  match o with OFromCustomer _ _ _ _ _ _ _ | OFromAdmin _ _ _ _ _ _ _ _ => true | _ => false end.

(* enabledness is a function of the two ledgers only: a robot that stops after any step and
   resumes from ledger state is just another interleaving *)
Definition sys_step (s : sys) (a : act) : sys :=
  match a with
  | AUser at_a o =>
    if is_user_op o then (if at_a then Sys (fst (cc_step (sA s) o)) (sB s) else Sys (sA s) (fst (cc_step (sB s) o))) else s
  | ACreateTo d id =>
    match ch_from (origin s d) !! id, ch_to (dest s d) !! id with
    | Some r, None => if cc_commit r || negb (N.eqb (cc_to r) (ch_me (dest s d))) then s
                      else put_dest s d (fst (cc_step (dest s d) (OCreateTo id r true)))
    | _, _ => s
    end
  | ACommit d id =>
    match ch_from (origin s d) !! id, ch_to (dest s d) !! id with
    | Some r, Some _ => if cc_commit r then s else put_origin s d (fst (cc_step (origin s d) (OCommitFrom id)))
    | _, _ => s
    end
  | ADeleteTo d id =>
    match ch_from (origin s d) !! id, ch_to (dest s d) !! id with
    | Some r, Some _ => if cc_commit r then put_dest s d (fst (cc_step (dest s d) (ODeleteTo id))) else s
    | _, _ => s
    end
  | ADeleteFrom d id =>
    match ch_from (origin s d) !! id, ch_to (dest s d) !! id with
    | Some r, None => if cc_commit r then put_origin s d (fst (cc_step (origin s d) (ODeleteFrom id))) else s
    | _, _ => s
    end
  | ACancel d id =>
    match ch_from (origin s d) !! id, ch_to (dest s d) !! id with
    | Some r, None => if cc_commit r then s else put_origin s d (fst (cc_step (origin s d) (OCancelFrom id)))
    | _, _ => s
    end
  end.

Definition sys_run (s : sys) (l : list act) : sys := fold_left sys_step l s.

(* two fresh channels with symbols a and b *)
Definition sys0 (a b adminA adminB : N) (balA balB : bals) : sys :=
  Sys (Chan a adminA balA ∅ ∅) (Chan b adminB balB ∅ ∅).
