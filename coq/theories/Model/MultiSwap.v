(* Model of core/bc_multiswap.go, core/multiswap/multiswap.go, core/cc_multiswap.go: multi-asset
   hash-locked swaps.  As Model/Swap.v, with a list of assets (ticker symbol, group, amount) moved
   all-or-nothing, the creator/time-out guards of multiSwapCancel, and a clock.  Definitions only. *)
From Fnd Require Import Base.Prelude Model.Balance Model.CCTransfer.
Local Open Scope Z_scope.

Record asset := AS { a_sym : N; a_grp : N; a_amt : Z }.
Global Instance asset_eq_dec : EqDecision asset.
Proof. solve_decision. Defined.
Record mrec := MW { mw_creator : N; mw_owner : N; mw_sym : N; mw_assets : list asset;
                    mw_from : N; mw_to : N; mw_hash : N; mw_timeout : Z }.
Global Instance mrec_eq_dec : EqDecision mrec.
Proof. solve_decision. Defined.
Notation mmap := (gmap N mrec).

Record mchan := MChan { mc_me : N; mc_bal : bals; mc_swaps : mmap }.

Definition user_timeout : Z := 10800.
Definition robot_timeout : Z := 300.

(* the three balance keys an asset can touch: the ticker's group of the channel's own token, the
   allowed balance of the full ticker, the given-out counter of a channel *)
Definition tok_key (u : N) (a : asset) : N * N * N := (KTok, u, a_grp a).
Definition alw_key (u : N) (a : asset) : N * N * N := (KAllowed, u, tk_enc (a_sym a) (a_grp a)).
Definition giv_key (x : N) (_ : asset) : N * N * N := (KGiven, x, 0%N).

Fixpoint sub_all (b : bals) (key : asset -> N * N * N) (l : list asset) : res bals :=
  match l with [] => Ok b | a :: r => b' <- bsub b (key a) (a_amt a) ;; sub_all b' key r end.
Fixpoint add_all (b : bals) (key : asset -> N * N * N) (l : list asset) : res bals :=
  match l with [] => Ok b | a :: r => b' <- badd b (key a) (a_amt a) ;; add_all b' key r end.

Inductive mop :=
| MBegin (now : Z) (sender id sym : N) (assets : list asset) (to hash : N)
| MCancel (now : Z) (sender id : N)
| MAnswer (now : Z) (id : N) (r : mrec)      (* robot, inside a batch *)
| MRobotDone (id key : N)                    (* robot, inside a batch *)
| MUserDone (id key : N).                    (* anyone, immediate; publishes the key on success *)

Definition mdirect (r : mrec) : bool := N.eqb (mw_sym r) (mw_from r).
Definition mreverse (r : mrec) : bool := N.eqb (mw_sym r) (mw_to r).
Definition mown (r : mrec) : bool := N.eqb (mw_creator r) (mw_owner r).
Definition mcopy (now : Z) (r : mrec) : mrec :=
  MW 0 (mw_owner r) (mw_sym r) (mw_assets r) (mw_from r) (mw_to r) (mw_hash r) (now + robot_timeout).

Definition m_apply (c : mchan) (o : mop) : res (mchan * option (N * N * N)) :=
  let me := mc_me c in
  match o with
  | MBegin now s id sym assets to h =>
    if existsb (fun a => a_amt a <? 0) assets then Err ENegative else
    match assets with [] => Err EBadArg | _ =>
    if (1000 <=? sym)%N || existsb (fun a => 1000 <=? a_sym a)%N assets then Err EBadArg else
    b <- (if N.eqb sym me then sub_all (mc_bal c) (tok_key s) assets
          else if N.eqb sym to then sub_all (mc_bal c) (alw_key s) assets
          else Err EBadArg) ;;
    match mc_swaps c !! id with
    | Some _ => Err EExists
    | None => Ok (MChan me b (<[id := MW s s sym assets me to h (now + user_timeout)]> (mc_swaps c)), None)
    end end
  | MCancel now sender id =>
    match mc_swaps c !! id with
    | None => Err ENotFound
    | Some r =>
      if negb (N.eqb (mw_creator r) sender) then Err EUnauthorized else
      if now <? mw_timeout r then Err ETimeout else
      b <- (if mown r && mdirect r then add_all (mc_bal c) (tok_key (mw_owner r)) (mw_assets r)
            else if mown r && mreverse r then add_all (mc_bal c) (alw_key (mw_owner r)) (mw_assets r)
            else if N.eqb (mw_creator r) 0 && mreverse r then add_all (mc_bal c) (giv_key (mw_from r)) (mw_assets r)
            else Ok (mc_bal c)) ;;
      Ok (MChan me b (delete id (mc_swaps c)), None)
    end
  | MAnswer now id r =>
    match mc_swaps c !! id with Some _ => Err EExists | None =>
    b <- (if mdirect r then Ok (mc_bal c)
          else if mreverse r then sub_all (mc_bal c) (giv_key (mw_from r)) (mw_assets r)
          else Err EBadArg) ;;
    Ok (MChan me b (<[id := mcopy now r]> (mc_swaps c)), None)
    end
  | MRobotDone id key =>
    match mc_swaps c !! id with
    | None => Err ENotFound
    | Some r =>
      if negb (N.eqb (mw_hash r) key) then Err EBadKey else
      b <- (if mdirect r then add_all (mc_bal c) (giv_key (mw_to r)) (mw_assets r) else Ok (mc_bal c)) ;;
      Ok (MChan me b (delete id (mc_swaps c)), None)
    end
  | MUserDone id key =>
    match mc_swaps c !! id with
    | None => Err ENotFound
    | Some r =>
      if negb (N.eqb (mw_hash r) key) then Err EBadKey else
      if mown r then Err EBadArg else
      b <- (if mdirect r then add_all (mc_bal c) (alw_key (mw_owner r)) (mw_assets r)
            else add_all (mc_bal c) (tok_key (mw_owner r)) (mw_assets r)) ;;
      Ok (MChan me b (delete id (mc_swaps c)), Some (mw_from r, id, key))
    end
  end.

Definition m_step (c : mchan) (o : mop) : mchan * option err * option (N * N * N) :=
  match m_apply c o with Ok (c', ev) => (c', None, ev) | Err e => (c, Some e, None) end.

(* ---- two channels, users, a clock, and a robot with its durable per-swap checkpoint ------------ *)
Inductive mstatus := MsNone | MsAnswered | MsDestDone.
Global Instance mstatus_eq_dec : EqDecision mstatus.
Proof. solve_decision. Defined.

Record msys := MSys { msA : mchan; msB : mchan; mst : gmap (bool * N) mstatus; mclock : Z }.
Definition mstat (s : msys) (d : bool) (id : N) : mstatus := default MsNone (mst s !! (d, id)).
Definition mchn (s : msys) (x : bool) : mchan := if x then msA s else msB s.
Definition mset (s : msys) (x : bool) (c : mchan) (st : gmap (bool * N) mstatus) : msys :=
  if x then MSys c (msB s) st (mclock s) else MSys (msA s) c st (mclock s).

Inductive mact :=
| MTick (dt : N)
| MUBegin (d : bool) (sender id sym : N) (assets : list asset) (to hash : N)
| MRAnswer (d : bool) (id : N)
| MUDone (d : bool) (id : N) (key : N)
| MRDone (d : bool) (id : N)
| MUCancel (d : bool) (sender id : N).      (* at the origin *)

Definition mstep1 (c : mchan) (o : mop) : mchan * bool :=
  match m_apply c o with Ok (c', _) => (c', true) | Err _ => (c, false) end.

(* disc = true: the creator cancels at the origin only a swap the robot has not answered (the
   ledger does not enforce this: the answered copy has no cancel, see msys_step false) *)
Definition msys_step (disc : bool) (s : msys) (a : mact) : msys :=
  match a with
  | MTick dt => MSys (msA s) (msB s) (mst s) (mclock s + Z.of_N dt)
  | MUBegin d sender id sym assets to h =>
    if N.eqb sender 0 || negb (forallb (fun a => N.eqb (a_sym a) sym) assets) then s else
    let '(c', _) := mstep1 (mchn s d) (MBegin (mclock s) sender id sym assets to h) in mset s d c' (mst s)
  | MRAnswer d id =>
    match mstat s d id, mc_swaps (mchn s d) !! id with
    | MsNone, Some r =>
      if negb (N.eqb (mw_creator r) 0) && N.eqb (mw_to r) (mc_me (mchn s (negb d))) then
        let '(c', ok) := mstep1 (mchn s (negb d)) (MAnswer (mclock s) id r) in
        mset s (negb d) c' (if ok then <[(d, id) := MsAnswered]> (mst s) else mst s)
      else s
    | _, _ => s
    end
  | MUDone d id key =>
    match mstat s d id with
    | MsAnswered =>
      let '(c', ok) := mstep1 (mchn s (negb d)) (MUserDone id key) in
      mset s (negb d) c' (if ok then <[(d, id) := MsDestDone]> (mst s) else mst s)
    | _ => s
    end
  | MRDone d id =>
    match mstat s d id, mc_swaps (mchn s d) !! id with
    | MsDestDone, Some r =>
      let '(c', ok) := mstep1 (mchn s d) (MRobotDone id (mw_hash r)) in
      mset s d c' (if ok then delete (d, id) (mst s) else mst s)
    | _, _ => s
    end
  | MUCancel d sender id =>
    match mc_swaps (mchn s d) !! id with
    | Some r =>
      if N.eqb (mw_creator r) 0 then s else
      if disc && negb (bool_decide (mstat s d id = MsNone)) then s else
      let '(c', ok) := mstep1 (mchn s d) (MCancel (mclock s) sender id) in
      mset s d c' (mst s)
    | None => s
    end
  end.

Definition msys_run (disc : bool) (s : msys) (l : list mact) : msys := fold_left (msys_step disc) l s.
Definition msys0 (a b : N) (balA balB : bals) (t0 : Z) : msys := MSys (MChan a balA ∅) (MChan b balB ∅) ∅ t0.
