(* Model of Chaincode.Init, config.Validate / Save / Load, config.FromInitArgs and the
   generated validators of proto/foundation_config.proto.  Strings are byte lists.
   Definitions only.                                                                   *)
From Fnd Require Import Base.Prelude.

Notation str := (list N) (only parsing).

Definition is_upper (c : N) : bool := (65 <=? c)%N && (c <=? 90)%N.
Definition is_digit (c : N) : bool := (48 <=? c)%N && (c <=? 57)%N.
Definition is_lower_hex (c : N) : bool := is_digit c || ((97 <=? c)%N && (c <=? 102)%N).
(* base58 alphabet: 1-9 A-H J-N P-Z a-k m-z *)
Definition is_b58 (c : N) : bool :=
  ((49 <=? c)%N && (c <=? 57)%N) || ((65 <=? c)%N && (c <=? 72)%N) || ((74 <=? c)%N && (c <=? 78)%N) ||
  ((80 <=? c)%N && (c <=? 90)%N) || ((97 <=? c)%N && (c <=? 107)%N) || ((109 <=? c)%N && (c <=? 122)%N).
Definition nonempty_all (p : N -> bool) (s : list N) : bool := match s with [] => false | _ => forallb p s end.

(* ^[A-Z]+[A-Z0-9]+(-[A-Z0-9]+)?$ *)
Definition alnum_up (c : N) : bool := is_upper c || is_digit c.
Definition head_ok (s : list N) : bool :=   (* [A-Z]+[A-Z0-9]+ : starts with a letter, all alnum, length >= 2 *)
  match s with a :: _ :: _ => is_upper a && forallb alnum_up s | _ => false end.
Fixpoint split_dash (s : list N) : list N * option (list N) :=
  match s with
  | [] => ([], None)
  | c :: r => if N.eqb c 45 then ([], Some r)
              else let '(a, b) := split_dash r in (c :: a, b)
  end.
Definition symbol_ok (s : list N) : bool :=
  match split_dash s with
  | (h, None) => head_ok h
  | (h, Some t) => head_ok h && nonempty_all alnum_up t
  end.
Definition hex_ok (s : list N) : bool := nonempty_all is_lower_hex s.       (* ^[0-9a-f]+$ *)
Definition b58_ok (s : list N) : bool := nonempty_all is_b58 s.             (* ^[1-9A-HJ-NP-Za-km-z]+$ *)

Record tconf := TConf { t_issuer : option (list N); t_feesetter : option (list N);
                        t_feeaddrsetter : option (list N); t_redeemer : option (list N) }.
Record cconf := CConf { k_symbol : list N; k_robot : list N; k_admin : option (list N); k_token : option tconf;
                        k_noswaps : bool; k_nomulti : bool (* options.disable_swaps / disable_multi_swaps; the legacy positional form has no options *) }.

Definition wallet_ok (w : option (list N)) : bool := match w with None => true | Some a => b58_ok a end.

(* [tok]: the contract is a token (its token section is validated too); a contract built on the
   base contract alone validates the contract section only *)
Definition valid_for (tok : bool) (v : cconf) : bool :=
  symbol_ok (k_symbol v) && hex_ok (k_robot v) && wallet_ok (k_admin v) &&
  negb tok ||
  symbol_ok (k_symbol v) && hex_ok (k_robot v) && wallet_ok (k_admin v) &&
  match k_token v with
  | None => true
  | Some t => match t_issuer t with Some a => b58_ok a | None => false end &&
              wallet_ok (t_feesetter t) && wallet_ok (t_feeaddrsetter t) && wallet_ok (t_redeemer t)
  end.
Definition valid (v : cconf) : bool := valid_for true v.

(* what Init is given *)
Inductive initarg :=
| IJson (decodes : bool) (has_contract : bool) (v : cconf)
    (* one argument that is valid JSON; [decodes]: no unknown field, no wrongly typed value *)
| IPos (kind : N) (chan : list N) (args : list (list N)).
    (* positional arguments; kind of the channel name: 1 admin (3 args), 2 issuer+admin (4),
       3 issuer+feeSetter+feeAddressSetter (5), 4 issuer+feeSetter (4), 0 unknown channel *)

Definition upper (s : list N) : list N := List.map (fun c => if (97 <=? c)%N && (c <=? 122)%N then (c - 32)%N else c) s.
Definition arg (args : list (list N)) (i : nat) : list N := nth i args [].
Definition nonempty (s : list N) : bool := match s with [] => false | _ => true end.

Definition from_args (kind : N) (chan : list N) (args : list (list N)) : option cconf :=
  if (length args <? 2)%nat then None else
  let sym := upper chan in
  match kind with
  | 1%N => if negb (length args =? 3)%nat || negb (nonempty (arg args 2)) then None
           else Some (CConf sym (arg args 1) (Some (arg args 2)) (Some (TConf (Some (arg args 2)) None None None)) false false)
  | 2%N => if negb (length args =? 4)%nat || negb (nonempty (arg args 2)) || negb (nonempty (arg args 3)) then None
           else Some (CConf sym (arg args 1) (Some (arg args 3)) (Some (TConf (Some (arg args 2)) None None None)) false false)
  | 3%N => if negb (length args =? 5)%nat || negb (nonempty (arg args 2)) || negb (nonempty (arg args 3)) || negb (nonempty (arg args 4)) then None
           else Some (CConf sym (arg args 1) (Some (arg args 2)) (Some (TConf (Some (arg args 2)) (Some (arg args 3)) (Some (arg args 4)) None)) false false)
  | 4%N => if negb (length args =? 4)%nat || negb (nonempty (arg args 2)) || negb (nonempty (arg args 3)) then None
           else Some (CConf sym (arg args 1) (Some (arg args 2)) (Some (TConf (Some (arg args 2)) (Some (arg args 3)) None None)) false false)
  | _ => None
  end.

Definition decode (a : initarg) : option cconf :=
  match a with
  | IJson d c v => if d && c then Some v else None
  | IPos k ch args => from_args k ch args
  end.

(* Init: creator of the admin OU, decodable, valid -> stored; otherwise nothing changes *)
Definition init_for (tok : bool) (admin_creator : bool) (stored : option cconf) (a : initarg) : option cconf * bool :=
  if negb admin_creator then (stored, false) else
  match decode a with
  | Some v => if valid_for tok v then (Some v, true) else (stored, false)
  | None => (stored, false)
  end.
Definition init := init_for true.

(* Invoke re-reads the stored configuration on every call *)
Definition invoke_config (stored : option cconf) : res cconf :=
  match stored with Some v => Ok v | None => Err ENoConfig end.

Fixpoint init_run (stored : option cconf) (l : list (bool * initarg)) : option cconf * list bool :=
  match l with
  | [] => (stored, [])
  | (adm, a) :: r => let '(s', ok) := init adm stored a in
                     let '(s'', oks) := init_run s' r in (s'', ok :: oks)
  end.
