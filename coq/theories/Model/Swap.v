(* Model of core/bc_swap.go, core/swap/swap.go, core/cc_swap.go: hash-locked swaps.
   Channels are identified with their token symbol; a token is (symbol, group).  The hash is
   symbolic and injective: a record stores the key whose hash it carries.  Creator 0 is the
   robot's "0000".  Definitions only.                                                *)
From Fnd Require Import Base.Prelude Model.Balance Model.CCTransfer.
Local Open Scope Z_scope.

Record swaprec := SW { sw_creator : N; sw_owner : N; sw_sym : N; sw_grp : N; sw_amt : Z;
                       sw_from : N; sw_to : N; sw_hash : N }.
Global Instance swaprec_eq_dec : EqDecision swaprec.
Proof. solve_decision. Defined.
Notation swmap := (gmap N swaprec).

Record schan := SChan { sc_me : N; sc_bal : bals; sc_swaps : swmap }.

Inductive sop :=
| SBegin (sender id sym grp to : N) (amt : Z) (hash : N)
| SCancel (id : N)
| SAnswer (id : N) (r : swaprec)        (* robot, inside a batch *)
| SRobotDone (id : N) (key : N)         (* robot, inside a batch *)
| SUserDone (id : N) (key : N).         (* anyone, immediate; publishes the key on success *)

Definition s_apply (c : schan) (o : sop) : res (schan * option (N * N * N)) :=
  let me := sc_me c in
  match o with
  | SBegin s id sym grp to amt h =>
    if amt <? 0 then Err ENegative else
    if (1000 <=? sym)%N then Err EBadArg else
    b <- (if N.eqb sym me then bsub (sc_bal c) (KTok, s, grp) amt
          else if N.eqb sym to then bsub (sc_bal c) (KAllowed, s, tk_enc sym grp) amt
          else Err EBadArg) ;;
    match sc_swaps c !! id with
    | Some _ => Err EExists
    | None => Ok (SChan me b (<[id := SW s s sym grp amt me to h]> (sc_swaps c)), None)
    end
  | SCancel id =>
    match sc_swaps c !! id with
    | None => Err ENotFound
    | Some r =>
      b <- (if N.eqb (sw_creator r) (sw_owner r) && N.eqb (sw_sym r) (sw_from r)
            then badd (sc_bal c) (KTok, sw_owner r, sw_grp r) (sw_amt r)
            else if N.eqb (sw_creator r) (sw_owner r) && N.eqb (sw_sym r) (sw_to r)
            then badd (sc_bal c) (KAllowed, sw_owner r, tk_enc (sw_sym r) (sw_grp r)) (sw_amt r)
            else if N.eqb (sw_creator r) 0 && N.eqb (sw_sym r) (sw_to r)
            then badd (sc_bal c) (KGiven, sw_from r, 0%N) (sw_amt r)
            else Ok (sc_bal c)) ;;
      Ok (SChan me b (delete id (sc_swaps c)), None)
    end
  | SAnswer id r =>
    match sc_swaps c !! id with Some _ => Err EExists | None =>
    b <- (if N.eqb (sw_sym r) (sw_from r) then Ok (sc_bal c)
          else if N.eqb (sw_sym r) (sw_to r) then bsub (sc_bal c) (KGiven, sw_from r, 0%N) (sw_amt r)
          else Err EBadArg) ;;
    Ok (SChan me b (<[id := SW 0 (sw_owner r) (sw_sym r) (sw_grp r) (sw_amt r) (sw_from r) (sw_to r) (sw_hash r)]> (sc_swaps c)), None)
    end
  | SRobotDone id key =>
    match sc_swaps c !! id with
    | None => Err ENotFound
    | Some r =>
      if negb (N.eqb (sw_hash r) key) then Err EBadKey else
      b <- (if N.eqb (sw_sym r) (sw_from r) then badd (sc_bal c) (KGiven, sw_to r, 0%N) (sw_amt r) else Ok (sc_bal c)) ;;
      Ok (SChan me b (delete id (sc_swaps c)), None)
    end
  | SUserDone id key =>
    match sc_swaps c !! id with
    | None => Err ENotFound
    | Some r =>
      if negb (N.eqb (sw_hash r) key) then Err EBadKey else
      if N.eqb (sw_creator r) (sw_owner r) then Err EBadArg else
      b <- (if N.eqb (sw_sym r) (sw_from r)
            then badd (sc_bal c) (KAllowed, sw_owner r, tk_enc (sw_sym r) (sw_grp r)) (sw_amt r)
            else badd (sc_bal c) (KTok, sw_owner r, 0%N) (sw_amt r)) ;;   (* the group is not restored *)
      Ok (SChan me b (delete id (sc_swaps c)), Some (sw_from r, id, key))
    end
  end.

Definition s_step (c : schan) (o : sop) : schan * option err * option (N * N * N) :=
  match s_apply c o with Ok (c', ev) => (c', None, ev) | Err e => (c, Some e, None) end.

Fixpoint s_run (c : schan) (os : list sop) : schan * list (option err * option (N * N * N)) :=
  match os with
  | [] => (c, [])
  | o :: r => let '(c', e, ev) := s_step c o in let '(c'', xs) := s_run c' r in (c'', (e, ev) :: xs)
  end.

(* ---- two channels, users, and a robot with its durable per-swap checkpoint ------------- *)
Inductive status := StNone | StAnswered | StDestDone | StDestCancelled.
Global Instance status_eq_dec : EqDecision status.
Proof. solve_decision. Defined.

Record ssys := SSys { ssA : schan; ssB : schan; sst : gmap (bool * N) status }.
Definition stat (s : ssys) (d : bool) (id : N) : status := default StNone (sst s !! (d, id)).
Definition sorigin (s : ssys) (d : bool) : schan := if d then ssA s else ssB s.
Definition sdest (s : ssys) (d : bool) : schan := if d then ssB s else ssA s.
Definition set_origin (s : ssys) (d : bool) (c : schan) (st : gmap (bool * N) status) : ssys :=
  if d then SSys c (ssB s) st else SSys (ssA s) c st.
Definition set_dest (s : ssys) (d : bool) (c : schan) (st : gmap (bool * N) status) : ssys :=
  if d then SSys (ssA s) c st else SSys c (ssB s) st.

Inductive sact :=
| UBegin (d : bool) (sender id sym grp to : N) (amt : Z) (hash : N)   (* a user begins a swap at the origin of direction d *)
| RAnswer (d : bool) (id : N)                                        (* robot: answer in the destination *)
| UDone (d : bool) (id : N) (key : N)                                (* anybody: complete in the destination *)
| RDone (d : bool) (id : N)                                          (* robot: close the origin with the published key *)
| CancelDest (d : bool) (id : N)                                     (* platform: cancel the answered copy *)
| CancelOrigin (d : bool) (id : N).                                  (* platform: cancel at the origin - only after the destination *)

Definition step1 (c : schan) (o : sop) : schan * bool :=
  match s_apply c o with Ok (c', _) => (c', true) | Err _ => (c, false) end.

Definition ssys_step (s : ssys) (a : sact) : ssys :=
  match a with
  | UBegin d sender id sym grp to amt h =>
    if N.eqb sender 0 then s else
    let '(c', _) := step1 (sorigin s d) (SBegin sender id sym grp to amt h) in set_origin s d c' (sst s)
  | RAnswer d id =>
    match stat s d id, sc_swaps (sorigin s d) !! id, sc_swaps (sdest s d) !! id with
    | StNone, Some r, None =>
      if negb (N.eqb (sw_creator r) 0) && N.eqb (sw_to r) (sc_me (sdest s d)) then
        let '(c', ok) := step1 (sdest s d) (SAnswer id r) in
        set_dest s d c' (if ok then <[(d, id) := StAnswered]> (sst s) else sst s)
      else s
    | _, _, _ => s
    end
  | UDone d id key =>
    match stat s d id with
    | StAnswered =>
      let '(c', ok) := step1 (sdest s d) (SUserDone id key) in
      set_dest s d c' (if ok then <[(d, id) := StDestDone]> (sst s) else sst s)
    | _ => s          (* no answered copy: the request finds no record (or not this swap's) *)
    end
  | RDone d id =>
    match stat s d id, sc_swaps (sorigin s d) !! id with
    | StDestDone, Some r =>
      let '(c', ok) := step1 (sorigin s d) (SRobotDone id (sw_hash r)) in
      set_origin s d c' (if ok then delete (d, id) (sst s) else sst s)
    | _, _ => s
    end
  | CancelDest d id =>
    match stat s d id with
    | StAnswered =>
      let '(c', ok) := step1 (sdest s d) (SCancel id) in
      set_dest s d c' (if ok then <[(d, id) := StDestCancelled]> (sst s) else sst s)
    | _ => s
    end
  | CancelOrigin d id =>
    match stat s d id, sc_swaps (sorigin s d) !! id with
    | StNone, Some r | StDestCancelled, Some r =>
      if N.eqb (sw_creator r) 0 then s else
      let '(c', ok) := step1 (sorigin s d) (SCancel id) in
      set_origin s d c' (if ok then delete (d, id) (sst s) else sst s)
    | _, _ => s
    end
  end.

Definition ssys_run (s : ssys) (l : list sact) : ssys := fold_left ssys_step l s.
Definition ssys0 (a b : N) (balA balB : bals) : ssys := SSys (SChan a balA ∅) (SChan b balB ∅) ∅.
