(* Model of core/cachestub: BatchCacheStub and TxCacheStub (point operations).
   Field-for-field transcription of batch_cache_stub.go / tx_cache_stub.go:
     bw  = batchWriteCache   br = batchReadeCache   tw = txWriteCache
   Definitions only.                                                          *)
From Fnd Require Import Base.Prelude.

Record welem := WE { wval : val; wdel : bool }.

Global Instance welem_eq_dec : EqDecision welem.
Proof. solve_decision. Defined.

Record bcs := BCS { led : ledger; bw : gmap key welem; br : gmap key val }.
Notation tcs := (gmap key welem).

(* BatchCacheStub.GetState: write cache, read cache, ledger (filling the read cache) *)
Definition b_get (b : bcs) (k : key) : bcs * val :=
  match bw b !! k with
  | Some e => (b, wval e)
  | None =>
    match br b !! k with
    | Some v => (b, v)
    | None => let v := led_get (led b) k in
              (BCS (led b) (bw b) (<[k:=v]> (br b)), v)
    end
  end.
Definition b_put (b : bcs) (k : key) (v : val) : bcs :=
  BCS (led b) (<[k:=WE v false]> (bw b)) (br b).
Definition b_del (b : bcs) (k : key) : bcs :=
  BCS (led b) (<[k:=WE [] true]> (bw b)) (br b).

(* TxCacheStub *)
Definition t_get (b : bcs) (t : tcs) (k : key) : bcs * val :=
  match t !! k with
  | Some e => (b, wval e)
  | None => b_get b k
  end.
Definition t_put (t : tcs) (k : key) (v : val) : tcs := <[k:=WE v false]> t.
Definition t_del (t : tcs) (k : key) : tcs := <[k:=WE [] true]> t.

Definition write := (key * val * bool)%type.
Definition wkey (w : write) : key := fst (fst w).
Definition wle (a b : write) : Prop := (wkey a <= wkey b)%N.
Global Instance wle_dec a b : Decision (wle a b) := N_le_dec _ _.
Definition wlist (m : gmap key welem) : list write :=
  merge_sort wle
             ((fun p => (fst p, wval (snd p), wdel (snd p))) <$> map_to_list m).

(* TxCacheStub.Commit: copy tw over bw, return the writes sorted by key *)
Definition t_commit (b : bcs) (t : tcs) : bcs * list write :=
  (BCS (led b) (union t (bw b)) (br b), wlist t).

(* BatchCacheStub.Commit: one DelState or PutState per entry of bw *)
Definition apply_w (k : key) (e : welem) (l : ledger) : ledger :=
  if wdel e then led_del l k else led_put l k (wval e).
Definition b_commit (b : bcs) : ledger := map_fold apply_w (led b) (bw b).
(* the calls the underlying stub receives, as a sorted list *)
Definition b_commit_calls (b : bcs) : list write := wlist (bw b).

(* ---- histories ---------------------------------------------------------- *)
Inductive cop :=
| CGet (k : key) | CPut (k : key) (v : val) | CDel (k : key)       (* through the open tx, else batch level *)
| CBGet (k : key) | CBPut (k : key) (v : val) | CBDel (k : key)    (* always batch level *)
| CBegin | CCommit | CDiscard.

Inductive cout := OVal (v : val) | OWrites (w : list write) | ONone.

Global Instance cout_eq_dec : EqDecision cout.
Proof. solve_decision. Defined.

Definition mst := (bcs * option tcs)%type.

Definition m_step (s : mst) (o : cop) : mst * cout :=
  let '(b, ot) := s in
  match o, ot with
  | CGet k, Some t => let '(b', v) := t_get b t k in ((b', Some t), OVal v)
  | CGet k, None | CBGet k, _ => let '(b', v) := b_get b k in ((b', ot), OVal v)
  | CPut k v, Some t => ((b, Some (t_put t k v)), ONone)
  | CPut k v, None | CBPut k v, _ => ((b_put b k v, ot), ONone)
  | CDel k, Some t => ((b, Some (t_del t k)), ONone)
  | CDel k, None | CBDel k, _ => ((b_del b k, ot), ONone)
  | CBegin, _ => ((b, Some ∅), ONone)
  | CCommit, Some t => let '(b', w) := t_commit b t in ((b', None), OWrites w)
  | CCommit, None => (s, ONone)
  | CDiscard, _ => ((b, None), ONone)
  end.

Fixpoint m_run (s : mst) (h : list cop) : mst * list cout :=
  match h with
  | [] => (s, [])
  | o :: r => let '(s', x) := m_step s o in
              let '(s'', xs) := m_run s' r in (s'', x :: xs)
  end.

Definition m_init (l : ledger) : mst := (BCS l ∅ ∅, None).

(* full observable behaviour of a history from ledger l: outputs, the ledger after the
   batch commit, and the calls made on the underlying stub *)
Definition m_behaviour (l : ledger) (h : list cop) : list cout * ledger * list write :=
  let '((b, _), outs) := m_run (m_init l) h in (outs, b_commit b, b_commit_calls b).

(* ---- specification: plain overlays, no read cache, functional commit ----- *)
Record sst := SST { sl : ledger; sb : gmap key welem; stx : option (gmap key welem) }.

Definition s_view_b (s : sst) (k : key) : val :=
  match sb s !! k with Some e => wval e | None => led_get (sl s) k end.
Definition s_view (s : sst) (k : key) : val :=
  match stx s with
  | Some t => match t !! k with Some e => wval e | None => s_view_b s k end
  | None => s_view_b s k
  end.

Definition s_step (s : sst) (o : cop) : sst * cout :=
  match o, stx s with
  | CGet k, _ => (s, OVal (s_view s k))
  | CBGet k, _ => (s, OVal (s_view_b s k))
  | CPut k v, Some t => (SST (sl s) (sb s) (Some (<[k:=WE v false]> t)), ONone)
  | CPut k v, None | CBPut k v, _ => (SST (sl s) (<[k:=WE v false]> (sb s)) (stx s), ONone)
  | CDel k, Some t => (SST (sl s) (sb s) (Some (<[k:=WE [] true]> t)), ONone)
  | CDel k, None | CBDel k, _ => (SST (sl s) (<[k:=WE [] true]> (sb s)) (stx s), ONone)
  | CBegin, _ => (SST (sl s) (sb s) (Some ∅), ONone)
  | CCommit, Some t => (SST (sl s) (union t (sb s)) None, OWrites (wlist t))
  | CCommit, None => (s, ONone)
  | CDiscard, _ => (SST (sl s) (sb s) None, ONone)
  end.

Fixpoint s_run (s : sst) (h : list cop) : sst * list cout :=
  match h with
  | [] => (s, [])
  | o :: r => let '(s', x) := s_step s o in
              let '(s'', xs) := s_run s' r in (s'', x :: xs)
  end.

Definition s_init (l : ledger) : sst := SST l ∅ None.

(* final ledger of the specification: pointwise *)
Definition s_final_at (s : sst) (k : key) : option val :=
  match sb s !! k with
  | Some e => if wdel e then None else match wval e with [] => None | v => Some v end
  | None => sl s !! k
  end.
