(* The union of all balance-moving operations of one channel (C06): token operations (emit,
   transfer with fee, buy / buy-back), burning, external locks, cross-channel transfer steps, swap
   and multi-swap steps, forced transfers - each the component model, run on the ONE balance map.
   Definitions only.                                                                          *)
From Fnd Require Import Base.Prelude Model.Balance Model.Fee Model.Locks Model.CCTransfer Model.Swap Model.MultiSwap.
Local Open Scope Z_scope.

Record ustate := US {
  us_bal : bals; us_emission : Z;
  us_fee : feecfg; us_feeaddr : option N; us_rates : list rate;
  us_tl : locks; us_al : locks;
  us_from : ccmap; us_to : ccmap;
  us_swaps : swmap; us_mswaps : mmap }.

Record uenv := UEnv { ue_me : N; ue_admin : N; ue_tenv : tenv }.

Inductive uop :=
| UTok (o : top)
| UBurn (s : N) (a : Z)
| UEmitG (s to grp : N) (a : Z)            (* emission into a group of the token (industrial tokens) *)
| ULock (o : lop)
| UCC (o : ccop)
| USwap (o : sop)
| UMSwap (o : mop)
| UForce (s kind from to tk : N) (a : Z).        (* transferBalance by the admin *)

Definition u_tok (st : ustate) : tstate := TS (us_bal st) (us_fee st) (us_feeaddr st) (us_rates st) (us_emission st).
Definition u_apply (env : uenv) (st : ustate) (o : uop) : res (ustate * option (N * N * N)) :=
  match o with
  | UTok o =>
    t <- t_apply (ue_tenv env) (u_tok st) o ;;
    Ok (US (ts_bal t) (ts_emission t) (ts_fee t) (ts_feeaddr t) (ts_rates t) (us_tl st) (us_al st)
           (us_from st) (us_to st) (us_swaps st) (us_mswaps st), None)
  | UBurn s a =>
    b <- bsub (us_bal st) (tok s) a ;;
    if us_emission st <? a then Err EOther else
    Ok (US b (us_emission st - a) (us_fee st) (us_feeaddr st) (us_rates st) (us_tl st) (us_al st)
           (us_from st) (us_to st) (us_swaps st) (us_mswaps st), None)
  | UEmitG s to grp a =>
    if negb (N.eqb s (e_issuer (ue_tenv env))) then Err EUnauthorized else
    if a <=? 0 then Err EZeroAmount else
    b <- badd (us_bal st) (KTok, to, grp) a ;;
    Ok (US b (us_emission st + a) (us_fee st) (us_feeaddr st) (us_rates st) (us_tl st) (us_al st)
           (us_from st) (us_to st) (us_swaps st) (us_mswaps st), None)
  | ULock o =>
    l <- l_apply (ue_admin env) (LS (us_bal st) (us_tl st) (us_al st)) o ;;
    Ok (US (ls_bal l) (us_emission st) (us_fee st) (us_feeaddr st) (us_rates st) (ls_tl l) (ls_al l)
           (us_from st) (us_to st) (us_swaps st) (us_mswaps st), None)
  | UCC o =>
    c <- cc_apply (Chan (ue_me env) (ue_admin env) (us_bal st) (us_from st) (us_to st)) o ;;
    Ok (US (ch_bal c) (us_emission st) (us_fee st) (us_feeaddr st) (us_rates st) (us_tl st) (us_al st)
           (ch_from c) (ch_to c) (us_swaps st) (us_mswaps st), None)
  | USwap o =>
    match s_apply (SChan (ue_me env) (us_bal st) (us_swaps st)) o with
    | Err e => Err e
    | Ok (c, ev) =>
      Ok (US (sc_bal c) (us_emission st) (us_fee st) (us_feeaddr st) (us_rates st) (us_tl st) (us_al st)
             (us_from st) (us_to st) (sc_swaps c) (us_mswaps st), ev)
    end
  | UMSwap o =>
    match m_apply (MChan (ue_me env) (us_bal st) (us_mswaps st)) o with
    | Err e => Err e
    | Ok (c, ev) =>
      Ok (US (mc_bal c) (us_emission st) (us_fee st) (us_feeaddr st) (us_rates st) (us_tl st) (us_al st)
             (us_from st) (us_to st) (us_swaps st) (mc_swaps c), ev)
    end
  | UForce s kind from to tk a =>
    if N.eqb (ue_admin env) 0 || negb (N.eqb s (ue_admin env)) then Err EUnauthorized else
    if N.eqb from to then Err ESameUser else
    if a <=? 0 then Err EZeroAmount else
    b <- bmove (us_bal st) (kind, from, tk) (kind, to, tk) a ;;
    Ok (US b (us_emission st) (us_fee st) (us_feeaddr st) (us_rates st) (us_tl st) (us_al st)
           (us_from st) (us_to st) (us_swaps st) (us_mswaps st), None)
  end.

Definition u_step (env : uenv) (st : ustate) (o : uop) : ustate * option err * option (N * N * N) :=
  match u_apply env st o with Ok (st', ev) => (st', None, ev) | Err e => (st, Some e, None) end.

Definition u_run (env : uenv) (st : ustate) (os : list uop) : ustate := fold_left (fun s o => fst (fst (u_step env s o))) os st.

Definition us0 : ustate := US ∅ 0 (FeeCfg false 0 0 0 0) None [] ∅ ∅ ∅ ∅ ∅ ∅.

(* the robot is trusted: it hands over only well-formed records that come from another channel and are
   addressed to this one, and closes (robot-done) only records of this channel's own users *)
Definition honest (me : N) (st : ustate) (o : uop) : bool :=
  match o with
  | USwap (SAnswer _ r) => negb (N.eqb (sw_from r) me) && N.eqb (sw_to r) me && negb (N.eqb (sw_owner r) 0) &&
                           (sw_sym r <? 1000)%N && (0 <=? sw_amt r)
  | UMSwap (MAnswer _ _ r) => negb (N.eqb (mw_from r) me) && N.eqb (mw_to r) me && negb (N.eqb (mw_owner r) 0) &&
                              (mw_sym r <? 1000)%N && forallb (fun a => N.eqb (a_sym a) (mw_sym r) && (0 <=? a_amt a)) (mw_assets r)
  | USwap (SBegin s _ _ _ _ _ _) => negb (N.eqb s 0)
  | UMSwap (MBegin _ s _ sym assets _ _) => negb (N.eqb s 0) && forallb (fun a => N.eqb (a_sym a) sym) assets
  | USwap (SRobotDone id _) => match us_swaps st !! id with Some r => negb (N.eqb (sw_creator r) 0) | None => true end
  | UMSwap (MRobotDone id _) => match us_mswaps st !! id with Some r => negb (N.eqb (mw_creator r) 0) | None => true end
  | _ => true
  end.
