(* Model of what a chaincode PROCESS keeps between invocations (C07): the contract object holds the
   configuration last applied and the token metadata last loaded; Invoke re-applies / re-loads both
   from the ledger before the body runs; replies list writes, events and accounting records sorted.
   The body of an invocation is an arbitrary function of what it is given.  Definitions only.   *)
From Fnd Require Import Base.Prelude.

Section Process.
  Context {Cfg Meta Ledger Prop_ Result : Type}.
  Variable meta0 : Meta.                                   (* a fresh, empty metadata object *)
  Variable cfg_of : Ledger -> option Cfg.                  (* the configuration Init stored *)
  Variable meta_of : Ledger -> option Meta.                (* the metadata record, if any *)
  Variable body : Cfg -> Meta -> Ledger -> Prop_ -> Result * Meta.   (* may mutate the metadata object *)
  Variable no_config : Result.

  Record pmem := PMem { pm_cfg : option Cfg; pm_meta : option Meta }.

  (* reload = true: the library as it is (cc_core_init_invoke.go applies the stored configuration on
     every Invoke; token.go loads the metadata, starting from a fresh object when the ledger has
     none).  reload = false: the two shortcuts that keep what the process already has. *)
  Definition p_invoke (reload_cfg reload_meta : bool) (m : pmem) (l : Ledger) (p : Prop_) : Result * pmem :=
    match (if reload_cfg then cfg_of l else match pm_cfg m with Some c => Some c | None => cfg_of l end) with
    | None => (no_config, m)
    | Some c =>
      let mt := match meta_of l with
                | Some x => x
                | None => if reload_meta then meta0 else default meta0 (pm_meta m)
                end in
      let '(r, mt') := body c mt l p in (r, PMem (Some c) (Some mt'))
    end.

  (* a process handles proposals one after the other; only some simulations are committed, and
     whether they are is decided outside the process *)
  Fixpoint p_history (rc rm : bool) (m : pmem) (hist : list (Ledger * Prop_)) : pmem :=
    match hist with [] => m | (l, p) :: t => p_history rc rm (snd (p_invoke rc rm m l p)) t end.
End Process.

(* replies list their entries (write keys, event names, accounting records - coded as numbers)
   sorted, whatever order the in-process map iteration produced *)
Definition N_le (a b : N) : Prop := (a <= b)%N.
Global Instance N_le_dec' (a b : N) : Decision (N_le a b) := N_le_dec a b.
Definition render (entries : list N) : list N := merge_sort N_le entries.
