(* Model of core/nonce.go: setNonce (window of accepted nonces, TTL 50 s) and the
   per-sender store used by checkNonce.  Definitions only.                       *)
From Fnd Require Import Base.Prelude.
Local Open Scope N_scope.

Definition ttl : N := 50000.                       (* defaultNonceTTL = 50 s, compared in ms *)
Definition lo13 : N := 1000000000000.              (* 10^12: smallest 13-digit value *)
Definition hi13 : N := 10000000000000.             (* 10^13 *)
Definition format_ok (n : N) : bool := (lo13 <=? n) && (n <? hi13).

Inductive nerr := EFormat | EStale | EDup.
Global Instance nerr_eq_dec : EqDecision nerr.
Proof. solve_decision. Defined.

(* sort.Search(l, fun i => last - w[i] <= ttl) on a sorted window: drop the prefix that
   is older than ttl relative to the new maximum *)
Fixpoint drop_old (mx : N) (w : list N) : list N :=
  match w with
  | [] => []
  | x :: r => if mx - x <=? ttl then w else drop_old mx r
  end.

(* sort.Search(l, fun i => w[i] >= n): split at the first element >= n *)
Fixpoint split_ge (n : N) (w : list N) : list N * list N :=
  match w with
  | [] => ([], [])
  | x :: r => if n <=? x then ([], w) else let '(a, b) := split_ge n r in (x :: a, b)
  end.

Definition set_nonce (n : N) (w : list N) : list N * option nerr :=
  if negb (format_ok n) then (w, Some EFormat) else
  match w with
  | [] => ([n], None)
  | _ =>
    let last := List.last w 0 in
    if last <? n then (drop_old n (w ++ [n]), None)
    else if ttl <? last - n then (w, Some EStale)
    else let '(a, b) := split_ge n w in
         match b with
         | x :: _ => if x =? n then (w, Some EDup) else (a ++ n :: b, None)
         | [] => (a ++ [n], None)
         end
  end.

(* ---- specification: remember every nonce ever accepted ---------------------- *)
Fixpoint maxl (h : list N) : N :=
  match h with [] => 0 | x :: r => N.max x (maxl r) end.
Fixpoint memN (n : N) (h : list N) : bool :=
  match h with [] => false | x :: r => (x =? n) || memN n r end.

Definition spec_accept (n : N) (h : list N) : option nerr :=
  if negb (format_ok n) then Some EFormat else
  match h with
  | [] => None
  | _ => let mx := maxl h in
         if mx <? n then None
         else if ttl <? mx - n then Some EStale
         else if memN n h then Some EDup else None
  end.

(* run a sequence of attempted nonces *)
Fixpoint w_run (w : list N) (ns : list N) : list N * list (option nerr) :=
  match ns with
  | [] => (w, [])
  | n :: r => let '(w', e) := set_nonce n w in
              let '(w'', es) := w_run w' r in (w'', e :: es)
  end.
Fixpoint h_run (h : list N) (ns : list N) : list N * list (option nerr) :=
  match ns with
  | [] => (h, [])
  | n :: r => let e := spec_accept n h in
              let h' := match e with None => n :: h | Some _ => h end in
              let '(h'', es) := h_run h' r in (h'', e :: es)
  end.

(* ---- per-sender store (checkNonce) and execution on the two routes ---------- *)
Notation sender := N (only parsing).
Notation nstore := (gmap N (list N)).

Definition check_nonce (s : nstore) (a : sender) (n : N) : nstore * option nerr :=
  let '(w', e) := set_nonce n (default [] (s !! a)) in
  match e with
  | None => (<[a:=w']> s, None)
  | Some _ => (s, e)
  end.

(* one executed request on either route (batch item or task): the nonce is checked and
   stored on the batch-level stub before the body runs, so it is consumed whether or not
   the body succeeds.  [body_ok] is the outcome the body would have. *)
Inductive route := RBatch | RTask.
Record req := Req { r_route : route; r_sender : sender; r_nonce : N; r_body_ok : bool }.
Inductive rres := RNonce (e : nerr) | RBodyFailed | ROk.
Global Instance rres_eq_dec : EqDecision rres.
Proof. solve_decision. Defined.

Definition exec (s : nstore) (r : req) : nstore * rres :=
  let '(s', e) := check_nonce s (r_sender r) (r_nonce r) in
  match e with
  | Some x => (s', RNonce x)
  | None => (s', if r_body_ok r then ROk else RBodyFailed)
  end.

Fixpoint exec_run (s : nstore) (rs : list req) : nstore * list rres :=
  match rs with
  | [] => (s, [])
  | r :: t => let '(s', x) := exec s r in
              let '(s'', xs) := exec_run s' t in (s'', x :: xs)
  end.
