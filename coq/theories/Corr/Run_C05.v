(* Correspondence + property predicate for C05 *)
From Fnd Require Export Base.Prelude Model.Cache Model.Nonce Model.Batch.

(* one step of a history with what was observed after it *)
Inductive hstep :=
| HSub (id s n bi : N) (ok : bool) (led : list (N * list N))          (* submission: accepted?, ledger after *)
| HBat (ids : list N) (res : list ires) (led : list (N * list N)).    (* batch: replies, ledger after *)

Record case := mkCase { c_bodies : list body; c_l0 : list (N * list N); c_hist : list hstep }.

Definition same_led (m : ledger) (l : list (N * list N)) : bool :=
  let ml : ledger := list_to_map l in
  forallb (fun p => bool_decide (led_get m (fst p) = led_get ml (fst p))) (map_to_list m ++ l).

Fixpoint m_hist (bodies : list body) (l : ledger) (h : list hstep) : bool :=
  match h with
  | [] => true
  | HSub id s n bi ok led :: r =>
    let l' := if ok then submit l id s n bi else l in same_led l' led && m_hist bodies l' r
  | HBat ids res led :: r =>
    let '(l', rs) := batch_exec bodies l ids in bool_decide (rs = res) && same_led l' led && m_hist bodies l' r
  end.
Definition corr (c : case) : bool := m_hist (c_bodies c) (list_to_map (c_l0 c)) (c_hist c).

(* the property, on observed ledgers and replies only *)
Definition lget (l : list (N * list N)) (k : N) : list N := led_get (list_to_map l) k.
Definition keys_of (a b : list (N * list N)) : list N := List.map fst a ++ List.map fst b.
Definition is_exec (r : ires) : bool := negb (bool_decide (r = IErr INotFound)).

Fixpoint p_hist (prev : list (N * list N)) (submitted executed : list N) (h : list hstep) : bool :=
  match h with
  | [] => true
  | HSub id s n bi ok led :: r =>
    (* records only: exactly the pending key appears (nothing when rejected) *)
    forallb (fun k => if N.eqb k (pk id) && ok then bool_decide (lget led k = [s; n; bi])
                      else bool_decide (lget led k = lget prev k)) (pk id :: keys_of prev led) &&
    p_hist led (if ok then id :: submitted else submitted) executed r
  | HBat ids res led :: r =>
    (length ids =? length res)%nat &&
    (* always consumed *)
    forallb (fun id => bool_decide (lget led (pk id) = [])) ids &&
    (* unknown id: error for that id *)
    forallb (fun p => if bool_decide (lget prev (pk (fst p)) = []) then bool_decide (snd p = IErr INotFound) else true)
            (combine ids res) &&
    (* at most once: an executed id was submitted and never executed before, also inside this batch *)
    (fix go (xs : list (N * ires)) (done : list N) : bool :=
       match xs with
       | [] => p_hist led submitted done r
       | (id, x) :: t =>
         if is_exec x then existsb (N.eqb id) submitted && negb (existsb (N.eqb id) done) && go t (id :: done)
         else go t done
       end) (combine ids res) executed
  end.
Definition holds (c : case) : bool := p_hist (c_l0 c) [] [] (c_hist c).

Definition label (c : case) : N :=
  fold_right (fun st a => N.lor a match st with
    | HSub _ _ _ _ true _ => 1 | HSub _ _ _ _ false _ => 2
    | HBat ids res _ => fold_right (fun r b => N.lor b match r with
        | IOk _ _ _ => 4 | IErr INotFound => 8 | IErr IMalformed => 16 | IErr (INonce _) => 32 | IErr IBody => 64 | IErr IPanic => 128 | IErr IOther => 256 end) 0 res
    end)%N 0%N (c_hist c).
