(* Correspondence + property predicate for C05 *)
From Fnd Require Export Base.Prelude Model.Cache Model.Nonce Model.Batch Model.Auth Model.Gate Model.Pipeline.

(* one step of a history with what was observed after it *)
Inductive hstep :=
| HSub (id s n bi : N) (bad ok : bool) (led : list (N * list N))      (* submission: made invalid by the generator?, accepted?, ledger after *)
| HBat (ids : list N) (res : list ires) (led : list (N * list N)).    (* batch: replies, ledger after *)

(* one whole invocation (gate, authentication, pending store, batch / task execution) with the response class and
   the ledger observed after it *)
Notation pstep := (preq * presp * list (N * list N))%type (only parsing).

Inductive case :=
| mkCase (c_bodies : list body) (c_l0 : list (N * list N)) (c_hist : list hstep)
| mkPipe (e : penv) (l0 : list (N * list N)) (steps : list pstep).

Definition same_led (m : ledger) (l : list (N * list N)) : bool :=
  let ml : ledger := list_to_map l in
  forallb (fun p => bool_decide (led_get m (fst p) = led_get ml (fst p))) (map_to_list m ++ l).

Fixpoint m_hist (bodies : list body) (l : ledger) (h : list hstep) : bool :=
  match h with
  | [] => true
  | HSub id s n bi bad ok led :: r =>
    (* validation itself is C01's / C02's model; here a request is refused exactly when the generator broke it *)
    let l' := if negb bad then submit l id s n bi else l in Bool.eqb ok (negb bad) && same_led l' led && m_hist bodies l' r
  | HBat ids res led :: r =>
    let '(l', rs) := batch_exec bodies l ids in bool_decide (rs = res) && same_led l' led && m_hist bodies l' r
  end.
Fixpoint m_pipe (e : penv) (l : ledger) (steps : list pstep) : bool :=
  match steps with
  | [] => true
  | (r, resp, led) :: t =>
    let '(l', x) := p_step e l r in bool_decide (x = resp) && same_led l' led && m_pipe e l' t
  end.

Definition corr (c : case) : bool :=
  match c with
  | mkCase bodies l0 h => m_hist bodies (list_to_map l0) h
  | mkPipe e l0 steps => m_pipe e (list_to_map l0) steps
  end.

(* the property, on observed ledgers and replies only *)
Definition lget (l : list (N * list N)) (k : N) : list N := led_get (list_to_map l) k.
Definition keys_of (a b : list (N * list N)) : list N := List.map fst a ++ List.map fst b.
Definition is_exec (r : ires) : bool := negb (bool_decide (r = IErr INotFound)).

Fixpoint p_hist (prev : list (N * list N)) (submitted executed : list N) (h : list hstep) : bool :=
  match h with
  | [] => true
  | HSub id s n bi bad ok led :: r =>
    (* a submission that fails validation is refused *)
    (negb bad || negb ok) &&
    (* records only: exactly the pending key appears (nothing when rejected) *)
    forallb (fun k => if N.eqb k (pk id) && ok then bool_decide (lget led k = [s; n; bi])
                      else bool_decide (lget led k = lget prev k)) (pk id :: keys_of prev led) &&
    p_hist led (if ok then id :: submitted else submitted) executed r
  | HBat ids res led :: r =>
    (length ids =? length res)%nat &&
    (* always consumed *)
    forallb (fun id => bool_decide (lget led (pk id) = [])) ids &&
    (* unknown id: error for that id *)
    forallb (fun p => if bool_decide (lget prev (pk (fst p)) = []) then bool_decide (snd p = IErr INotFound) else true)
            (combine ids res) &&
    (* at most once: an executed id was submitted and never executed before, also inside this batch *)
    (fix go (xs : list (N * ires)) (done : list N) : bool :=
       match xs with
       | [] => p_hist led submitted done r
       | (id, x) :: t =>
         if is_exec x then existsb (N.eqb id) submitted && negb (existsb (N.eqb id) done) && go t (id :: done)
         else go t done
       end) (combine ids res) executed
  end.
(* whole invocations.  "Validation" is the gate and the authentication procedure (Model/Gate.v, Model/Auth.v; what
   acceptance by them means is C11's and C01's theorems); everything else is read off the observations. *)
Definition same_obs (a b : list (N * list N)) : bool :=
  forallb (fun k => bool_decide (lget a k = lget b k)) (keys_of a b).
Definition passes_gate (e : penv) (cr : creator) : bool :=
  match invoke_gate (pe_cfg e) cr (FMethod (pe_method e)) with GHandled _ => true | _ => false end.
Definition auth_ok (i : authin) : bool := match auth i with Ok _ => true | Err _ => false end.

Fixpoint p_pipe (e : penv) (prev : list (N * list N)) (submitted executed : list N) (steps : list pstep) : bool :=
  match steps with
  | [] => true
  | (PSubmit cr id i bi, resp, led) :: t =>
    match resp with
    | RRecorded =>
      (* recorded only for a request that passes the gate and authenticates, and exactly as authenticated *)
      passes_gate e cr &&
      match auth i with
      | Ok o => forallb (fun k => if N.eqb k (pk id) then bool_decide (lget led k = [r_addr o; dec_val (r_nonce o); bi])
                                  else bool_decide (lget led k = lget prev k)) (pk id :: keys_of prev led)
      | Err _ => false
      end && p_pipe e led (id :: submitted) executed t
    | RItems _ => false
    | _ => same_obs prev led && p_pipe e led submitted executed t      (* refused: nothing recorded, nothing changed *)
    end
  | (PBatch cr ids, resp, led) :: t =>
    match resp with
    | RItems res =>
      is_robot (pe_cfg e) cr && (length ids =? length res)%nat &&
      forallb (fun id => bool_decide (lget led (pk id) = [])) ids &&
      forallb (fun p => if bool_decide (lget prev (pk (fst p)) = []) then bool_decide (snd p = IErr INotFound) else true)
              (combine ids res) &&
      (fix go (xs : list (N * ires)) (done : list N) : bool :=
         match xs with
         | [] => p_pipe e led submitted done t
         | (id, x) :: r =>
           if is_exec x then existsb (N.eqb id) submitted && negb (existsb (N.eqb id) done) && go r (id :: done)
           else go r done
         end) (combine ids res) executed
    | RRecorded => false
    | _ => same_obs prev led && p_pipe e led submitted executed t
    end
  | (PTasks cr ts, resp, led) :: t =>
    match resp with
    | RItems res =>
      (length ts =? length res)%nat &&
      (* a task that does not authenticate (or whose method is disabled) has no effect and reports an error;
         pending records are never touched by a task list *)
      forallb (fun p => auth_ok (fst (fst p)) || match snd p with IErr _ => true | IOk _ _ _ => false end) (combine ts res) &&
      (existsb (fun tk => auth_ok (fst tk)) ts || same_obs prev led) &&
      forallb (fun k => negb (N.eqb (k mod 4) 1) || bool_decide (lget led k = lget prev k)) (keys_of prev led) &&
      p_pipe e led submitted executed t
    | RRecorded => false
    | _ => same_obs prev led && p_pipe e led submitted executed t
    end
  end.

Definition holds (c : case) : bool :=
  match c with
  | mkCase _ l0 h => p_hist l0 [] [] h
  | mkPipe e l0 steps => p_pipe e l0 [] [] steps
  end.

Definition label (c : case) : N :=
  match c with
  | mkCase _ _ h => fold_right (fun st a => N.lor a match st with
    | HSub _ _ _ _ _ true _ => 1 | HSub _ _ _ _ false false _ => 2 | HSub _ _ _ _ true false _ => 512
    | HBat ids res _ => fold_right (fun r b => N.lor b match r with
        | IOk _ _ _ => 4 | IErr INotFound => 8 | IErr IMalformed => 16 | IErr (INonce _) => 32 | IErr IBody => 64 | IErr IPanic => 128 | IErr IOther => 256 end) 0 res
    end)%N 0%N h
  | mkPipe _ _ steps => fold_right (fun st a => N.lor a match snd (fst st) with
      | RGate GCreatorErr => 1024 | RGate GUnauthorized => 2048 | RGate _ => 4096
      | RAuth EBadSig => 8192 | RAuth EName => 16384 | RAuth EBlack => 32768 | RAuth EGrey => 65536 | RAuth EAcl => 131072
      | RAuth _ => 262144 | RRecorded => 524288
      | RItems res => 1048576 + fold_right (fun r b => N.lor b match r with
           | IOk _ _ _ => 4 | IErr INotFound => 8 | IErr (INonce _) => 32 | IErr IBody => 64 | IErr IPanic => 128 | IErr _ => 256 end) 0 res
      end)%N 0%N steps
  end.

(* ---- diagnosis: first invocation where model and implementation differ ------------------------- *)
Fixpoint d_pipe (n : N) (e : penv) (l : ledger) (steps : list pstep) : option (N * presp * presp * list (N * list N)) :=
  match steps with
  | [] => None
  | (r, resp, led) :: t =>
    let '(l', x) := p_step e l r in
    if bool_decide (x = resp) && same_led l' led then d_pipe (n + 1)%N e l' t else Some (n, x, resp, map_to_list l')
  end.
Definition diag (c : case) :=
  match c with
  | mkCase _ _ _ => None
  | mkPipe e l0 steps => d_pipe 0 e (list_to_map l0) steps
  end.
