(* Correspondence + property predicates for C14 *)
From Fnd Require Export Base.Prelude Model.Contain.

(* a vector run in a child process hosting the chaincode.
   alive: the child survived; replied: a peer.Response came back; items: per item, did it complete *)
Inductive case :=
| VPlain (alive replied : bool)                                    (* any entry point, any arguments: nothing known about where it may panic *)
| VBatch (txs swaps keys : list bool) (alive replied : bool) (otx oswaps okeys : list bool)
    (* a batch whose items are scripted: flag = the item panics; observed: per item, did it complete *)
| VTasks (predict tasks : list bool) (alive replied : bool) (otasks : list bool).

Definition obs_log (l : list bool) : list (option bool) := List.map Some l.

Definition corr (c : case) : bool :=
  match c with
  | VPlain alive replied => true      (* the model claims a reply for every assignment: see holds *)
  | VBatch txs swaps keys alive replied otx oswaps okeys =>
    let '(o, lg) := run (shape_batch false txs swaps keys false) in
    bool_decide (o = Done) && alive && replied &&
    bool_decide (item_log 1 (length txs) lg = obs_log otx) &&
    bool_decide (item_log 2 (length swaps) lg = obs_log oswaps) &&
    bool_decide (item_log 3 (length keys) lg = obs_log okeys)
  | VTasks predict tasks alive replied otasks =>
    let '(o, lg) := run (shape_tasks false predict tasks false) in
    bool_decide (o = Done) && alive && replied && bool_decide (item_log 1 (length tasks) lg = obs_log otasks)
  end.

Definition holds (c : case) : bool :=
  match c with
  | VPlain alive replied => alive && replied
  | VBatch txs swaps keys alive replied otx oswaps okeys =>
    alive && replied && bool_decide (otx = List.map negb txs) && bool_decide (oswaps = List.map negb swaps) && bool_decide (okeys = List.map negb keys)
  | VTasks predict tasks alive replied otasks => alive && replied && bool_decide (otasks = List.map negb tasks)
  end.

Definition label (c : case) : N :=
  match c with
  | VPlain _ _ => 1
  | VBatch txs swaps keys _ _ _ _ _ => 2 + (if existsb id txs then 4 else 0) + (if existsb id swaps then 8 else 0) + (if existsb id keys then 16 else 0)
  | VTasks predict tasks _ _ _ => 32 + (if existsb id predict then 64 else 0) + (if existsb id tasks then 128 else 0)
  end%N.
