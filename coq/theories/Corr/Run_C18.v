(* Correspondence + property predicate for C18 *)
From Fnd Require Export Base.Prelude Model.Config.

(* what the probes after each initialisation say about the configuration in force *)
Record probe := Probe {
  p_refused : bool;            (* an ordinary invocation is refused for lack of a configuration *)
  p_symbol : list N;           (* symbol reported by the metadata query *)
  p_wallets : list (list N);   (* token contracts: issuer, fee setter, fee address setter, redeemer of the token section in force ([] = not set) *)
  p_robot_is : list N;         (* which robot key authorises batchExecute (the key itself) *)
  p_swaps_off_direct : bool;   (* a swap method called directly is refused as a disabled function *)
  p_swaps_off_task : bool;     (* ... and as a task of executeTasks *)
  p_swaps_off_batch : bool;    (* a swap answer carried by the robot's batch is not processed *)
  p_multi_off_batch : bool     (* a multi-swap answer carried by the robot's batch is not processed *)
}.
Global Instance probe_eq_dec : EqDecision probe.
Proof. solve_decision. Defined.

(* [o_stored_as_asked]: after a rejected initialisation the stored bytes are what they were; after an accepted one given as
   JSON they are the bytes of that request (whatever was stored before, the same bytes or others) *)
Record step := Step { s_admin : bool; s_arg : initarg; o_ok : bool; o_stored_as_asked : bool; o_probe : probe }.
Record case := mkCase { c_token : bool; c_steps : list step }.

Definition wal (w : option (list N)) : list N := match w with Some a => a | None => [] end.
Definition wallets_of (tok : bool) (v : cconf) : list (list N) :=
  if negb tok then [] else
  match k_token v with
  | Some t => [wal (t_issuer t); wal (t_feesetter t); wal (t_feeaddrsetter t); wal (t_redeemer t)]
  | None => [[]; []; []; []]
  end.
Definition probe_for (tok : bool) (v : cconf) : probe :=
  Probe false (k_symbol v) (wallets_of tok v) (k_robot v) (k_noswaps v) (k_noswaps v) (k_noswaps v) (k_nomulti v).
Definition no_probe : probe := Probe true [] [] [] false false false false.
Definition probe_of (tok : bool) (stored : option cconf) : probe :=
  match stored with
  | None => no_probe
  | Some v => probe_for tok v
  end.

Fixpoint m_steps (tok : bool) (stored : option cconf) (l : list step) : bool :=
  match l with
  | [] => true
  | s :: r => let '(st', ok) := init_for tok (s_admin s) stored (s_arg s) in
              Bool.eqb ok (o_ok s) && bool_decide (probe_of tok st' = o_probe s) && m_steps tok st' r
  end.
Definition corr (c : case) : bool := m_steps (c_token c) None (c_steps c).

(* the property on the implementation's outputs: accepted => admin creator and a valid decoded
   configuration, which the probes then show; rejected => stored configuration and probes unchanged *)
Fixpoint p_steps (tok : bool) (prev : probe) (l : list step) : bool :=
  match l with
  | [] => true
  | s :: r =>
    (if o_ok s
     then s_admin s && match decode (s_arg s) with
                       | Some v => valid_for tok v && bool_decide (o_probe s = probe_for tok v)
                       | None => false end
     else bool_decide (o_probe s = prev)) && o_stored_as_asked s && p_steps tok (o_probe s) r
  end.
Definition holds (c : case) : bool := p_steps (c_token c) no_probe (c_steps c).

Definition label (c : case) : N :=
  fold_right (fun s a => N.lor a (match s_arg s with IJson true true _ => 1 | IJson _ _ _ => 2 | IPos _ _ _ => 4 end +
                                   (if o_ok s then 8 else 16) + (if s_admin s then 0 else 32))%N) 0%N (c_steps c).
