(* Correspondence + property predicates for C08 *)
From Fnd Require Export Base.Prelude Base.Sum Model.Balance Model.CCTransfer Model.Swap.
Local Open Scope Z_scope.

Record sobs := SObs { so_bal : list (N * N * N * Z); so_swaps : list (N * swaprec) }.

Inductive case :=
| SOneC (me : N) (init : list (N * N * N * Z)) (ops : list sop)
        (steps : list (option err * option (N * N * N) * option (list (N * swaprec)) * sobs))
    (* arbitrary operations on one channel, observed after every step: error class, key event, the
       swaps the batch reply announces to the robot (None: this route has no such reply), ledger *)
| STwoC (a b : N) (initA initB : list (N * N * N * Z)) (acts : list sact) (fa fb : sobs).
    (* two channels, users and the robot; both ledgers observed at the end *)

Definition same_bals (m : bals) (b : list (N * N * N * Z)) : bool :=
  let mb : bals := list_to_map b in
  forallb (fun p => bget m (fst p) =? bget mb (fst p)) (map_to_list m ++ b).
Definition same_swaps (m : swmap) (l : list (N * swaprec)) : bool :=
  let ml : swmap := list_to_map l in
  forallb (fun p => bool_decide (m !! fst p = ml !! fst p)) (map_to_list m ++ l).
Definition same_chan (c : schan) (o : sobs) : bool := same_bals (sc_bal c) (so_bal o) && same_swaps (sc_swaps c) (so_swaps o).

(* what the batch reply announces: exactly the record a successful begin stored *)
Definition announced (o : sop) (e : option err) (c' : schan) : list (N * swaprec) :=
  match o, e with
  | SBegin _ id _ _ _ _ _, None => match sc_swaps c' !! id with Some r => [(id, r)] | None => [] end
  | _, _ => []
  end.

Fixpoint m_one (c : schan) (os : list sop) (steps : list (option err * option (N * N * N) * option (list (N * swaprec)) * sobs)) : bool :=
  match os, steps with
  | [], [] => true
  | o :: r, (e, ev, crt, ob) :: t =>
    let '(c', e', ev') := s_step c o in
    bool_decide (e' = e) && bool_decide (ev' = ev) && same_chan c' ob &&
    match crt with None => true | Some l => bool_decide (l = announced o e' c') end && m_one c' r t
  | _, _ => false
  end.

Definition corr (c : case) : bool :=
  match c with
  | SOneC me init ops steps => m_one (SChan me (list_to_map init) ∅) ops steps
  | STwoC a b ia ib acts fa fb =>
    let s := ssys_run (ssys0 a b (list_to_map ia) (list_to_map ib)) acts in
    same_chan (ssA s) fa && same_chan (ssB s) fb
  end.

(* ---- the property on the implementation's outputs ---------------------------------------- *)
Definition bsumb (P : N * N * N -> bool) (b : list (N * N * N * Z)) : Z :=
  fold_right (fun p acc => (if P (fst p) then snd p else 0) + acc) 0 b.
Definition o_find (o : sobs) (id : N) : option swaprec :=
  match List.find (fun p => N.eqb (fst p) id) (so_swaps o) with Some p => Some (snd p) | None => None end.
Definition is_orig (r : swaprec) : bool := negb (N.eqb (sw_creator r) 0).
(* what users can spend or get back: balances, allowed balances, and their own open escrows *)
Definition o_worth (o : sobs) : Z :=
  bsumb (fun k => N.eqb (fst (fst k)) KTok || N.eqb (fst (fst k)) KAllowed) (so_bal o) +
  fold_right (fun p acc => (if is_orig (snd p) then sw_amt (snd p) else 0) + acc) 0 (so_swaps o).
Definition o_gtot (o : sobs) : Z := bsumb (fun k => N.eqb (fst (fst k)) KGiven) (so_bal o).
Definition same_obs (x y : sobs) : bool :=
  same_bals (list_to_map (so_bal x)) (so_bal y) && same_swaps (list_to_map (so_swaps x)) (so_swaps y).
Definition others_kept (prev ob : sobs) (id : N) : bool :=
  forallb (fun p => N.eqb (fst p) id || bool_decide (o_find ob (fst p) = o_find prev (fst p))) (so_swaps prev ++ so_swaps ob).

Definition step_ok (prev : sobs) (o : sop) (e : option err) (ev : option (N * N * N)) (crt : option (list (N * swaprec))) (ob : sobs) : bool :=
  (* the robot is told of a swap only if it is on the ledger, escrowed *)
  match crt with None => true | Some l => forallb (fun p => bool_decide (o_find ob (fst p) = Some (snd p))) l end &&
  match e with
  | Some EPanic => false                                     (* one step must never fail the whole batch *)
  | Some _ => same_obs prev ob && bool_decide (ev = None) &&           (* rejected: no effect, no key published *)
              match crt with Some (_ :: _) => false | _ => true end
  | None =>
    forallb (fun p => 0 <=? snd p) (so_bal ob) &&
    match o with
    | SBegin s id sym grp to amt h =>
      bool_decide (o_find prev id = None) &&                            (* never replaces an open swap *)
      bool_decide (o_find ob id = Some (SW s s sym grp amt (sw_from (default (SW 0 0 0 0 0 0 0 0) (o_find ob id))) to h)) &&
      others_kept prev ob id && (o_worth ob =? o_worth prev) && (o_gtot ob =? o_gtot prev) && bool_decide (ev = None)
    | SAnswer id r =>
      others_kept prev ob id && (o_worth ob =? o_worth prev) && bool_decide (ev = None) &&
      match o_find ob id with Some c => N.eqb (sw_creator c) 0 | None => false end
    | SUserDone id key =>
      match o_find prev id with
      | None => false                                                    (* nothing to release: must have been rejected *)
      | Some r => N.eqb (sw_hash r) key && negb (N.eqb (sw_creator r) (sw_owner r)) &&
                  bool_decide (o_find ob id = None) && others_kept prev ob id &&
                  (o_worth ob =? o_worth prev + sw_amt r) && (o_gtot ob =? o_gtot prev) &&
                  bool_decide (ev = Some (sw_from r, id, key))           (* the key is published *)
      end
    | SRobotDone id key =>
      match o_find prev id with
      | None => false
      | Some r => N.eqb (sw_hash r) key && bool_decide (o_find ob id = None) && others_kept prev ob id &&
                  (o_worth ob =? o_worth prev - (if is_orig r then sw_amt r else 0)) && bool_decide (ev = None)
      end
    | SCancel id =>
      match o_find prev id with
      | None => false
      | Some r => bool_decide (o_find ob id = None) && others_kept prev ob id &&
                  (o_worth ob =? o_worth prev) && bool_decide (ev = None)   (* the escrow returns, nothing is created *)
      end
    end
  end.

Fixpoint p_one (prev : sobs) (os : list sop) (steps : list (option err * option (N * N * N) * option (list (N * swaprec)) * sobs)) : bool :=
  match os, steps with
  | o :: r, (e, ev, crt, ob) :: t => step_ok prev o e ev crt ob && p_one ob r t
  | _, _ => true
  end.

Definition valPb (me u t : N) (k : N * N * N) : bool :=
  N.eqb (snd (fst k)) u && (if N.eqb t me then N.eqb (fst (fst k)) KTok
                            else N.eqb (fst (fst k)) KAllowed && N.eqb (tk_sym (snd k)) t).
Definition o_val (me : N) (b : list (N * N * N * Z)) (u t : N) : Z := bsumb (valPb me u t) b.
Definition o_giv (b : list (N * N * N * Z)) (x : N) : Z := bget (list_to_map b) (KGiven, x, 0%N).
Definition o_held (b : list (N * N * N * Z)) (t : N) : Z :=
  bsumb (fun k => N.eqb (fst (fst k)) KAllowed && N.eqb (tk_sym (snd k)) t) b.
Definition users_of (b : list (N * N * N * Z)) : list N := map (fun p => snd (fst (fst p))) b.

Definition holds (c : case) : bool :=
  match c with
  | SOneC me init ops steps => p_one (SObs init []) ops steps
  | STwoC a b ia ib acts fa fb =>
    let closed := match so_swaps fa, so_swaps fb with [], [] => true | _, _ => false end in
    forallb (fun u => forallb (fun t =>
       let v1 := o_val a (so_bal fa) u t + o_val b (so_bal fb) u t in
       let v0 := o_val a ia u t + o_val b ib u t in
       (v1 <=? v0) && (negb closed || (v1 =? v0))) [a; b]) (users_of (ia ++ ib ++ so_bal fa ++ so_bal fb)) &&
    (negb closed ||
     ((o_giv (so_bal fa) b - o_held (so_bal fb) a =? o_giv ia b - o_held ib a) &&
      (o_giv (so_bal fb) a - o_held (so_bal fa) b =? o_giv ib a - o_held ia b)))
  end.

Definition label (c : case) : N :=
  match c with
  | SOneC _ _ ops steps => fold_right (fun st a => N.lor a match fst (fst (fst st)) with
       | None => 1 | Some EExists => 2 | Some ENotFound => 4 | Some EBadKey => 8 | Some EBadArg => 16
       | Some EInsufficient => 32 | Some ENegative => 64 | Some _ => 128 end) 0%N steps
  | STwoC _ _ _ _ acts fa fb => (256 + (match so_swaps fa, so_swaps fb with [], [] => 512 | _, _ => 0 end) + N.of_nat (length acts) / 8 * 1024)%N
  end.
