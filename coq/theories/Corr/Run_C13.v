(* Correspondence + property predicate for C13 *)
From Fnd Require Export Base.Prelude Model.Balance Model.Locks.
Local Open Scope Z_scope.

Notation blist := (list (N * N * N * Z)) (only parsing).
(* observed lock record: id, address, token, initial, current *)
Notation lrec := (N * N * N * Z * Z)%type (only parsing).

Record obs := mkObs { ob_err : option err; ob_bal : blist; ob_tl : list (N * N * N * Z * Z); ob_al : list (N * N * N * Z * Z) }.

Record case := mkCase {
  c_admin : N;
  c_init : blist;
  c_ops : list lop;
  o_steps : list obs
}.

Definition rec_list (l : locks) : list (N * N * N * Z * Z) :=
  List.map (fun p => (fst p, l_addr (snd p), l_tok (snd p), l_init (snd p), l_cur (snd p)))
           (merge_sort kle (map_to_list l)).

Definition same_bals (m : bals) (b : blist) : bool :=
  let mb : bals := list_to_map b in
  forallb (fun p => bget m (fst p) =? bget mb (fst p)) (map_to_list m ++ b).

Fixpoint m_steps (admin : N) (st : lstate) (os : list lop) (obs_l : list obs) : bool :=
  match os, obs_l with
  | [], [] => true
  | o :: r, ob :: t =>
    let '(st', e) := l_step admin st o in
    bool_decide (e = ob_err ob) && same_bals (ls_bal st') (ob_bal ob) &&
    bool_decide (rec_list (ls_tl st') = ob_tl ob) && bool_decide (rec_list (ls_al st') = ob_al ob) &&
    m_steps admin st' r t
  | _, _ => false
  end.

Definition st0 (c : case) : lstate := LS (list_to_map (c_init c)) ∅ ∅.
Definition corr (c : case) : bool := m_steps (c_admin c) (st0 c) (c_ops c) (o_steps c).

(* ---- the property on the implementation's outputs -------------------------------- *)
Definition sumz (l : list Z) : Z := fold_right Z.add 0 l.
Definition addrs_of (b : blist) (rs : list (N * N * N * Z * Z)) : list N :=
  List.map (fun p => snd (fst (fst p))) b ++ List.map (fun r => snd (fst (fst (fst r)))) rs.

(* locked balance = sum of remaining amounts, 0 < cur <= init, per observation *)
Definition obs_ok (ob : obs) : bool :=
  let mb : bals := list_to_map (ob_bal ob) in
  forallb (fun a => bget mb (KTokLocked, a, 0%N) =?
     sumz (List.map (fun r => if N.eqb (snd (fst (fst (fst r)))) a then snd r else 0) (ob_tl ob)))
    (addrs_of (ob_bal ob) (ob_tl ob)) &&
  forallb (fun p => let a := snd (fst (fst p)) in let tk := snd (fst p) in
     negb (N.eqb (fst (fst (fst p))) KAllowedLocked) ||
     (snd p =? sumz (List.map (fun r => if N.eqb (snd (fst (fst (fst r)))) a && N.eqb (snd (fst (fst r))) tk then snd r else 0) (ob_al ob))))
    (ob_bal ob) &&
  forallb (fun r => let a := snd (fst (fst (fst r))) in let tk := snd (fst (fst r)) in
     bget mb (KAllowedLocked, a, tk) =?
     sumz (List.map (fun r' => if N.eqb (snd (fst (fst (fst r')))) a && N.eqb (snd (fst (fst r'))) tk then snd r' else 0) (ob_al ob)))
    (ob_al ob) &&
  forallb (fun r => (0 <? snd r) && (snd r <=? snd (fst r))) (ob_tl ob ++ ob_al ob).

Definition find_rec (id : N) (rs : list (N * N * N * Z * Z)) : option (N * N * N * Z * Z) :=
  List.find (fun r => N.eqb (fst (fst (fst (fst r)))) id) rs.

(* step-wise: a failing request changes nothing; a successful lock creates exactly one record
   with cur = init = amount; a successful unlock lowers exactly that record by the amount
   (removing it at zero); spendable + locked per address and token is unchanged *)
Definition total_of (b : blist) (a : N) (kinds : list N) : Z :=
  sumz (List.map (fun p => if N.eqb (snd (fst (fst p))) a && existsb (N.eqb (fst (fst (fst p)))) kinds then snd p else 0) b).

Definition step_ok (o : lop) (before after : obs) : bool :=
  match ob_err after with
  | Some _ => same_bals (list_to_map (ob_bal before)) (ob_bal after) &&
              bool_decide (ob_tl before = ob_tl after) && bool_decide (ob_al before = ob_al after)
  | None =>
    let fam_recs (f : fam) (ob : obs) := match f with FTok => ob_tl ob | FAllowed => ob_al ob end in
    let other (f : fam) (ob : obs) := match f with FTok => ob_al ob | FAllowed => ob_tl ob end in
    match o with
    | LLock f _ id a tk amt =>
      bool_decide (find_rec id (fam_recs f before) = None) &&
      bool_decide (find_rec id (fam_recs f after) = Some (id, a, tk, amt, amt)) &&
      bool_decide (length (fam_recs f after) = S (length (fam_recs f before))) &&
      bool_decide (other f before = other f after) &&
      (total_of (ob_bal before) a [KTok; KTokLocked] =? total_of (ob_bal after) a [KTok; KTokLocked]) &&
      (total_of (ob_bal before) a [KAllowed; KAllowedLocked] =? total_of (ob_bal after) a [KAllowed; KAllowedLocked])
    | LUnlock f _ id a tk amt =>
      match find_rec id (fam_recs f before) with
      | None => false
      | Some r =>
        let cur := snd r in
        (amt <=? cur) &&
        (if cur =? amt then bool_decide (find_rec id (fam_recs f after) = None)
         else bool_decide (find_rec id (fam_recs f after) = Some (fst r, cur - amt))) &&
        bool_decide (other f before = other f after) &&
        (total_of (ob_bal before) a [KTok; KTokLocked] =? total_of (ob_bal after) a [KTok; KTokLocked]) &&
        (total_of (ob_bal before) a [KAllowed; KAllowedLocked] =? total_of (ob_bal after) a [KAllowed; KAllowedLocked])
      end
    end
  end.

Fixpoint steps_ok (os : list lop) (prev : obs) (obs_l : list obs) : bool :=
  match os, obs_l with
  | [], [] => true
  | o :: r, ob :: t => obs_ok ob && step_ok o prev ob && steps_ok r ob t
  | _, _ => false
  end.

Definition holds (c : case) : bool :=
  (* outside the property's quantifier when some unlock names a foreign address *)
  negb (all_own (c_admin c) (st0 c) (c_ops c)) ||
  steps_ok (c_ops c) (mkObs None (c_init c) [] []) (o_steps c).

Definition label (c : case) : N :=
  let '(_, es) := l_run (c_admin c) (st0 c) (c_ops c) in
  fold_right (fun e acc => N.lor acc
    match e with
    | None => 1 | Some EExists => 2 | Some EInsufficient => 4 | Some ENotFound => 8
    | Some EUnauthorized => 16 | Some EZeroAmount => 32 | Some ENegative => 64 | Some EBadArg => 128 | Some _ => 256
    end%N) (if all_own (c_admin c) (st0 c) (c_ops c) then 0%N else 512%N) es.
