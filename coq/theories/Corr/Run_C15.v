(* Correspondence + property predicate for C15 *)
From Fnd Require Export Base.Prelude Model.QueryStub.

Record case := mkCase {
  c_route : qroute; c_sender : bool; c_acl_changed : bool;
  c_body : list N;          (* stub operations the scripted body attempts, in order *)
  o_effects : list N;       (* mutating operations that reached the peer during the invocation (0: a ledger write of the framework) *)
  o_state_changed : bool    (* committed ledger differs after the invocation *)
}.

Definition corr (c : case) : bool :=
  bool_decide (effects (run_query (c_route c) (c_sender c) (c_acl_changed c) (c_body c)) = o_effects c).

Definition holds (c : case) : bool := bool_decide (o_effects c = []) && negb (o_state_changed c).

Definition label (c : case) : N :=
  (match c_route c with QDirect => 1 | QTask => 2 end + (if c_sender c then 4 else 0) + (if c_acl_changed c then 8 else 0) +
   (if existsb mutating (c_body c) then 16 else 0))%N.
