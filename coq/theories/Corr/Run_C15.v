(* Correspondence + property predicate for C15 *)
From Fnd Require Export Base.Prelude Model.QueryStub.

Inductive case :=
| mkCase (c_route : qroute) (c_sender : bool) (c_acl_changed : bool)
    (c_body : list N)          (* stub operations the scripted body attempts, in order *)
    (o_effects : list N)       (* mutating operations that reached the peer during the invocation (0: a ledger write of the framework) *)
    (o_state_changed : bool)   (* committed ledger differs after the invocation *)
| mkReads (committed : list (N * list N))   (* committed values of the keys the body touches *)
    (body : list qop)          (* the body with its data *)
    (o_reads : list (list N))  (* what the reads of the body returned, in order *)
    (o_effects : list N) (o_state_changed : bool).

Definition reads_of (xs : list (option (list N))) : list (list N) :=
  flat_map (fun x => match x with Some v => [v] | None => [] end) xs.

Definition corr (c : case) : bool :=
  match c with
  | mkCase r s a body eff _ => bool_decide (effects (run_query r s a body) = eff)
  | mkReads cm body rd eff _ =>
    let '(p, xs) := run_with wrapped_step (Peer (list_to_map cm) [] None []) body in
    bool_decide (reads_of xs = rd) && bool_decide (eff = []) &&
    match writes p, event p, others p with [], None, [] => true | _, _, _ => false end
  end.

(* a query changes nothing - and sees the committed ledger only, whatever it attempted before reading *)
Definition holds (c : case) : bool :=
  match c with
  | mkCase _ _ _ _ eff changed => bool_decide (eff = []) && negb changed
  | mkReads cm body rd eff changed =>
    bool_decide (eff = []) && negb changed &&
    bool_decide (rd = flat_map (fun o => match o with QGet k => [default [] ((list_to_map cm : gmap N (list N)) !! k)] | _ => [] end) body)
  end.

Definition label (c : case) : N :=
  match c with
  | mkCase r s a body _ _ =>
    (match r with QDirect => 1 | QTask => 2 end + (if s then 4 else 0) + (if a then 8 else 0) +
     (if existsb mutating body then 16 else 0))%N
  | mkReads _ body _ _ _ => (32 + (if existsb is_write body then 64 else 0))%N
  end.
