(* Correspondence + property predicate for C19 *)
From Fnd Require Export Base.Prelude Model.Balance Model.Fee.
Local Open Scope Z_scope.

Notation blist := (list (N * N * N * Z)) (only parsing).

(* the access-control service may change its mind about whose address an address is between two transactions: the
   environment of the following operations changes (every theorem of the model is stated for every environment) *)
Inductive xop := XOp (o : top) | XRebind (a u : N).
Definition rebind (env : tenv) (a u : N) : tenv :=
  TEnv (e_sym env) (e_issuer env) (e_feesetter env) (e_feeaddrsetter env) ((a, u) :: e_uid env).

Record case := mkCase {
  c_env : tenv;
  c_init : blist;                               (* balances written at genesis *)
  c_ops : list xop;
  o_steps : list (option err * blist);          (* per operation: error class, all balances after it *)
  o_fee : feecfg; o_feeaddr : option N; o_rates : list rate; o_emission : Z;   (* token metadata at the end *)
  o_predict : list (Z * option (Z * N))         (* predictFee queries on the final state *)
}.


Definition st0 (c : case) : tstate := TS (list_to_map (c_init c)) (FeeCfg false 0 0 0 0) None [] 0.

Global Instance feecfg_eq_dec : EqDecision feecfg.
Proof. solve_decision. Defined.
Global Instance rate_eq_dec : EqDecision rate.
Proof. solve_decision. Defined.

Fixpoint m_steps (env : tenv) (st : tstate) (os : list xop) : tstate * list (option err * blist) :=
  match os with
  | [] => (st, [])
  | XRebind a u :: r => m_steps (rebind env a u) st r
  | XOp o :: r => let '(st', e) := t_step env st o in
              let '(st'', xs) := m_steps env st' r in (st'', (e, map_to_list (ts_bal st')) :: xs)
  end.

Definition same_bals (a b : blist) : bool :=
  let ma : bals := list_to_map a in let mb : bals := list_to_map b in
  forallb (fun p => bget ma (fst p) =? bget mb (fst p)) (a ++ b).

Fixpoint same_steps (xs ys : list (option err * blist)) : bool :=
  match xs, ys with
  | [], [] => true
  | (e1, b1) :: r1, (e2, b2) :: r2 => bool_decide (e1 = e2) && same_bals b1 b2 && same_steps r1 r2
  | _, _ => false
  end.

Definition predict_of (env : tenv) (st : tstate) (a : Z) : option (Z * N) :=
  match calc_fee env st a with Ok x => Some x | Err _ => None end.

Definition corr (c : case) : bool :=
  let '(st, xs) := m_steps (c_env c) (st0 c) (c_ops c) in
  same_steps xs (o_steps c) &&
  bool_decide (ts_fee st = o_fee c) && bool_decide (ts_feeaddr st = o_feeaddr c) &&
  bool_decide (ts_rates st = o_rates c) && (ts_emission st =? o_emission c) &&
  forallb (fun p => bool_decide (predict_of (c_env c) st (fst p) = snd p)) (o_predict c).

(* ---- the property on the implementation's outputs --------------------------------
   configuration (fee, rates) is tracked by the model (corr validates it); balances
   before/after every step are the OBSERVED ones; the expected effect is computed from
   the closed forms of the statement.                                                 *)
Definition clampb (cap x : Z) : Z := if 0 <? cap then Z.min cap x else x.

Definition spec_fee (env : tenv) (st : tstate) (a : Z) (s r : N) : option (Z * N) :=
  let f := ts_fee st in
  if negb (f_set f) || (f_share f =? 0) || same_user env s r then Some (0, e_sym env) else
  let raw := a * f_share f / dec8 in
  let conv := if N.eqb (f_cur f) (e_sym env) then Some raw
              else match find_rate (ts_rates st) DBuy (f_cur f) with
                   | Some rt => Some (raw * r_rate rt / dec8) | None => None end in
  match conv with
  | Some c => Some (clampb (f_cap f) (Z.max (f_floor f) c), f_cur f)
  | None => None
  end.

Definition delta := ((N * N * N) * Z)%type.
Definition expect (before : blist) (ds : list delta) (after : blist) : bool :=
  let mb : bals := list_to_map before in let ma : bals := list_to_map after in
  let dsum k := fold_right (fun d acc => if bool_decide (fst d = k) then snd d + acc else acc) 0 ds in
  forallb (fun k => bget ma k =? bget mb k + dsum k) (map fst before ++ map fst after ++ map fst ds)
  && forallb (fun p => 0 <=? snd p) after.

(* a transfer that can be paid: positive amount, two different addresses, the amount covered, a fee that can be computed
   (a rate for a fee in another currency)
   and - when one is due - a fee address and a sender who can pay it after the amount *)
Definition transfer_payable (env : tenv) (st : tstate) (before : blist) (s r : N) (a : Z) : bool :=
  let mb : bals := list_to_map before in
  let f := ts_fee st in
  (0 <? a) && negb (N.eqb s r) && (a <=? bget mb (tok s)) &&
  negb (f_set f && negb (bool_decide (is_Some (ts_feeaddr st)))) && negb (f_set f && N.eqb (f_cur f) 0) &&
  (* a fee configured in a currency without a rate cannot be computed for anybody (the implementation computes it before
     it looks at the users): such a configuration may refuse every transfer *)
  (negb (f_set f) || (f_share f =? 0) || N.eqb (f_cur f) (e_sym env) || bool_decide (is_Some (find_rate (ts_rates st) DBuy (f_cur f)))) &&
  match spec_fee env st a s r with
  | Some (fe, c) => (fe <=? 0) || (if N.eqb (f_cur f) (e_sym env) then fe <=? bget mb (tok s) - a else fe <=? bget mb (allowed s c))
  | None => false
  end.

Definition check_step (env : tenv) (st : tstate) (o : top) (before after : blist) (e : option err) : bool :=
  match e with
  | Some x => expect before [] after &&
              (* a transfer is refused only when it cannot be paid (limits are limits of deals, not of transfers) *)
              match o with OTransfer s r a => negb (transfer_payable env st before s r a) | _ => true end &&
              (* a deal refused for its limits really lies outside the configured limits *)
              match x, o with
              | ELimits, OBuy _ a cur => match find_rate (ts_rates st) DBuy cur with Some r => negb (in_limit r a) | None => true end
              | ELimits, OBuyBack _ a cur => match find_rate (ts_rates st) DBack cur with Some r => negb (in_limit r a) | None => true end
              | _, _ => true
              end
  | None =>
    match o with
    | OTransfer s r a =>
      match spec_fee env st a s r with
      | Some (f, c) =>
        if f <=? 0 then expect before [(tok s, -a); (tok r, a)] after
        else match ts_feeaddr st with
             | Some fa =>
               let fk x := if N.eqb (f_cur (ts_fee st)) (e_sym env) then tok x else allowed x c in
               expect before [(tok s, -a); (tok r, a); (fk s, -f); (fk fa, f)] after
             | None => false
             end
      | None => false
      end
    | OBuy s a cur =>
      match find_rate (ts_rates st) DBuy cur with
      | Some r => let p := a * r_rate r / dec8 in
                  in_limit r a &&
                  expect before [(allowed s cur, -p); (allowed (e_issuer env) cur, p); (tok (e_issuer env), -a); (tok s, a)] after
      | None => false
      end
    | OBuyBack s a cur =>
      match find_rate (ts_rates st) DBack cur with
      | Some r => let p := a * r_rate r / dec8 in
                  in_limit r a &&
                  expect before [(allowed (e_issuer env) cur, -p); (allowed s cur, p); (tok s, -a); (tok (e_issuer env), a)] after
      | None => false
      end
    | OEmit s to a => expect before [(tok to, a)] after
    | _ => expect before [] after
    end
  end.

Fixpoint check_steps (env : tenv) (st : tstate) (os : list xop) (before : blist)
         (obs : list (option err * blist)) : bool :=
  match os, obs with
  | [], [] => true
  | XRebind a u :: r, _ => check_steps (rebind env a u) st r before obs
  | XOp o :: r, (e, after) :: t =>
    check_step env st o before after e && check_steps env (fst (t_step env st o)) r after t
  | _, _ => false
  end.

Definition holds (c : case) : bool := check_steps (c_env c) (st0 c) (c_ops c) (c_init c) (o_steps c).

(* labels: which fee path the successful transfers took (bit set) *)
Definition fee_path (env : tenv) (st : tstate) (o : top) : N :=
  match o with
  | OTransfer s r a =>
    match t_apply env st o with
    | Err EInsufficient => 64%N
    | Err _ => 128%N
    | Ok _ =>
      let f := ts_fee st in
      if negb (f_set f) || (f_share f =? 0) then 1%N
      else if same_user env s r then 2%N
      else match calc_fee env st a with
           | Ok (x, _) => if x =? 0 then 4%N else if (x =? f_floor f) then 8%N else if (x =? f_cap f) then 16%N else 32%N
           | Err _ => 128%N
           end
    end
  | OBuy _ _ _ | OBuyBack _ _ _ => match t_apply env st o with Ok _ => 256%N | Err ELimits => 512%N | Err _ => 1024%N end
  | _ => 0%N
  end.
Fixpoint label_ops (env : tenv) (st : tstate) (os : list xop) (acc : N) : N :=
  match os with
  | [] => acc
  | XRebind a u :: r => label_ops (rebind env a u) st r (N.lor acc 2048%N)
  | XOp o :: r => label_ops env (fst (t_step env st o)) r (N.lor acc (fee_path env st o))
  end.
Definition label (c : case) : N := label_ops (c_env c) (st0 c) (c_ops c) 0%N.
