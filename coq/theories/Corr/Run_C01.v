(* Correspondence + property predicates for C01 (authentication) and C03 (what is signed) *)
From Fnd Require Export Base.Prelude Model.Auth.

Inductive aobs := OAccept (addr : N) | OReject (e : err).
Global Instance aobs_eq_dec : EqDecision aobs.
Proof. solve_decision. Defined.

Record case := mkCase {
  c_in : authin;
  c_route : N;             (* 0 batched submission, 1 task, 2 immediate NBTx, 3 query with a sender, 4 core.CheckSign *)
  o_res : aobs;            (* accepted for address / rejected with class *)
  o_changed : bool;        (* the ledger changed *)
  c_valid : nat;           (* how many positions the harness filled with a genuine signature of that key over this request *)
  c_required : nat;        (* required signatures: policy n (ordinary account: 1) *)
  c_acl_ok : bool;         (* the ACL answered ok, maps the keys to o_res's address, not black/grey-listed *)
  c_tampered : bool;       (* C03: the request differs from what the signers signed *)
  c_bad_present : bool     (* some signature position is non-blank and not a genuine signature over this request *)
}.

(* 13-digit millisecond value (what setNonce accepts, C02) *)
Definition nonce13 (s : list N) : bool :=
  (length s =? 13)%nat && is_digits s && negb (match s with 48%N :: _ => true | _ => false end).

(* On the task route the nonce window is consulted right after authentication, inside the
   same call: an authenticated request with an ill-formatted nonce is observed as rejected
   with the nonce error (C02's subject), on the other routes it is accepted at this stage. *)
Definition corr (c : case) : bool :=
  if N.eqb (c_route c) 4 then   (* the older request format, through core.CheckSign *)
    match check_sign (c_in c) with
    | Ok a => bool_decide (o_res c = OAccept a)
    | Err e => bool_decide (o_res c = OReject e)
    end
  else
  match auth (c_in c) with
  | Ok o => if N.eqb (c_route c) 1 && negb (nonce13 (r_nonce o))
            then bool_decide (o_res c = OReject EBadNonce)
            else bool_decide (o_res c = OAccept (r_addr o)) ||
                 (* task route: the honest original already consumed this nonce *)
                 (N.eqb (c_route c) 1 && c_tampered c && bool_decide (o_res c = OReject EExists))
  | Err e => bool_decide (o_res c = OReject e)
  end.

(* C01: accepted => enough genuine signatures and a confirming ACL; rejected => nothing changed *)
Definition holds (c : case) : bool :=
  match o_res c with
  | OAccept _ => c_acl_ok c && (c_required c <=? c_valid c)%nat && (1 <=? c_valid c)%nat && negb (c_bad_present c)
  | OReject _ => negb (o_changed c)
  end.

(* C03: a request that differs from what was signed is never accepted *)
Definition holds03 (c : case) : bool :=
  match o_res c with
  | OAccept _ => negb (c_tampered c)
  (* refused only because its nonce was used already (by the honest original, sent first): the nonce is looked at after
     authentication, so the altered request had been authenticated *)
  | OReject EExists => negb (c_tampered c) && negb (o_changed c)
  | OReject _ => negb (o_changed c)
  end.

Definition label (c : case) : N :=
  if N.eqb (c_route c) 4 then match check_sign (c_in c) with Ok _ => 1024 | Err _ => 2048 end else
  match auth (c_in c) with
  | Ok _ => 1
  | Err EArgs => 2 | Err ENotSigned => 4 | Err EName => 8 | Err EAcl => 16 | Err EBlack => 32
  | Err EGrey => 64 | Err EBadSig => 128 | Err EBadNonce => 256 | Err _ => 512
  end%N.
