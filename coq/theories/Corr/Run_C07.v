(* Correspondence + property predicates for C07 *)
From Fnd Require Export Base.Prelude Model.Balance Model.Fee Model.Process.
Local Open Scope Z_scope.

Record tmeta := TM { tm_fee : feecfg; tm_feeaddr : option N; tm_rates : list rate; tm_emission : Z }.
Definition tmeta0 : tmeta := TM (FeeCfg false 0 0 0 0) None [] 0.

(* the committed state: balances, the metadata record (absent until first written), the configuration version *)
Record pledger := PL { pl_bal : bals; pl_meta : option tmeta; pl_cfg : option N }.

Inductive pprop := PTok (o : top) | PProbeCfg.

Definition writes_meta (o : top) : bool := match o with OTransfer _ _ _ | OBuy _ _ _ | OBuyBack _ _ _ => false | _ => true end.

Section Run.
  Variable env : tenv.
  Definition p_body (c : N) (mt : tmeta) (l : pledger) (p : pprop) : (option err * N * option pledger) * tmeta :=
    match p with
    | PProbeCfg => ((None, c, None), mt)
    | PTok o =>
      match t_apply env (TS (pl_bal l) (tm_fee mt) (tm_feeaddr mt) (tm_rates mt) (tm_emission mt)) o with
      | Ok st' =>
        let mt' := TM (ts_fee st') (ts_feeaddr st') (ts_rates st') (ts_emission st') in
        ((None, 0%N, Some (PL (ts_bal st') (if writes_meta o then Some mt' else pl_meta l) (pl_cfg l))), mt')
      | Err e => ((Some e, 0%N, None), mt)
      end
    end.
  Definition p_inv := p_invoke tmeta0 pl_cfg pl_meta p_body (Some ENoConfig, 0%N, None).
End Run.

(* digests of (status, message, payload, write-set, event) on the long-lived instance, on a fresh
   instance given the same state and proposal, and on the long-lived instance once more *)
Inductive pstep :=
| SInit (committed : bool) (v : N) (dA dB dA2 : N)
| STok (committed : bool) (o : top) (errA : option err) (dA dB dA2 : N)
| SProbe (seen : N) (dA dB dA2 : N)
| SQuery (dA dB dA2 : N)        (* any query: metadata, predictFee, balances *)
| SClock (dEarly dLate : N).    (* one proposal whose verdict depends on its time, sent with a timestamp before and with one
                                   after the deadline (both long past on the machine's own clock): the two replies differ *)

Inductive case := PCase (issuer feesetter feeaddrsetter : N) (uids : list (N * N)) (init : list (N * N * N * Z)) (steps : list pstep).

Fixpoint m_steps (env : tenv) (l : pledger) (m : @pmem N tmeta) (steps : list pstep) : bool :=
  match steps with
  | [] => true
  | SInit committed v _ _ _ :: t =>
    m_steps env (if committed then PL (pl_bal l) (pl_meta l) (Some v) else l) (PMem (Some v) (pm_meta m)) t
  | STok committed o errA _ _ _ :: t =>
    let '((e, _, l'), m') := p_inv env true true m l (PTok o) in
    bool_decide (e = errA) && m_steps env (match committed, l' with true, Some x => x | _, _ => l end) m' t
  | SProbe seen _ _ _ :: t =>
    let '((_, c, _), m') := p_inv env true true m l PProbeCfg in
    N.eqb c seen && m_steps env l m' t
  | SQuery _ _ _ :: t => m_steps env l m t
  | SClock _ _ :: t => m_steps env l m t
  end.

Definition corr (c : case) : bool :=
  match c with
  | PCase iss fs fas uids init steps => m_steps (TEnv 1 iss fs fas uids) (PL (list_to_map init) None None) (PMem None None) steps
  end.

Definition digests (s : pstep) : N * N * N :=
  match s with SInit _ _ a b c | STok _ _ _ a b c | SProbe _ a b c | SQuery a b c => (a, b, c) | SClock a _ => (a, a, a) end.
Definition holds (c : case) : bool :=
  match c with
  | PCase _ _ _ _ _ steps => forallb (fun s => let '(a, b, c2) := digests s in N.eqb a b && N.eqb a c2 &&
                                               match s with SClock e l => negb (N.eqb e l) | _ => true end) steps
  end.

Definition label (c : case) : N :=
  match c with
  | PCase _ _ _ _ _ steps =>
    fold_right (fun s a => N.lor a match s with
       | SInit true _ _ _ _ => 1 | SInit false _ _ _ _ => 2
       | STok true _ None _ _ _ => 4 | STok true _ (Some _) _ _ _ => 8
       | STok false _ None _ _ _ => 16 | STok false _ (Some _) _ _ _ => 32
       | SProbe _ _ _ _ => 64 | SQuery _ _ _ => 128 | SClock _ _ => 256 end) 0%N steps
  end.

Fixpoint d_steps (n : N) (env : tenv) (l : pledger) (m : @pmem N tmeta) (steps : list pstep) : option (N * option err * option err * N * N) :=
  match steps with
  | [] => None
  | SInit committed v _ _ _ :: t =>
    d_steps (n + 1)%N env (if committed then PL (pl_bal l) (pl_meta l) (Some v) else l) (PMem (Some v) (pm_meta m)) t
  | STok committed o errA _ _ _ :: t =>
    let '((e, _, l'), m') := p_inv env true true m l (PTok o) in
    if bool_decide (e = errA) then d_steps (n + 1)%N env (match committed, l' with true, Some x => x | _, _ => l end) m' t
    else Some (n, errA, e, 0%N, 0%N)
  | SProbe seen _ _ _ :: t =>
    let '((_, c, _), m') := p_inv env true true m l PProbeCfg in
    if N.eqb c seen then d_steps (n + 1)%N env l m' t else Some (n, None, None, seen, c)
  | SQuery _ _ _ :: t => d_steps (n + 1)%N env l m t
  | SClock _ _ :: t => d_steps (n + 1)%N env l m t
  end.
Definition diag (c : case) :=
  match c with
  | PCase iss fs fas uids init steps => d_steps 0 (TEnv 1 iss fs fas uids) (PL (list_to_map init) None None) (PMem None None) steps
  end.
