(* Correspondence + property predicates for C09 *)
From Fnd Require Export Base.Prelude Base.Sum Model.Balance Model.CCTransfer Model.MultiSwap.
Local Open Scope Z_scope.

Record mobs := MObs { mo_bal : list (N * N * N * Z); mo_swaps : list (N * mrec) }.

Inductive case :=
| MOneC (me : N) (init : list (N * N * N * Z)) (ops : list mop)
        (steps : list (option err * option (N * N * N) * option (list (N * mrec)) * mobs))
| MTwoC (disc : bool) (a b : N) (t0 : Z) (initA initB : list (N * N * N * Z)) (acts : list mact) (fa fb : mobs).

Definition same_bals (m : bals) (b : list (N * N * N * Z)) : bool :=
  let mb : bals := list_to_map b in
  forallb (fun p => bget m (fst p) =? bget mb (fst p)) (map_to_list m ++ b).
Definition same_swaps (m : mmap) (l : list (N * mrec)) : bool :=
  let ml : mmap := list_to_map l in
  forallb (fun p => bool_decide (m !! fst p = ml !! fst p)) (map_to_list m ++ l).
Definition same_chan (c : mchan) (o : mobs) : bool := same_bals (mc_bal c) (mo_bal o) && same_swaps (mc_swaps c) (mo_swaps o).

Definition announced (o : mop) (e : option err) (c' : mchan) : list (N * mrec) :=
  match o, e with
  | MBegin _ _ id _ _ _ _, None => match mc_swaps c' !! id with Some r => [(id, r)] | None => [] end
  | _, _ => []
  end.

Fixpoint m_one (c : mchan) (os : list mop) (steps : list (option err * option (N * N * N) * option (list (N * mrec)) * mobs)) : bool :=
  match os, steps with
  | [], [] => true
  | o :: r, (e, ev, crt, ob) :: t =>
    let '(c', e', ev') := m_step c o in
    bool_decide (e' = e) && bool_decide (ev' = ev) && same_chan c' ob &&
    match crt with None => true | Some l => bool_decide (l = announced o e' c') end && m_one c' r t
  | _, _ => false
  end.

Definition corr (c : case) : bool :=
  match c with
  | MOneC me init ops steps => m_one (MChan me (list_to_map init) ∅) ops steps
  | MTwoC disc a b t0 ia ib acts fa fb =>
    let s := msys_run disc (msys0 a b (list_to_map ia) (list_to_map ib) t0) acts in
    same_chan (msA s) fa && same_chan (msB s) fb
  end.

(* ---- the property on the implementation's outputs ---------------------------------------- *)
Definition bsumb (P : N * N * N -> bool) (b : list (N * N * N * Z)) : Z :=
  fold_right (fun p acc => (if P (fst p) then snd p else 0) + acc) 0 b.
Definition o_find (o : mobs) (id : N) : option mrec :=
  match List.find (fun p => N.eqb (fst p) id) (mo_swaps o) with Some p => Some (snd p) | None => None end.
Definition is_orig (r : mrec) : bool := negb (N.eqb (mw_creator r) 0).
Definition tot (l : list asset) : Z := fold_right (fun a acc => a_amt a + acc) 0 l.
Definition o_worth (o : mobs) : Z :=
  bsumb (fun k => N.eqb (fst (fst k)) KTok || N.eqb (fst (fst k)) KAllowed) (mo_bal o) +
  fold_right (fun p acc => (if is_orig (snd p) then tot (mw_assets (snd p)) else 0) + acc) 0 (mo_swaps o).
Definition o_gtot (o : mobs) : Z := bsumb (fun k => N.eqb (fst (fst k)) KGiven) (mo_bal o).
Definition same_obs (x y : mobs) : bool :=
  same_bals (list_to_map (mo_bal x)) (mo_bal y) && same_swaps (list_to_map (mo_swaps x)) (mo_swaps y).
Definition others_kept (prev ob : mobs) (id : N) : bool :=
  forallb (fun p => N.eqb (fst p) id || bool_decide (o_find ob (fst p) = o_find prev (fst p))) (mo_swaps prev ++ mo_swaps ob).
(* per group of the channel's own token / per allowed ticker: how a user's balances moved *)
Definition delta (prev ob : mobs) (k : N * N * N) : Z := bget (list_to_map (mo_bal ob)) k - bget (list_to_map (mo_bal prev)) k.
Definition keys_of (prev ob : mobs) : list (N * N * N) := map fst (mo_bal prev ++ mo_bal ob).
Definition expect (key : asset -> N * N * N) (l : list asset) (k : N * N * N) : Z :=
  fold_right (fun a acc => (if bool_decide (key a = k) then a_amt a else 0) + acc) 0 l.
(* every balance moved exactly by the assets (with multiplicity) under the given keys, nothing else *)
Definition moved (prev ob : mobs) (sign : Z) (key : asset -> N * N * N) (l : list asset) : bool :=
  forallb (fun k => delta prev ob k =? sign * expect key l k) (keys_of prev ob ++ map key l).
Definition user_key (me : N) (r : mrec) (a : asset) : N * N * N :=
  if N.eqb (mw_sym r) me then tok_key (mw_owner r) a else alw_key (mw_owner r) a.

Definition step_ok (me : N) (prev : mobs) (o : mop) (e : option err) (ev : option (N * N * N)) (crt : option (list (N * mrec))) (ob : mobs) : bool :=
  match crt with None => true | Some l => forallb (fun p => bool_decide (o_find ob (fst p) = Some (snd p))) l end &&
  match e with
  | Some EPanic => false                                     (* one step must never fail the whole batch *)
  | Some _ => same_obs prev ob && bool_decide (ev = None) &&          (* all or nothing; no key published *)
              match crt with Some (_ :: _) => false | _ => true end
  | None =>
    forallb (fun p => 0 <=? snd p) (mo_bal ob) &&
    match o with
    | MBegin now s id sym assets to h =>
      bool_decide (o_find prev id = None) &&
      bool_decide (o_find ob id = Some (MW s s sym assets me to h (now + user_timeout))) &&
      others_kept prev ob id && bool_decide (ev = None) &&
      moved prev ob (-1) (user_key me (MW s s sym assets me to h 0)) assets      (* every asset escrowed *)
    | MAnswer now id r =>
      bool_decide (o_find prev id = None) && others_kept prev ob id && (o_worth ob =? o_worth prev) && bool_decide (ev = None) &&
      match o_find ob id with Some c => N.eqb (mw_creator c) 0 | None => false end
    | MUserDone id key =>
      match o_find prev id with
      | None => false
      | Some r => N.eqb (mw_hash r) key && negb (N.eqb (mw_creator r) (mw_owner r)) &&
                  bool_decide (o_find ob id = None) && others_kept prev ob id &&
                  moved prev ob 1 (user_key me r) (mw_assets r) &&               (* every asset released, once *)
                  bool_decide (ev = Some (mw_from r, id, key))
      end
    | MRobotDone id key =>
      match o_find prev id with
      | None => false
      | Some r => N.eqb (mw_hash r) key && bool_decide (o_find ob id = None) && others_kept prev ob id &&
                  (o_worth ob =? o_worth prev - (if is_orig r then tot (mw_assets r) else 0)) && bool_decide (ev = None)
      end
    | MCancel now sender id =>
      match o_find prev id with
      | None => false
      | Some r => N.eqb (mw_creator r) sender && (mw_timeout r <=? now) &&       (* only the creator, only after the time-out *)
                  bool_decide (o_find ob id = None) && others_kept prev ob id && bool_decide (ev = None) &&
                  (negb (is_orig r) || moved prev ob 1 (user_key me r) (mw_assets r))   (* every asset refunded *)
      end
    end
  end.

Fixpoint p_one (me : N) (prev : mobs) (os : list mop) (steps : list (option err * option (N * N * N) * option (list (N * mrec)) * mobs)) : bool :=
  match os, steps with
  | o :: r, (e, ev, crt, ob) :: t => step_ok me prev o e ev crt ob && p_one me ob r t
  | _, _ => true
  end.

Definition mvalPb (me u t g : N) (k : N * N * N) : bool :=
  N.eqb (snd (fst k)) u && (if N.eqb t me then N.eqb (fst (fst k)) KTok && N.eqb (snd k) g
                            else N.eqb (fst (fst k)) KAllowed && N.eqb (snd k) (tk_enc t g)).
Definition o_val (me : N) (b : list (N * N * N * Z)) (u t g : N) : Z := bsumb (mvalPb me u t g) b.
Definition o_giv (b : list (N * N * N * Z)) (x : N) : Z := bget (list_to_map b) (KGiven, x, 0%N).
Definition o_held (b : list (N * N * N * Z)) (t : N) : Z :=
  bsumb (fun k => N.eqb (fst (fst k)) KAllowed && N.eqb (tk_sym (snd k)) t) b.
Definition users_of (b : list (N * N * N * Z)) : list N := map (fun p => snd (fst (fst p))) b.

Definition holds (c : case) : bool :=
  match c with
  | MOneC me init ops steps => p_one me (MObs init []) ops steps
  | MTwoC _ a b _ ia ib acts fa fb =>
    let closed := match mo_swaps fa, mo_swaps fb with [], [] => true | _, _ => false end in
    forallb (fun u => forallb (fun t => forallb (fun g =>
       let v1 := o_val a (mo_bal fa) u t g + o_val b (mo_bal fb) u t g in
       let v0 := o_val a ia u t g + o_val b ib u t g in
       (v1 <=? v0) && (negb closed || (v1 =? v0))) [0; 1; 2]%N) [a; b]) (users_of (ia ++ ib ++ mo_bal fa ++ mo_bal fb)) &&
    (negb closed ||
     ((o_giv (mo_bal fa) b - o_held (mo_bal fb) a =? o_giv ia b - o_held ib a) &&
      (o_giv (mo_bal fb) a - o_held (mo_bal fa) b =? o_giv ib a - o_held ia b)))
  end.

Definition label (c : case) : N :=
  match c with
  | MOneC _ _ ops steps => fold_right (fun st a => N.lor a match fst (fst (fst st)) with
       | None => 1 | Some EExists => 2 | Some ENotFound => 4 | Some EBadKey => 8 | Some EBadArg => 16
       | Some EInsufficient => 32 | Some ENegative => 64 | Some EUnauthorized => 128 | Some ETimeout => 256 | Some _ => 512 end) 0%N steps
  | MTwoC disc _ _ _ _ _ acts fa fb => (1024 + (if disc then 2048 else 0) + (match mo_swaps fa, mo_swaps fb with [], [] => 4096 | _, _ => 0 end) + N.of_nat (length acts) / 8 * 8192)%N
  end.

(* ---- diagnosis: first step where model and implementation differ ---------------------------- *)
Fixpoint d_one (n : N) (c : mchan) (os : list mop) (steps : list (option err * option (N * N * N) * option (list (N * mrec)) * mobs))
  : option (N * N * option err * option err * option (N * N * N) * list (N * N * N * Z) * list (N * mrec)) :=
  match os, steps with
  | o :: r, (e, ev, crt, ob) :: t =>
    let '(c', e', ev') := m_step c o in
    let bad := (if bool_decide (e' = e) then 0 else 1) + (if bool_decide (ev' = ev) then 0 else 2) + (if same_chan c' ob then 0 else 4) +
               (match crt with None => 0 | Some l => if bool_decide (l = announced o e' c') then 0 else 8 end) in
    if N.eqb bad 0 then d_one (n + 1) c' r t else Some (n, bad, e, e', ev', map_to_list (mc_bal c'), map_to_list (mc_swaps c'))
  | _, _ => None
  end%N.
Definition diag (c : case) :=
  match c with
  | MOneC me init ops steps => (d_one 0 (MChan me (list_to_map init) ∅) ops steps, [], [])
  | MTwoC disc a b t0 ia ib acts fa fb =>
    let s := msys_run disc (msys0 a b (list_to_map ia) (list_to_map ib) t0) acts in
    (None, map_to_list (mc_bal (msA s)) ++ map_to_list (mc_bal (msB s)), map_to_list (mc_swaps (msA s)) ++ map_to_list (mc_swaps (msB s)))
  end.
