(* Correspondence + property predicates for C06 *)
From Fnd Require Export Base.Prelude Base.Sum Model.Balance Model.Fee Model.Locks Model.CCTransfer Model.Swap Model.MultiSwap Model.Union.
Local Open Scope Z_scope.

Record uobs := UObs { uo_bal : list (N * N * N * Z); uo_emission : Z; uo_swaps : list (N * swaprec); uo_mswaps : list (N * mrec);
                      uo_from : list (N * ccrec); uo_to : list (N * ccrec) }.

Inductive case :=
| UCase (me admin issuer feesetter feeaddrsetter : N) (uids : list (N * N)) (ops : list uop)
        (steps : list (option err * option (N * N * N) * uobs)).

Definition same_bals (m : bals) (b : list (N * N * N * Z)) : bool :=
  let mb : bals := list_to_map b in
  forallb (fun p => bget m (fst p) =? bget mb (fst p)) (map_to_list m ++ b).
Definition same_map {A} `{EqDecision A} (m : gmap N A) (l : list (N * A)) : bool :=
  let ml : gmap N A := list_to_map l in
  forallb (fun p => bool_decide (m !! fst p = ml !! fst p)) (map_to_list m ++ l).
Definition same_state (st : ustate) (o : uobs) : bool :=
  same_bals (us_bal st) (uo_bal o) && (us_emission st =? uo_emission o) && same_map (us_swaps st) (uo_swaps o) &&
  same_map (us_mswaps st) (uo_mswaps o) && same_map (us_from st) (uo_from o) && same_map (us_to st) (uo_to o).

Fixpoint m_run (env : uenv) (st : ustate) (os : list uop) (steps : list (option err * option (N * N * N) * uobs)) : bool :=
  match os, steps with
  | [], [] => true
  | o :: r, (e, ev, ob) :: t =>
    let '(st', e', ev') := u_step env st o in
    bool_decide (e' = e) && bool_decide (ev' = ev) && same_state st' ob && m_run env st' r t
  | _, _ => false
  end.

Definition corr (c : case) : bool :=
  match c with
  | UCase me admin iss fs fas uids ops steps => m_run (UEnv me admin (TEnv me iss fs fas uids)) us0 ops steps
  end.

(* ---- the property on the implementation's outputs ---------------------------------------- *)
Definition bsumb (P : N * N * N -> bool) (b : list (N * N * N * Z)) : Z :=
  fold_right (fun p acc => (if P (fst p) then snd p else 0) + acc) 0 b.
Definition UPb (k : N * N * N) : bool :=
  N.eqb (fst (fst k)) KTok || N.eqb (fst (fst k)) KTokLocked || N.eqb (fst (fst k)) KGiven.
Definition tot (l : list asset) : Z := fold_right (fun a acc => a_amt a + acc) 0 l.
Definition o_units (me : N) (o : uobs) : Z :=
  bsumb UPb (uo_bal o) +
  fold_right (fun p acc => (if N.eqb (sw_sym (snd p)) me then sw_amt (snd p) else 0) + acc) 0 (uo_swaps o) +
  fold_right (fun p acc => (if N.eqb (mw_sym (snd p)) me then tot (mw_assets (snd p)) else 0) + acc) 0 (uo_mswaps o).
Definition same_obs (x y : uobs) : bool :=
  same_bals (list_to_map (uo_bal x)) (uo_bal y) && (uo_emission x =? uo_emission y) &&
  same_map (list_to_map (uo_swaps x) : gmap N swaprec) (uo_swaps y) && same_map (list_to_map (uo_mswaps x) : gmap N mrec) (uo_mswaps y) &&
  same_map (list_to_map (uo_from x) : gmap N ccrec) (uo_from y) && same_map (list_to_map (uo_to x) : gmap N ccrec) (uo_to y).

(* the balances an operation names (None: not spelled out here); nothing else may move *)
Definition find_sw (o : uobs) (id : N) : option swaprec :=
  match List.find (fun p => N.eqb (fst p) id) (uo_swaps o) with Some p => Some (snd p) | None => None end.
Definition find_ms (o : uobs) (id : N) : option mrec :=
  match List.find (fun p => N.eqb (fst p) id) (uo_mswaps o) with Some p => Some (snd p) | None => None end.
Definition ms_keys (me : N) (r : mrec) : list (N * N * N) :=
  map (fun a => if N.eqb (mw_sym r) me then tok_key (mw_owner r) a else alw_key (mw_owner r) a) (mw_assets r).
Definition named (me : N) (prev : uobs) (o : uop) : option (list (N * N * N)) :=
  match o with
  | UBurn s _ => Some [(KTok, s, 0%N)]
  | UEmitG _ to grp _ => Some [(KTok, to, grp)]
  | UForce _ kind from to tk _ => Some [(kind, from, tk); (kind, to, tk)]
  | UTok (OEmit _ to _) => Some [(KTok, to, 0%N)]
  | USwap (SBegin s _ sym grp _ _ _) => Some [if N.eqb sym me then (KTok, s, grp) else (KAllowed, s, tk_enc sym grp)]
  | USwap (SAnswer _ r) => Some [(KGiven, sw_from r, 0%N)]
  | USwap (SCancel id) =>
    match find_sw prev id with
    | Some r => Some [(KTok, sw_owner r, sw_grp r); (KAllowed, sw_owner r, tk_enc (sw_sym r) (sw_grp r)); (KGiven, sw_from r, 0%N)]
    | None => Some []
    end
  | USwap (SRobotDone id _) => match find_sw prev id with Some r => Some [(KGiven, sw_to r, 0%N)] | None => Some [] end
  | USwap (SUserDone id _) =>
    match find_sw prev id with
    | Some r => Some [(KTok, sw_owner r, 0%N); (KAllowed, sw_owner r, tk_enc (sw_sym r) (sw_grp r))]
    | None => Some []
    end
  | UMSwap (MBegin _ s _ sym assets to h) => Some (ms_keys me (MW s s sym assets me to h 0))
  | UMSwap (MAnswer _ _ r) => Some [(KGiven, mw_from r, 0%N)]
  | UMSwap (MCancel _ _ id) => match find_ms prev id with Some r => Some ((KGiven, mw_from r, 0%N) :: ms_keys me r) | None => Some [] end
  | UMSwap (MRobotDone id _) => match find_ms prev id with Some r => Some [(KGiven, mw_to r, 0%N)] | None => Some [] end
  | UMSwap (MUserDone id _) => match find_ms prev id with Some r => Some (ms_keys me r) | None => Some [] end
  | _ => None
  end.
(* ... and by exactly the operation's amounts: the moves an operation makes, from the operation and the
   implementation's own previous state *)
Definition sdirect (r : swaprec) : bool := N.eqb (sw_sym r) (sw_from r).
Definition sreverse (r : swaprec) : bool := N.eqb (sw_sym r) (sw_to r).
Definition sown (r : swaprec) : bool := N.eqb (sw_creator r) (sw_owner r).
Definition ms_moves (sign : Z) (key : asset -> N * N * N) (l : list asset) : list (N * N * N * Z) :=
  List.map (fun a => (key a, sign * a_amt a)) l.
Definition moves (me : N) (prev : uobs) (o : uop) : option (list (N * N * N * Z)) :=
  match o with
  | UBurn s a => Some [((KTok, s, 0%N), - a)]
  | UEmitG _ to grp a => Some [((KTok, to, grp), a)]
  | UForce _ kind from to tk a => Some [((kind, from, tk), - a); ((kind, to, tk), a)]
  | UTok (OEmit _ to a) => Some [((KTok, to, 0%N), a)]
  | USwap (SBegin s _ sym grp _ amt _) => Some [((if N.eqb sym me then (KTok, s, grp) else (KAllowed, s, tk_enc sym grp)), - amt)]
  | USwap (SAnswer _ r) => Some (if sdirect r then [] else [((KGiven, sw_from r, 0%N), - sw_amt r)])
  | USwap (SCancel id) =>
    match find_sw prev id with
    | Some r => Some (if sown r && sdirect r then [((KTok, sw_owner r, sw_grp r), sw_amt r)]
                      else if sown r && sreverse r then [((KAllowed, sw_owner r, tk_enc (sw_sym r) (sw_grp r)), sw_amt r)]
                      else if N.eqb (sw_creator r) 0 && sreverse r then [((KGiven, sw_from r, 0%N), sw_amt r)] else [])
    | None => Some []
    end
  | USwap (SRobotDone id _) =>
    match find_sw prev id with Some r => Some (if sdirect r then [((KGiven, sw_to r, 0%N), sw_amt r)] else []) | None => Some [] end
  | USwap (SUserDone id _) =>
    match find_sw prev id with
    | Some r => Some (if sdirect r then [((KAllowed, sw_owner r, tk_enc (sw_sym r) (sw_grp r)), sw_amt r)] else [((KTok, sw_owner r, 0%N), sw_amt r)])
    | None => Some []
    end
  | UMSwap (MBegin _ s _ sym assets to _) =>
    Some (ms_moves (-1) (if N.eqb sym me then tok_key s else alw_key s) assets)
  | UMSwap (MAnswer _ _ r) => Some (if mdirect r then [] else ms_moves (-1) (giv_key (mw_from r)) (mw_assets r))
  | UMSwap (MCancel _ _ id) =>
    match find_ms prev id with
    | Some r => Some (if mown r && mdirect r then ms_moves 1 (tok_key (mw_owner r)) (mw_assets r)
                      else if mown r && mreverse r then ms_moves 1 (alw_key (mw_owner r)) (mw_assets r)
                      else if N.eqb (mw_creator r) 0 && mreverse r then ms_moves 1 (giv_key (mw_from r)) (mw_assets r) else [])
    | None => Some []
    end
  | UMSwap (MRobotDone id _) =>
    match find_ms prev id with Some r => Some (if mdirect r then ms_moves 1 (giv_key (mw_to r)) (mw_assets r) else []) | None => Some [] end
  | UMSwap (MUserDone id _) =>
    match find_ms prev id with
    | Some r => Some (if mdirect r then ms_moves 1 (alw_key (mw_owner r)) (mw_assets r) else ms_moves 1 (tok_key (mw_owner r)) (mw_assets r))
    | None => Some []
    end
  | _ => None
  end.
Definition exact_moves (prev ob : uobs) (mv : list (N * N * N * Z)) : bool :=
  forallb (fun p => bget (list_to_map (uo_bal ob)) (fst p) - bget (list_to_map (uo_bal prev)) (fst p) =?
                    fold_right (fun m acc => (if bool_decide (fst m = fst p) then snd m else 0) + acc) 0 mv)
          (uo_bal prev ++ uo_bal ob ++ mv).

Definition only_named (prev ob : uobs) (keys : list (N * N * N)) : bool :=
  forallb (fun p => existsb (fun k => bool_decide (k = fst p)) keys ||
                    (bget (list_to_map (uo_bal ob)) (fst p) =? bget (list_to_map (uo_bal prev)) (fst p))) (uo_bal prev ++ uo_bal ob).

(* a transfer names the sender's and the recipient's token balance and, when a fee is due, the two balances of the fee
   leg; the fee is the one C19 defines, computed from the configuration the history has put in force (tracked by the
   model, whose agreement with the implementation is what [corr] checks) *)
Definition transfer_moves (env : tenv) (st : ustate) (s r : N) (a : Z) : option (list (N * N * N * Z)) :=
  let ts := TS ∅ (us_fee st) (us_feeaddr st) (us_rates st) 0 in
  match calc_transfer_fee env ts a s r with
  | Ok (f, c) =>
    if f <=? 0 then Some [(tok s, - a); (tok r, a)]
    else match us_feeaddr st with
         | Some fa => let fk x := if N.eqb (f_cur (us_fee st)) (e_sym env) then tok x else allowed x c in
                      Some [(tok s, - a); (tok r, a); (fk s, - f); (fk fa, f)]
         | None => None
         end
  | Err _ => None
  end.

Fixpoint p_run (env : uenv) (st : ustate) (prev : uobs) (os : list uop) (steps : list (option err * option (N * N * N) * uobs)) : bool :=
  let me := ue_me env in
  match os, steps with
  | o :: r, (e, ev, ob) :: t =>
    forallb (fun p => 0 <=? snd p) (uo_bal ob) &&                      (* no balance negative *)
    (o_units me ob =? uo_emission ob) &&                              (* units = recorded total emission *)
    (match e with Some EPanic => false | Some _ => same_obs prev ob     (* a failed operation changes nothing *)
     | None =>
       match o with
       | UTok (OTransfer s rc a) =>
         match transfer_moves (ue_tenv env) st s rc a with
         | Some mv => only_named prev ob (List.map fst mv) && exact_moves prev ob mv
         | None => false                                              (* no fee can be computed or paid: it must not succeed *)
         end
       | ULock (LLock f _ _ a tk amt) =>
         let mv := [(sp_key f a tk, - amt); (lk_key f a tk, amt)] in
         only_named prev ob (List.map fst mv) && exact_moves prev ob mv
       | ULock (LUnlock f _ id a _ amt) =>
         (* funded by THAT lock: what the lock still holds (its record as the history left it, tracked by the model) covers
            the amount; the address's other locks do not count *)
         match (match f with FTok => us_tl st | FAllowed => us_al st end) !! id with
         | Some r =>
           (amt <=? l_cur r) &&
           let mv := [(lk_key f a (l_tok r), - amt); (sp_key f a (l_tok r), amt)] in
           only_named prev ob (List.map fst mv) && exact_moves prev ob mv
         | None => false
         end
       | _ =>
         match named me prev o with Some ks => only_named prev ob ks | None => true end &&   (* exactly the named balances *)
         match moves me prev o with Some mv => exact_moves prev ob mv | None => true end     (* by exactly the amounts *)
       end
     end) &&
    p_run env (fst (fst (u_step env st o))) ob r t
  | _, _ => true
  end.

Definition holds (c : case) : bool :=
  match c with
  | UCase me admin iss fs fas uids ops steps =>
    p_run (UEnv me admin (TEnv me iss fs fas uids)) us0 (UObs [] 0 [] [] [] []) ops steps
  end.

Definition opclass (o : uop) : N :=
  match o with UTok _ => 1 | UBurn _ _ => 2 | UEmitG _ _ _ _ => 2 | ULock _ => 4 | UCC _ => 8 | USwap _ => 16 | UMSwap _ => 32 | UForce _ _ _ _ _ _ => 64 end.
Definition label (c : case) : N :=
  match c with UCase _ _ _ _ _ _ ops steps =>
    fold_right (fun o a => N.lor a (opclass o)) 0%N ops +
    128 * fold_right (fun st a => N.lor a match fst (fst st) with None => 1 | Some EInsufficient => 2 | Some _ => 4 end) 0%N steps
  end%N.

Fixpoint d_run (n : N) (env : uenv) (st : ustate) (os : list uop) (steps : list (option err * option (N * N * N) * uobs)) :=
  match os, steps with
  | o :: r, (e, ev, ob) :: t =>
    let '(st', e', ev') := u_step env st o in
    let bad := ((if bool_decide (e' = e) then 0 else 1) + (if bool_decide (ev' = ev) then 0 else 2) +
               (if same_bals (us_bal st') (uo_bal ob) then 0 else 4) + (if Z.eqb (us_emission st') (uo_emission ob) then 0 else 8) +
               (if same_map (us_swaps st') (uo_swaps ob) && same_map (us_mswaps st') (uo_mswaps ob) then 0 else 16) +
               (if same_map (us_from st') (uo_from ob) && same_map (us_to st') (uo_to ob) then 0 else 32))%N in
    if N.eqb bad 0 then d_run (n + 1)%N env st' r t
    else Some (n, bad, e, e', ev', map_to_list (us_bal st'), us_emission st', map_to_list (us_swaps st'), map_to_list (us_mswaps st'), map_to_list (us_from st'), map_to_list (us_to st'))
  | _, _ => None
  end.
Definition diag (c : case) :=
  match c with
  | UCase me admin iss fs fas uids ops steps => d_run 0 (UEnv me admin (TEnv me iss fs fas uids)) us0 ops steps
  end.
