(* Correspondence + property predicate for C20 *)
From Fnd Require Export Base.Prelude Model.Paging Proofs.PagingProofs Model.Paths.

(* ledger entries: key bytes, and the id bytes of the record stored there ([] for keys that
   are not origin-side transfer records) *)
Inductive qobs := QErr (e : qerr) | QOk (ids : list (list N)) (next : list N) | QOther.

Inductive case :=
| mkCase
    (c_ledger : list (list N * list N))          (* whole ledger in key order *)
    (c_queries : list (Z * list N))              (* page size, bookmark *)
    (o_queries : list qobs)
    (c_walks : list Z)                           (* page sizes walked from the empty bookmark *)
    (o_walks : list (option (list (list N))))    (* ids collected over the whole walk *)
    (c_existing : list (list N))                 (* ids for which channelTransferFrom finds a record *)
| mkPath                                         (* one id through core/cctransfer/paths.go *)
    (p_id : list N)
    (o_from o_to o_base : list N)                (* CCFromTransfer(id), CCToTransfer(id), Base(CCFromTransfer(id)) *)
    (o_valid : bool)                             (* IsValidID(id) *)
    (o_created : bool).                          (* channelTransferByCustomer under this id created a record *)

Global Instance qerr_eq_dec : EqDecision qerr.
Proof. solve_decision. Defined.
Global Instance qobs_eq_dec : EqDecision qobs.
Proof. solve_decision. Defined.

Definition m_query (l : list (list N * list N)) (q : Z * list N) : qobs :=
  match query l (clamp l (fst q)) (snd q) with   (* = query l (fst q) (snd q): C20_size_beyond_ledger *)
  | inl e => QErr e
  | inr (items, next) => QOk (List.map snd items) next
  end.
Definition m_walk (l : list (list N * list N)) (size : Z) : option (list (list N)) :=
  match all_pages (S (length l)) l (clamp l size) [] with
  | Some items => Some (List.map snd items)
  | None => None
  end.

Definition corr (c : case) : bool :=
  match c with
  | mkCase c_ledger c_queries o_queries c_walks o_walks _ =>
    bool_decide (List.map (m_query c_ledger) c_queries = o_queries) &&
    bool_decide (List.map (m_walk c_ledger) c_walks = o_walks)
  | mkPath id o_from o_to o_base o_valid _ =>
    bool_decide (from_key id = o_from) && bool_decide (to_key id = o_to) && bool_decide (base (from_key id) = o_base) &&
    Bool.eqb (is_valid_id id) o_valid
  end.

(* the property on the implementation's outputs: every walk with page size >= 1 yields every
   existing record exactly once and in key order, and only such records *)
Definition lt_ids (a b : list N) : bool := kltb (pfx ++ a) (pfx ++ b).
Fixpoint sorted_ids (l : list (list N)) : bool :=
  match l with
  | a :: ((b :: _) as r) => lt_ids a b && sorted_ids r
  | _ => true
  end.
Definition same_set (a b : list (list N)) : bool :=
  forallb (fun x => existsb (fun y => bool_decide (x = y)) b) a &&
  forallb (fun x => existsb (fun y => bool_decide (x = y)) a) b.

Definition holds (c : case) : bool :=
  match c with
  | mkCase _ c_queries o_queries c_walks o_walks c_existing =>
  forallb (fun p => match snd p with
                    | Some ids => if (1 <=? fst p)%Z then sorted_ids ids && same_set ids c_existing else true
                    | None => negb (1 <=? fst p)%Z
                    end) (combine c_walks o_walks) &&
  forallb (fun p => match fst p, snd p with
                    | (size, bm), QErr QPageSize => (size <=? 0)%Z
                    | (size, bm), QErr QBookmark => negb (has_prefix pfx bm)
                    | (size, bm), QOk _ _ => (0 <? size)%Z && (match bm with [] => true | _ => has_prefix pfx bm end)
                    | _, QOther => false
                    end) (combine c_queries o_queries)
  | mkPath id o_from o_to _ o_valid o_created =>
    (* a record is created only under an id the library calls valid, and then its key is prefix ++ id: a key of the
       listing, not a key of the destination side *)
    if o_created then o_valid && bool_decide (o_from = pfx ++ id) && has_prefix pfx o_from && negb (has_prefix pfx o_to)
    else true
  end.

Definition label (c : case) : N :=
  match c with
  | mkCase _ _ o_queries _ _ c_existing =>
  fold_right (fun o acc => N.lor acc match o with QErr QPageSize => 1 | QErr QBookmark => 2 | QOk _ [] => 4 | QOk _ _ => 8 | QOther => 16 end%N)
             (if (3 <=? length c_existing)%nat then 32%N else 0%N) o_queries
  | mkPath _ _ _ _ o_valid o_created => (64 + (if o_valid then 128 else 0) + (if o_created then 256 else 0))%N
  end.
