(* Correspondence + property predicate for C20 *)
From Fnd Require Export Base.Prelude Model.Paging Proofs.PagingProofs.

(* ledger entries: key bytes, and the id bytes of the record stored there ([] for keys that
   are not origin-side transfer records) *)
Inductive qobs := QErr (e : qerr) | QOk (ids : list (list N)) (next : list N) | QOther.

Record case := mkCase {
  c_ledger : list (list N * list N);          (* whole ledger in key order *)
  c_queries : list (Z * list N);              (* page size, bookmark *)
  o_queries : list qobs;
  c_walks : list Z;                           (* page sizes walked from the empty bookmark *)
  o_walks : list (option (list (list N)));    (* ids collected over the whole walk *)
  c_existing : list (list N)                  (* ids for which channelTransferFrom finds a record *)
}.

Global Instance qerr_eq_dec : EqDecision qerr.
Proof. solve_decision. Defined.
Global Instance qobs_eq_dec : EqDecision qobs.
Proof. solve_decision. Defined.

Definition m_query (l : list (list N * list N)) (q : Z * list N) : qobs :=
  match query l (clamp l (fst q)) (snd q) with   (* = query l (fst q) (snd q): C20_size_beyond_ledger *)
  | inl e => QErr e
  | inr (items, next) => QOk (List.map snd items) next
  end.
Definition m_walk (l : list (list N * list N)) (size : Z) : option (list (list N)) :=
  match all_pages (S (length l)) l (clamp l size) [] with
  | Some items => Some (List.map snd items)
  | None => None
  end.

Definition corr (c : case) : bool :=
  bool_decide (List.map (m_query (c_ledger c)) (c_queries c) = o_queries c) &&
  bool_decide (List.map (m_walk (c_ledger c)) (c_walks c) = o_walks c).

(* the property on the implementation's outputs: every walk with page size >= 1 yields every
   existing record exactly once and in key order, and only such records *)
Definition lt_ids (a b : list N) : bool := kltb (pfx ++ a) (pfx ++ b).
Fixpoint sorted_ids (l : list (list N)) : bool :=
  match l with
  | a :: ((b :: _) as r) => lt_ids a b && sorted_ids r
  | _ => true
  end.
Definition same_set (a b : list (list N)) : bool :=
  forallb (fun x => existsb (fun y => bool_decide (x = y)) b) a &&
  forallb (fun x => existsb (fun y => bool_decide (x = y)) a) b.

Definition holds (c : case) : bool :=
  forallb (fun p => match snd p with
                    | Some ids => if (1 <=? fst p)%Z then sorted_ids ids && same_set ids (c_existing c) else true
                    | None => negb (1 <=? fst p)%Z
                    end) (combine (c_walks c) (o_walks c)) &&
  forallb (fun p => match fst p, snd p with
                    | (size, bm), QErr QPageSize => (size <=? 0)%Z
                    | (size, bm), QErr QBookmark => negb (has_prefix pfx bm)
                    | (size, bm), QOk _ _ => (0 <? size)%Z && (match bm with [] => true | _ => has_prefix pfx bm end)
                    | _, QOther => false
                    end) (combine (c_queries c) (o_queries c)).

Definition label (c : case) : N :=
  fold_right (fun o acc => N.lor acc match o with QErr QPageSize => 1 | QErr QBookmark => 2 | QOk _ [] => 4 | QOk _ _ => 8 | QOther => 16 end%N)
             (if (3 <=? length (c_existing c))%nat then 32%N else 0%N) (o_queries c).
