(* Correspondence + property predicates for C17 *)
From Fnd Require Export Base.Prelude Model.Envs Model.SharedMeta.

(* threads: (goroutine id, transaction, keys); schedule: the order in which the harness let the
   invocations run (one entry per model instruction); per invocation: the keys found in its
   write-set, whether it ended without error, digest of its result run concurrently and run alone *)
Inductive case :=
| CCase (ths : list (N * N * list N)) (schedule : list nat) (obs : list (list N * bool * N * N))
| MCase (bits : list N) (schedule : list nat) (obs : list (list N * N * N)).
    (* metadata operations (each sets one setting: bit) interleaved at the point where the metadata has been
       loaded into the contract object; per invocation: the settings found in the record it saved,
       digest of its result run concurrently and run alone *)

Definition corr (c : case) : bool :=
  match c with
  | CCase ths schedule obs =>
    let s := c_run by_gid (c_init ths) schedule in
    bool_decide (cs_nil s = []) && Nat.eqb (length ths) (length obs) &&
    forallb (fun p => let '((_, stub, _), (keys, okflag, _, _)) := p in
                      bool_decide (default [] (cs_writes s !! stub) = keys) && okflag) (combine ths obs)
  | MCase bits schedule obs =>
    let s := m_meta_run [] (fun _ => 0%nat) bits schedule in
    Nat.eqb (length bits) (length obs) &&
    forallb (fun p => let '(i, (seen, _, _)) := p in
                      match saved_of s i with
                      | Some l => bool_decide (list_to_set l =@{gset N} list_to_set seen)
                      | None => false
                      end) (combine (seq 0 (length obs)) obs)
  end.

Definition holds (c : case) : bool :=
  match c with
  | CCase ths _ obs =>
    forallb (fun p => let '((_, _, ks), (keys, okflag, dc, ds)) := p in
                      okflag && bool_decide (keys = ks) && N.eqb dc ds) (combine ths obs)   (* its own writes, and the result it has alone *)
  | MCase bits _ obs =>
    forallb (fun p => let '(b, (seen, dc, ds)) := p in bool_decide (seen = [b]) && N.eqb dc ds) (combine bits obs)
  end.

Definition label (c : case) : N :=
  match c with
  | CCase ths schedule _ => (N.of_nat (length ths) + 8 * N.of_nat (length schedule / 4))%N
  | MCase bits _ _ => (1000 + N.of_nat (length bits))%N
  end.
