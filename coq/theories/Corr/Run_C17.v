(* Correspondence + property predicates for C17 *)
From Fnd Require Export Base.Prelude Model.Envs.

(* threads: (goroutine id, transaction, keys); schedule: the order in which the harness let the
   invocations run (one entry per model instruction); per invocation: the keys found in its
   write-set, whether it ended without error, digest of its result run concurrently and run alone *)
Inductive case := CCase (ths : list (N * N * list N)) (schedule : list nat) (obs : list (list N * bool * N * N)).

Definition corr (c : case) : bool :=
  match c with
  | CCase ths schedule obs =>
    let s := c_run by_gid (c_init ths) schedule in
    bool_decide (cs_nil s = []) && Nat.eqb (length ths) (length obs) &&
    forallb (fun p => let '((_, stub, _), (keys, okflag, _, _)) := p in
                      bool_decide (default [] (cs_writes s !! stub) = keys) && okflag) (combine ths obs)
  end.

Definition holds (c : case) : bool :=
  match c with
  | CCase ths _ obs =>
    forallb (fun p => let '((_, _, ks), (keys, okflag, dc, ds)) := p in
                      okflag && bool_decide (keys = ks) && N.eqb dc ds) (combine ths obs)   (* its own writes, and the result it has alone *)
  end.

Definition label (c : case) : N :=
  match c with CCase ths schedule _ => (N.of_nat (length ths) + 8 * N.of_nat (length schedule / 4))%N end.
