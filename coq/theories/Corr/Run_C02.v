(* Correspondence + property predicate for C02 *)
From Fnd Require Export Base.Prelude Model.Nonce.
Local Open Scope N_scope.

Inductive case :=
| CDirect (ns : list N) (obs : list (option nerr)) (wfinal : list N)
    (* setNonce called directly, from the empty window *)
| CSys (rs : list req) (obs : list rres) (final : list (N * list N))
    (* signed requests executed through batchExecute / executeTasks on the real chaincode *)
| CSysL (legacy : list (N * N)) (rs : list req) (obs : list rres) (final : list (N * list N)).
    (* the same on a ledger where some senders still have a nonce record in the old format: one number, the newest
       accepted nonce (read as a window of that one entry) *)

Definition store_list (s : nstore) : list (N * list N) := merge_sort kle (map_to_list s).

Definition corr (c : case) : bool :=
  match c with
  | CDirect ns obs wf => let '(w, es) := w_run [] ns in bool_decide (es = obs) && bool_decide (w = wf)
  | CSys rs obs fin => let '(s, xs) := exec_run ∅ rs in
                       bool_decide (xs = obs) && bool_decide (store_list s = fin)
  | CSysL leg rs obs fin => let '(s, xs) := exec_run (list_to_map (List.map (fun p => (fst p, [snd p])) leg)) rs in
                            bool_decide (xs = obs) && bool_decide (store_list s = fin)
  end.

(* specification of the whole system: per sender, every nonce ever accepted *)
Fixpoint spec_sys (hs : gmap N (list N)) (rs : list req) : list rres :=
  match rs with
  | [] => []
  | r :: t =>
    let h := default [] (hs !! r_sender r) in
    match spec_accept (r_nonce r) h with
    | Some e => RNonce e :: spec_sys hs t
    | None => (if r_body_ok r then ROk else RBodyFailed) :: spec_sys (<[r_sender r := r_nonce r :: h]> hs) t
    end
  end.

Definition is_accepted (x : rres) : bool := match x with RNonce _ => false | _ => true end.

(* no (sender, nonce) pair accepted twice, checked directly on the observed trace *)
Fixpoint no_double (seen : list (N * N)) (rs : list req) (obs : list rres) : bool :=
  match rs, obs with
  | r :: t, x :: xt =>
    let p := (r_sender r, r_nonce r) in
    if is_accepted x
    then negb (existsb (fun q => N.eqb (fst q) (fst p) && N.eqb (snd q) (snd p)) seen) && no_double (p :: seen) t xt
    else no_double seen t xt
  | [], [] => true
  | _, _ => false
  end.

Definition holds (c : case) : bool :=
  match c with
  | CDirect ns obs _ => bool_decide (snd (h_run [] ns) = obs)
  | CSys rs obs _ => bool_decide (spec_sys ∅ rs = obs) && no_double [] rs obs
  | CSysL leg rs obs _ => bool_decide (spec_sys (list_to_map (List.map (fun p => (fst p, [snd p])) leg)) rs = obs) && no_double leg rs obs
  end.

(* path labels: which branch of setNonce each attempt takes (bit set over the history) *)
Definition branch (n : N) (w : list N) : N :=
  if negb (format_ok n) then 1 else
  match w with
  | [] => 2
  | _ => let last := List.last w 0 in
         if last <? n then (if (length (fst (set_nonce n w)) <? S (length w))%nat then 8 else 4)
         else if ttl <? last - n then 16
         else let '(a, b) := split_ge n w in
              match b with
              | x :: _ => if x =? n then 32 else (match a with [] => 64 | _ => 128 end)
              | [] => 256
              end
  end.
Fixpoint label_w (w : list N) (ns : list N) (acc : N) : N :=
  match ns with
  | [] => acc
  | n :: r => label_w (fst (set_nonce n w)) r (N.lor acc (branch n w))
  end.
Definition label (c : case) : N :=
  match c with
  | CDirect ns _ _ => label_w [] ns 0
  | CSys rs _ _ => 512
  | CSysL _ _ _ _ => 1024
  end.
