(* Correspondence + property predicates for C10 *)
From Fnd Require Export Base.Prelude Base.Sum Model.Balance Model.CCTransfer.
Local Open Scope Z_scope.

Notation blist := (list (N * N * N * Z)) (only parsing).
Notation rlist := (list (N * ccrec)) (only parsing).

Record cobs := CObs { co_bal : list (N * N * N * Z); co_from : list (N * ccrec); co_to : list (N * ccrec) }.

Inductive case :=
| COne (me admin : N) (init : list (N * N * N * Z)) (ops : list ccop) (steps : list (option err * cobs))
    (* arbitrary operations (also out of turn) on one channel, observed after every step *)
| CTwo (a b adminA adminB : N) (initA initB : list (N * N * N * Z)) (acts : list act) (fa fb : cobs)
    (* two channels, users + protocol robot; final observation of both *)
| CRestore (before after : list (N * Z)).
    (* a transfer under some ticker that was created and cancelled, or carried through the whole protocol there and back
       again: every balance entry of both channels (numbered by the harness) before and after *)

Definition same_bals (m : bals) (b : list (N * N * N * Z)) : bool :=
  let mb : bals := list_to_map b in
  forallb (fun p => bget m (fst p) =? bget mb (fst p)) (map_to_list m ++ b).
Definition same_recs (m : ccmap) (l : list (N * ccrec)) : bool :=
  let ml : ccmap := list_to_map l in
  forallb (fun p => bool_decide (m !! fst p = ml !! fst p)) (map_to_list m ++ l).
Definition same_chan (c : chan) (o : cobs) : bool :=
  same_bals (ch_bal c) (co_bal o) && same_recs (ch_from c) (co_from o) && same_recs (ch_to c) (co_to o).

Fixpoint m_one (c : chan) (os : list ccop) (steps : list (option err * cobs)) : bool :=
  match os, steps with
  | [], [] => true
  | o :: r, (e, ob) :: t => let '(c', e') := cc_step c o in bool_decide (e' = e) && same_chan c' ob && m_one c' r t
  | _, _ => false
  end.

Definition corr (c : case) : bool :=
  match c with
  | COne me adm init ops steps => m_one (Chan me adm (list_to_map init) ∅ ∅) ops steps
  | CTwo a b aa ab ia ib acts fa fb =>
    let s := sys_run (sys0 a b aa ab (list_to_map ia) (list_to_map ib)) acts in
    same_chan (sA s) fa && same_chan (sB s) fb
  | CRestore _ _ => true        (* nothing of the model is involved: a predicate on the observations alone *)
  end.

(* ---- the property on the implementation's outputs ---------------------------------- *)
Definition bsumb (P : N * N * N -> bool) (b : list (N * N * N * Z)) : Z :=
  fold_right (fun p acc => (if P (fst p) then snd p else 0) + acc) 0 b.
Definition o_spend (o : cobs) : Z := bsumb (fun k => N.eqb (fst (fst k)) KTok) (co_bal o).
Definition o_gtot (o : cobs) : Z := bsumb (fun k => N.eqb (fst (fst k)) KGiven) (co_bal o).
Definition o_phase (o : cobs) (id : N) : N :=
  match List.find (fun p => N.eqb (fst p) id) (co_from o) with
  | None => 0 | Some p => if cc_commit (snd p) then 2 else 1 end%N.
Definition legalb (p q : N) : bool :=
  N.eqb p q || (N.eqb p 0 && N.eqb q 1) || (N.eqb p 1 && N.eqb q 2) || (N.eqb p 1 && N.eqb q 0) || (N.eqb p 2 && N.eqb q 0).
Definition same_obs (x y : cobs) : bool :=
  same_bals (list_to_map (co_bal x)) (co_bal y) && same_recs (list_to_map (co_from x)) (co_from y) &&
  same_recs (list_to_map (co_to x)) (co_to y).

(* an accepted step moves exactly the balances its balance move names, by exactly the record's amount:
   the move of the model applied to the implementation's own previous state gives its next balances *)
Definition exact_move (me adm : N) (prev : cobs) (o : ccop) (ob : cobs) : bool :=
  match cc_apply (Chan me adm (list_to_map (co_bal prev)) (list_to_map (co_from prev)) (list_to_map (co_to prev))) o with
  | Ok c' => same_bals (ch_bal c') (co_bal ob)
  | Err _ => false
  end.

(* what an accepted step leaves of the record it names: an initiation leaves it open, a commit committed, a cancel or a
   delete gone (whatever the spelling of the id in the request was) *)
Definition has_rec (l : list (N * ccrec)) (id : N) : bool := existsb (fun p => N.eqb (fst p) id) l.
Definition record_after (o : ccop) (ob : cobs) : bool :=
  match o with
  | OFromCustomer _ id _ _ _ _ _ | OFromAdmin _ id _ _ _ _ _ _ => N.eqb (o_phase ob id) 1
  | OCommitFrom id => N.eqb (o_phase ob id) 2
  | OCancelFrom id | ODeleteFrom id => N.eqb (o_phase ob id) 0
  | OCreateTo id _ _ => has_rec (co_to ob) id
  | ODeleteTo id => negb (has_rec (co_to ob) id)
  end.

Fixpoint p_one (me adm : N) (prev : cobs) (os : list ccop) (steps : list (option err * cobs)) : bool :=
  match os, steps with
  | o :: r, (e, ob) :: t =>
    (match e with
     | Some _ => same_obs prev ob                                  (* rejected: no effect *)
     | None => (o_spend ob + o_gtot ob =? o_spend prev + o_gtot prev) &&   (* no units created or destroyed *)
               forallb (fun p => legalb (o_phase prev (fst p)) (o_phase ob (fst p))) (co_from prev ++ co_from ob) &&
               forallb (fun p => 0 <=? snd p) (co_bal ob) && exact_move me adm prev o ob && record_after o ob
     end) && p_one me adm ob r t
  | _, _ => true
  end.

Definition o_giv (o : cobs) (x : N) : Z := bget (list_to_map (co_bal o)) (KGiven, x, 0%N).
Definition o_held (o : cobs) (sym : N) : Z :=
  bsumb (fun k => N.eqb (fst (fst k)) KAllowed && N.eqb (tk_sym (snd k)) sym) (co_bal o).
Definition has_id (l : list (N * ccrec)) (id : N) : bool := existsb (fun p => N.eqb (fst p) id) l.
(* in flight a -> b: open forward origin records not yet mirrored at the destination;
   returning: open backward records at b not yet mirrored at a *)
Definition o_inflight (ofrom : cobs) (oto : cobs) (fwd : bool) (to : N) : Z :=
  fold_right (fun p acc => (if Bool.eqb (cc_fwd (snd p)) fwd && N.eqb (cc_to (snd p)) to && negb (cc_commit (snd p)) && negb (has_id (co_to oto) (fst p))
                            then cc_amt (snd p) else 0) + acc) 0 (co_from ofrom).

Definition holds (c : case) : bool :=
  match c with
  | COne me adm init ops steps => p_one me adm (CObs init [] []) ops steps
  | CTwo a b _ _ ia ib acts fa fb =>
    (* given-out = held + in flight, in both directions of the pair *)
    ((o_giv fa b - o_giv (CObs ia [] []) b) =?
       (o_held fb a - o_held (CObs ib [] []) a) + o_inflight fa fb true b + o_inflight fb fa false a) &&
    ((o_giv fb a - o_giv (CObs ib [] []) a) =?
       (o_held fa b - o_held (CObs ia [] []) b) + o_inflight fb fa true a + o_inflight fa fb false b)
  | CRestore before after =>
    (* exact refund / the same user, token and amount: every balance entry is what it was *)
    let get (l : list (N * Z)) k := match List.find (fun p => N.eqb (fst p) k) l with Some p => snd p | None => 0 end in
    forallb (fun p => get before (fst p) =? get after (fst p)) (before ++ after)
  end.

Definition label (c : case) : N :=
  match c with
  | COne _ _ _ _ steps => fold_right (fun st a => N.lor a match fst st with
       | None => 1 | Some EExists => 2 | Some ENotFound => 4 | Some ECommitted => 8 | Some ENotCommitted => 16
       | Some EInsufficient => 32 | Some EChannel => 64 | Some EToken => 128 | Some _ => 256 end) 0%N steps
  | CTwo _ _ _ _ _ _ acts _ _ => (512 + N.of_nat (length acts) / 8 * 1024)%N
  | CRestore _ _ => 256%N
  end.
