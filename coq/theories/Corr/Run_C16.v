(* Correspondence + property predicate for C16 *)
From Fnd Require Export Base.Prelude Model.Balance Model.Index.
Local Open Scope Z_scope.

Record case := mkCase {
  c_hist : list istep;
  o_outs : list iout;                      (* observed output per step (lists sorted by address/token id) *)
  o_prim : list (N * N * N * Z);           (* final primaries *)
  o_inv : list (N * N * N * Z);            (* final inverse entries (kind, token, addr) *)
  o_flags : list N                         (* kinds whose index flag is set, sorted *)
}.

Definition nz_le (a b : N * Z) : Prop := (fst a <= fst b)%N.
Global Instance nz_le_dec a b : Decision (nz_le a b) := N_le_dec _ _.
Definition n_le (a b : N) : Prop := (a <= b)%N.
Global Instance n_le_dec a b : Decision (n_le a b) := N_le_dec _ _.

Global Instance iout_eq_dec : EqDecision iout.
Proof. solve_decision. Defined.

Definition norm_out (o : iout) : iout :=
  match o with OList l => OList (merge_sort nz_le l) | x => x end.

Definition same_map (m : bals) (l : list (N * N * N * Z)) : bool :=
  let ml : bals := list_to_map l in
  forallb (fun p => bget m (fst p) =? bget ml (fst p)) (map_to_list m ++ l).

Definition corr (c : case) : bool :=
  let '(s, outs) := i_run i_init (c_hist c) in
  bool_decide (List.map norm_out outs = o_outs c) &&
  same_map (prim s) (o_prim c) && same_map (inv s) (o_inv c) &&
  bool_decide (merge_sort n_le (flags s) = o_flags c).

(* the property on the implementation's outputs: every owners listing that is followed by
   the direct reads of the same (kind, token) must be exactly the non-zero ones — whenever
   the index of that kind is complete (no legacy write of the kind since its last build) *)
Fixpoint check (h : list istep) (outs : list iout) (dirty : list N) : bool :=
  match h, outs with
  | SLegacy k _ :: r, _ :: t => check r t (kkind k :: dirty)
  | SCreateIndex kd :: r, _ :: t => check r t (List.filter (fun x => negb (N.eqb x kd)) dirty)
  | SOwners kd tk :: SGets kd' tk' addrs :: r, OList lo :: OList lg :: t =>
    (if N.eqb kd kd' && N.eqb tk tk' && negb (existsb (N.eqb kd) dirty) && negb (N.eqb tk 0)
     then bool_decide (lo = List.filter (fun p => negb (snd p =? 0)) (merge_sort nz_le lg))
     else true) && check r t dirty
  | _ :: r, _ :: t => check r t dirty
  | [], [] => true
  | _, _ => false
  end.

(* ... and at the end of the history: for every kind whose index is complete, the inverse entries on the ledger are
   exactly the non-zero balances with a token, with the same amounts *)
Fixpoint dirty_of (h : list istep) (dirty : list N) : list N :=
  match h with
  | SLegacy k _ :: r => dirty_of r (kkind k :: dirty)
  | SCreateIndex kd :: r => dirty_of r (List.filter (fun x => negb (N.eqb x kd)) dirty)
  | _ :: r => dirty_of r dirty
  | [] => dirty
  end.
Definition final_ok (c : case) : bool :=
  let d := dirty_of (c_hist c) [] in
  let pm : bals := list_to_map (o_prim c) in
  let im : bals := list_to_map (o_inv c) in
  forallb (fun p => let '(kd, tk, a, v) := p in
             existsb (N.eqb kd) d || ((v =? bget pm (kd, a, tk)) && negb (v =? 0))) (o_inv c) &&
  forallb (fun p => let '(kd, a, tk, v) := p in
             existsb (N.eqb kd) d || N.eqb tk 0 || (v =? 0) || (bget im (kd, tk, a) =? v)) (o_prim c).

Definition holds (c : case) : bool := check (c_hist c) (o_outs c) [] && final_ok c.

Definition label (c : case) : N :=
  fold_right (fun x acc => N.lor acc
    match x with
    | STx Cached true _ => 1 | STx Cached false _ => 2 | STx Raw true _ => 4 | STx Raw false _ => 8
    | SCreateIndex _ => 16 | SLegacy _ _ => 32 | SOwners _ _ => 64 | SByAddr _ _ => 128 | SGets _ _ _ => 256
    end%N) 0%N (c_hist c).
