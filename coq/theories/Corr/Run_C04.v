(* Correspondence + property predicate for C04 *)
From Fnd Require Export Base.Prelude Model.Cache Model.Nonce Model.Batch.

Notation llist := (list (N * list N)) (only parsing).

Inductive case :=
| CBatch (bodies : list body) (l0 : list (N * list N)) (ids : list N) (o_res : list ires) (o_led : list (N * list N))
| CTasks (bodies : list body) (l0 : list (N * list N)) (ts : list task) (o_res : list ires) (o_led : list (N * list N)).

Definition same_led (m : ledger) (l : list (N * list N)) : bool :=
  let ml : ledger := list_to_map l in
  forallb (fun p => bool_decide (led_get m (fst p) = led_get ml (fst p))) (map_to_list m ++ l).

Definition corr (c : case) : bool :=
  match c with
  | CBatch bodies l0 ids res led => let '(l, rs) := batch_exec bodies (list_to_map l0) ids in
                                    bool_decide (rs = res) && same_led l led
  | CTasks bodies l0 ts res led => let '(l, rs) := tasks_exec bodies (list_to_map l0) ts in
                                   bool_decide (rs = res) && same_led l led
  end.

(* the property on the implementation's outputs: replies and final ledger equal those of
   serial all-or-nothing execution *)
Definition holds (c : case) : bool :=
  match c with
  | CBatch bodies l0 ids res led => let '(l, rs) := spec_batch bodies (list_to_map l0) ids in
                                    bool_decide (rs = res) && same_led l led
  | CTasks bodies l0 ts res led => let '(l, rs) := spec_tasks bodies (list_to_map l0) ts in
                                   bool_decide (rs = res) && same_led l led
  end.

Definition res_bit (r : ires) : N :=
  match r with
  | IOk _ _ _ => 1 | IErr INotFound => 2 | IErr IMalformed => 4 | IErr (INonce _) => 8 | IErr IBody => 16 | IErr IPanic => 32 | IErr IOther => 256
  end%N.
Definition label (c : case) : N :=
  match c with
  | CBatch _ _ _ res _ => fold_right (fun r a => N.lor a (res_bit r)) 64%N res
  | CTasks _ _ _ res _ => fold_right (fun r a => N.lor a (res_bit r)) 128%N res
  end.
