(* Correspondence + property predicate for C04 *)
From Fnd Require Export Base.Prelude Model.Cache Model.Nonce Model.Batch.

Notation llist := (list (N * list N)) (only parsing).

Inductive case :=
| CBatch (bodies : list body) (l0 : list (N * list N)) (ids : list N) (o_res : list ires) (o_led : list (N * list N))
| CTasks (bodies : list body) (l0 : list (N * list N)) (ts : list task) (o_res : list ires) (o_led : list (N * list N))
(* a batch of library operations that announce something in the batch reply (swapBegin -> created swaps, multiSwapBegin ->
   created multi-swaps): per listed transaction, in listed order, its number, whether it is a multi-swap begin and whether
   its reply carries no error; and the numbers of the transactions whose swap / multi-swap the reply announces *)
| CAnnounce (listed : list (N * bool * bool)) (o_swaps o_mswaps : list N)
(* a batch or task list of scripted transactions that report accounting records (as balance moves do), some of them equal:
   per listed transaction whether its reply carries no error, the amounts of the records its body reported, and the
   amounts of the records the event lists for it *)
| CAccount (listed : list (bool * list N * list N)).

Definition same_led (m : ledger) (l : list (N * list N)) : bool :=
  let ml : ledger := list_to_map l in
  forallb (fun p => bool_decide (led_get m (fst p) = led_get ml (fst p))) (map_to_list m ++ l).

Definition corr (c : case) : bool :=
  match c with
  | CBatch bodies l0 ids res led => let '(l, rs) := batch_exec bodies (list_to_map l0) ids in
                                    bool_decide (rs = res) && same_led l led
  | CTasks bodies l0 ts res led => let '(l, rs) := tasks_exec bodies (list_to_map l0) ts in
                                   bool_decide (rs = res) && same_led l led
  | CAnnounce _ _ _ => true     (* nothing of the model is involved: a predicate on the reply alone *)
  | CAccount _ => true
  end.

(* what a reply must announce: exactly what its successful transactions produced, in their order *)
Definition announced (multi : bool) (listed : list (N * bool * bool)) : list N :=
  List.map (fun x => fst (fst x)) (List.filter (fun x => Bool.eqb (snd (fst x)) multi && snd x) listed).

(* the property on the implementation's outputs: replies and final ledger equal those of
   serial all-or-nothing execution *)
Definition holds (c : case) : bool :=
  match c with
  | CBatch bodies l0 ids res led => let '(l, rs) := spec_batch bodies (list_to_map l0) ids in
                                    bool_decide (rs = res) && same_led l led
  | CTasks bodies l0 ts res led => let '(l, rs) := spec_tasks bodies (list_to_map l0) ts in
                                   bool_decide (rs = res) && same_led l led
  | CAnnounce listed sw ms => bool_decide (sw = announced false listed) && bool_decide (ms = announced true listed)
  | CAccount listed =>
    (* the event reports exactly the records a successful transaction produced - each as often as it was produced -,
       and none for a failed one *)
    forallb (fun x : bool * list N * list N =>
               bool_decide (merge_sort N.le (snd x) = merge_sort N.le (if fst (fst x) then snd (fst x) else []))) listed
  end.

Definition res_bit (r : ires) : N :=
  match r with
  | IOk _ _ _ => 1 | IErr INotFound => 2 | IErr IMalformed => 4 | IErr (INonce _) => 8 | IErr IBody => 16 | IErr IPanic => 32 | IErr IOther => 256
  end%N.
Definition label (c : case) : N :=
  match c with
  | CBatch _ _ _ res _ => fold_right (fun r a => N.lor a (res_bit r)) 64%N res
  | CTasks _ _ _ res _ => fold_right (fun r a => N.lor a (res_bit r)) 128%N res
  | CAccount listed => fold_right (fun (x : bool * list N * list N) a => N.lor a (if fst (fst x) then 8192%N else 16384%N)) 4096%N listed
  | CAnnounce listed _ _ => fold_right (fun (x : N * bool * bool) a => N.lor a (if snd x then 1024%N else 2048%N)) 512%N listed
  end.
