(* Correspondence + property predicate for C11 *)
From Fnd Require Export Base.Prelude Model.Gate.

Inductive gobs := OCreatorErr | OUnauthorized | ONotFound | OSwapOff | OHandled.
Global Instance gobs_eq_dec : EqDecision gobs.
Proof. solve_decision. Defined.

Inductive case :=
| CInvoke (c : gcfg) (cr : creator) (f : fname) (o : gobs) (changed : bool)      (* direct call / batched submission *)
| CAlias (c : gcfg) (cr : creator) (f : fname) (o : gobs) (changed : bool)       (* f's name with a capital first letter: not a registered function *)
| CTask (c : gcfg) (f : fname) (o : gobs) (changed : bool)                        (* one task of executeTasks *)
| CInit (cr : creator) (accepted : bool) (changed : bool)
| CAdmin (c : gcfg) (sender : N) (accepted : bool) (changed : bool)               (* admin-only method body *)
| CBatchSwaps (c : gcfg) (swap_processed multi_processed : bool).                 (* robot batch carrying a swap and a multi-swap answer *)

Definition obs_of (g : gres) : gobs :=
  match g with GCreatorErr => OCreatorErr | GUnauthorized => OUnauthorized | GNotFound => ONotFound
             | GSwapOff => OSwapOff | GHandled _ => OHandled end.

Definition corr (c : case) : bool :=
  match c with
  | CInvoke g cr f o _ => bool_decide (obs_of (invoke_gate g cr f) = o)
  | CAlias g cr _ o _ => bool_decide (obs_of (invoke_gate g cr FUnknown) = o)
  | CTask g f o _ => bool_decide (obs_of (task_gate g f) = o)
  | CInit cr a _ => Bool.eqb (init_gate cr) a
  | CAdmin g s a _ => Bool.eqb (admin_gate g s) a
  | CBatchSwaps g a b => Bool.eqb (fst (batch_sections g)) a && Bool.eqb (snd (batch_sections g)) b
  end.

Definition fn_method (f : fname) : option method := match f with FMethod m | FRobotFn m => Some m | _ => None end.
Definition is_robot_fn (f : fname) : bool := match f with FBatchExecute | FRobotFn _ => true | _ => false end.

(* the property on the implementation's outputs *)
Definition h_invoke (g : gcfg) (cr : creator) (f : fname) (o : gobs) (changed : bool) : bool :=
    match o with
    | OHandled =>
      cr_ok cr &&
      (if is_robot_fn f then negb (N.eqb (g_robot g) 0) && (N.eqb (g_robot g) (cr_ski cr) || N.eqb (g_robot g) (cr_hash cr)) else true) &&
      (match fn_method f with Some m => negb (disabled g m) | None => true end) &&
      (match f with FSwapDone => negb (g_noswaps g) | FMultiSwapDone => negb (g_nomultiswaps g) | _ => true end)
    | _ => negb changed
    end.

Definition holds (c : case) : bool :=
  match c with
  | CInvoke g cr f o changed => h_invoke g cr f o changed
  (* whatever ran under the alias is f's method: it may run only where f itself may *)
  | CAlias g cr f o changed => h_invoke g cr f o changed
  | CTask g f o changed =>
    match o with
    (* a task list is accepted from any certificate: the robot's own functions must never run as tasks *)
    | OHandled => negb (is_robot_fn f) && match fn_method f with Some m => negb (disabled g m) | None => false end
    | _ => negb changed
    end
  | CInit cr a changed => if a then cr_ok cr && cr_admin_ou cr else negb changed
  | CAdmin g s a changed => if a then negb (N.eqb (g_admin g) 0) && N.eqb s (g_admin g) else negb changed
  | CBatchSwaps g a b => (negb a || negb (g_noswaps g)) && (negb b || negb (g_nomultiswaps g))
  end.

Definition label (c : case) : N :=
  match c with
  | CInvoke _ _ _ OHandled _ => 1 | CInvoke _ _ _ OUnauthorized _ => 2 | CInvoke _ _ _ ONotFound _ => 4
  | CInvoke _ _ _ OCreatorErr _ => 8 | CInvoke _ _ _ OSwapOff _ => 16
  | CAlias _ _ _ _ _ => 4096
  | CTask _ _ OHandled _ => 32 | CTask _ _ _ _ => 64
  | CInit _ true _ => 128 | CInit _ false _ => 256 | CAdmin _ _ true _ => 512 | CAdmin _ _ false _ => 1024
  | CBatchSwaps _ _ _ => 2048
  end%N.
