From Fnd Require Export Corr.Run_C01.
Definition holds (c : case) : bool := holds03 c.
