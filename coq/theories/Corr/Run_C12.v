(* Correspondence + property predicate for C12, evaluated on harness cases. *)
From Fnd Require Export Base.Prelude Model.Cache.

Record case := mkCase {
  c_led : list (key * val);      (* initial ledger *)
  c_hist : list cop;             (* history; the batch is committed at the end *)
  o_outs : list cout;            (* observed: output per operation *)
  o_led : list (key * val);      (* observed: ledger after BatchCacheStub.Commit, sorted *)
  o_calls : list write;          (* observed: PutState/DelState calls on the ledger stub, sorted *)
  o_lost_commit_error : bool     (* the same history run again on a ledger that refuses the write of one flushed key (each
                                    in turn): some Commit reported success although a write had been refused *)
}.

Definition model_obs (c : case) : list cout * list (key * val) * list write :=
  let '(outs, l, calls) := m_behaviour (list_to_map (c_led c)) (c_hist c) in
  (outs, led_list l, calls).

Definition corr (c : case) : bool :=
  bool_decide (model_obs c = (o_outs c, o_led c, o_calls c)).

(* the property itself, evaluated on what the implementation did: outputs equal the
   overlay specification's; final ledger is pointwise the specification's; the calls
   are exactly the specification's written keys *)
Definition keys_of_op (o : cop) : list key :=
  match o with
  | CGet k | CPut k _ | CDel k | CBGet k | CBPut k _ | CBDel k => [k]
  | _ => []
  end.
Definition universe (c : case) : list key :=
  map fst (c_led c) ++ flat_map keys_of_op (c_hist c) ++ map fst (o_led c) ++ map wkey (o_calls c).

Definition holds (c : case) : bool :=
  let l0 : ledger := list_to_map (c_led c) in
  let '(s, outs) := s_run (s_init l0) (c_hist c) in
  let lobs : ledger := list_to_map (o_led c) in
  bool_decide (outs = o_outs c) &&
  forallb (fun k => bool_decide (lobs !! k = s_final_at s k)) (universe c) &&
  bool_decide (o_calls c = wlist (sb s)) &&
  (* "the ledger receives exactly the final value or deletion of every key written": a commit that could not deliver one
     of them must say so *)
  negb (o_lost_commit_error c).

(* path label: which cache layers were exercised (bit set) *)
Fixpoint label_run (s : sst) (h : list cop) (acc : N) : N :=
  match h with
  | [] => acc
  | o :: r =>
    let bit :=
      match o with
      | CGet k =>
        match stx s with
        | Some t => match t !! k with
                    | Some e => if wdel e then 1 else 2
                    | None => match sb s !! k with Some e => if wdel e then 4 else 8 | None => 16 end
                    end
        | None => match sb s !! k with Some e => if wdel e then 4 else 8 | None => 16 end
        end
      | CBGet k => match sb s !! k with Some e => if wdel e then 4 else 8 | None => 16 end
      | CPut _ [] | CBPut _ [] => 32
      | CDiscard => 64
      | CCommit => 128
      | _ => 0
      end%N in
    label_run (fst (s_step s o)) r (N.lor acc bit)
  end.
Definition label (c : case) : N := label_run (s_init (list_to_map (c_led c))) (c_hist c) 0%N.
