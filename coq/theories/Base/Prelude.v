(* Shared definitions for all models: keys, values, ledger maps, small list helpers.
   Definitions only (plus the trivial facts everybody needs).                       *)
From Coq Require Export NArith ZArith List Lia Bool.
Export ListNotations.
From stdpp Require Export gmap sorting.

Notation key := N (only parsing).
Notation val := (list N) (only parsing).           (* bytes; [] = absent (Fabric: empty value = delete) *)

Notation ledger := (gmap key val).

Definition led_get (l : ledger) (k : key) : val := default [] (l !! k).
Definition led_put (l : ledger) (k : key) (v : val) : ledger :=
  match v with [] => delete k l | _ => <[k:=v]> l end.
Definition led_del (l : ledger) (k : key) : ledger := delete k l.

(* canonical listing of a ledger for comparison with the implementation *)
Definition kle {A} (a b : N * A) : Prop := (fst a <= fst b)%N.
Global Instance kle_dec {A} (a b : N * A) : Decision (kle a b) := N_le_dec _ _.
Definition led_list (l : ledger) : list (key * val) := merge_sort kle (map_to_list l).

(* indices (from 0) of the elements on which [f] is false *)
Fixpoint bad_idx_from {A} (f : A -> bool) (i : N) (l : list A) : list N :=
  match l with
  | [] => []
  | x :: r => if f x then bad_idx_from f (N.succ i) r else i :: bad_idx_from f (N.succ i) r
  end.
Definition bad_idx {A} (f : A -> bool) (l : list A) : list N := bad_idx_from f 0%N l.

(* histogram of labels *)
Fixpoint hist_add (x : N) (h : list (N * N)) : list (N * N) :=
  match h with
  | [] => [(x, 1%N)]
  | (y, c) :: r => if N.eqb x y then (y, N.succ c) :: r else (y, c) :: hist_add x r
  end.
Definition histogram (l : list N) : list (N * N) := fold_right hist_add [] l.

Lemma bad_idx_from_nil {A} (f : A -> bool) l i :
  bad_idx_from f i l = [] <-> forall x, In x l -> f x = true.
Proof.
  revert i; induction l as [|a l IH]; intros i; cbn [bad_idx_from].
  - split; [intros _ x []|reflexivity].
  - destruct (f a) eqn:E.
    + rewrite IH. split.
      * intros H x [<-|Hx]; [exact E|apply H, Hx].
      * intros H x Hx. apply H. right. exact Hx.
    + split; [discriminate|]. intros H. specialize (H a (or_introl eq_refl)). congruence.
Qed.

(* ---- outcome of an operation: value or error class ---------------------------- *)
Inductive err :=
| EInsufficient | ENegative | EUnauthorized | EZeroAmount | ESameUser | EFeeAddr
| EFeeCurrency | ELimits | ENoRate | EIssuerOp | EFeeTooBig | EBadLimits | ERateZero
| ECurrencyIsToken | EExists | ENotFound | EBadArg | EOther
| EArgs | ENotSigned | EName | EAcl | EBlack | EGrey | EBadSig | EBadNonce | EDisabled | ENoMethod | ENoConfig
| ECommitted | ENotCommitted | EChannel | EToken | EBadKey | ETimeout | EPanic.
Global Instance err_eq_dec : EqDecision err.
Proof. solve_decision. Defined.

Inductive res (A : Type) := Ok (a : A) | Err (e : err).
Arguments Ok {A} a.
Arguments Err {A} e.
Definition rbind {A B} (x : res A) (f : A -> res B) : res B :=
  match x with Ok a => f a | Err e => Err e end.
Notation "x <- e1 ;; e2" := (rbind e1 (fun x => e2)) (at level 100, e1 at next level, e2 at level 200, right associativity).
Definition is_ok {A} (x : res A) : bool := match x with Ok _ => true | Err _ => false end.
