(* Summation over finite maps (used by the conservation / lock-accounting invariants) *)
From Fnd Require Import Base.Prelude.
Local Open Scope Z_scope.

Section msum.
  Context {K : Type} `{Countable K} {A : Type}.
  Variable f : K -> A -> Z.

  Definition msum (m : gmap K A) : Z := map_fold (fun k v acc => f k v + acc) 0 m.

  Lemma msum_empty : msum ∅ = 0.
  Proof. unfold msum. apply map_fold_empty. Qed.

  Lemma msum_insert_fresh (m : gmap K A) k v : m !! k = None -> msum (<[k:=v]> m) = f k v + msum m.
  Proof.
    intros Hn. unfold msum. apply (map_fold_insert_L (fun k v acc => f k v + acc)); [|exact Hn].
    intros. lia.
  Qed.

  Lemma msum_delete (m : gmap K A) k v : m !! k = Some v -> msum m = f k v + msum (delete k m).
  Proof.
    intros Hs. rewrite <- (insert_delete m k v Hs) at 1.
    apply msum_insert_fresh. apply lookup_delete.
  Qed.

  Lemma msum_insert (m : gmap K A) k v :
    msum (<[k:=v]> m) = f k v + msum m - match m !! k with Some w => f k w | None => 0 end.
  Proof.
    destruct (m !! k) as [w|] eqn:E.
    - rewrite <- (insert_delete_insert m k v). rewrite msum_insert_fresh by apply lookup_delete.
      rewrite (msum_delete m k w E). lia.
    - rewrite msum_insert_fresh by exact E. lia.
  Qed.

  Lemma msum_delete' (m : gmap K A) k :
    msum (delete k m) = msum m - match m !! k with Some w => f k w | None => 0 end.
  Proof.
    destruct (m !! k) as [w|] eqn:E.
    - rewrite (msum_delete m k w E). lia.
    - rewrite delete_notin by exact E. lia.
  Qed.

  Lemma msum_nonneg (m : gmap K A) : (forall k v, m !! k = Some v -> 0 <= f k v) -> 0 <= msum m.
  Proof.
    unfold msum. apply (map_fold_ind (fun r m => (forall k v, m !! k = Some v -> 0 <= f k v) -> 0 <= r)).
    - lia.
    - intros i x m' r Hi IH Hall. assert (0 <= f i x) by (apply Hall, lookup_insert).
      assert (0 <= r). { apply IH. intros k v Hk. apply Hall. rewrite lookup_insert_ne; [exact Hk|]. intros ->. congruence. }
      lia.
  Qed.
End msum.
Arguments msum : simpl never.
