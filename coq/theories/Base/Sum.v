(* Summation over finite maps (used by the conservation / lock-accounting invariants) *)
From Fnd Require Import Base.Prelude.
Local Open Scope Z_scope.

Section msum.
  Context {K : Type} `{Countable K} {A : Type}.
  Variable f : K -> A -> Z.

  Definition msum (m : gmap K A) : Z := map_fold (fun k v acc => f k v + acc) 0 m.

  Lemma msum_empty : msum ∅ = 0.
  Proof. unfold msum. apply map_fold_empty. Qed.

  Lemma msum_insert_fresh (m : gmap K A) k v : m !! k = None -> msum (<[k:=v]> m) = f k v + msum m.
  Proof.
    intros Hn. unfold msum. apply (map_fold_insert_L (fun k v acc => f k v + acc)); [|exact Hn].
    intros. lia.
  Qed.

  Lemma msum_delete (m : gmap K A) k v : m !! k = Some v -> msum m = f k v + msum (delete k m).
  Proof.
    intros Hs. rewrite <- (insert_delete m k v Hs) at 1.
    apply msum_insert_fresh. apply lookup_delete.
  Qed.

  Lemma msum_insert (m : gmap K A) k v :
    msum (<[k:=v]> m) = f k v + msum m - match m !! k with Some w => f k w | None => 0 end.
  Proof.
    destruct (m !! k) as [w|] eqn:E.
    - rewrite <- (insert_delete_insert m k v). rewrite msum_insert_fresh by apply lookup_delete.
      rewrite (msum_delete m k w E). lia.
    - rewrite msum_insert_fresh by exact E. lia.
  Qed.

  Lemma msum_delete' (m : gmap K A) k :
    msum (delete k m) = msum m - match m !! k with Some w => f k w | None => 0 end.
  Proof.
    destruct (m !! k) as [w|] eqn:E.
    - rewrite (msum_delete m k w E). lia.
    - rewrite delete_notin by exact E. lia.
  Qed.

  Lemma msum_nonneg (m : gmap K A) : (forall k v, m !! k = Some v -> 0 <= f k v) -> 0 <= msum m.
  Proof.
    unfold msum. apply (map_fold_ind (fun r m => (forall k v, m !! k = Some v -> 0 <= f k v) -> 0 <= r)).
    - lia.
    - intros i x m' r Hi IH Hall. assert (0 <= f i x) by (apply Hall, lookup_insert).
      assert (0 <= r). { apply IH. intros k v Hk. apply Hall. rewrite lookup_insert_ne; [exact Hk|]. intros ->. congruence. }
      lia.
  Qed.
End msum.
Arguments msum : simpl never.

Section msum_ext.
  Context {K : Type} `{Countable K} {A : Type}.

  Lemma msum_ext (f g : K -> A -> Z) (m : gmap K A) :
    (forall k v, m !! k = Some v -> f k v = g k v) -> msum f m = msum g m.
  Proof.
    unfold msum. revert f g. induction m as [|i x m Hi IH] using map_ind; intros f g Hfg.
    - rewrite !map_fold_empty. reflexivity.
    - rewrite (map_fold_insert_L (fun k v acc => f k v + acc)); [|intros; lia|exact Hi].
      rewrite (map_fold_insert_L (fun k v acc => g k v + acc)); [|intros; lia|exact Hi].
      rewrite (Hfg i x) by apply lookup_insert. f_equal. apply IH.
      intros k v Hk. apply Hfg. rewrite lookup_insert_ne; [exact Hk|]. intros ->. congruence.
  Qed.

  (* two weight functions that agree except at key k *)
  Lemma msum_ext_except (f g : K -> A -> Z) (m : gmap K A) k :
    (forall k' v, k' <> k -> m !! k' = Some v -> f k' v = g k' v) ->
    msum f m = msum g m + match m !! k with Some v => f k v - g k v | None => 0 end.
  Proof.
    intros Hfg. destruct (m !! k) as [v|] eqn:E.
    - rewrite (msum_delete f m k v E), (msum_delete g m k v E).
      rewrite (msum_ext f g (delete k m)); [lia|].
      intros k' v' Hk'. apply lookup_delete_Some in Hk' as [Hne Hk']. apply Hfg; [congruence|exact Hk'].
    - rewrite (msum_ext f g m); [lia|]. intros k' v' Hk'. apply Hfg; [intros ->; congruence|exact Hk'].
  Qed.
End msum_ext.
