(* C18 — Configuration integrity: only valid configurations are stored and applied.
   Only property theorems, their assumptions and non-vacuity examples.          *)
From Fnd Require Import Base.Prelude Model.Config Proofs.ConfigProofs.

(* (1) an initialisation stores a configuration iff it is requested with a certificate of the
       admin organisational unit, decodes (JSON without unknown or ill-typed fields, or a
       known channel's positional argument list) and satisfies the schema *)
Theorem C18_stored_iff_admin_and_valid : forall adm stored a,
  snd (init adm stored a) = true <->
  (adm = true /\ exists v, decode a = Some v /\ valid v = true /\ fst (init adm stored a) = Some v).
Proof. exact stored_iff_admin_and_valid. Qed.
Print Assumptions C18_stored_iff_admin_and_valid.

(* (2) a rejected initialisation leaves the previous configuration untouched *)
Theorem C18_rejected_keeps_previous : forall adm stored a,
  snd (init adm stored a) = false -> fst (init adm stored a) = stored.
Proof. exact rejected_keeps_previous. Qed.
Print Assumptions C18_rejected_keeps_previous.

Theorem C18_base_stored_iff : forall adm stored a,
  snd (init_for false adm stored a) = true <->
  (adm = true /\ exists v, decode a = Some v /\ valid_for false v = true /\ fst (init_for false adm stored a) = Some v).
Proof. exact base_stored_iff. Qed.
Theorem C18_base_rejected_keeps_previous : forall adm stored a,
  snd (init_for false adm stored a) = false -> fst (init_for false adm stored a) = stored.
Proof. exact base_rejected_keeps_previous. Qed.
Print Assumptions C18_base_stored_iff.

(* (3) over any sequence of initialisations: what is stored is valid, and the configuration in
       force is exactly the last accepted one; without one every invocation is refused *)
Theorem C18_run_stored_valid : forall l s, stored_valid s -> stored_valid (fst (init_run s l)).
Proof. exact run_stored_valid. Qed.
Theorem C18_invoke_uses_last_stored : forall l s, fst (init_run s l) = last_accepted s l.
Proof. exact invoke_uses_last_stored. Qed.
Theorem C18_no_config_refused : invoke_config None = Err ENoConfig.
Proof. exact no_config_refused. Qed.
Print Assumptions C18_run_stored_valid.
Print Assumptions C18_invoke_uses_last_stored.
Print Assumptions C18_no_config_refused.

(* the three patterns on examples (symbol, robot key, base58 address) *)
Example C18_patterns :
  (symbol_ok [84; 84], symbol_ok [84], symbol_ok [84; 49; 45; 65], symbol_ok [84; 84; 45], symbol_ok [49; 84],
   hex_ok [48; 97], hex_ok [65], hex_ok [], b58_ok [50; 68], b58_ok [48], b58_ok [73])%N
  = (true, false, true, false, false, true, false, false, true, false, false).
Proof. vm_compute. reflexivity. Qed.
