(* C12 — The layered write cache behaves like the ledger for point operations.
   This file contains only the property theorems (closed by [exact]), their
   assumptions, and non-vacuity examples.                                     *)
From Fnd Require Import Base.Prelude Model.Cache Proofs.CacheProofs.

(* (1) every read, on either layer, in every history over every initial ledger, returns
       what the overlay specification returns: most recent write/delete of the same
       transaction, else of an earlier committed transaction (or batch-level write),
       else the ledger value.                                                     *)
Theorem C12_cache_refines_map : forall (l : ledger) (h : list cop),
  snd (m_run (m_init l) h) = snd (s_run (s_init l) h).
Proof. exact cache_refines_map. Qed.
Print Assumptions C12_cache_refines_map.

(* (2) writes of a discarded transaction are never visible to anyone *)
Theorem C12_discarded_invisible : forall l h1 body h2, Forall txop body ->
  let '(oa, la, ca) := m_behaviour l (h1 ++ CBegin :: body ++ CDiscard :: h2) in
  let '(ob, lb, cb) := m_behaviour l (h1 ++ CBegin :: CDiscard :: h2) in
  la = lb /\ ca = cb /\ exists mid, length mid = length body /\
    oa = (firstn (length h1) ob) ++ ONone :: mid ++ skipn (S (length h1)) ob.
Proof. exact discarded_invisible. Qed.
Print Assumptions C12_discarded_invisible.

(* (3) commit: the ledger receives exactly the final value or deletion of every key
       written by committed transactions, and nothing else *)
Theorem C12_commit_exact : forall l h k,
  let '(s, _) := s_run (s_init l) h in
  let '(_, led', _) := m_behaviour l h in
  led' !! k = s_final_at s k.
Proof. exact commit_exact. Qed.
Print Assumptions C12_commit_exact.

Theorem C12_commit_untouched : forall l h k,
  let '(s, _) := s_run (s_init l) h in
  let '(_, led', _) := m_behaviour l h in
  sb s !! k = None -> led' !! k = l !! k.
Proof. exact commit_untouched. Qed.
Print Assumptions C12_commit_untouched.

Theorem C12_commit_calls_exact : forall b k v d,
  In (k, v, d) (b_commit_calls b) <-> bw b !! k = Some (WE v d).
Proof. exact commit_calls_exact. Qed.
Theorem C12_commit_calls_once : forall b, NoDup (wkey <$> b_commit_calls b).
Proof. exact commit_calls_once. Qed.
Print Assumptions C12_commit_calls_exact.
Print Assumptions C12_commit_calls_once.

(* (4) the writes list returned by a transaction commit *)
Theorem C12_tx_writes_exact : forall b t k v d,
  In (k, v, d) (snd (t_commit b t)) <-> t !! k = Some (WE v d).
Proof. exact tx_writes_exact. Qed.
Theorem C12_tx_writes_sorted_nodup : forall b t,
  Sorted wle (snd (t_commit b t)) /\ NoDup (wkey <$> snd (t_commit b t)).
Proof. exact tx_writes_sorted_nodup. Qed.
Print Assumptions C12_tx_writes_exact.
Print Assumptions C12_tx_writes_sorted_nodup.

(* non-vacuity: a concrete history with a committed and a discarded transaction *)
Example C12_example :
  (let '(o, l, c) := m_behaviour {[ 1%N := [7%N] ]}
    [CBegin; CPut 1%N [8%N]; CGet 1%N; CCommit; CBegin; CDel 1%N; CGet 1%N; CDiscard; CGet 1%N; CBGet 2%N]
   in (o, led_list l, c))
  = ([ONone; ONone; OVal [8%N]; OWrites [(1%N, [8%N], false)]; ONone; ONone; OVal []; ONone;
      OVal [8%N]; OVal []],
     [(1%N, [8%N])], [(1%N, [8%N], false)]).
Proof. vm_compute. reflexivity. Qed.
