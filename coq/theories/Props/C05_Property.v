(* C05 — Pending transactions: deferred, executed at most once, always consumed.
   Stated on the serial specification, which the implementation model equals (C04).
   Only property theorems, their assumptions and non-vacuity examples.          *)
From Fnd Require Import Base.Prelude Model.Cache Model.Nonce Model.Batch Proofs.BatchProofs Proofs.PendingProofs.

(* (1) a submission only records the request: exactly one key changes *)
Theorem C05_submit_records_only : forall l id s n bi k,
  k <> pk id -> led_get (submit l id s n bi) k = led_get l k.
Proof. exact submit_records_only. Qed.
Print Assumptions C05_submit_records_only.

(* (2) over any history of submissions and batches whose id lists are arbitrary multisets, a
       request is executed at most as often as it was submitted (transaction ids are unique:
       at most once), counting what is still pending *)
Theorem C05_executed_at_most_once : forall bodies h, data_only bodies -> forall l id,
  (count_exec id (snd (h_exec bodies l h)) + present (fst (h_exec bodies l h)) id
   <= count_submit id h + present l id)%nat.
Proof. exact executed_at_most_once. Qed.
Print Assumptions C05_executed_at_most_once.

(* (3) a listed request is removed when its batch commits - whether it succeeded, failed,
       panicked or could not be decoded *)
Theorem C05_always_consumed : forall bodies ids, data_only bodies -> forall l id, In id ids ->
  led_get (fst (spec_batch bodies l ids)) (pk id) = [].
Proof. exact always_consumed. Qed.
Print Assumptions C05_always_consumed.

(* (4) listing an unknown id produces an error for that id only and affects nothing else *)
Theorem C05_unknown_id_local : forall bodies l id, led_get l (pk id) = [] ->
  spec_item bodies l id = (l, IErr INotFound).
Proof. exact unknown_id_local. Qed.
Print Assumptions C05_unknown_id_local.

(* the implementation model of a batch equals the specification used above *)
Theorem C05_impl_is_spec : forall bodies l ids,
  snd (batch_exec bodies l ids) = snd (spec_batch bodies l ids) /\
  forall k, led_get (fst (batch_exec bodies l ids)) k = led_get (fst (spec_batch bodies l ids)) k.
Proof. exact batch_is_serial. Qed.

Example C05_example :
  let bodies := [[SPut (dk 0) [7]%N]] in
  let b := 1700000000000%N in
  let '(l, out) := h_exec bodies ∅ [HSubmit 1 5 b 0; HBatch [1; 1; 2]; HSubmit 2 5 (b + 1) 0; HBatch [2; 1]]%N in
  (List.map (List.map (fun x => match snd x with IOk _ _ _ => 1 | IErr INotFound => 0 | IErr _ => 2 end)) out,
   led_get l (pk 1), led_get l (pk 2), count_exec 1 out) = ([[1; 0; 0]; [1; 0]], [], [], 1%nat).
Proof. vm_compute. reflexivity. Qed.
