(* C05 — Pending transactions: deferred, executed at most once, always consumed.
   Stated on the serial specification, which the implementation model equals (C04).
   Only property theorems, their assumptions and non-vacuity examples.          *)
From Fnd Require Import Base.Prelude Model.Cache Model.Nonce Model.Batch Model.Auth Model.Gate Model.Pipeline
  Proofs.BatchProofs Proofs.PendingProofs Proofs.AuthProofs Proofs.PipelineProofs.

(* (1) a submission only records the request: exactly one key changes *)
Theorem C05_submit_records_only : forall l id s n bi k,
  k <> pk id -> led_get (submit l id s n bi) k = led_get l k.
Proof. exact submit_records_only. Qed.
Print Assumptions C05_submit_records_only.

(* (2) over any history of submissions and batches whose id lists are arbitrary multisets, a
       request is executed at most as often as it was submitted (transaction ids are unique:
       at most once), counting what is still pending *)
Theorem C05_executed_at_most_once : forall bodies h, data_only bodies -> forall l id,
  (count_exec id (snd (h_exec bodies l h)) + present (fst (h_exec bodies l h)) id
   <= count_submit id h + present l id)%nat.
Proof. exact executed_at_most_once. Qed.
Print Assumptions C05_executed_at_most_once.

(* (3) a listed request is removed when its batch commits - whether it succeeded, failed,
       panicked or could not be decoded *)
Theorem C05_always_consumed : forall bodies ids, data_only bodies -> forall l id, In id ids ->
  led_get (fst (spec_batch bodies l ids)) (pk id) = [].
Proof. exact always_consumed. Qed.
Print Assumptions C05_always_consumed.

(* (4) listing an unknown id produces an error for that id only and affects nothing else *)
Theorem C05_unknown_id_local : forall bodies l id, led_get l (pk id) = [] ->
  spec_item bodies l id = (l, IErr INotFound).
Proof. exact unknown_id_local. Qed.
Print Assumptions C05_unknown_id_local.

(* the implementation model of a batch equals the specification used above *)
Theorem C05_impl_is_spec : forall bodies l ids,
  snd (batch_exec bodies l ids) = snd (spec_batch bodies l ids) /\
  forall k, led_get (fst (batch_exec bodies l ids)) k = led_get (fst (spec_batch bodies l ids)) k.
Proof. exact batch_is_serial. Qed.

Example C05_example :
  let bodies := [[SPut (dk 0) [7]%N]] in
  let b := 1700000000000%N in
  let '(l, out) := h_exec bodies ∅ [HSubmit 1 5 b 0; HBatch [1; 1; 2]; HSubmit 2 5 (b + 1) 0; HBatch [2; 1]]%N in
  (List.map (List.map (fun x => match snd x with IOk _ _ _ => 1 | IErr INotFound => 0 | IErr _ => 2 end)) out,
   led_get l (pk 1), led_get l (pk 2), count_exec 1 out) = ([[1; 0; 0]; [1; 0]], [], [], 1%nat).
Proof. vm_compute. reflexivity. Qed.

(* ---- whole invocations: gate + authentication + pending store + batch / task execution (Model/Pipeline.v) ---- *)

(* (6) "a submission that fails validation records nothing": a request refused by the gate (malformed creator,
       disabled method, not the robot) or by authentication leaves the ledger as it was *)
Theorem C05_refused_records_nothing : forall e l r,
  match snd (p_step e l r) with RGate _ | RAuth _ => fst (p_step e l r) = l | _ => True end.
Proof. exact refused_unchanged. Qed.
Print Assumptions C05_refused_records_nothing.

(* (7) the composed pipeline (layered caches) equals its serial specification, for every history of invocations *)
Theorem C05_pipeline_refines : forall e h l m, leq l m ->
  snd (p_run e l h) = snd (q_run e m h) /\ leq (fst (p_run e l h)) (fst (q_run e m h)).
Proof. exact pipeline_refines. Qed.
Print Assumptions C05_pipeline_refines.

(* (8) deferred, and only for whom it was authorised: over any history of invocations that starts without pending
       records, every transaction a batch executes was listed by the robot and had been submitted earlier by a request
       that passed the gate and authenticated; the executed record names exactly the authenticated address and nonce -
       and such a request carried the required number of genuine signatures (C01) *)
Theorem C05_executed_was_authorised : forall e h1 cr ids l0, data_only (pe_bodies e) ->
  (forall id, led_get l0 (pk id) = []) ->
  let l := fst (p_run e l0 h1) in
  forall rs, snd (p_step e l (PBatch cr ids)) = RItems rs ->
  is_robot (pe_cfg e) cr = true /\
  forall id r, In (id, r) (combine ids rs) -> r <> IErr INotFound -> authorised h1 id (led_get l (pk id)).
Proof. exact p_executed_was_authorised. Qed.
Print Assumptions C05_executed_was_authorised.

Theorem C05_authorised_is_signed : forall h id rec, authorised h id rec ->
  exists cr i o bi, In (PSubmit cr id i bi) h /\ auth i = Ok o /\ rec = [r_addr o; dec_val (r_nonce o); bi] /\
    exists n ktypes, a_acl i = AclOk (r_addr o) false false n ktypes /\
      (1 <= count_genuine (the_kis i) (sig_args i) (a_sigs i) (the_msg i))%nat /\
      (required n (n_signers i) <= count_genuine (the_kis i) (sig_args i) (a_sigs i) (the_msg i))%nat.
Proof. exact authorised_is_signed. Qed.
Print Assumptions C05_authorised_is_signed.

(* (9) "no business effect until a batch lists it": the data the bodies write changes only through a batch of the
       robot or through a task list containing a request that authenticates - never through a submission *)
Theorem C05_data_change_needs_authority : forall e l r k,
  led_get (fst (p_step e l r)) (dk k) <> led_get l (dk k) ->
  match r with
  | PSubmit _ _ _ _ => False
  | PBatch cr _ => is_robot (pe_cfg e) cr = true
  | PTasks _ ts => exists t o, In t ts /\ auth (fst t) = Ok o
  end.
Proof. exact p_data_change_needs_authority. Qed.
Print Assumptions C05_data_change_needs_authority.

(* (10) "executed at most once over any sequence of batches", for whole invocations: submissions, batches and task lists
        by any creators in any order, any multisets of ids *)
Theorem C05_pipeline_at_most_once : forall e h l0 id, data_only (pe_bodies e) ->
  (executions id h (snd (p_run e l0 h)) <= recorded id h (snd (p_run e l0 h)) + present l0 id)%nat.
Proof. exact p_executed_at_most_once. Qed.
Print Assumptions C05_pipeline_at_most_once.

Example C05_pipeline_example :
  let k1 := [107; 49]%N in
  let fn := [115]%N in let cc := [99]%N in
  let base := [[]; cc; cc; [98]%N; [49; 55; 48; 48; 48; 48; 48; 48; 48; 48; 48; 48; 49]%N; k1] in
  let msg := fn ++ concat base in
  let tbl := [(k1, KI 1 0 false)] in
  let mk sg := AuthIn 2 fn (base ++ [[115]%N]) cc cc (AclOk 9 false false 1 [0]%N) tbl [sg] (Some cc) in
  let m := Method 1 MTx true GNone false in
  let e := PEnv (GCfg 77 5 [] false false) [[SPut 4 [42]%N]] m in
  let robot := Creator true 77 0 false in let user := Creator true 8 0 false in
  let h := [PSubmit user 1 (mk (SigBy 1 0 msg)) 0; PSubmit user 2 (mk (SigBy 2 0 msg)) 0;
            PBatch user [1]; PBatch robot [1; 2]]%N in
  let '(l, out) := p_run e ∅ h in
  (out, led_get l (dk 1), led_get l (pk 1)) =
  ([RRecorded; RAuth EBadSig; RGate GUnauthorized;
    RItems [IOk [(dk 1, [42]%N, false)] [] []; IErr INotFound]], [42]%N, []).
Proof. exact pipeline_example. Qed.
