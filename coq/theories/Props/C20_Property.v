(* C20 — Paged listing of origin-side transfers is complete and duplicate-free.
   Only property theorems, their assumptions and non-vacuity examples.          *)
From Fnd Require Import Base.Prelude Model.Paging Proofs.PagingProofs Model.Paths Proofs.PathsProofs.
From stdpp Require Import lexico.

(* (1) for every ledger (strictly sorted by key, any content), every page size >= 1:
       following the returned bookmarks from the empty bookmark terminates and yields
       exactly the entries in the transfer range, in key order, each exactly once *)
Theorem C20_pages_partition : forall (V : Type) (l : list (list N * V)) (size : Z),
  StronglySorted key_lt l -> (1 <= size)%Z ->
  all_pages (S (length l)) l size [] = Some (fr pfx pfx_end l).
Proof. exact @pages_partition. Qed.
Print Assumptions C20_pages_partition.
(* ... which are exactly the entries whose key begins with the record prefix: every origin-side record, nothing else *)
Theorem C20_pages_complete : forall (V : Type) (l : list (list N * V)) (size : Z),
  StronglySorted key_lt l -> (1 <= size)%Z ->
  all_pages (S (length l)) l size [] = Some (List.filter (fun p => has_prefix pfx (fst p)) l).
Proof. exact @pages_complete. Qed.
Print Assumptions C20_pages_complete.

(* (2) only entries of the range are listed, in strictly increasing key order *)
Theorem C20_only_range : forall (V : Type) (l : list (list N * V)) lo hi x,
  In x (fr lo hi l) -> In x l /\ in_range lo hi (fst x) = true.
Proof. exact @only_range. Qed.
Theorem C20_listing_sorted : forall (V : Type) (l : list (list N * V)) lo hi,
  StronglySorted key_lt l -> StronglySorted key_lt (fr lo hi l).
Proof. exact @listing_sorted. Qed.
(* the listed range is exactly the keys that begin with the record prefix: every record key prefix ++ id, whatever the
   id, lies in it ("every existing record"), and every key in it is such a key ("only such records") *)
Theorem C20_record_key_in_range : forall (id : list N), in_range pfx pfx_end (pfx ++ id) = true.
Proof. exact record_key_in_range. Qed.
Theorem C20_listed_range_is_prefix : forall (k : list N), in_range pfx pfx_end k = true <-> exists id, k = pfx ++ id.
Proof. exact listed_range_is_prefix. Qed.
(* F22 (repaired): the range that ended at prefix + U+10FFFF did not have this property *)
Theorem C20_old_range_refuted :
  exists id, in_range pfx (pfx ++ maxrune) (pfx ++ id) = false /\ in_range pfx pfx_end (pfx ++ id) = true.
Proof. exact old_range_missed_a_record. Qed.
(* which ids records are created under (cctransfer.IsValidID over path.Join, Model/Paths.v): exactly the non-empty ids
   without a slash other than "." and ".."; their origin-side key is prefix ++ id - inside the listed range -, their
   destination-side key is outside it, and different ids have different keys *)
Theorem C20_valid_ids : forall id, is_valid_id id = plain id.
Proof. exact valid_is_plain. Qed.
Theorem C20_valid_id_keys : forall id, is_valid_id id = true ->
  from_key id = pfx ++ id /\ in_range pfx pfx_end (from_key id) = true /\ in_range pfx pfx_end (to_key id) = false.
Proof.
  intros id H. split; [|split; [apply valid_from_key_listed, H|apply valid_to_key_not_listed, H]].
  rewrite valid_is_plain in H. exact (from_key_plain id H).
Qed.
Theorem C20_valid_keys_injective : forall a b, is_valid_id a = true -> is_valid_id b = true ->
  (from_key a = from_key b -> a = b) /\ (to_key a = to_key b -> a = b) /\ from_key a <> to_key b.
Proof. exact valid_keys_injective. Qed.
(* path.Clean is a projection (a key is its own canonical spelling) *)
Theorem C20_clean_idempotent : forall s, clean_rooted (clean_rooted s) = clean_rooted s.
Proof. exact clean_idempotent. Qed.
Print Assumptions C20_only_range.
Print Assumptions C20_listing_sorted.
Print Assumptions C20_record_key_in_range.
Print Assumptions C20_listed_range_is_prefix.
Print Assumptions C20_old_range_refuted.
Print Assumptions C20_valid_ids.
Print Assumptions C20_valid_id_keys.
Print Assumptions C20_valid_keys_injective.
Print Assumptions C20_clean_idempotent.

(* (3) a non-positive page size or a bookmark outside the transfer records is rejected *)
Theorem C20_bad_size_rejected : forall (V : Type) (l : list (list N * V)) size bm,
  (size <= 0)%Z -> query l size bm = inl QPageSize.
Proof. exact @bad_size_rejected. Qed.
Theorem C20_bad_bookmark_rejected : forall (V : Type) (l : list (list N * V)) size bm,
  (0 < size)%Z -> bm <> [] -> has_prefix pfx bm = false -> query l size bm = inl QBookmark.
Proof. exact @bad_bookmark_rejected. Qed.
Print Assumptions C20_bad_size_rejected.
Print Assumptions C20_bad_bookmark_rejected.

(* non-vacuity: three records next to unrelated keys, page size 2 *)
Example C20_example :
  let k (s : list N) := pfx ++ s in
  let l := [([47; 116]%N, 0%N); (k [97]%N, 1%N); (k [97; 98]%N, 2%N); (k [98]%N, 3%N);
            ([47; 116; 114; 97; 110; 115; 102; 101; 114; 47; 116; 111; 47; 97]%N, 9%N)] in
  all_pages 6 l 2 [] = Some [(k [97]%N, 1%N); (k [97; 98]%N, 2%N); (k [98]%N, 3%N)].
Proof. vm_compute. reflexivity. Qed.
(* ... and ids on both sides of validity *)
Example C20_ids_example :
  is_valid_id [97; 32]%N = true /\ is_valid_id [244; 143; 191; 191; 122]%N = true /\ is_valid_id [97; 47]%N = false /\
  is_valid_id [46; 46]%N = false /\ from_key [46; 46; 47; 116; 111; 47; 120]%N = to_key [120]%N.
Proof. vm_compute. repeat split; reflexivity. Qed.

(* a page size beyond the number of ledger entries behaves like that number plus one (so the correspondence can evaluate
   the largest sizes the interface takes without counting up to them) *)
Theorem C20_size_beyond_ledger : forall (V : Type) (l : list (list N * V)) size bm,
  query l size bm = query l (clamp l size) bm /\
  forall fuel, all_pages fuel l size bm = all_pages fuel l (clamp l size) bm.
Proof. intros V l size bm. split; [apply query_clamp|intros fuel; apply all_pages_clamp]. Qed.
Print Assumptions C20_size_beyond_ledger.
