(* C20 — Paged listing of origin-side transfers is complete and duplicate-free.
   Only property theorems, their assumptions and non-vacuity examples.          *)
From Fnd Require Import Base.Prelude Model.Paging Proofs.PagingProofs.
From stdpp Require Import lexico.

(* (1) for every ledger (strictly sorted by key, any content), every page size >= 1:
       following the returned bookmarks from the empty bookmark terminates and yields
       exactly the entries in the transfer range, in key order, each exactly once *)
Theorem C20_pages_partition : forall (V : Type) (l : list (list N * V)) (size : Z),
  StronglySorted key_lt l -> (1 <= size)%Z ->
  all_pages (S (length l)) l size [] = Some (fr pfx (pfx ++ maxrune) l).
Proof. exact @pages_partition. Qed.
Print Assumptions C20_pages_partition.

(* (2) only entries of the range are listed, in strictly increasing key order *)
Theorem C20_only_range : forall (V : Type) (l : list (list N * V)) lo hi x,
  In x (fr lo hi l) -> In x l /\ in_range lo hi (fst x) = true.
Proof. exact @only_range. Qed.
Theorem C20_listing_sorted : forall (V : Type) (l : list (list N * V)) lo hi,
  StronglySorted key_lt l -> StronglySorted key_lt (fr lo hi l).
Proof. exact @listing_sorted. Qed.
(* every record stored under prefix ++ id (id not starting with the last code point) is in the range *)
Theorem C20_record_key_in_range : forall (id : list N) c r, id = c :: r -> (c < 244)%N ->
  in_range pfx (pfx ++ maxrune) (pfx ++ id) = true.
Proof. exact record_key_in_range. Qed.
Print Assumptions C20_only_range.
Print Assumptions C20_listing_sorted.
Print Assumptions C20_record_key_in_range.

(* (3) a non-positive page size or a bookmark outside the transfer records is rejected *)
Theorem C20_bad_size_rejected : forall (V : Type) (l : list (list N * V)) size bm,
  (size <= 0)%Z -> query l size bm = inl QPageSize.
Proof. exact @bad_size_rejected. Qed.
Theorem C20_bad_bookmark_rejected : forall (V : Type) (l : list (list N * V)) size bm,
  (0 < size)%Z -> bm <> [] -> has_prefix pfx bm = false -> query l size bm = inl QBookmark.
Proof. exact @bad_bookmark_rejected. Qed.
Print Assumptions C20_bad_size_rejected.
Print Assumptions C20_bad_bookmark_rejected.

(* non-vacuity: three records next to unrelated keys, page size 2 *)
Example C20_example :
  let k (s : list N) := pfx ++ s in
  let l := [([47; 116]%N, 0%N); (k [97]%N, 1%N); (k [97; 98]%N, 2%N); (k [98]%N, 3%N);
            ([47; 116; 114; 97; 110; 115; 102; 101; 114; 47; 116; 111; 47; 97]%N, 9%N)] in
  all_pages 6 l 2 [] = Some [(k [97]%N, 1%N); (k [97; 98]%N, 2%N); (k [98]%N, 3%N)].
Proof. vm_compute. reflexivity. Qed.

(* a page size beyond the number of ledger entries behaves like that number plus one (so the correspondence can evaluate
   the largest sizes the interface takes without counting up to them) *)
Theorem C20_size_beyond_ledger : forall (V : Type) (l : list (list N * V)) size bm,
  query l size bm = query l (clamp l size) bm /\
  forall fuel, all_pages fuel l size bm = all_pages fuel l (clamp l size) bm.
Proof. intros V l size bm. split; [apply query_clamp|intros fuel; apply all_pages_clamp]. Qed.
Print Assumptions C20_size_beyond_ledger.
