(* C03 — A signed request is valid only for exactly what was signed, and only there.
   Only property theorems, their assumptions and non-vacuity examples.          *)
From Fnd Require Import Base.Prelude Model.Auth Proofs.AuthProofs.

(* (1) the signature binds the signed bytes: if every well-formed signature carried by a
       request was made over m0 (signatures cannot be forged), the request is accepted only
       if its own signed bytes - function name followed by all arguments except the
       signatures - are exactly m0 *)
Theorem C03_sig_binds_message : forall i o m0,
  (forall sg sk kt m, In sg (a_sigs i) -> sg = SigBy sk kt m -> m = m0) ->
  auth i = Ok o -> the_msg i = m0.
Proof. exact sig_binds_message. Qed.
Print Assumptions C03_sig_binds_message.

(* (2) equal signed bytes with equal field lengths means the same request: function name,
       request id, chaincode, channel, method arguments, nonce and signer keys all coincide.
       Hence substituting inside a field, truncating or extending the message, swapping two
       fields of different content, changing the nonce or the signer list is always rejected. *)
Theorem C03_same_lengths_same_request : forall fn fn' (A A' : list (list N)),
  fn ++ concat A = fn' ++ concat A' -> length fn = length fn' ->
  List.map (@length N) A = List.map (@length N) A' -> fn = fn' /\ A = A'.
Proof. exact same_lengths_same_request. Qed.
Print Assumptions C03_same_lengths_same_request.

(* (3) a request that does not name this chaincode and this channel is rejected, whatever its
       signatures; together with (1): re-targeting needs the names to be rewritten, which
       changes the signed bytes *)
Theorem C03_retarget_rejected : forall i,
  (nth 1 (a_args i) [] <> a_cc i \/ nth 2 (a_args i) [] <> a_ch i \/
   exists r, a_routed i = Some r /\ nth 1 (a_args i) [] <> r) -> forall o, auth i <> Ok o.
Proof. exact retarget_rejected. Qed.
Print Assumptions C03_retarget_rejected.
(* ... and "this chaincode" is the chaincode the peer routed the proposal to (the name in the header extension), not the
   name the submitter wrote into the proposal payload: a request accepted by a chaincode that was reached through a
   peer names that chaincode (until the repair F23 only the payload's name was compared) *)
Theorem C03_accepted_names_routed : forall i o r,
  auth i = Ok o -> a_routed i = Some r -> nth 1 (a_args i) [] = r.
Proof. exact accepted_names_routed. Qed.
Print Assumptions C03_accepted_names_routed.
(* the check as it was (the payload's name only) did not have this property: a request signed for chaincode "c" reaches
   chaincode "v" in a proposal whose payload names "c" - accepted then, refused now *)
Theorem C03_payload_name_only_refuted :
  exists i o r, a_routed i = Some r /\ nth 1 (a_args i) [] <> r /\ auth (without_routed i) = Ok o /\ forall o', auth i <> Ok o'.
Proof. exact payload_name_only_refuted. Qed.
Print Assumptions C03_payload_name_only_refuted.

(* (4) REFUTED as stated in full: the signed bytes are a plain concatenation, so moving bytes
       across the boundary of two neighbouring arguments keeps every signature valid.  This
       is the finding the property text itself names (known finding F2); the witness below is
       accepted although it differs from what was signed. *)
Theorem C03_boundary_shift_refuted :
  exists i i' o o', a_args i <> a_args i' /\ a_sigs i = a_sigs i' /\ a_fn i = a_fn i' /\
    auth i = Ok o /\ auth i' = Ok o' /\ r_margs o <> r_margs o'.
Proof.
  set (k1 := [107; 49]%N). set (fn := [102]%N). set (cc := [99]%N).
  set (base := [[]; cc; cc; [49; 48]%N; [48; 97]%N; [49; 55]%N; k1]).
  set (base' := [[]; cc; cc; [49; 48; 48]%N; [97]%N; [49; 55]%N; k1]).
  set (msg := fn ++ concat base).
  set (mk := fun b => AuthIn 3 fn (b ++ [[115]%N]) cc cc (AclOk 9 false false 1 [0%N]) [(k1, KI 1 0 false)] [SigBy 1 0 msg] (Some cc)).
  exists (mk base), (mk base'). vm_compute. eexists. eexists. repeat split; try reflexivity; discriminate.
Qed.
Print Assumptions C03_boundary_shift_refuted.
