(* C08 — Hash-locked swap releases escrowed funds exactly once.
   Only property theorems, their assumptions and non-vacuity examples.          *)
From Fnd Require Import Base.Prelude Base.Sum Model.Balance Model.CCTransfer Model.Swap
  Proofs.BalanceProofs Proofs.CCTransferProofs Proofs.SwapProofs.
Local Open Scope Z_scope.

(* (1) a release removes the record: completion for the right key (which publishes the key),
       cancellation, and the robot's completion at the origin all delete the swap *)
Theorem C08_done_removes : forall c id key c' ev, s_apply c (SUserDone id key) = Ok (c', ev) ->
  sc_swaps c' !! id = None /\ exists r, sc_swaps c !! id = Some r /\ sw_hash r = key /\ sw_creator r <> sw_owner r /\
  ev = Some (sw_from r, id, key).
Proof. exact done_removes. Qed.
Theorem C08_cancel_removes : forall c id c' ev, s_apply c (SCancel id) = Ok (c', ev) -> sc_swaps c' !! id = None /\ ev = None.
Proof. exact cancel_removes. Qed.
Theorem C08_robot_done_removes : forall c id key c' ev, s_apply c (SRobotDone id key) = Ok (c', ev) -> sc_swaps c' !! id = None.
Proof. exact robot_done_removes. Qed.
Print Assumptions C08_done_removes.
Print Assumptions C08_cancel_removes.
Print Assumptions C08_robot_done_removes.

(* (2) never both, never twice, never for a wrong key: once the record is gone every release is
       rejected; a wrong key is rejected; the owner's own record cannot be completed; an open swap
       is never replaced by a begin or by an answer; a rejected step changes nothing *)
Theorem C08_gone_means_rejected : forall c id, sc_swaps c !! id = None ->
  (forall key, s_apply c (SUserDone id key) = Err ENotFound) /\ (forall key, s_apply c (SRobotDone id key) = Err ENotFound) /\
  s_apply c (SCancel id) = Err ENotFound.
Proof. exact gone_means_rejected. Qed.
Theorem C08_wrong_key_rejected : forall c id r key, sc_swaps c !! id = Some r -> sw_hash r <> key ->
  s_apply c (SUserDone id key) = Err EBadKey /\ s_apply c (SRobotDone id key) = Err EBadKey.
Proof. exact wrong_key_rejected. Qed.
Theorem C08_own_record_not_completable : forall c id r key, sc_swaps c !! id = Some r -> sw_creator r = sw_owner r ->
  forall c' ev, s_apply c (SUserDone id key) <> Ok (c', ev).
Proof. exact own_record_not_completable. Qed.
Theorem C08_begin_no_overwrite : forall c s id sym grp to amt h r, sc_swaps c !! id = Some r ->
  forall c' ev, s_apply c (SBegin s id sym grp to amt h) <> Ok (c', ev).
Proof. exact begin_no_overwrite. Qed.
Theorem C08_answer_no_overwrite : forall c id r r0, sc_swaps c !! id = Some r0 ->
  forall c' ev, s_apply c (SAnswer id r) <> Ok (c', ev).
Proof. exact answer_no_overwrite. Qed.
Theorem C08_rejected_unchanged : forall c o e, snd (fst (s_step c o)) = Some e -> fst (fst (s_step c o)) = c.
Proof. exact rejected_unchanged. Qed.
Print Assumptions C08_gone_means_rejected.
Print Assumptions C08_wrong_key_rejected.
Print Assumptions C08_own_record_not_completable.
Print Assumptions C08_begin_no_overwrite.
Print Assumptions C08_answer_no_overwrite.
Print Assumptions C08_rejected_unchanged.

(* (3) exact amounts, per user u and token t (val = spendable in the token's home channel,
       allowed balance elsewhere): begin debits the sender by the amount, completion credits the
       owner by exactly the escrowed amount, cancelling an owner's record refunds exactly it and
       cancelling the robot's copy credits no user *)
Theorem C08_begin_debits : forall c s id sym grp to amt h c' ev, s_apply c (SBegin s id sym grp to amt h) = Ok (c', ev) ->
  forall u t, val c' u t = val c u t - (if N.eqb s u && N.eqb sym t then amt else 0).
Proof. exact begin_debits. Qed.
Theorem C08_done_credits : forall c id key c' ev, wfchan c -> s_apply c (SUserDone id key) = Ok (c', ev) ->
  exists r, sc_swaps c !! id = Some r /\ sw_creator r = 0%N /\
    forall u t, val c' u t = val c u t + (if N.eqb (sw_owner r) u && N.eqb (sw_sym r) t then sw_amt r else 0).
Proof. exact userdone_credits. Qed.
Theorem C08_cancel_refunds : forall c id c' ev, wfchan c -> s_apply c (SCancel id) = Ok (c', ev) ->
  exists r, sc_swaps c !! id = Some r /\
    forall u t, val c' u t = val c u t +
      (if negb (N.eqb (sw_creator r) 0) && N.eqb (sw_owner r) u && N.eqb (sw_sym r) t then sw_amt r else 0).
Proof. exact cancel_refunds. Qed.
Print Assumptions C08_begin_debits.
Print Assumptions C08_done_credits.
Print Assumptions C08_cancel_refunds.

(* (4) two channels a <> b, any users, and a robot that answers a swap once, closes the origin
       with the published key, and whose every step is enabled from the ledgers and its per-swap
       checkpoint (so stopping after any step and resuming is one more interleaving); cancellation
       by the platform in the documented order (destination first, then origin).  For EVERY
       interleaving, of any length, with any ids (also colliding across channels), amounts, keys:
         - every user's total value of every token over both channels never exceeds what they
           started with, and is exactly that once no swap is open;
         - once no swap is open, the origin's given-out counter moved exactly as the amount held in
           the other channel did (equal when they started equal).
       The step-wise invariants (with open swaps) are sstep_V and sstep_G. *)
Theorem C08_value_never_exceeds : forall a b balA balB l u t, a <> b ->
  let s0 := ssys0 a b balA balB in let s := ssys_run s0 l in
  val (ssA s) u t + val (ssB s) u t <= val (ssA s0) u t + val (ssB s0) u t /\
  (sc_swaps (ssA s) = ∅ -> sc_swaps (ssB s) = ∅ -> val (ssA s) u t + val (ssB s) u t = val (ssA s0) u t + val (ssB s0) u t).
Proof. exact value_never_exceeds. Qed.
Theorem C08_step_value : forall s s' u t, sstep s s' -> SInv s -> Vtot s' u t = Vtot s u t.
Proof. exact sstep_V. Qed.
Theorem C08_step_given : forall s s' g, sstep s s' -> SInv s -> Gd s' g = Gd s g.
Proof. exact sstep_G. Qed.
Theorem C08_model_steps : forall s a, sstep s (ssys_step s a).
Proof. exact ssys_step_sstep. Qed.
Theorem C08_given_matches_held : forall a b balA balB l g, a <> b ->
  let s0 := ssys0 a b balA balB in let s := ssys_run s0 l in
  sc_swaps (ssA s) = ∅ -> sc_swaps (ssB s) = ∅ ->
  sgiv (chan s g) (sc_me (chan s (negb g))) - sheld (chan s (negb g)) (sc_me (chan s g)) =
  sgiv (chan s0 g) (sc_me (chan s0 (negb g))) - sheld (chan s0 (negb g)) (sc_me (chan s0 g)).
Proof. exact given_matches_held. Qed.
Theorem C08_given_equals_credited : forall a b balA balB l, a <> b ->
  let s := ssys_run (ssys0 a b balA balB) l in
  giv balA b = held balB a -> sc_swaps (ssA s) = ∅ -> sc_swaps (ssB s) = ∅ -> sgiv (ssA s) b = sheld (ssB s) a.
Proof. exact given_equals_credited. Qed.
Print Assumptions C08_value_never_exceeds.
Print Assumptions C08_step_value.
Print Assumptions C08_step_given.
Print Assumptions C08_given_matches_held.
Print Assumptions C08_given_equals_credited.

(* non-vacuity: a direct swap 1 -> 2 completed, a reverse swap 2 -> 1 cancelled in order, a second
   completion and a wrong key rejected *)
Example C08_example :
  let a := 1%N in let b := 2%N in
  let s0 := ssys0 a b {[ (KTok, 5%N, 0%N) := 100 ]} ∅ in
  let s := ssys_run s0 [UBegin true 5 7 a 0 b 40 11; RAnswer true 7; UDone true 7 12; UDone true 7 11; UDone true 7 11;
                        RDone true 7; UBegin false 5 8 a 0 a 10 13; RAnswer false 8; CancelOrigin false 8;
                        CancelDest false 8; CancelOrigin false 8] in
  (bget (sc_bal (ssA s)) (KTok, 5%N, 0%N), sgiv (ssA s) b, sheld (ssB s) a, map_to_list (sc_swaps (ssA s)),
   map_to_list (sc_swaps (ssB s)), val (ssA s) 5 a + val (ssB s) 5 a) = (60, 40, 40, [], [], 100).
Proof. vm_compute. reflexivity. Qed.
