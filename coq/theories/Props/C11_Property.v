(* C11 — Privileged operations need the right identity; disabled functions unreachable.
   Only property theorems, their assumptions and non-vacuity examples.          *)
From Fnd Require Import Base.Prelude Model.Gate Proofs.GateProofs.

(* (1) batch execution and the five transfer-robot functions reach their handler only for a
       creator whose key identifier or hashed certificate equals the configured, non-empty
       robot key - for every configuration and every creator *)
Theorem C11_robot_only : forall c cr f h, robot_fn f = true -> invoke_gate c cr f = GHandled h ->
  cr_ok cr = true /\ g_robot c <> 0%N /\ (g_robot c = cr_ski cr \/ g_robot c = cr_hash cr).
Proof. exact robot_only. Qed.
Theorem C11_empty_robot_key_rejects : forall c cr f, g_robot c = 0%N -> robot_fn f = true ->
  forall h, invoke_gate c cr f <> GHandled h.
Proof. exact empty_robot_key_rejects. Qed.
Print Assumptions C11_robot_only.
Print Assumptions C11_empty_robot_key_rejects.

(* (2) a disabled function, or a swap / multi-swap function while that switch is off, is refused
       on every route: direct call and batched submission (Invoke) and task execution *)
Theorem C11_disabled_unreachable : forall c cr m, disabled c m = true ->
  (forall h, invoke_gate c cr (FMethod m) <> GHandled h) /\
  (forall h, invoke_gate c cr (FRobotFn m) <> GHandled h) /\
  (forall h, task_gate c (FMethod m) <> GHandled h) /\
  (forall h, task_gate c (FRobotFn m) <> GHandled h).
Proof. exact disabled_unreachable. Qed.
Theorem C11_swap_done_gated : forall c cr,
  (g_noswaps c = true -> forall h, invoke_gate c cr FSwapDone <> GHandled h) /\
  (g_nomultiswaps c = true -> forall h, invoke_gate c cr FMultiSwapDone <> GHandled h).
Proof. exact swap_done_gated. Qed.
Theorem C11_batch_sections_gated : forall c,
  (g_noswaps c = true -> fst (batch_sections c) = false) /\
  (g_nomultiswaps c = true -> snd (batch_sections c) = false).
Proof. exact batch_sections_gated. Qed.
Print Assumptions C11_batch_sections_gated.
Print Assumptions C11_disabled_unreachable.
Print Assumptions C11_swap_done_gated.

(* (3) initialisation only for a certificate of the admin organisational unit; every
       invocation needs a parsable creator; admin-only methods only for the configured admin *)
Theorem C11_init_admin_only : forall cr, init_gate cr = true -> cr_ok cr = true /\ cr_admin_ou cr = true.
Proof. exact init_admin_only. Qed.
Theorem C11_bad_creator_rejected : forall c cr f, cr_ok cr = false -> invoke_gate c cr f = GCreatorErr.
Proof. exact bad_creator_rejected. Qed.
Theorem C11_admin_methods_admin_only : forall c s, admin_gate c s = true -> g_admin c <> 0%N /\ s = g_admin c.
Proof. exact admin_methods_admin_only. Qed.
Print Assumptions C11_init_admin_only.
Print Assumptions C11_bad_creator_rejected.
Print Assumptions C11_admin_methods_admin_only.

Example C11_example :
  let m := Method 7 MTx true GSwap false in
  let c := GCfg 5 9 [3]%N true false in
  (invoke_gate c (Creator true 5 6 false) FBatchExecute, invoke_gate c (Creator true 4 5 false) FBatchExecute,
   invoke_gate c (Creator true 4 4 true) FBatchExecute, invoke_gate c (Creator true 5 5 false) (FMethod m),
   task_gate c (FMethod m), task_gate (GCfg 5 9 [] false false) (FMethod m))
  = (GHandled HBatch, GHandled HBatch, GUnauthorized, GNotFound, GNotFound, GHandled (HImmediate m)).
Proof. vm_compute. reflexivity. Qed.
