(* C01 — Sender authentication cannot be forged (single-key and N-of-M multisig).
   Only property theorems, their assumptions and non-vacuity examples.          *)
From Fnd Require Import Base.Prelude Model.Auth Proofs.AuthProofs.

(* (1) SOUNDNESS, for every function name, argument vector, access-control answer, key table
       and signature content (hence for every key type and every route, which all call this
       one procedure): a request is accepted for address A only if the access-control service
       maps the presented keys to A, A is neither black- nor grey-listed, the request names
       this chaincode and channel, and at least the required number of presented keys - the
       policy's n, and never fewer than one - carry a genuine signature (made with that key's
       secret, for that key's type) over exactly the signed bytes of this request. *)
Theorem C01_auth_sound : forall i o, auth i = Ok o ->
  exists n ktypes, a_acl i = AclOk (r_addr o) false false n ktypes /\
    nth 1 (a_args i) [] = a_cc i /\ nth 2 (a_args i) [] = a_ch i /\
    (forall r, a_routed i = Some r -> nth 1 (a_args i) [] = r) /\
    (1 <= n_signers i)%nat /\
    (required n (n_signers i) <= count_genuine (the_kis i) (sig_args i) (a_sigs i) (the_msg i))%nat /\
    (1 <= count_genuine (the_kis i) (sig_args i) (a_sigs i) (the_msg i))%nat.
Proof. exact auth_sound. Qed.
Print Assumptions C01_auth_sound.

(* the required number is the policy's n whenever the policy fits the presented key list *)
Theorem C01_required_policy : forall n s, n <> 0%N -> (N.to_nat n <= s)%nat -> required n s = N.to_nat n.
Proof. exact required_policy. Qed.
Theorem C01_required_pos : forall n s, (1 <= s)%nat -> (1 <= required n s)%nat.
Proof. exact required_pos. Qed.
Print Assumptions C01_required_policy.

(* (2) a signature that is present but malformed, made by another key or over another message
       makes the request invalid: every non-blank signature of an accepted request is genuine *)
Theorem C01_auth_no_bad_signature : forall i o, auth i = Ok o ->
  forall j sa, nth_error (sig_args i) j = Some sa -> (j < length (the_kis i))%nat -> sa <> [] ->
  exists k sg, nth_error (the_kis i) j = Some k /\ nth_error (a_sigs i) j = Some sg /\ genuine k (the_msg i) sg.
Proof. exact auth_no_bad_signature. Qed.
Print Assumptions C01_auth_no_bad_signature.

(* (3) missing / all-blank signatures are rejected *)
Theorem C01_auth_needs_a_signature : forall i o, auth i = Ok o ->
  exists j sa, nth_error (sig_args i) j = Some sa /\ sa <> [].
Proof. exact auth_needs_a_signature. Qed.
Print Assumptions C01_auth_needs_a_signature.

(* (4) access-control answers: failure (error status, empty, undecodable), black-listed and
       grey-listed signers are rejected *)
Theorem C01_auth_acl_rejections : forall i,
  (a_acl i = AclFail -> forall o, auth i <> Ok o) /\
  (forall addr g n kt, a_acl i = AclOk addr true g n kt -> forall o, auth i <> Ok o) /\
  (forall addr b n kt, a_acl i = AclOk addr b true n kt -> forall o, auth i <> Ok o).
Proof. exact auth_acl_rejections. Qed.
Print Assumptions C01_auth_acl_rejections.

(* (5) DISTINCT member keys: when the presented key list has no repetition (an access-control service registers key
       lists without repetition and answers for exactly the presented list - it is asked with that list), an accepted
       request carries genuine signatures of at least the required number of DISTINCT presented keys, each at its own
       position *)
Theorem C01_auth_distinct_signers : forall i o, auth i = Ok o -> List.NoDup (key_args i) ->
  exists n ktypes ks, a_acl i = AclOk (r_addr o) false false n ktypes /\
    List.NoDup ks /\ (required n (n_signers i) <= length ks)%nat /\ (1 <= length ks)%nat /\
    forall x, In x ks -> exists j k sg, nth_error (key_args i) j = Some x /\ nth_error (the_kis i) j = Some k /\
                                        nth_error (a_sigs i) j = Some sg /\ genuine k (the_msg i) sg.
Proof. exact auth_distinct_signers. Qed.
Print Assumptions C01_auth_distinct_signers.

(* (6) the older request format (core.CheckSign, exported for contracts that still use it): accepted for A only if the
       service maps the presented keys to A, A is neither black- nor grey-listed, and EVERY presented key - at least
       one - carries a genuine ed25519 signature over exactly function name, arguments and keys *)
Theorem C01_check_sign_sound : forall i a, check_sign i = Ok a ->
  exists n ktypes, a_acl i = AclOk a false false n ktypes /\ (1 <= cs_signers i)%nat /\
    forall j k, nth_error (cs_kis i) j = Some k -> exists sg, nth_error (a_sigs i) j = Some sg /\ genuine k (cs_msg i) sg.
Proof. exact check_sign_sound. Qed.
Print Assumptions C01_check_sign_sound.

(* non-vacuity: a 2-of-3 account; two genuine signatures and a blank are accepted, one genuine
   signature and two blanks are rejected *)
Example C01_example :
  let k1 := [107; 49]%N in let k2 := [107; 50]%N in let k3 := [107; 51]%N in
  let fn := [102]%N in let cc := [99]%N in
  let base := [[]; cc; cc; [97]%N; [49; 55]%N; k1; k2; k3] in
  let msg := fn ++ concat base in
  let tbl := [(k1, KI 1 0 false); (k2, KI 2 0 false); (k3, KI 3 0 false)] in
  let mk sigargs sigs := AuthIn 2 fn (base ++ sigargs) cc cc (AclOk 9 false false 2 [0; 0; 0]%N) tbl sigs (Some cc) in
  (match auth (mk [[115]%N; []; [115]%N] [SigBy 1 0 msg; SigJunk; SigBy 3 0 msg]) with Ok o => Some (r_addr o) | Err _ => None end,
   match auth (mk [[115]%N; []; []] [SigBy 1 0 msg; SigJunk; SigJunk]) with Ok _ => None | Err e => Some e end)
  = (Some 9%N, Some EBadSig).
Proof. vm_compute. reflexivity. Qed.
