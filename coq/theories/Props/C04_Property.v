(* C04 — Batch execution: per-transaction atomicity, equivalent to serial execution.
   Only property theorems, their assumptions and non-vacuity examples.          *)
From Fnd Require Import Base.Prelude Model.Cache Model.Nonce Model.Batch Proofs.CacheProofs Proofs.BatchProofs.

(* (1) For every ledger, every table of bodies (put / delete / read / event / fail / panic
       steps) and every list of ids (duplicates, unknown ids, any mix of success and failure):
       executing the batch through the layered caches gives, for every listed id and in the
       same order, the reply of serial all-or-nothing execution on the plain ledger - its
       error, or exactly the writes, events and read results it produced - and the same final
       ledger. *)
Theorem C04_batch_is_serial : forall bodies l ids,
  snd (batch_exec bodies l ids) = snd (spec_batch bodies l ids) /\
  forall k, led_get (fst (batch_exec bodies l ids)) k = led_get (fst (spec_batch bodies l ids)) k.
Proof. exact batch_is_serial. Qed.
Print Assumptions C04_batch_is_serial.

(* (2) the same for task lists *)
Theorem C04_tasks_is_serial : forall bodies l ts,
  snd (tasks_exec bodies l ts) = snd (spec_tasks bodies l ts) /\
  forall k, led_get (fst (tasks_exec bodies l ts)) k = led_get (fst (spec_tasks bodies l ts)) k.
Proof. exact tasks_is_serial. Qed.
Print Assumptions C04_tasks_is_serial.

(* (3) in the serial specification a transaction that returns an error or panics leaves no
       writes (and reports no events), a successful one applies exactly its body to the ledger
       left by its predecessors and reports exactly its final write per key *)
Theorem C04_failed_item_leaves_nothing : forall l bd r,
  snd (spec_tx l bd) = IErr r -> fst (spec_tx l bd) = l.
Proof. exact failed_item_leaves_nothing. Qed.
Theorem C04_successful_item_applies : forall l bd ws ev g, snd (spec_tx l bd) = IOk ws ev g ->
  exists m' ev', run_p l ∅ [] bd = (OOk, m', ev', g) /\ fst (spec_tx l bd) = m' /\
                 ws = wlist (body_writes ∅ bd) /\ ev = ev_list ev'.
Proof. exact successful_item_applies. Qed.
Print Assumptions C04_failed_item_leaves_nothing.
Print Assumptions C04_successful_item_applies.

(* non-vacuity: tx 1 writes and is read by tx 2; tx 3 fails after writing; tx 4 panics;
   an unknown id; tx 2 listed twice *)
Example C04_example :
  let bodies := [[SPut (dk 0) [7]%N; SEvent 1 [1]%N]; [SGet (dk 0); SDel (dk 0)];
                 [SPut (dk 1) [9]%N; SFail]; [SPut (dk 2) [9]%N; SPanic]] in
  let b := 1700000000000%N in
  let l0 : ledger := list_to_map [(pk 1, [5; b; 0]); (pk 2, [5; b + 1; 1]); (pk 3, [6; b; 2]); (pk 4, [6; b + 1; 3])]%N in
  let '(l, rs) := batch_exec bodies l0 [1; 2; 3; 9; 4; 2]%N in
  (rs, List.filter (fun p => N.eqb (fst p mod 4) 0) (map_to_list l)) =
  ([IOk [(dk 0, [7]%N, false)] [(1%N, [1]%N)] []; IOk [(dk 0, [], true)] [] [[7]%N];
    IErr IBody; IErr INotFound; IErr IPanic; IErr INotFound], []).
Proof. vm_compute. reflexivity. Qed.
