(* C19 — Fee and price arithmetic is exact and all legs settle together.
   Only property theorems, their assumptions and non-vacuity examples.          *)
From Fnd Require Import Base.Prelude Model.Balance Model.Fee Proofs.BalanceProofs Proofs.FeeProofs.
Local Open Scope Z_scope.

(* (1) the fee is the configured share of the amount, rounded down, converted by the rate
       when charged in another currency, raised to the floor, limited by the cap *)
Theorem C19_calc_fee_closed_form : forall env st a,
  f_set (ts_fee st) = true -> f_share (ts_fee st) <> 0 ->
  calc_fee env st a =
  (c <- conv_fee env st a ;; Ok (clamp (f_cap (ts_fee st)) (Z.max (f_floor (ts_fee st)) c), f_cur (ts_fee st))).
Proof. exact calc_fee_closed_form. Qed.
Print Assumptions C19_calc_fee_closed_form.

Theorem C19_fee_zero_when_unset : forall env st a,
  f_set (ts_fee st) = false \/ f_share (ts_fee st) = 0 -> calc_fee env st a = Ok (0, e_sym env).
Proof. exact fee_zero_when_unset. Qed.
Theorem C19_fee_le_cap : forall env st a f c,
  calc_fee env st a = Ok (f, c) -> f_set (ts_fee st) = true -> f_share (ts_fee st) <> 0 ->
  0 < f_cap (ts_fee st) -> f <= f_cap (ts_fee st).
Proof. exact fee_le_cap. Qed.
Theorem C19_fee_ge_floor : forall env st a f c,
  calc_fee env st a = Ok (f, c) -> f_set (ts_fee st) = true -> f_share (ts_fee st) <> 0 ->
  (f_cap (ts_fee st) <= 0 \/ f_floor (ts_fee st) <= f_cap (ts_fee st)) -> f_floor (ts_fee st) <= f.
Proof. exact fee_ge_floor. Qed.
Theorem C19_fee_monotone : forall env st a a' f f' c c',
  0 <= f_share (ts_fee st) -> (forall r, In r (ts_rates st) -> 0 <= r_rate r) -> a <= a' ->
  calc_fee env st a = Ok (f, c) -> calc_fee env st a' = Ok (f', c') -> f <= f'.
Proof. exact fee_monotone. Qed.
Print Assumptions C19_fee_zero_when_unset.
Print Assumptions C19_fee_le_cap.
Print Assumptions C19_fee_ge_floor.
Print Assumptions C19_fee_monotone.

(* (2) setFee stores only: share <= 100 %, floor <= cap (cap = 0 meaning none), known currency *)
Theorem C19_set_fee_guard : forall env st s cur share floor cap st',
  t_apply env st (OSetFee s cur share floor cap) = Ok st' ->
  s = e_feesetter env /\ 0 <= share <= dec8 /\ 0 <= floor /\ 0 <= cap /\ (cap = 0 \/ floor <= cap) /\
  (cur = e_sym env \/ exists r, In r (ts_rates st) /\ r_cur r = cur) /\
  ts_fee st' = FeeCfg true cur share floor cap /\ ts_bal st' = ts_bal st.
Proof. exact set_fee_guard. Qed.
Print Assumptions C19_set_fee_guard.

(* (3) a successful transfer debits the sender by amount + fee, credits the recipient by
       exactly the amount and the fee address by exactly the fee, in the right balance
       kind, and changes nothing else (coinciding parties: the deltas add up) *)
Theorem C19_transfer_settles : forall env st s r a st',
  t_apply env st (OTransfer s r a) = Ok st' ->
  0 < a /\ s <> r /\ a <= bget (ts_bal st) (tok s) /\
  ts_fee st' = ts_fee st /\ ts_feeaddr st' = ts_feeaddr st /\ ts_rates st' = ts_rates st /\
  ts_emission st' = ts_emission st /\
  exists f c, calc_transfer_fee env st a s r = Ok (f, c) /\
   ((f <= 0 /\ forall k, bget (ts_bal st') k = bget (ts_bal st) k - at_key (tok s) k a + at_key (tok r) k a) \/
    (0 < f /\ exists fa, ts_feeaddr st = Some fa /\
       forall k, bget (ts_bal st') k =
                 bget (ts_bal st) k - at_key (tok s) k a + at_key (tok r) k a
                 - at_key (fee_key env st c s) k f + at_key (fee_key env st c fa) k f)).
Proof. exact transfer_settles. Qed.
Print Assumptions C19_transfer_settles.

Theorem C19_transfer_fee_zero_cases : forall env st a s r,
  (same_user env s r = true \/ f_set (ts_fee st) = false \/ f_share (ts_fee st) = 0) ->
  forall fc, calc_transfer_fee env st a s r = Ok fc -> fst fc = 0.
Proof. exact transfer_fee_zero_cases. Qed.
Print Assumptions C19_transfer_fee_zero_cases.

(* (4) buying and buying back move exactly amount tokens against exactly
       amount * rate / 10^8 (rounded down) of the currency, only within the limits *)
Theorem C19_buy_settles : forall env st s a cur st',
  t_apply env st (OBuy s a cur) = Ok st' ->
  exists r, find_rate (ts_rates st) DBuy cur = Some r /\ in_limit r a = true /\ 0 < a /\ s <> e_issuer env /\
    price r a = a * r_rate r / dec8 /\
    price r a <= bget (ts_bal st) (allowed s cur) /\
    ts_fee st' = ts_fee st /\ ts_rates st' = ts_rates st /\ ts_emission st' = ts_emission st /\
    forall k, bget (ts_bal st') k =
      bget (ts_bal st) k - at_key (allowed s cur) k (price r a) + at_key (allowed (e_issuer env) cur) k (price r a)
      - at_key (tok (e_issuer env)) k a + at_key (tok s) k a.
Proof. exact buy_settles. Qed.
Theorem C19_buyback_settles : forall env st s a cur st',
  t_apply env st (OBuyBack s a cur) = Ok st' ->
  exists r, find_rate (ts_rates st) DBack cur = Some r /\ in_limit r a = true /\ 0 < a /\ s <> e_issuer env /\
    price r a = a * r_rate r / dec8 /\
    price r a <= bget (ts_bal st) (allowed (e_issuer env) cur) /\
    ts_fee st' = ts_fee st /\ ts_rates st' = ts_rates st /\ ts_emission st' = ts_emission st /\
    forall k, bget (ts_bal st') k =
      bget (ts_bal st) k - at_key (allowed (e_issuer env) cur) k (price r a) + at_key (allowed s cur) k (price r a)
      - at_key (tok s) k a + at_key (tok (e_issuer env)) k a.
Proof. exact buyback_settles. Qed.
Theorem C19_limits_respected : forall r a,
  in_limit r a = true <-> r_min r <= a /\ (r_max r = 0 \/ a <= r_max r).
Proof. exact limits_respected. Qed.
Print Assumptions C19_buy_settles.
Print Assumptions C19_buyback_settles.
Print Assumptions C19_limits_respected.

(* (5) if any leg cannot be paid the whole operation fails without effect; balances
       never become negative over any history *)
Theorem C19_fail_unchanged : forall env st o e,
  snd (t_step env st o) = Some e -> fst (t_step env st o) = st.
Proof. exact fail_unchanged. Qed.
Theorem C19_run_nonneg : forall env os st,
  nonneg (ts_bal st) -> nonneg (ts_bal (fst (t_run env st os))).
Proof. exact run_nonneg. Qed.
Print Assumptions C19_fail_unchanged.
Print Assumptions C19_run_nonneg.

(* non-vacuity: 1 % fee in own currency, floor 10, cap 50; sender funded exactly *)
Example C19_example :
  let env := TEnv 1 1 2 2 [] in
  let st0 := TS ∅ (FeeCfg false 0 0 0 0) None [] 0 in
  let '(st, errs) := t_run env st0
     [OEmit 1 3 10000; OSetFee 2 1 1000000 10 50; OSetFeeAddr 2 5;
      OTransfer 3 4 500; OTransfer 3 4 9000; OTransfer 3 4 431; OTransfer 3 4 430] in
  (errs, bget (ts_bal st) (tok 3), bget (ts_bal st) (tok 4), bget (ts_bal st) (tok 5)) =
  ([None; None; None; None; None; Some EInsufficient; None], 0, 9930, 70).
Proof. vm_compute. reflexivity. Qed.
