(* C07 — Execution is deterministic and independent of the process's history.
   Only property theorems, their assumptions and non-vacuity examples.          *)
From Fnd Require Import Base.Prelude Model.Process Proofs.ProcessProofs.

(* (1) A process keeps the configuration last applied and the metadata object last loaded.  Invoke
       re-applies the stored configuration and re-loads the metadata (a FRESH object when the ledger
       has none) before the body runs; the body is ANY function of what it is handed.  Then the reply
       (response, write-set, events: whatever the body returns) is a function of the committed state
       and the proposal alone - for every memory content, hence after every history of committed,
       failed or simulated-and-dropped invocations, and equal to that of a fresh process. *)
Theorem C07_reply_independent_of_memory :
  forall {Cfg Meta Ledger Prop_ Result : Type} (meta0 : Meta) (cfg_of : Ledger -> option Cfg) (meta_of : Ledger -> option Meta)
         (body : Cfg -> Meta -> Ledger -> Prop_ -> Result * Meta) (no_config : Result) m1 m2 l p,
  fst (p_invoke meta0 cfg_of meta_of body no_config true true m1 l p) =
  fst (p_invoke meta0 cfg_of meta_of body no_config true true m2 l p).
Proof. intros. apply reply_independent_of_memory. Qed.
Theorem C07_reply_independent_of_history :
  forall {Cfg Meta Ledger Prop_ Result : Type} (meta0 : Meta) (cfg_of : Ledger -> option Cfg) (meta_of : Ledger -> option Meta)
         (body : Cfg -> Meta -> Ledger -> Prop_ -> Result * Meta) (no_config : Result) h1 h2 m1 m2 l p,
  fst (p_invoke meta0 cfg_of meta_of body no_config true true (p_history meta0 cfg_of meta_of body no_config true true m1 h1) l p) =
  fst (p_invoke meta0 cfg_of meta_of body no_config true true (p_history meta0 cfg_of meta_of body no_config true true m2 h2) l p).
Proof. intros. apply reply_independent_of_history. Qed.
Theorem C07_fresh_equals_long_lived :
  forall {Cfg Meta Ledger Prop_ Result : Type} (meta0 : Meta) (cfg_of : Ledger -> option Cfg) (meta_of : Ledger -> option Meta)
         (body : Cfg -> Meta -> Ledger -> Prop_ -> Result * Meta) (no_config : Result) h m l p,
  fst (p_invoke meta0 cfg_of meta_of body no_config true true (PMem None None) l p) =
  fst (p_invoke meta0 cfg_of meta_of body no_config true true (p_history meta0 cfg_of meta_of body no_config true true m h) l p).
Proof. intros. apply fresh_equals_long_lived. Qed.
Print Assumptions C07_reply_independent_of_memory.
Print Assumptions C07_reply_independent_of_history.
Print Assumptions C07_fresh_equals_long_lived.

(* (2) both reloads are needed: keeping the metadata object when the ledger has none (the pinned
       commit, finding F6) or applying the configuration once per process makes the reply depend on
       the process *)
Theorem C07_keep_metadata_refuted :
  exists (m1 m2 : @pmem unit nat) (l : unit) (p : unit),
    fst (p_invoke 0 (fun _ => Some tt) (fun _ => None) (fun _ mt _ _ => (mt, mt)) 99 true false m1 l p) <>
    fst (p_invoke 0 (fun _ => Some tt) (fun _ => None) (fun _ mt _ _ => (mt, mt)) 99 true false m2 l p).
Proof. exact keep_metadata_refuted. Qed.
Theorem C07_configure_once_refuted :
  exists (m1 m2 : @pmem nat unit) (l : unit) (p : unit),
    fst (p_invoke tt (fun _ => Some 1) (fun _ => None) (fun c mt _ _ => (c, mt)) 99 false true m1 l p) <>
    fst (p_invoke tt (fun _ => Some 1) (fun _ => None) (fun c mt _ _ => (c, mt)) 99 false true m2 l p).
Proof. exact configure_once_refuted. Qed.
Print Assumptions C07_keep_metadata_refuted.
Print Assumptions C07_configure_once_refuted.

(* (3) replies list write keys, event names and accounting records sorted: the rendered order is the
       same for every in-process iteration order of the same entries *)
Theorem C07_render_order_independent : forall l1 l2, l1 ≡ₚ l2 -> render l1 = render l2.
Proof. exact render_order_independent. Qed.
Theorem C07_render_sorted : forall l, Sorted N_le (render l) /\ render l ≡ₚ l.
Proof. exact render_sorted. Qed.
Print Assumptions C07_render_order_independent.
Print Assumptions C07_render_sorted.

Example C07_example : render [5; 3; 9; 3; 1]%N = [1; 3; 3; 5; 9]%N /\ render [3; 1; 9; 5; 3]%N = [1; 3; 3; 5; 9]%N.
Proof. split; vm_compute; reflexivity. Qed.
