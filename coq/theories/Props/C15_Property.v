(* C15 — Queries are read-only.
   Only property theorems, their assumptions and non-vacuity examples.          *)
From Fnd Require Import Base.Prelude Model.QueryStub Proofs.QueryProofs.

(* for every body (any sequence of stub operations), both routes by which a query can be
   reached, with or without a sender parameter, whatever the access-control service answers
   during authentication: no write, delete, validation parameter, private-data write or event
   reaches the ledger *)
Theorem C15_query_readonly : forall r s a body, effects (run_query r s a body) = [].
Proof. exact query_readonly. Qed.
Print Assumptions C15_query_readonly.

Theorem C15_reads_preserved : forall body o, mutating o = false -> In o body -> In o (through true body).
Proof. exact reads_preserved. Qed.
Print Assumptions C15_reads_preserved.

(* the same with data (Model/QueryStub.v, second part): whatever the body attempts, in any order and number, the peer's
   view of the transaction - write set, event, validation parameters, private data - is exactly as the body found it *)
Theorem C15_wrapped_leaves_peer : forall body p, fst (run_with wrapped_step p body) = p.
Proof. exact wrapped_leaves_peer. Qed.
Print Assumptions C15_wrapped_leaves_peer.

(* ... and the body reads exactly what it would read unwrapped: the committed ledger, never its own attempted writes *)
Theorem C15_wrapped_reads_same : forall body p, snd (run_with wrapped_step p body) = snd (run_with peer_step p body).
Proof. exact wrapped_reads_same. Qed.
Print Assumptions C15_wrapped_reads_same.

Example C15_example :
  (effects (run_query QTask true true [1; 20; 2; 8; 4; 21]%N), effects (through false [1; 20; 2; 8]%N)) = ([], [1; 2; 8]%N).
Proof. vm_compute. reflexivity. Qed.
