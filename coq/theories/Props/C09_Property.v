(* C09 — Multi-asset swap is all-or-nothing and released exactly once.
   Only property theorems, their assumptions and non-vacuity examples.          *)
From Fnd Require Import Base.Prelude Base.Sum Model.Balance Model.CCTransfer Model.MultiSwap
  Proofs.BalanceProofs Proofs.CCTransferProofs Proofs.MultiSwapProofs.
Local Open Scope Z_scope.

(* (1) a release removes the record; completion needs the right key and publishes it; cancellation
       is the creator's and only after the time-out *)
Theorem C09_done_removes : forall c id key c' ev, m_apply c (MUserDone id key) = Ok (c', ev) ->
  mc_swaps c' !! id = None /\ exists r, mc_swaps c !! id = Some r /\ mw_hash r = key /\ mw_creator r <> mw_owner r /\
  ev = Some (mw_from r, id, key).
Proof. exact m_done_removes. Qed.
Theorem C09_cancel_removes : forall c now sender id c' ev, m_apply c (MCancel now sender id) = Ok (c', ev) ->
  mc_swaps c' !! id = None /\ ev = None /\
  exists r, mc_swaps c !! id = Some r /\ mw_creator r = sender /\ mw_timeout r <= now.
Proof. exact m_cancel_removes. Qed.
Theorem C09_robot_done_removes : forall c id key c' ev, m_apply c (MRobotDone id key) = Ok (c', ev) -> mc_swaps c' !! id = None.
Proof. exact m_robot_done_removes. Qed.
Print Assumptions C09_done_removes.
Print Assumptions C09_cancel_removes.
Print Assumptions C09_robot_done_removes.

(* (2) wrong keys, repeated completions, completion after cancellation, foreign and early
       cancellations are rejected, and a rejected step (also a begin whose 2nd or 3rd asset is
       under-funded) changes nothing; an open multi-swap is never replaced *)
Theorem C09_gone_means_rejected : forall c id, mc_swaps c !! id = None ->
  (forall key, m_apply c (MUserDone id key) = Err ENotFound) /\ (forall key, m_apply c (MRobotDone id key) = Err ENotFound) /\
  (forall now sender, m_apply c (MCancel now sender id) = Err ENotFound).
Proof. exact m_gone_means_rejected. Qed.
Theorem C09_wrong_key_rejected : forall c id r key, mc_swaps c !! id = Some r -> mw_hash r <> key ->
  m_apply c (MUserDone id key) = Err EBadKey /\ m_apply c (MRobotDone id key) = Err EBadKey.
Proof. exact m_wrong_key_rejected. Qed.
Theorem C09_foreign_cancel_rejected : forall c now sender id r, mc_swaps c !! id = Some r -> mw_creator r <> sender ->
  m_apply c (MCancel now sender id) = Err EUnauthorized.
Proof. exact m_foreign_cancel_rejected. Qed.
Theorem C09_early_cancel_rejected : forall c now sender id r, mc_swaps c !! id = Some r -> mw_creator r = sender -> now < mw_timeout r ->
  m_apply c (MCancel now sender id) = Err ETimeout.
Proof. exact m_early_cancel_rejected. Qed.
Theorem C09_own_record_not_completable : forall c id r key, mc_swaps c !! id = Some r -> mw_creator r = mw_owner r ->
  forall c' ev, m_apply c (MUserDone id key) <> Ok (c', ev).
Proof. exact m_own_record_not_completable. Qed.
Theorem C09_begin_no_overwrite : forall c now s id sym assets to h r, mc_swaps c !! id = Some r ->
  forall c' ev, m_apply c (MBegin now s id sym assets to h) <> Ok (c', ev).
Proof. exact m_begin_no_overwrite. Qed.
Theorem C09_answer_no_overwrite : forall c now id r r0, mc_swaps c !! id = Some r0 ->
  forall c' ev, m_apply c (MAnswer now id r) <> Ok (c', ev).
Proof. exact m_answer_no_overwrite. Qed.
Theorem C09_rejected_unchanged : forall c o e, snd (fst (m_step c o)) = Some e -> fst (fst (m_step c o)) = c.
Proof. exact m_rejected_unchanged. Qed.
Print Assumptions C09_gone_means_rejected.
Print Assumptions C09_wrong_key_rejected.
Print Assumptions C09_foreign_cancel_rejected.
Print Assumptions C09_early_cancel_rejected.
Print Assumptions C09_own_record_not_completable.
Print Assumptions C09_begin_no_overwrite.
Print Assumptions C09_answer_no_overwrite.
Print Assumptions C09_rejected_unchanged.

(* (3) all of the assets: per user u, token t and group g (mval = group balance in the token's home
       channel, allowed balance of the ticker elsewhere; amt_for counts a group listed twice twice):
       an accepted begin debits every asset, completion credits every asset to the owner, the
       creator's cancellation refunds every asset *)
Theorem C09_begin_debits : forall c now s id sym assets to h c' ev, (forall a, In a assets -> a_sym a = sym) ->
  m_apply c (MBegin now s id sym assets to h) = Ok (c', ev) ->
  forall u t g, (t < 1000)%N -> mval c' u t g = mval c u t g - (if N.eqb s u then amt_for t g assets else 0).
Proof. exact m_begin_debits. Qed.
Theorem C09_done_credits : forall c id key c' ev, mwfchan c -> m_apply c (MUserDone id key) = Ok (c', ev) ->
  exists r, mc_swaps c !! id = Some r /\ mw_creator r = 0%N /\
    forall u t g, (t < 1000)%N -> mval c' u t g = mval c u t g + (if N.eqb (mw_owner r) u then amt_for t g (mw_assets r) else 0).
Proof. exact m_done_credits. Qed.
Theorem C09_cancel_refunds : forall c now sender id c' ev, mwfchan c -> sender <> 0%N -> m_apply c (MCancel now sender id) = Ok (c', ev) ->
  exists r, mc_swaps c !! id = Some r /\ mw_creator r = sender /\ mw_timeout r <= now /\
    forall u t g, (t < 1000)%N -> mval c' u t g = mval c u t g + (if N.eqb (mw_owner r) u then amt_for t g (mw_assets r) else 0).
Proof. exact m_cancel_refunds. Qed.
Print Assumptions C09_begin_debits.
Print Assumptions C09_done_credits.
Print Assumptions C09_cancel_refunds.

(* (4) two channels a <> b, a clock, any users (who label assets with the swap's token), and the
       robot of C08.  msys_step true: the creator cancels at the origin only a swap the robot has not
       answered.  Then for EVERY interleaving, of any length: per user, token and group the total
       over both channels never exceeds the start and equals it once nothing is open, and the
       given-out counter moves with the amount held.  msys_step false is what the ledger alone
       permits: the answered copy cannot be cancelled by anybody, so after the time-out the creator
       cancels at the origin and the copy is still completed - C09_cancel_then_complete_refuted is
       that schedule (finding F8, replayed on the implementation by the check). *)
Theorem C09_value_never_exceeds : forall a b balA balB t0 l u t g, a <> b -> (t < 1000)%N ->
  let s0 := msys0 a b balA balB t0 in let s := msys_run true s0 l in
  mval (msA s) u t g + mval (msB s) u t g <= mval (msA s0) u t g + mval (msB s0) u t g /\
  (mc_swaps (msA s) = ∅ -> mc_swaps (msB s) = ∅ ->
   mval (msA s) u t g + mval (msB s) u t g = mval (msA s0) u t g + mval (msB s0) u t g).
Proof. exact m_value_never_exceeds. Qed.
Theorem C09_step_value : forall s s' u t g, (t < 1000)%N -> mstepR s s' -> MInv s -> MVtot s' u t g = MVtot s u t g.
Proof. exact mstepR_V. Qed.
Theorem C09_step_given : forall s s' g, mstepR s s' -> MInv s -> MGd s' g = MGd s g.
Proof. exact mstepR_G. Qed.
Theorem C09_model_steps : forall s a, mstepR s (msys_step true s a).
Proof. exact msys_step_mstepR. Qed.
Theorem C09_given_matches_held : forall a b balA balB t0 l g, a <> b ->
  let s0 := msys0 a b balA balB t0 in let s := msys_run true s0 l in
  mc_swaps (msA s) = ∅ -> mc_swaps (msB s) = ∅ ->
  msgiv (mchn s g) (mc_me (mchn s (negb g))) - msheld (mchn s (negb g)) (mc_me (mchn s g)) =
  msgiv (mchn s0 g) (mc_me (mchn s0 (negb g))) - msheld (mchn s0 (negb g)) (mc_me (mchn s0 g)).
Proof. exact m_given_matches_held. Qed.
Theorem C09_cancel_then_complete_refuted :
  exists l, let s0 := msys0 1 2 {[ (KTok, 5%N, 1%N) := 100 ]} ∅ 1000 in
            let s := msys_run false s0 l in
            mval (msA s) 5 1 1 + mval (msB s) 5 1 1 = mval (msA s0) 5 1 1 + mval (msB s0) 5 1 1 + 40 /\
            map_to_list (mc_swaps (msA s)) = [] /\ map_to_list (mc_swaps (msB s)) = [].
Proof. exact cancel_then_complete_refuted. Qed.
Print Assumptions C09_value_never_exceeds.
Print Assumptions C09_step_value.
Print Assumptions C09_step_given.
Print Assumptions C09_given_matches_held.
Print Assumptions C09_cancel_then_complete_refuted.

(* non-vacuity: two groups, one listed twice, escrowed, answered, completed, closed; an early and a
   foreign cancel rejected on the way *)
Example C09_example :
  let s0 := msys0 1 2 {[ (KTok, 5%N, 1%N) := 100; (KTok, 5%N, 2%N) := 50 ]} ∅ 1000 in
  let s := msys_run true s0 [MUBegin true 5 7 1 [AS 1 1 10; AS 1 2 5; AS 1 1 7] 2 11; MUCancel true 5 7; MTick 10800;
                             MUCancel true 6 7; MRAnswer true 7; MUCancel true 5 7; MUDone true 7 12; MUDone true 7 11;
                             MUDone true 7 11; MRDone true 7] in
  (bget (mc_bal (msA s)) (KTok, 5%N, 1%N), bget (mc_bal (msA s)) (KTok, 5%N, 2%N), msgiv (msA s) 2,
   bget (mc_bal (msB s)) (KAllowed, 5%N, tk_enc 1 1), bget (mc_bal (msB s)) (KAllowed, 5%N, tk_enc 1 2),
   map_to_list (mc_swaps (msA s)), map_to_list (mc_swaps (msB s))) = (83, 45, 22, 17, 5, [], []).
Proof. vm_compute. reflexivity. Qed.
