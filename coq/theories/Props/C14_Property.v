(* C14 — Faults are contained: no input can crash the chaincode process.
   Only property theorems, their assumptions and non-vacuity examples.          *)
From Fnd Require Import Base.Prelude Model.Contain Proofs.ContainProofs.

(* (1) an invocation is a tree of frames: leaves that may panic on the given input, sequences,
       frames with a deferred recover(), helper goroutines.  If every goroutine's body ends in a
       recover, NO assignment of panics to leaves terminates the process, and a frame under recover
       always ends normally (Invoke returns a reply). *)
Theorem C14_guarded_never_dead : forall f, guarded f -> fst (run f) <> Dead.
Proof. exact guarded_never_dead. Qed.
Theorem C14_recover_replies : forall f, guarded f -> fst (run (Recover f)) = Done.
Proof. exact recover_replies. Qed.
Print Assumptions C14_guarded_never_dead.
Print Assumptions C14_recover_replies.

(* (2) the shapes the library gives to ordinary functions, batchExecute and executeTasks reply for
       every input: for all panic flags of routing / authentication / body, of every pending
       transaction, swap answer, swap key, access-control prediction and task, of decoding and of
       committing - for lists of every length *)
Theorem C14_plain_always_replies : forall route auth body, fst (run (shape_plain route auth body)) = Done.
Proof. exact plain_always_replies. Qed.
Theorem C14_batch_always_replies : forall pre txs swaps keys post, fst (run (shape_batch pre txs swaps keys post)) = Done.
Proof. exact batch_always_replies. Qed.
Theorem C14_tasks_always_reply : forall pre predict tasks post, fst (run (shape_tasks pre predict tasks post)) = Done.
Proof. exact tasks_always_reply. Qed.
(* Init has no recover: it replies exactly when none of its steps panics.  That no input makes a step
   of Init panic is not a theorem of this model; the child-process vectors (configurations whose
   fields pass the decoders but are odd) are what checks it. *)
Theorem C14_init_replies_iff_no_panic : forall creator validate save,
  fst (run (shape_init creator validate save)) = Done <-> creator = false /\ validate = false /\ save = false.
Proof. exact init_replies_iff_no_panic. Qed.
Print Assumptions C14_init_replies_iff_no_panic.
Print Assumptions C14_plain_always_replies.
Print Assumptions C14_batch_always_replies.
Print Assumptions C14_tasks_always_reply.

(* (3) a panic fails only its own item: in a batch every transaction runs and completes iff it does
       not panic itself, whatever the other transactions, swap answers and swap keys do *)
Theorem C14_batch_item_isolation : forall txs swaps keys post,
  item_log 1 (length txs) (snd (run (shape_batch false txs swaps keys post))) = List.map (fun p => Some (negb p)) txs.
Proof. exact batch_item_isolation. Qed.
Print Assumptions C14_batch_item_isolation.

(* (4) the pinned commit's executeTasks (prediction goroutines without recover, tasks without their
       own recover) is refuted: one panicking prediction kills the process (finding F11), and a
       panicking task takes the rest of the list with it (finding F4) *)
Theorem C14_tasks_pinned_refuted :
  fst (run (shape_tasks_pinned false [true] [false] false)) = Dead /\
  item_log 1 3 (snd (run (shape_tasks_pinned false [] [false; true; false] false))) = [Some true; Some false; None].
Proof. exact tasks_pinned_refuted. Qed.
Print Assumptions C14_tasks_pinned_refuted.

Example C14_example :
  (fst (run (shape_tasks false [true; false] [false; true; false] false)),
   item_log 1 3 (snd (run (shape_tasks false [true; false] [false; true; false] false)))) = (Done, [Some true; Some false; Some true]).
Proof. vm_compute. reflexivity. Qed.
