(* C17 — Concurrent invocations on one chaincode instance are isolated.
   Only property theorems, their assumptions and non-vacuity examples.          *)
From Fnd Require Import Base.Prelude Model.Envs Proofs.EnvsProofs Model.SharedMeta Proofs.SharedMetaProofs.

(* Invocations (goroutine id, transaction, the keys the body writes - each through a fresh GetStub())
   run on ONE contract object whose context table is keyed by the goroutine id.  Goroutine ids and
   transactions are pairwise distinct.  For EVERY schedule (any interleaving, any length, also
   partial): no GetStub() returns nil, what was written through an invocation's context so far is a
   prefix of its own keys in its own transaction (never another's), and an invocation that ran to its
   end wrote exactly its keys. *)
Theorem C17_isolation : forall ths,
  NoDup (List.map (fun it : N * N * list N => fst (fst it)) ths) -> NoDup (List.map (fun it : N * N * list N => snd (fst it)) ths) ->
  forall schedule i gid stub ks, ths !! i = Some (gid, stub, ks) ->
  let s := c_run by_gid (c_init ths) schedule in
  cs_nil s = [] /\ (exists n, wr s stub = take n ks) /\
  (forall t, cs_threads s !! i = Some t -> ct_todo t = [] -> wr s stub = ks).
Proof. exact isolation. Qed.

(* ... which is its result when run alone *)
Theorem C17_same_as_alone : forall ths schedule i gid stub ks solo_schedule t t1,
  NoDup (List.map (fun it : N * N * list N => fst (fst it)) ths) -> NoDup (List.map (fun it : N * N * list N => snd (fst it)) ths) ->
  ths !! i = Some (gid, stub, ks) ->
  let s := c_run by_gid (c_init ths) schedule in
  let s1 := c_run by_gid (c_init [(gid, stub, ks)]) solo_schedule in
  cs_threads s !! i = Some t -> ct_todo t = [] -> cs_threads s1 !! 0%nat = Some t1 -> ct_todo t1 = [] ->
  wr s stub = wr s1 stub.
Proof. exact same_as_alone. Qed.

(* the table key must be unique per running invocation *)
Theorem C17_shared_key_refuted :
  let s := c_run (fun _ => 0%N) (c_init [(1, 10, [5; 6]); (2, 20, [7])]%N) [0; 0; 1; 0]%nat in
  default [] (cs_writes s !! 10%N) = [5%N] /\ default [] (cs_writes s !! 20%N) = [6%N].
Proof. exact shared_key_refuted. Qed.
Print Assumptions C17_isolation.
Print Assumptions C17_same_as_alone.
Print Assumptions C17_shared_key_refuted.

(* What is NOT isolated (finding F20): the token's metadata object hangs on ONE field of the contract.
   Two metadata operations whose lifetimes overlap save each other's uncommitted change; with a field
   (object) per invocation every one of the 20 interleavings of two operations gives each its solo
   result.  The check replays the first on the implementation (hook after the metadata load). *)
Theorem C17_shared_metadata_refuted :
  saved_of (m_meta_run [] (fun _ => 0%nat) [1; 2]%N [0; 1; 1; 1; 0; 0]%nat) 0%nat = Some [2; 1]%N /\
  saved_of (m_meta_run [] (fun _ => 0%nat) [1; 2]%N [0; 1; 0; 0; 1; 1]%nat) 1%nat = Some [1; 2]%N /\
  saved_of (m_meta_run [] (fun _ => 0%nat) [1; 2]%N [0; 0; 0]%nat) 0%nat = Some [1]%N.
Proof. exact shared_object_refuted. Qed.
Theorem C17_own_metadata_object_isolated_2 :
  forallb (fun sch => let s := m_meta_run [7]%N (fun i => i) [1; 2]%N sch in
                      bool_decide (saved_of s 0%nat = Some [7; 1]%N) && bool_decide (saved_of s 1%nat = Some [7; 2]%N)) all_schedules2 = true
  /\ length all_schedules2 = 20%nat.
Proof. exact own_object_isolated_2. Qed.
Print Assumptions C17_shared_metadata_refuted.
Print Assumptions C17_own_metadata_object_isolated_2.

Example C17_example :
  let s := c_run by_gid (c_init [(1, 10, [5; 6]); (2, 20, [7]); (3, 30, [8; 9])]%N) [0; 1; 0; 2; 2; 1; 0; 2; 1; 0; 2]%nat in
  (default [] (cs_writes s !! 10%N), default [] (cs_writes s !! 20%N), default [] (cs_writes s !! 30%N), cs_nil s, map_to_list (cs_table s))
  = ([5; 6]%N, [7]%N, [8; 9]%N, [], []).
Proof. vm_compute. reflexivity. Qed.
