(* C13 — External lock accounting.
   Only property theorems, their assumptions and non-vacuity examples.          *)
From Fnd Require Import Base.Prelude Base.Sum Model.Balance Model.Locks Proofs.BalanceProofs Proofs.LocksProofs.
Local Open Scope Z_scope.

(* (1) over every history of lock / unlock requests (any senders, ids, amounts) whose
       unlock requests name the lock's own address: an address's locked balance equals
       the sum of the remaining amounts of its locks; every existing lock has
       0 < remaining = initial - everything unlocked so far (so it never drops below
       zero and disappears exactly when it reaches zero) *)
Theorem C13_locked_is_sum : forall admin os, all_own admin l_init_state os = true ->
  let st := fst (l_run admin l_init_state os) in
  (forall a, bget (ls_bal st) (KTokLocked, a, 0%N) = msum (w_tok a) (ls_tl st)) /\
  (forall a tk, bget (ls_bal st) (KAllowedLocked, a, tk) = msum (w_all a tk) (ls_al st)) /\
  (forall f id r, fam_locks st f !! id = Some r -> 0 < l_cur r /\ l_cur r = l_init r - l_unl r /\ 0 <= l_unl r).
Proof. exact locked_is_sum. Qed.
Print Assumptions C13_locked_is_sum.

(* (2) a successful lock needs sufficient spendable funds and a fresh id, moves exactly the
       amount from spendable to locked of that address and changes no other balance *)
Theorem C13_lock_settles : forall admin st f s id a tk amt st',
  l_apply admin st (LLock f s id a tk amt) = Ok st' ->
  s = admin /\ 0 < amt /\ amt <= bget (ls_bal st) (sp_key f a tk) /\ fam_locks st f !! id = None /\
  fam_locks st' f !! id = Some (LR a tk amt amt 0) /\
  forall k, bget (ls_bal st') k = bget (ls_bal st) k - at_key (sp_key f a tk) k amt + at_key (lk_key f a tk) k amt.
Proof. exact lock_settles. Qed.
Theorem C13_unlock_settles : forall admin st f s id a tk amt st',
  l_apply admin st (LUnlock f s id a tk amt) = Ok st' ->
  exists r, fam_locks st f !! id = Some r /\ s = admin /\ 0 <= amt <= l_cur r /\
  (fam_locks st' f !! id = if l_cur r =? amt then None
                           else Some (LR (l_addr r) (l_tok r) (l_init r) (l_cur r - amt) (l_unl r + amt))) /\
  forall k, bget (ls_bal st') k = bget (ls_bal st) k - at_key (lk_key f a (l_tok r)) k amt + at_key (sp_key f a (l_tok r)) k amt.
Proof. exact unlock_settles. Qed.
Print Assumptions C13_lock_settles.
Print Assumptions C13_unlock_settles.

(* (3) rejections: over-unlock, unknown lock, duplicate id, caller not the admin *)
Theorem C13_over_unlock_rejected : forall admin st f s id a tk amt r,
  s = admin -> id <> 0%N -> tk <> 0%N -> fam_locks st f !! id = Some r -> l_cur r < amt ->
  l_apply admin st (LUnlock f s id a tk amt) = Err EInsufficient.
Proof. exact over_unlock_rejected. Qed.
Theorem C13_unknown_rejected : forall admin st f s id a tk amt,
  s = admin -> id <> 0%N -> tk <> 0%N -> fam_locks st f !! id = None ->
  l_apply admin st (LUnlock f s id a tk amt) = Err ENotFound.
Proof. exact unknown_rejected. Qed.
Theorem C13_duplicate_rejected : forall admin st f s id a tk amt r,
  s = admin -> id <> 0%N -> tk <> 0%N -> fam_locks st f !! id = Some r ->
  l_apply admin st (LLock f s id a tk amt) = Err EExists.
Proof. exact duplicate_rejected. Qed.
Theorem C13_not_admin_rejected : forall admin st o s,
  (match o with LLock _ x _ _ _ _ | LUnlock _ x _ _ _ _ => x end) = s -> s <> admin ->
  l_apply admin st o = Err EUnauthorized.
Proof. exact not_admin_rejected. Qed.
Print Assumptions C13_over_unlock_rejected.
Print Assumptions C13_unknown_rejected.
Print Assumptions C13_duplicate_rejected.
Print Assumptions C13_not_admin_rejected.

(* non-vacuity *)
Example C13_example :
  let st0 := LS {[ (KTok, 5%N, 0%N) := 100 ]} ∅ ∅ in
  let '(st, errs) := l_run 1 st0
    [LLock FTok 1 7 5 9 60; LLock FTok 1 7 5 9 10; LLock FTok 1 8 5 9 41; LUnlock FTok 1 7 5 9 61;
     LUnlock FTok 1 7 5 9 20; LUnlock FTok 2 7 5 9 1; LUnlock FTok 1 7 5 9 40; LUnlock FTok 1 7 5 9 1] in
  (errs, bget (ls_bal st) (KTok, 5%N, 0%N), bget (ls_bal st) (KTokLocked, 5%N, 0%N), map_to_list (ls_tl st)) =
  ([None; Some EExists; Some EInsufficient; Some EInsufficient; None; Some EUnauthorized; None; Some ENotFound],
   100, 0, []).
Proof. vm_compute. reflexivity. Qed.
