(* C10 — Cross-channel transfer: exactly-once debit/credit, legal record life cycle.
   Only property theorems, their assumptions and non-vacuity examples.          *)
From Fnd Require Import Base.Prelude Base.Sum Model.Balance Model.CCTransfer Proofs.BalanceProofs Proofs.CCTransferProofs.
Local Open Scope Z_scope.

(* (1) every successful step moves each id's origin-side record along a legal edge:
       none -> open -> committed -> none, or open -> none (cancel) *)
Theorem C10_lifecycle : forall c o c' id, cc_apply c o = Ok c' -> legal (from_phase c id) (from_phase c' id).
Proof. exact lifecycle. Qed.
Print Assumptions C10_lifecycle.

(* (2) guards: duplicate id, repeated commit, cancel after commit, delete before commit and
       unknown ids are rejected; a rejected step has no effect *)
Theorem C10_duplicate_id_rejected : forall c id to user sym grp amt v r,
  ch_from c !! id = Some r -> forall c', create_from c id to user sym grp amt v <> Ok c'.
Proof. exact duplicate_id_rejected. Qed.
Theorem C10_repeated_commit_rejected : forall c id r, ch_from c !! id = Some r -> cc_commit r = true ->
  cc_apply c (OCommitFrom id) = Err ECommitted /\ cc_apply c (OCancelFrom id) = Err ECommitted.
Proof. exact repeated_commit_rejected. Qed.
Theorem C10_delete_before_commit_rejected : forall c id,
  (forall r, ch_from c !! id = Some r -> cc_commit r = false -> cc_apply c (ODeleteFrom id) = Err ENotCommitted) /\
  (forall r, ch_to c !! id = Some r -> cc_commit r = false -> cc_apply c (ODeleteTo id) = Err ENotCommitted).
Proof. exact delete_before_commit_rejected. Qed.
Theorem C10_unknown_id_rejected : forall c id, ch_from c !! id = None ->
  cc_apply c (OCommitFrom id) = Err ENotFound /\ cc_apply c (OCancelFrom id) = Err ENotFound /\
  cc_apply c (ODeleteFrom id) = Err ENotFound.
Proof. exact unknown_id_rejected. Qed.
Theorem C10_rejected_no_effect : forall c o e, snd (cc_step c o) = Some e -> fst (cc_step c o) = c.
Proof. exact rejected_no_effect. Qed.
Print Assumptions C10_duplicate_id_rejected.
Print Assumptions C10_repeated_commit_rejected.
Print Assumptions C10_rejected_no_effect.

(* (3) the six balance moves: exact effect on given-out counter, amount held, spendable
       balances; cancellation refunds exactly what the initiation debited; no step creates or
       destroys units (spendable + given-out is constant) *)
Theorem C10_change_balance_effect : forall k b r b', change_balance k b r = Ok b' -> (cc_sym r < 1000)%N ->
  (forall x, giv b' x = giv b x + dG k r x) /\ (forall s, held b' s = held b s + dH k r s) /\
  spend b' = spend b + dS k r /\ gtot b' = gtot b - dS k r.
Proof. exact change_balance_effect. Qed.
Theorem C10_cancel_refund_exact : forall r x s, dG KCancelFrom r x = - dG KCreateFrom r x /\
  dH KCancelFrom r s = - dH KCreateFrom r s /\ dS KCancelFrom r = - dS KCreateFrom r.
Proof. exact cancel_refund_exact. Qed.
Theorem C10_units_conserved : forall c o c', cc_apply c o = Ok c' ->
  spend (ch_bal c') + gtot (ch_bal c') = spend (ch_bal c) + gtot (ch_bal c).
Proof. exact units_conserved. Qed.
Print Assumptions C10_change_balance_effect.
Print Assumptions C10_units_conserved.

(* (4) two channels a <> b and a robot whose every step is enabled by the two ledgers alone
       (so stopping after any step and resuming is just another interleaving): for every
       interleaving, of any length, of user initiations on both channels (any arguments,
       duplicates, both directions) with createTo / commit / deleteTo / deleteFrom / cancel:
           given-out counter of a's channel for b
             = amount of a's token held in b + forward transfers debited but not yet credited
               + returning transfers debited in b but not yet credited in a.
       Hence tokens are never spendable in both channels at once (held <= given-out), and
       when nothing is in flight the given-out counter equals the amount held. *)
Theorem C10_given_equals_held : forall a b, a <> b -> (a < 1000)%N -> (b < 1000)%N -> forall adminA adminB balA balB l,
  giv balA b = held balB a ->
  let s := sys_run (sys0 a b adminA adminB balA balB) l in
  giv (ch_bal (sA s)) b = held (ch_bal (sB s)) a + Fw b s + Kb a s.
Proof. exact given_equals_held. Qed.
Print Assumptions C10_given_equals_held.

Example C10_example :
  let a := 1%N in let b := 2%N in
  let s0 := sys0 a b 9 9 {[ (KTok, 5%N, 0%N) := 100 ]} ∅ in
  let s := sys_run s0 [AUser true (OFromCustomer 5 7 b a 0 40 true); AUser true (OFromCustomer 5 7 b a 0 1 true);
                        ACommit true 7; ACreateTo true 7; ACancel true 7; ACommit true 7; ADeleteFrom true 7;
                        ADeleteTo true 7; ADeleteFrom true 7] in
  (bget (ch_bal (sA s)) (KTok, 5%N, 0%N), giv (ch_bal (sA s)) b, held (ch_bal (sB s)) a,
   from_phase (sA s) 7, map_to_list (ch_to (sB s))) = (60, 40, 40, PNone, []).
Proof. vm_compute. reflexivity. Qed.
