(* C16 — Reverse balance index always agrees with the balances.
   Only property theorems, their assumptions and non-vacuity examples.          *)
From Fnd Require Import Base.Prelude Model.Balance Model.Index Proofs.IndexProofs.
Local Open Scope Z_scope.

(* (1) For every balance kind and token, after any history of balance operations
       (put/add/sub/move, executed in transactions that read their own writes or on a raw
       stub, committed or discarded), index builds and queries: listing the owners of a
       token returns exactly the addresses whose balance is non-zero, with the amounts a
       direct read returns. *)
Theorem C16_index_agrees : forall h, Forall no_legacy h ->
  forall kd tk a v, tk <> 0%N ->
  let s := fst (i_run i_init h) in
  In (a, v) (owners s kd tk) <-> (bget (prim s) (kd, a, tk) = v /\ v <> 0).
Proof. exact index_agrees. Qed.
Print Assumptions C16_index_agrees.

(* (2) balances written before indexing existed: holds from the moment the index of that
       kind has been built *)
Theorem C16_index_agrees_after_create : forall l h1 kd h2,
  Forall is_legacy l -> Forall no_legacy h1 -> Forall no_legacy h2 ->
  forall tk a v, tk <> 0%N ->
  let s := fst (i_run i_init (l ++ h1 ++ SCreateIndex kd :: h2)) in
  In (a, v) (owners s kd tk) <-> (bget (prim s) (kd, a, tk) = v /\ v <> 0).
Proof. exact index_agrees_after_create. Qed.
Print Assumptions C16_index_agrees_after_create.

(* (3) building the index changes no balance; a discarded transaction changes nothing *)
Theorem C16_create_index_preserves_primaries : forall s kd,
  prim (fst (i_step s (SCreateIndex kd))) = prim s.
Proof. exact create_index_preserves_primaries. Qed.
Theorem C16_discarded_tx_no_effect : forall s m os, fst (i_step s (STx m false os)) = s.
Proof. exact discarded_tx_no_effect. Qed.
Print Assumptions C16_create_index_preserves_primaries.
Print Assumptions C16_discarded_tx_no_effect.

(* non-vacuity: legacy balance, a balance driven to zero and back, index built late *)
Example C16_example :
  let h := [SLegacy (43, 7, 1)%N 5; STx Cached true [IAdd (43, 8, 1)%N 9; IMove (43, 8, 1)%N (43, 9, 1)%N 9];
            SOwners 43 1; SCreateIndex 43; SOwners 43 1; STx Raw true [IAdd (43, 8, 1)%N 2]; SOwners 43 1] in
  snd (i_run i_init h) =
  [OUnit; OErrs [None; None]; OList [(9%N, 9)]; OUnit; OList [(7%N, 5); (9%N, 9)]; OErrs [None];
   OList [(7%N, 5); (9%N, 9); (8%N, 2)]].
Proof. vm_compute. reflexivity. Qed.
