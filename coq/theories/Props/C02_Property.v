(* C02 — Nonce replay protection: a signed request takes effect at most once.
   Only property theorems, their assumptions and non-vacuity examples.          *)
From Fnd Require Import Base.Prelude Model.Nonce Proofs.NonceProofs.
Local Open Scope N_scope.

(* (1) REFINEMENT.  For every sequence of attempted nonces, the 50-second window machine
       (the code's setNonce) gives exactly the verdicts of a machine that remembers every
       nonce ever accepted: accept iff 13 digits, never accepted before, and not older
       than the newest accepted one by more than 50 000 ms. *)
Theorem C02_window_refines_history : forall ns : list N,
  snd (w_run [] ns) = snd (h_run [] ns).
Proof. exact window_refines_history. Qed.
Print Assumptions C02_window_refines_history.

(* (2) AT MOST ONCE, one sender: no value is accepted at two positions of any history. *)
Theorem C02_at_most_once : forall ns i j n,
  i <> j -> nth_error ns i = Some n -> nth_error ns j = Some n ->
  nth_error (snd (w_run [] ns)) i = Some None ->
  nth_error (snd (w_run [] ns)) j = Some None -> False.
Proof. exact at_most_once. Qed.
Print Assumptions C02_at_most_once.

(* (3) AT MOST ONCE, whole system: over any interleaving of senders and of the batch and
       task routes (both use the same per-sender window), from the empty store, a
       (sender, nonce) pair is never accepted twice — whatever the bodies do. *)
Theorem C02_at_most_once_system : forall rs i j ri rj,
  i <> j -> nth_error rs i = Some ri -> nth_error rs j = Some rj ->
  r_sender ri = r_sender rj -> r_nonce ri = r_nonce rj ->
  (exists xi, nth_error (snd (exec_run ∅ rs)) i = Some xi /\ accepted xi = true) ->
  (exists xj, nth_error (snd (exec_run ∅ rs)) j = Some xj /\ accepted xj = true) -> False.
Proof. exact at_most_once_system. Qed.
Print Assumptions C02_at_most_once_system.

(* (4) the nonce is consumed whether or not the body succeeds, on either route *)
Theorem C02_consumed_even_if_body_fails : forall s rt rt' a n ok ok',
  fst (exec s (Req rt a n ok)) = fst (exec s (Req rt' a n ok')) /\
  accepted (snd (exec s (Req rt a n ok))) = accepted (snd (exec s (Req rt' a n ok'))).
Proof. exact consumed_even_if_body_fails. Qed.
Print Assumptions C02_consumed_even_if_body_fails.

(* (5) one sender's nonces never influence another sender's *)
Theorem C02_sender_independent : forall a rs s1 s2, s1 !! a = s2 !! a ->
  proj_sender a rs (snd (exec_run s1 rs)) = snd (exec_run s2 (only_sender a rs)).
Proof. exact sender_independent. Qed.
Print Assumptions C02_sender_independent.

(* (6) decision rules on every reachable window *)
Theorem C02_bad_format_rejected : forall n w,
  format_ok n = false -> set_nonce n w = (w, Some EFormat).
Proof. exact bad_format_rejected. Qed.
Theorem C02_stale_rejected : forall n w, reachable w -> w <> [] -> format_ok n = true ->
  ttl < List.last w 0 - n -> set_nonce n w = (w, Some EStale).
Proof. exact stale_rejected. Qed.
Theorem C02_in_window_unused_accepted : forall n w, reachable w -> format_ok n = true ->
  ~ In n w -> (w = [] \/ List.last w 0 < n \/ List.last w 0 - n <= ttl) ->
  snd (set_nonce n w) = None.
Proof. exact in_window_unused_accepted. Qed.
Print Assumptions C02_bad_format_rejected.
Print Assumptions C02_stale_rejected.
Print Assumptions C02_in_window_unused_accepted.

(* 12- and 14-digit values are not well-formed; the format guard keeps nonces below 2^64 *)
Example C02_format_examples :
  format_ok 999999999999 = false /\ format_ok 10000000000000 = false /\
  format_ok 1000000000000 = true /\ format_ok 9999999999999 = true.
Proof. vm_compute. repeat split. Qed.
Lemma C02_format_below_2_64 n : format_ok n = true -> n < 2^64.
Proof. unfold format_ok, hi13. rewrite andb_true_iff, N.ltb_lt. intros [_ H]. cbn. lia. Qed.

(* non-vacuity: a history at the window edge: the boundary nonce is forgotten by the
   window after a fresh maximum and is still rejected when replayed *)
Example C02_example :
  let b := 1700000000000 in
  snd (w_run [] [b; b + 50000; b; b + 50001; b; b + 1; b + 2; b + 1]) =
  [None; None; Some EDup; None; Some EStale; None; None; Some EDup].
Proof. vm_compute. reflexivity. Qed.
