(* C06 — Balance safety and conservation of token units.
   Only property theorems, their assumptions and non-vacuity examples.          *)
From Fnd Require Import Base.Prelude Base.Sum Model.Balance Model.Fee Model.Locks Model.CCTransfer Model.Swap Model.MultiSwap Model.Union
  Proofs.BalanceProofs Proofs.FeeProofs Proofs.CCTransferProofs Proofs.SwapProofs Proofs.MultiSwapProofs Proofs.UnionProofs.
Local Open Scope Z_scope.

(* (1) the three primitives every ledger helper maps to: a successful Add / Sub / Move changes exactly
       the named keys by exactly the amount; negative amounts and under-funded Sub / Move fail *)
Theorem C06_add_exact : forall m k a m', badd m k a = Ok m' -> 0 <= a /\ forall k', bget m' k' = bget m k' + at_key k k' a.
Proof. exact badd_spec. Qed.
Theorem C06_sub_exact : forall m k a m', bsub m k a = Ok m' ->
  0 <= a /\ a <= bget m k /\ forall k', bget m' k' = bget m k' - at_key k k' a.
Proof. exact bsub_spec. Qed.
Theorem C06_move_exact : forall m k1 k2 a m', bmove m k1 k2 a = Ok m' ->
  0 <= a /\ a <= bget m k1 /\ forall k', bget m' k' = bget m k' - at_key k1 k' a + at_key k2 k' a.
Proof. exact bmove_spec. Qed.
Theorem C06_move_fails_iff : forall m k1 k2 a, (exists e, bmove m k1 k2 a = Err e) <-> (a < 0 \/ bget m k1 < a).
Proof. exact bmove_fails_iff. Qed.
Print Assumptions C06_add_exact.
Print Assumptions C06_sub_exact.
Print Assumptions C06_move_exact.
Print Assumptions C06_move_fails_iff.

(* (2) the union of all operations on one channel (token operations incl. emission, transfer with
       fee, buy / buy-back; burning; external locks; cross-channel transfer steps; swap and multi-swap
       steps; forced transfers), each the component model of C19 / C13 / C10 / C08 / C09 run on the
       ONE balance map.  A rejected operation changes nothing; an accepted one keeps every balance
       non-negative and keeps   spendable + locked + given out + escrowed in open swaps and
       multi-swaps of the channel's own token  -  total emission   unchanged.  The robot is trusted
       to hand over only records from another channel addressed to this one ([honest]). *)
Theorem C06_rejected_unchanged : forall env st o e, snd (fst (u_step env st o)) = Some e -> fst (fst (u_step env st o)) = st.
Proof. exact u_rejected_unchanged. Qed.
Theorem C06_step : forall env st o st' ev, honest (ue_me env) st o = true -> UInv env st -> u_apply env st o = Ok (st', ev) -> UInv env st'.
Proof. exact u_apply_inv. Qed.
Theorem C06_units_equal_emission : forall env os, all_honest env us0 os = true ->
  let st := u_run env us0 os in units (ue_me env) st = us_emission st /\ nonneg (us_bal st).
Proof. exact units_equal_emission. Qed.
Print Assumptions C06_rejected_unchanged.
Print Assumptions C06_step.
Print Assumptions C06_units_equal_emission.

(* non-vacuity: emission, a fee-less transfer, a lock, a direct swap closed by the robot, a multi-swap
   cancelled after the time-out, a burn: 1000 emitted, 100 burnt *)
Example C06_example :
  let env := UEnv 1 9 (TEnv 1 9 9 9 []) in
  let os := [UTok (OEmit 9 5 1000); UTok (OTransfer 5 6 300); ULock (LLock FTok 9 3 6 1 100);
             USwap (SBegin 5 7 1 0 2 200 11); USwap (SRobotDone 7 11);
             UMSwap (MBegin 50 6 8 1 [AS 1 0 40; AS 1 0 10] 2 12); UMSwap (MCancel 10850 6 8); UBurn 5 100;
             UForce 9 KTok 6 5 0 50] in
  let st := u_run env us0 os in
  (all_honest env us0 os, units 1 st, us_emission st, bget (us_bal st) (KTok, 5%N, 0%N), bget (us_bal st) (KTok, 6%N, 0%N),
   bget (us_bal st) (KTokLocked, 6%N, 0%N), bget (us_bal st) (KGiven, 2%N, 0%N)) = (true, 900, 900, 450, 150, 100, 200).
Proof. vm_compute. reflexivity. Qed.
