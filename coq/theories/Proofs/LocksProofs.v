(* Proofs about Model/Locks.v *)
From Fnd Require Import Base.Prelude Base.Sum Model.Balance Model.Locks Proofs.BalanceProofs.
Local Open Scope Z_scope.

(* remaining amount of the locks of address a (and token tk for the allowed family) *)
Definition w_tok (a : N) (_ : N) (r : lockrec) : Z := if N.eqb (l_addr r) a then l_cur r else 0.
Definition w_all (a tk : N) (_ : N) (r : lockrec) : Z :=
  if N.eqb (l_addr r) a && N.eqb (l_tok r) tk then l_cur r else 0.

Definition rec_ok (r : lockrec) : Prop := 0 < l_cur r /\ l_cur r = l_init r - l_unl r /\ 0 <= l_unl r.

Record LInv (st : lstate) : Prop := {
  inv_tok : forall a, bget (ls_bal st) (KTokLocked, a, 0%N) = msum (w_tok a) (ls_tl st);
  inv_all : forall a tk, bget (ls_bal st) (KAllowedLocked, a, tk) = msum (w_all a tk) (ls_al st);
  inv_trec : forall id r, ls_tl st !! id = Some r -> rec_ok r;
  inv_arec : forall id r, ls_al st !! id = Some r -> rec_ok r /\ l_tok r <> 0%N
}.

Definition l_init_state : lstate := LS ∅ ∅ ∅.

Lemma LInv_init : LInv l_init_state.
Proof.
  split; cbn.
  - intros a. rewrite msum_empty. unfold bget. rewrite lookup_empty. reflexivity.
  - intros a tk. rewrite msum_empty. unfold bget. rewrite lookup_empty. reflexivity.
  - intros id r Hc. rewrite lookup_empty in Hc. discriminate.
  - intros id r Hc. rewrite lookup_empty in Hc. discriminate.
Qed.

Lemma w_tok_eq a0 id r : w_tok a0 id r = if N.eqb (l_addr r) a0 then l_cur r else 0.
Proof. reflexivity. Qed.
Lemma w_all_eq a0 tk0 id r : w_all a0 tk0 id r = if N.eqb (l_addr r) a0 && N.eqb (l_tok r) tk0 then l_cur r else 0.
Proof. reflexivity. Qed.

Lemma at_key_same k a : at_key k k a = a.
Proof. unfold at_key. rewrite decide_True by reflexivity. reflexivity. Qed.
Lemma at_key_diff k k' a : k' <> k -> at_key k k' a = 0.
Proof. intros Hn. unfold at_key. rewrite decide_False by exact Hn. reflexivity. Qed.

Theorem apply_LInv admin st o st' :
  LInv st -> own_addr st o = true -> l_apply admin st o = Ok st' -> LInv st'.
Proof.
  intros HI Hown. destruct o as [f s id a tk amt|f s id a tk amt]; cbn [l_apply].
  - (* lock *)
    destruct (negb _); [discriminate|]. destruct (N.eqb_spec id 0) as [|Hid]; [discriminate|].
    destruct (N.eqb_spec tk 0) as [|Htk]; cbn [orb]; [discriminate|].
    destruct (fam_locks st f !! id) eqn:El; [discriminate|].
    destruct (Z.leb_spec amt 0) as [|Hpos]; [discriminate|].
    destruct (bmove _ _ _ _) as [b|] eqn:Em; cbn [rbind]; [|discriminate]. intros [= <-].
    apply bmove_spec in Em as (_ & _ & Hb). destruct HI as [I1 I2 I3 I4].
    destruct f; cbn [set_locks fam_locks sp_key lk_key] in *.
    + split; cbn [ls_bal ls_tl ls_al].
      * intros a0. rewrite Hb, msum_insert_fresh by exact El. rewrite I1, w_tok_eq. cbn [l_addr l_cur].
        rewrite at_key_diff by (unfold KTokLocked, KTok; congruence).
        destruct (N.eqb_spec a a0) as [->|Hne].
        -- rewrite at_key_same. lia.
        -- rewrite at_key_diff by congruence. lia.
      * intros a0 tk0. rewrite Hb, I2. rewrite !at_key_diff; [lia| |]; unfold KTokLocked, KTok, KAllowedLocked; congruence.
      * intros id0 r. destruct (decide (id0 = id)) as [->|Hne].
        -- rewrite lookup_insert. intros [= <-]. unfold rec_ok. cbn. lia.
        -- rewrite lookup_insert_ne by congruence. apply I3.
      * exact I4.
    + split; cbn [ls_bal ls_tl ls_al].
      * intros a0. rewrite Hb, I1. rewrite !at_key_diff; [lia| |]; unfold KTokLocked, KAllowed, KAllowedLocked; congruence.
      * intros a0 tk0. rewrite Hb, msum_insert_fresh by exact El. rewrite I2, w_all_eq. cbn [l_addr l_cur l_tok].
        rewrite at_key_diff by (unfold KAllowedLocked, KAllowed; congruence).
        destruct (N.eqb_spec a a0) as [->|Hne]; cbn [andb].
        -- destruct (N.eqb_spec tk tk0) as [->|Hne2].
           ++ rewrite at_key_same. lia.
           ++ rewrite at_key_diff by congruence. lia.
        -- rewrite at_key_diff by congruence. lia.
      * exact I3.
      * intros id0 r. destruct (decide (id0 = id)) as [->|Hne].
        -- rewrite lookup_insert. intros [= <-]. unfold rec_ok. cbn. split; [lia|exact Htk].
        -- rewrite lookup_insert_ne by congruence. apply I4.
  - (* unlock *)
    destruct (negb _); [discriminate|]. destruct (N.eqb id 0 || N.eqb tk 0); [discriminate|].
    cbn [own_addr] in Hown.
    destruct (fam_locks st f !! id) as [r|] eqn:El; [|discriminate].
    apply N.eqb_eq in Hown. subst a.
    destruct (Z.ltb_spec (l_cur r) amt) as [|Hle]; [discriminate|].
    destruct (bmove _ _ _ _) as [b|] eqn:Em; cbn [rbind]; [|discriminate]. intros [= <-].
    apply bmove_spec in Em as (Hamt & _ & Hb). destruct HI as [I1 I2 I3 I4].
    destruct f; cbn [set_locks fam_locks sp_key lk_key] in *.
    + pose proof (I3 _ _ El) as (Rc & Ri & Ru).
      split; cbn [ls_bal ls_tl ls_al].
      * intros a0. rewrite Hb, I1. rewrite (at_key_diff (KTok, l_addr r, 0%N)) by (unfold KTokLocked, KTok; congruence).
        destruct (Z.eqb_spec (l_cur r) amt) as [E|E].
        -- rewrite msum_delete', El, w_tok_eq.
           destruct (N.eqb_spec (l_addr r) a0) as [->|Hne]; [rewrite at_key_same; lia|rewrite at_key_diff by congruence; lia].
        -- rewrite msum_insert, El, !w_tok_eq. cbn [l_addr l_cur].
           destruct (N.eqb_spec (l_addr r) a0) as [->|Hne]; [rewrite at_key_same; lia|rewrite at_key_diff by congruence; lia].
      * intros a0 tk0. rewrite Hb, I2. rewrite !at_key_diff; [lia| |]; unfold KTokLocked, KTok, KAllowedLocked; congruence.
      * intros id0 r0. destruct (Z.eqb_spec (l_cur r) amt) as [E|E].
        -- intros Hl. apply lookup_delete_Some in Hl as [_ Hl]. apply (I3 _ _ Hl).
        -- destruct (decide (id0 = id)) as [->|Hne].
           ++ rewrite lookup_insert. intros [= <-]. unfold rec_ok. cbn. lia.
           ++ rewrite lookup_insert_ne by congruence. apply I3.
      * exact I4.
    + pose proof (I4 _ _ El) as ((Rc & Ri & Ru) & Rt).
      split; cbn [ls_bal ls_tl ls_al].
      * intros a0. rewrite Hb, I1. rewrite !at_key_diff; [lia| |]; unfold KTokLocked, KAllowed, KAllowedLocked; congruence.
      * intros a0 tk0. rewrite Hb, I2. rewrite (at_key_diff (KAllowed, l_addr r, l_tok r)) by (unfold KAllowedLocked, KAllowed; congruence).
        assert (Hk : forall x, at_key (KAllowedLocked, l_addr r, l_tok r) (KAllowedLocked, a0, tk0) x =
                      if N.eqb (l_addr r) a0 && N.eqb (l_tok r) tk0 then x else 0).
        { intros x. destruct (N.eqb_spec (l_addr r) a0) as [->|]; cbn [andb];
            [destruct (N.eqb_spec (l_tok r) tk0) as [->|]; [apply at_key_same|apply at_key_diff; congruence]|apply at_key_diff; congruence]. }
        rewrite Hk.
        destruct (Z.eqb_spec (l_cur r) amt) as [E|E].
        -- rewrite msum_delete', El, w_all_eq. destruct (_ && _); lia.
        -- rewrite msum_insert, El, !w_all_eq. cbn [l_addr l_cur l_tok]. destruct (_ && _); lia.
      * exact I3.
      * intros id0 r0. destruct (Z.eqb_spec (l_cur r) amt) as [E|E].
        -- intros Hl. apply lookup_delete_Some in Hl as [_ Hl]. apply (I4 _ _ Hl).
        -- destruct (decide (id0 = id)) as [->|Hne].
           ++ rewrite lookup_insert. intros [= <-]. unfold rec_ok. cbn. split; [lia|exact Rt].
           ++ rewrite lookup_insert_ne by congruence. apply I4.
Qed.

(* over every history whose unlock requests name the lock's own address *)
Theorem run_LInv admin os : forall st, LInv st -> all_own admin st os = true -> LInv (fst (l_run admin st os)).
Proof.
  induction os as [|o os IH]; intros st HI Ho; [exact HI|]. cbn [l_run all_own] in *.
  apply andb_true_iff in Ho as [Ho1 Ho2]. unfold l_step in *.
  destruct (l_apply admin st o) as [st'|e] eqn:E; cbn [fst] in Ho2.
  - specialize (IH st' (apply_LInv _ _ _ _ HI Ho1 E) Ho2). destruct (l_run admin st' os). exact IH.
  - specialize (IH st HI Ho2). destruct (l_run admin st os). exact IH.
Qed.

(* the locked balance of an address always equals the sum of the remaining amounts of its locks;
   every existing lock has 0 < remaining = initial - unlocked *)
Theorem locked_is_sum admin os : all_own admin l_init_state os = true ->
  let st := fst (l_run admin l_init_state os) in
  (forall a, bget (ls_bal st) (KTokLocked, a, 0%N) = msum (w_tok a) (ls_tl st)) /\
  (forall a tk, bget (ls_bal st) (KAllowedLocked, a, tk) = msum (w_all a tk) (ls_al st)) /\
  (forall f id r, fam_locks st f !! id = Some r -> 0 < l_cur r /\ l_cur r = l_init r - l_unl r /\ 0 <= l_unl r).
Proof.
  intros Ho. destruct (run_LInv admin os _ LInv_init Ho) as [I1 I2 I3 I4].
  split; [exact I1|]. split; [exact I2|]. intros [] id r Hl; [apply (I3 _ _ Hl)|apply (I4 _ _ Hl)].
Qed.

(* one successful request: spendable + locked of the address is unchanged, and exactly the
   two balances of that address move by exactly the amount *)
Theorem lock_settles admin st f s id a tk amt st' :
  l_apply admin st (LLock f s id a tk amt) = Ok st' ->
  s = admin /\ 0 < amt /\ amt <= bget (ls_bal st) (sp_key f a tk) /\ fam_locks st f !! id = None /\
  fam_locks st' f !! id = Some (LR a tk amt amt 0) /\
  forall k, bget (ls_bal st') k = bget (ls_bal st) k - at_key (sp_key f a tk) k amt + at_key (lk_key f a tk) k amt.
Proof.
  cbn [l_apply]. destruct (N.eqb_spec s admin) as [->|]; cbn [negb]; [|discriminate].
  destruct (N.eqb id 0 || N.eqb tk 0); [discriminate|].
  destruct (fam_locks st f !! id) eqn:El; [discriminate|].
  destruct (Z.leb_spec amt 0); [discriminate|].
  destruct (bmove _ _ _ _) as [b|] eqn:Em; cbn [rbind]; [|discriminate]. intros [= <-].
  apply bmove_spec in Em as (_ & Hle & Hb). repeat split; auto.
  - destruct f; cbn; apply lookup_insert.
  - destruct f; exact Hb.
Qed.

Theorem unlock_settles admin st f s id a tk amt st' :
  l_apply admin st (LUnlock f s id a tk amt) = Ok st' ->
  exists r, fam_locks st f !! id = Some r /\ s = admin /\ 0 <= amt <= l_cur r /\
  (fam_locks st' f !! id = if l_cur r =? amt then None
                           else Some (LR (l_addr r) (l_tok r) (l_init r) (l_cur r - amt) (l_unl r + amt))) /\
  forall k, bget (ls_bal st') k = bget (ls_bal st) k - at_key (lk_key f a (l_tok r)) k amt + at_key (sp_key f a (l_tok r)) k amt.
Proof.
  cbn [l_apply]. destruct (N.eqb_spec s admin) as [->|]; cbn [negb]; [|discriminate].
  destruct (N.eqb id 0 || N.eqb tk 0); [discriminate|].
  destruct (fam_locks st f !! id) as [r|] eqn:El; [|discriminate].
  destruct (Z.ltb_spec (l_cur r) amt); [discriminate|].
  destruct (bmove _ _ _ _) as [b|] eqn:Em; cbn [rbind]; [|discriminate]. intros [= <-].
  apply bmove_spec in Em as (Ha & _ & Hb). exists r. repeat split; auto; try lia.
  - destruct f; cbn; (destruct (l_cur r =? amt); [apply lookup_delete|apply lookup_insert]).
  - destruct f; exact Hb.
Qed.

(* rejections *)
Theorem over_unlock_rejected admin st f s id a tk amt r :
  s = admin -> id <> 0%N -> tk <> 0%N -> fam_locks st f !! id = Some r -> l_cur r < amt ->
  l_apply admin st (LUnlock f s id a tk amt) = Err EInsufficient.
Proof.
  intros -> Hid Htk El Hlt. cbn [l_apply]. rewrite N.eqb_refl. cbn [negb].
  destruct (N.eqb_spec id 0); [contradiction|]. destruct (N.eqb_spec tk 0); [contradiction|]. cbn [orb].
  rewrite El. destruct (Z.ltb_spec (l_cur r) amt); [reflexivity|lia].
Qed.
Theorem unknown_rejected admin st f s id a tk amt :
  s = admin -> id <> 0%N -> tk <> 0%N -> fam_locks st f !! id = None ->
  l_apply admin st (LUnlock f s id a tk amt) = Err ENotFound.
Proof.
  intros -> Hid Htk El. cbn [l_apply]. rewrite N.eqb_refl. cbn [negb].
  destruct (N.eqb_spec id 0); [contradiction|]. destruct (N.eqb_spec tk 0); [contradiction|]. cbn [orb].
  rewrite El. reflexivity.
Qed.
Theorem duplicate_rejected admin st f s id a tk amt r :
  s = admin -> id <> 0%N -> tk <> 0%N -> fam_locks st f !! id = Some r ->
  l_apply admin st (LLock f s id a tk amt) = Err EExists.
Proof.
  intros -> Hid Htk El. cbn [l_apply]. rewrite N.eqb_refl. cbn [negb].
  destruct (N.eqb_spec id 0); [contradiction|]. destruct (N.eqb_spec tk 0); [contradiction|]. cbn [orb].
  rewrite El. reflexivity.
Qed.
Theorem not_admin_rejected admin st o s :
  (match o with LLock _ x _ _ _ _ | LUnlock _ x _ _ _ _ => x end) = s -> s <> admin ->
  l_apply admin st o = Err EUnauthorized.
Proof.
  intros Hs Hn. destruct o; cbn [l_apply]; cbn in Hs; subst;
    (destruct (N.eqb_spec s admin); [contradiction|reflexivity]).
Qed.
