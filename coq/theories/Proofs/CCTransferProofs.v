(* Proofs about Model/CCTransfer.v *)
From Fnd Require Import Base.Prelude Base.Sum Model.Balance Model.CCTransfer Proofs.BalanceProofs.
Local Open Scope Z_scope.

(* ---- single ledger: guards and the legal record life cycle ---------------------------- *)
Theorem duplicate_id_rejected c id to user sym grp amt v r :
  ch_from c !! id = Some r -> forall c', create_from c id to user sym grp amt v <> Ok c'.
Proof.
  intros H c'. unfold create_from. destruct (amt <? 0); [discriminate|]. destruct (_ || _); [discriminate|].
  destruct (N.eqb _ _); [discriminate|]. destruct (_ && _); [discriminate|]. rewrite H. discriminate.
Qed.

Theorem repeated_commit_rejected c id r : ch_from c !! id = Some r -> cc_commit r = true ->
  cc_apply c (OCommitFrom id) = Err ECommitted /\ cc_apply c (OCancelFrom id) = Err ECommitted.
Proof. intros H Hc. cbn [cc_apply]. rewrite H, Hc. auto. Qed.

Theorem delete_before_commit_rejected c id :
  (forall r, ch_from c !! id = Some r -> cc_commit r = false -> cc_apply c (ODeleteFrom id) = Err ENotCommitted) /\
  (forall r, ch_to c !! id = Some r -> cc_commit r = false -> cc_apply c (ODeleteTo id) = Err ENotCommitted).
Proof. split; intros r H Hc; cbn [cc_apply]; rewrite H, Hc; reflexivity. Qed.

Theorem unknown_id_rejected c id : ch_from c !! id = None ->
  cc_apply c (OCommitFrom id) = Err ENotFound /\ cc_apply c (OCancelFrom id) = Err ENotFound /\
  cc_apply c (ODeleteFrom id) = Err ENotFound.
Proof. intros H. cbn [cc_apply]. rewrite H. auto. Qed.

Theorem rejected_no_effect c o e : snd (cc_step c o) = Some e -> fst (cc_step c o) = c.
Proof. unfold cc_step. destruct (cc_apply c o); [discriminate|reflexivity]. Qed.

(* phase of the origin-side record of an id *)
Inductive phase := PNone | POpen | PCommitted.
Definition from_phase (c : chan) (id : N) : phase :=
  match ch_from c !! id with None => PNone | Some r => if cc_commit r then PCommitted else POpen end.
Definition legal (p q : phase) : Prop :=
  p = q \/ (p = PNone /\ q = POpen) \/ (p = POpen /\ q = PCommitted) \/ (p = POpen /\ q = PNone) \/ (p = PCommitted /\ q = PNone).

Lemma create_from_from c id to user sym grp amt v c' : create_from c id to user sym grp amt v = Ok c' ->
  ch_from c !! id = None /\ ch_to c' = ch_to c /\ ch_me c' = ch_me c /\ ch_admin c' = ch_admin c /\
  ch_from c' = <[id := CC (ch_me c) to sym grp user amt (N.eqb (ch_me c) sym) false]> (ch_from c) /\
  change_balance KCreateFrom (ch_bal c) (CC (ch_me c) to sym grp user amt (N.eqb (ch_me c) sym) false) = Ok (ch_bal c') /\
  (sym < 1000)%N /\ (to < 1000)%N /\ to <> ch_me c /\ (ch_me c = sym \/ to = sym).
Proof.
  unfold create_from. destruct (amt <? 0); [discriminate|].
  destruct v; cbn [negb orb]; [|discriminate].
  destruct (N.leb_spec 1000 sym); [discriminate|]. destruct (N.leb_spec 1000 to); [discriminate|]. cbn [orb].
  destruct (N.eqb_spec (ch_me c) to) as [|Hto]; [discriminate|].
  destruct (N.eqb_spec (ch_me c) sym) as [Es|Es]; cbn [negb andb].
  - destruct (ch_from c !! id) eqn:Ef; [discriminate|].
    destruct (change_balance _ _ _) as [b|] eqn:Eb; cbn [rbind]; [|discriminate]. intros [= <-]. cbn.
    repeat split; auto; try lia; try congruence.
  - destruct (N.eqb_spec to sym) as [Et|Et]; cbn [negb]; [|discriminate].
    destruct (ch_from c !! id) eqn:Ef; [discriminate|].
    destruct (change_balance _ _ _) as [b|] eqn:Eb; cbn [rbind]; [|discriminate]. intros [= <-]. cbn.
    repeat split; auto; try lia; try congruence.
Qed.

(* every successful operation moves each id's origin-side record along a legal edge *)
Theorem lifecycle c o c' id : cc_apply c o = Ok c' -> legal (from_phase c id) (from_phase c' id).
Proof.
  intros H. unfold legal, from_phase.
  assert (Hins : forall m (r : ccrec) i, (<[i := r]> m : ccmap) !! id = if decide (id = i) then Some r else m !! id).
  { intros m r i. destruct (decide (id = i)) as [->|]; [apply lookup_insert|apply lookup_insert_ne; congruence]. }
  assert (Hdel : forall (m : ccmap) i, delete i m !! id = if decide (id = i) then None else m !! id).
  { intros m i. destruct (decide (id = i)) as [->|]; [apply lookup_delete|apply lookup_delete_ne; congruence]. }
  destruct o as [s i to sym grp amt v|s i to u sym grp amt v|i r v|i|i|i|i]; cbn [cc_apply] in H.
  - apply create_from_from in H as (Hn & _ & _ & _ & -> & _). rewrite Hins.
    destruct (decide (id = i)) as [->|]; [rewrite Hn; cbn; tauto|tauto].
  - destruct (amt <? 0); [discriminate|]. destruct (_ || _); [discriminate|]. destruct (N.eqb s u); [discriminate|].
    apply create_from_from in H as (Hn & _ & _ & _ & -> & _). rewrite Hins.
    destruct (decide (id = i)) as [->|]; [rewrite Hn; cbn; tauto|tauto].
  - destruct (_ || _); [discriminate|]. destruct (ch_to c !! i); [discriminate|].
    repeat (match type of H with (if ?x then _ else _) = _ => destruct x; [discriminate|] end).
    destruct (change_balance _ _ _); cbn [rbind] in H; [|discriminate]. injection H as <-. cbn. tauto.
  - destruct (ch_from c !! i) as [r|] eqn:Ei; [|discriminate]. destruct (cc_commit r) eqn:Ec; [discriminate|].
    destruct (change_balance _ _ _); cbn [rbind] in H; [|discriminate]. injection H as <-. cbn [ch_from]. rewrite Hdel.
    destruct (decide (id = i)) as [->|]; [rewrite Ei, Ec; tauto|tauto].
  - destruct (ch_from c !! i) as [r|] eqn:Ei; [|discriminate]. destruct (cc_commit r) eqn:Ec; [discriminate|].
    injection H as <-. cbn [ch_from]. rewrite Hins.
    destruct (decide (id = i)) as [->|]; [rewrite Ei, Ec; cbn; tauto|tauto].
  - destruct (ch_from c !! i) as [r|] eqn:Ei; [|discriminate]. destruct (cc_commit r) eqn:Ec; [|discriminate].
    injection H as <-. cbn [ch_from]. rewrite Hdel.
    destruct (decide (id = i)) as [->|]; [rewrite Ei, Ec; tauto|tauto].
  - destruct (ch_to c !! i) as [r|]; [|discriminate]. destruct (cc_commit r); [|discriminate].
    injection H as <-. cbn. tauto.
Qed.

(* ---- effect of the six balance moves on the given-out counter and on the amount held ------ *)
Definition giv (b : bals) (x : N) : Z := bget b (KGiven, x, 0%N).
Definition heldP (sym : N) (k : N * N * N) : bool := N.eqb (fst (fst k)) KAllowed && N.eqb (tk_sym (snd k)) sym.
Definition held (b : bals) (sym : N) : Z := bsum (heldP sym) b.
Definition spend (b : bals) : Z := bsum (fun k => N.eqb (fst (fst k)) KTok) b.
Definition gtot (b : bals) : Z := bsum (fun k => N.eqb (fst (fst k)) KGiven) b.

Definition dG (k : cckind) (r : ccrec) (x : N) : Z :=
  match k, cc_fwd r with
  | KCreateFrom, true => if N.eqb x (cc_to r) then cc_amt r else 0
  | KCreateTo, false => if N.eqb x (cc_from r) then - cc_amt r else 0
  | KCancelFrom, true => if N.eqb x (cc_to r) then - cc_amt r else 0
  | _, _ => 0
  end.
Definition dH (k : cckind) (r : ccrec) (s : N) : Z :=
  if negb (N.eqb s (cc_sym r)) then 0 else
  match k, cc_fwd r with
  | KCreateFrom, false => - cc_amt r
  | KCreateTo, true => cc_amt r
  | KCancelFrom, false => cc_amt r
  | _, _ => 0
  end.
Definition dS (k : cckind) (r : ccrec) : Z :=
  match k, cc_fwd r with
  | KCreateFrom, true => - cc_amt r
  | KCreateTo, false => cc_amt r
  | KCancelFrom, true => cc_amt r
  | _, _ => 0
  end.

Lemma tk_sym_enc sym grp : (sym < 1000)%N -> tk_sym (tk_enc sym grp) = sym.
Proof. intros H. unfold tk_sym, tk_enc. rewrite N.add_comm, N.mod_add by lia. apply N.mod_small, H. Qed.

Lemma change_balance_effect k b r b' : change_balance k b r = Ok b' -> (cc_sym r < 1000)%N ->
  (forall x, giv b' x = giv b x + dG k r x) /\ (forall s, held b' s = held b s + dH k r s) /\
  spend b' = spend b + dS k r /\ gtot b' = gtot b - dS k r.
Proof.
  intros H Hs. unfold change_balance in H. unfold giv, held, spend, gtot, dG, dH, dS.
  assert (Hat : forall (u x : N) (a : Z), at_key (KGiven, u, 0%N) (KGiven, x, 0%N) a = if N.eqb x u then a else 0).
  { intros u x a. unfold at_key. destruct (N.eqb_spec x u) as [->|Hne]; [rewrite decide_True; reflexivity|].
    rewrite decide_False; [reflexivity|]. congruence. }
  assert (Hat0 : forall (kd u g x : N) (a : Z), kd <> KGiven -> at_key (kd, u, g) (KGiven, x, 0%N) a = 0).
  { intros. unfold at_key. rewrite decide_False; [reflexivity|congruence]. }
  assert (HPa : forall s u, heldP s (KAllowed, u, tk_enc (cc_sym r) (cc_grp r)) = N.eqb s (cc_sym r)).
  { intros s u. unfold heldP. cbn [fst snd]. rewrite N.eqb_refl, tk_sym_enc by exact Hs. cbn. apply N.eqb_sym. }
  assert (HPt : forall s u g : N, heldP s (KTok, u, g) = false) by reflexivity.
  assert (HPg : forall s u g : N, heldP s (KGiven, u, g) = false) by reflexivity.
  destruct k, (cc_fwd r).
  - destruct (bsub b _ _) as [b1|] eqn:E1; cbn [rbind] in H; [|discriminate].
    repeat split.
    + intros x. rewrite (bget_badd _ _ _ _ _ H), (bget_bsub _ _ _ _ _ E1), Hat, Hat0 by discriminate. lia.
    + intros s. rewrite (bsum_badd _ _ _ _ _ H), (bsum_bsub _ _ _ _ _ E1), HPg, HPt. destruct (negb _); lia.
    + rewrite (bsum_badd _ _ _ _ _ H), (bsum_bsub _ _ _ _ _ E1). cbn. lia.
    + rewrite (bsum_badd _ _ _ _ _ H), (bsum_bsub _ _ _ _ _ E1). cbn. lia.
  - repeat split.
    + intros x. rewrite (bget_bsub _ _ _ _ _ H), Hat0 by discriminate. lia.
    + intros s. rewrite (bsum_bsub _ _ _ _ _ H), HPa. destruct (N.eqb s (cc_sym r)); cbn; lia.
    + rewrite (bsum_bsub _ _ _ _ _ H). cbn. lia.
    + rewrite (bsum_bsub _ _ _ _ _ H). cbn. lia.
  - repeat split.
    + intros x. rewrite (bget_badd _ _ _ _ _ H), Hat0 by discriminate. lia.
    + intros s. rewrite (bsum_badd _ _ _ _ _ H), HPa. destruct (N.eqb s (cc_sym r)); cbn; lia.
    + rewrite (bsum_badd _ _ _ _ _ H). cbn. lia.
    + rewrite (bsum_badd _ _ _ _ _ H). cbn. lia.
  - destruct (badd b _ _) as [b1|] eqn:E1; cbn [rbind] in H; [|discriminate].
    repeat split.
    + intros x. rewrite (bget_bsub _ _ _ _ _ H), (bget_badd _ _ _ _ _ E1), Hat, Hat0 by discriminate. destruct (N.eqb x (cc_from r)); lia.
    + intros s. rewrite (bsum_bsub _ _ _ _ _ H), (bsum_badd _ _ _ _ _ E1), HPg, HPt. destruct (negb _); lia.
    + rewrite (bsum_bsub _ _ _ _ _ H), (bsum_badd _ _ _ _ _ E1). cbn. lia.
    + rewrite (bsum_bsub _ _ _ _ _ H), (bsum_badd _ _ _ _ _ E1). cbn. lia.
  - destruct (badd b _ _) as [b1|] eqn:E1; cbn [rbind] in H; [|discriminate].
    repeat split.
    + intros x. rewrite (bget_bsub _ _ _ _ _ H), (bget_badd _ _ _ _ _ E1), Hat, Hat0 by discriminate. destruct (N.eqb x (cc_to r)); lia.
    + intros s. rewrite (bsum_bsub _ _ _ _ _ H), (bsum_badd _ _ _ _ _ E1), HPg, HPt. destruct (negb _); lia.
    + rewrite (bsum_bsub _ _ _ _ _ H), (bsum_badd _ _ _ _ _ E1). cbn. lia.
    + rewrite (bsum_bsub _ _ _ _ _ H), (bsum_badd _ _ _ _ _ E1). cbn. lia.
  - repeat split.
    + intros x. rewrite (bget_badd _ _ _ _ _ H), Hat0 by discriminate. lia.
    + intros s. rewrite (bsum_badd _ _ _ _ _ H), HPa. destruct (N.eqb s (cc_sym r)); cbn; lia.
    + rewrite (bsum_badd _ _ _ _ _ H). cbn. lia.
    + rewrite (bsum_badd _ _ _ _ _ H). cbn. lia.
Qed.

(* no cross-channel step creates or destroys units of the channel's own token: what leaves the
   spendable balances is in the given-out counters, and back *)
Theorem units_conserved c o c' : cc_apply c o = Ok c' ->
  spend (ch_bal c') + gtot (ch_bal c') = spend (ch_bal c) + gtot (ch_bal c).
Proof.
  destruct o as [s i to sym grp amt v|s i to u sym grp amt v|i r v|i|i|i|i]; cbn [cc_apply].
  - intros H. apply create_from_from in H as (_ & _ & _ & _ & _ & Hb & Hs & _).
    destruct (change_balance_effect _ _ _ _ Hb Hs) as (_ & _ & E1 & E2). lia.
  - destruct (amt <? 0); [discriminate|]. destruct (_ || _); [discriminate|]. destruct (N.eqb s u); [discriminate|].
    intros H. apply create_from_from in H as (_ & _ & _ & _ & _ & Hb & Hs & _).
    destruct (change_balance_effect _ _ _ _ Hb Hs) as (_ & _ & E1 & E2). lia.
  - destruct v; cbn [negb orb]; [|discriminate]. destruct (N.leb_spec 1000 (cc_sym r)); [discriminate|].
    destruct (ch_to c !! i); [discriminate|].
    repeat (match goal with |- (if ?x then _ else _) = _ -> _ => destruct x; [discriminate|] end).
    destruct (change_balance _ _ _) as [b0|] eqn:Eb; cbn [rbind]; [|discriminate]. intros [= <-]. cbn [ch_bal].
    destruct (change_balance_effect _ _ _ _ Eb ltac:(cbn; lia)) as (_ & _ & E1 & E2). lia.
  - destruct (ch_from c !! i) as [r|] eqn:Er; [|discriminate]. destruct (cc_commit r); [discriminate|].
    destruct (change_balance _ _ _) as [b0|] eqn:Eb; cbn [rbind]; [|discriminate]. intros [= <-]. cbn [ch_bal].
    (* the symbol bound of a stored record is not needed for the spendable / given-out sums *)
    unfold change_balance in Eb. unfold spend, gtot.
    destruct (cc_fwd r).
    + destruct (badd _ _ _) as [b1|] eqn:E1; cbn [rbind] in Eb; [|discriminate].
      rewrite !(bsum_bsub _ _ _ _ _ Eb), !(bsum_badd _ _ _ _ _ E1). cbn. lia.
    + rewrite !(bsum_badd _ _ _ _ _ Eb). cbn. lia.
  - destruct (ch_from c !! i) as [r|]; [|discriminate]. destruct (cc_commit r); [discriminate|]. intros [= <-]. reflexivity.
  - destruct (ch_from c !! i) as [r|]; [|discriminate]. destruct (cc_commit r); [|discriminate]. intros [= <-]. reflexivity.
  - destruct (ch_to c !! i) as [r|]; [|discriminate]. destruct (cc_commit r); [|discriminate]. intros [= <-]. reflexivity.
Qed.

(* cancellation refunds exactly what the initiation debited *)
Theorem cancel_refund_exact r x s : dG KCancelFrom r x = - dG KCreateFrom r x /\
  dH KCancelFrom r s = - dH KCreateFrom r s /\ dS KCancelFrom r = - dS KCreateFrom r.
Proof.
  unfold dG, dH, dS. destruct (cc_fwd r); repeat split; try lia;
    try (destruct (N.eqb x (cc_to r)); lia); destruct (negb _); lia.
Qed.

(* ---- two channels, protocol-following robot: the given-out counter of the origin always
        equals what the destination holds plus what is in flight ------------------------- *)
Section two_channels.
  Variables a b : N.
  Hypothesis Hab : a <> b.
  Hypothesis Ha : (a < 1000)%N.
  Hypothesis Hb : (b < 1000)%N.

  Definition absent (m : ccmap) (id : N) : bool := match m !! id with None => true | Some _ => false end.
  (* forward transfers of a's token A -> B: debited at A, not yet credited at B *)
  Definition wF (tob : ccmap) (id : N) (r : ccrec) : Z :=
    if cc_fwd r && N.eqb (cc_to r) b && negb (cc_commit r) && absent tob id then cc_amt r else 0.
  (* a's token coming back B -> A: debited at B, not yet credited at A *)
  Definition wK (toa : ccmap) (id : N) (r : ccrec) : Z :=
    if negb (cc_fwd r) && N.eqb (cc_to r) a && negb (cc_commit r) && absent toa id then cc_amt r else 0.
  Definition Fw (s : sys) : Z := msum (wF (ch_to (sB s))) (ch_from (sA s)).
  Definition Kb (s : sys) : Z := msum (wK (ch_to (sA s))) (ch_from (sB s)).

  Definition rec_wf (me : N) (r : ccrec) : Prop :=
    cc_from r = me /\ (cc_sym r < 1000)%N /\ cc_to r <> me /\ cc_fwd r = N.eqb me (cc_sym r) /\
    (cc_fwd r = false -> cc_to r = cc_sym r).

  Record Inv (s : sys) : Prop := {
    i_meA : ch_me (sA s) = a;
    i_meB : ch_me (sB s) = b;
    i_eq : giv (ch_bal (sA s)) b = held (ch_bal (sB s)) a + Fw s + Kb s;
    i_wA : forall id r, ch_from (sA s) !! id = Some r -> rec_wf a r;
    i_wB : forall id r, ch_from (sB s) !! id = Some r -> rec_wf b r;
    i_tB : forall id, absent (ch_to (sB s)) id = false -> absent (ch_from (sA s)) id = false;
    i_tA : forall id, absent (ch_to (sA s)) id = false -> absent (ch_from (sB s)) id = false
  }.

  Lemma absent_insert (m : ccmap) i r id : absent (<[i := r]> m) id = if decide (id = i) then false else absent m id.
  Proof.
    unfold absent. destruct (decide (id = i)) as [->|]; [rewrite lookup_insert; reflexivity|].
    rewrite lookup_insert_ne by congruence. reflexivity.
  Qed.
  Lemma absent_delete (m : ccmap) i id : absent (delete i m) id = if decide (id = i) then true else absent m id.
  Proof.
    unfold absent. destruct (decide (id = i)) as [->|]; [rewrite lookup_delete; reflexivity|].
    rewrite lookup_delete_ne by congruence. reflexivity.
  Qed.
  Lemma absent_None (m : ccmap) id : m !! id = None -> absent m id = true.
  Proof. unfold absent. intros ->. reflexivity. Qed.
  Lemma absent_Some (m : ccmap) id r : m !! id = Some r -> absent m id = false.
  Proof. unfold absent. intros ->. reflexivity. Qed.

  (* a user initiation at a channel: what changes *)
  Lemma user_op_effect c o c' : is_user_op o = true -> cc_apply c o = Ok c' ->
    exists id r, ch_from c !! id = None /\ ch_from c' = <[id := r]> (ch_from c) /\ ch_to c' = ch_to c /\
      ch_me c' = ch_me c /\ rec_wf (ch_me c) r /\ cc_commit r = false /\
      change_balance KCreateFrom (ch_bal c) r = Ok (ch_bal c').
  Proof.
    intros Hu H. destruct o as [s i to sym grp amt v|s i to u sym grp amt v| | | | | ]; try discriminate; cbn [cc_apply] in H.
    - apply create_from_from in H as (Hn & Ht & Hm & _ & Hf & Hbal & Hs & _ & Hto & Hor).
      eexists i, _. repeat split; try eassumption; cbn; auto.
      intros Hf0. apply N.eqb_neq in Hf0. destruct Hor; congruence.
    - destruct (amt <? 0); [discriminate|]. destruct (_ || _); [discriminate|]. destruct (N.eqb s u); [discriminate|].
      apply create_from_from in H as (Hn & Ht & Hm & _ & Hf & Hbal & Hs & _ & Hto & Hor).
      eexists i, _. repeat split; try eassumption; cbn; auto.
      intros Hf0. apply N.eqb_neq in Hf0. destruct Hor; congruence.
  Qed.

  Lemma create_to_effect c id r c' : cc_apply c (OCreateTo id r true) = Ok c' ->
    let r' := CC (cc_from r) (cc_to r) (cc_sym r) (cc_grp r) (cc_user r) (cc_amt r) (cc_fwd r) true in
    ch_to c !! id = None /\ ch_to c' = <[id := r']> (ch_to c) /\ ch_from c' = ch_from c /\ ch_me c' = ch_me c /\
    (cc_sym r < 1000)%N /\ change_balance KCreateTo (ch_bal c) r' = Ok (ch_bal c').
  Proof.
    cbn [cc_apply negb orb]. destruct (N.leb_spec 1000 (cc_sym r)); [discriminate|].
    destruct (ch_to c !! id) eqn:Et; [discriminate|].
    repeat (match goal with |- (if ?x then _ else _) = _ -> _ => destruct x; [discriminate|] end).
    destruct (change_balance _ _ _) as [b0|] eqn:Eb; cbn [rbind]; [|discriminate]. intros [= <-]. cbn. repeat split; auto.
  Qed.

  Lemma cancel_effect c id c' : cc_apply c (OCancelFrom id) = Ok c' ->
    exists r, ch_from c !! id = Some r /\ cc_commit r = false /\ ch_from c' = delete id (ch_from c) /\
      ch_to c' = ch_to c /\ ch_me c' = ch_me c /\ change_balance KCancelFrom (ch_bal c) r = Ok (ch_bal c').
  Proof.
    cbn [cc_apply]. destruct (ch_from c !! id) as [r|]; [|discriminate]. destruct (cc_commit r) eqn:Ec; [discriminate|].
    destruct (change_balance _ _ _) as [b0|] eqn:Eb; cbn [rbind]; [|discriminate]. intros [= <-]. exists r. cbn. repeat split; auto.
  Qed.

  Lemma step_same c o : fst (cc_step c o) = c \/ exists c', cc_apply c o = Ok c' /\ fst (cc_step c o) = c'.
  Proof. unfold cc_step. destruct (cc_apply c o) as [c'|]; [right; eauto|left; reflexivity]. Qed.

  Lemma wF_commit tob id r : cc_commit r = true -> wF tob id r = 0.
  Proof. intros H. unfold wF. rewrite H. rewrite !andb_false_r. reflexivity. Qed.
  Lemma wK_commit toa id r : cc_commit r = true -> wK toa id r = 0.
  Proof. intros H. unfold wK. rewrite H. rewrite !andb_false_r. reflexivity. Qed.
  Lemma wF_present tob id r : absent tob id = false -> wF tob id r = 0.
  Proof. intros H. unfold wF. rewrite H. rewrite !andb_false_r. reflexivity. Qed.
  Lemma wK_present toa id r : absent toa id = false -> wK toa id r = 0.
  Proof. intros H. unfold wK. rewrite H. rewrite !andb_false_r. reflexivity. Qed.

  Theorem step_Inv s act : Inv s -> Inv (sys_step s act).
  Proof.
    intros [mA mB Heq wA wB tB tA].
    destruct act as [at_a o|d id|d id|d id|d id|d id]; cbn [sys_step].
    - (* user initiation *)
      destruct (is_user_op o) eqn:Eu; [|split; assumption].
      destruct at_a.
      + destruct (step_same (sA s) o) as [->|(c' & Hap & ->)]; [destruct s; split; assumption|].
        destruct (user_op_effect _ _ _ Eu Hap) as (id & r & Hn & Hf & Ht & Hm & Hwf & Hc & Hbal).
        pose proof Hwf as (W1 & W2 & W3 & W4 & W5). rewrite mA in *.
        destruct (change_balance_effect _ _ _ _ Hbal W2) as (EG & EH & _).
        split; cbn [sA sB]; try assumption; try congruence.
        * rewrite EG. unfold Fw, Kb. cbn [sA sB]. rewrite Hf, Ht.
          rewrite msum_insert_fresh by exact Hn. fold (Fw s) (Kb s). rewrite Heq.
          assert (absent (ch_to (sB s)) id = true).
          { destruct (absent (ch_to (sB s)) id) eqn:E; [reflexivity|]. apply tB in E. rewrite (absent_None _ _ Hn) in E. discriminate. }
          unfold wF, dG. rewrite Hc, H. cbn [negb andb]. rewrite (N.eqb_sym b (cc_to r)).
          destruct (cc_fwd r); [destruct (N.eqb (cc_to r) b)|]; cbn [andb]; lia.
        * intros id' r'. rewrite Hf. destruct (decide (id' = id)) as [->|Hne].
          -- rewrite lookup_insert. intros [= <-]. exact Hwf.
          -- rewrite lookup_insert_ne by congruence. apply wA.
        * intros id' Hp. rewrite Hf, absent_insert. destruct (decide (id' = id)); [reflexivity|apply tB, Hp].
        * intros id' Hp. rewrite Ht in Hp. apply tA, Hp.
      + destruct (step_same (sB s) o) as [->|(c' & Hap & ->)]; [destruct s; split; assumption|].
        destruct (user_op_effect _ _ _ Eu Hap) as (id & r & Hn & Hf & Ht & Hm & Hwf & Hc & Hbal).
        pose proof Hwf as (W1 & W2 & W3 & W4 & W5). rewrite mB in *.
        destruct (change_balance_effect _ _ _ _ Hbal W2) as (EG & EH & _).
        split; cbn [sA sB]; try assumption; try congruence.
        * rewrite EH. unfold Fw, Kb. cbn [sA sB]. rewrite Hf, Ht.
          rewrite msum_insert_fresh by exact Hn. fold (Fw s) (Kb s). rewrite Heq.
          assert (absent (ch_to (sA s)) id = true).
          { destruct (absent (ch_to (sA s)) id) eqn:E; [reflexivity|]. apply tA in E. rewrite (absent_None _ _ Hn) in E. discriminate. }
          unfold wK, dH. rewrite Hc, H. cbn [negb andb]. rewrite andb_true_r.
          destruct (cc_fwd r) eqn:Ef; cbn [negb andb].
          -- destruct (negb (N.eqb a (cc_sym r))); lia.
          -- rewrite (W5 eq_refl). rewrite (N.eqb_sym a (cc_sym r)). destruct (N.eqb (cc_sym r) a); cbn [negb andb]; lia.
        * intros id' r'. rewrite Hf. destruct (decide (id' = id)) as [->|Hne].
          -- rewrite lookup_insert. intros [= <-]. exact Hwf.
          -- rewrite lookup_insert_ne by congruence. apply wB.
        * intros id' Hp. rewrite Ht in Hp. apply tB, Hp.
        * intros id' Hp. rewrite Hf, absent_insert. destruct (decide (id' = id)); [reflexivity|apply tA, Hp].
    - (* robot: createTo *)
      destruct d; cbn [origin dest put_dest].
      + destruct (ch_from (sA s) !! id) as [r|] eqn:Er; [|split; assumption].
        destruct (ch_to (sB s) !! id) eqn:Et; [split; assumption|].
        destruct (cc_commit r) eqn:Ec; cbn [orb]; [split; assumption|].
        destruct (N.eqb_spec (cc_to r) (ch_me (sB s))) as [Eto|]; cbn [negb]; [|split; assumption].
        destruct (step_same (sB s) (OCreateTo id r true)) as [->|(c' & Hap & ->)]; [destruct s; split; assumption|].
        apply create_to_effect in Hap as (_ & Ht & Hf & Hm & Hs & Hbal). cbn zeta in *.
        destruct (change_balance_effect _ _ _ _ Hbal Hs) as (EG & EH & _).
        pose proof (wA _ _ Er) as (W1 & W2 & W3 & W4 & W5).
        split; cbn [sA sB]; try assumption; try congruence.
        * rewrite EH. unfold Fw, Kb. cbn [sA sB]. rewrite Ht, Hf. fold (Kb s).
          rewrite (msum_ext_except (wF (<[id:=_]> (ch_to (sB s)))) (wF (ch_to (sB s))) _ id).
          2:{ intros k' v' Hne _. unfold wF. rewrite absent_insert, decide_False by exact Hne. reflexivity. }
          rewrite Er. fold (Fw s). rewrite Heq.
          rewrite (wF_present (<[id:=_]> (ch_to (sB s)))) by (rewrite absent_insert, decide_True; reflexivity).
          unfold wF, dH. cbn [cc_sym cc_fwd cc_amt]. rewrite Ec, (absent_None _ _ Et), Eto, mB, N.eqb_refl. cbn [negb andb].
          rewrite W4. destruct (N.eqb_spec a (cc_sym r)); cbn [negb andb]; lia.
        * intros id' r'. rewrite Hf. apply wB.
        * intros id' Hp. rewrite Ht, absent_insert in Hp. destruct (decide (id' = id)) as [->|]; [apply (absent_Some _ _ _ Er)|apply tB, Hp].
        * intros id' Hp. rewrite Hf. apply tA, Hp.
      + destruct (ch_from (sB s) !! id) as [r|] eqn:Er; [|split; assumption].
        destruct (ch_to (sA s) !! id) eqn:Et; [split; assumption|].
        destruct (cc_commit r) eqn:Ec; cbn [orb]; [split; assumption|].
        destruct (N.eqb_spec (cc_to r) (ch_me (sA s))) as [Eto|]; cbn [negb]; [|split; assumption].
        destruct (step_same (sA s) (OCreateTo id r true)) as [->|(c' & Hap & ->)]; [destruct s; split; assumption|].
        apply create_to_effect in Hap as (_ & Ht & Hf & Hm & Hs & Hbal). cbn zeta in *.
        destruct (change_balance_effect _ _ _ _ Hbal Hs) as (EG & EH & _).
        pose proof (wB _ _ Er) as (W1 & W2 & W3 & W4 & W5).
        split; cbn [sA sB]; try assumption; try congruence.
        * rewrite EG. unfold Fw, Kb. cbn [sA sB]. rewrite Ht, Hf. fold (Fw s).
          rewrite (msum_ext_except (wK (<[id:=_]> (ch_to (sA s)))) (wK (ch_to (sA s))) _ id).
          2:{ intros k' v' Hne _. unfold wK. rewrite absent_insert, decide_False by exact Hne. reflexivity. }
          rewrite Er. fold (Kb s). rewrite Heq.
          rewrite (wK_present (<[id:=_]> (ch_to (sA s)))) by (rewrite absent_insert, decide_True; reflexivity).
          unfold wK, dG. cbn [cc_from cc_fwd cc_amt]. rewrite Ec, (absent_None _ _ Et), Eto, mA, N.eqb_refl, W1, N.eqb_refl. cbn [negb andb].
          destruct (cc_fwd r); cbn [negb andb]; lia.
        * intros id' r'. rewrite Hf. apply wA.
        * intros id' Hp. rewrite Hf. apply tB, Hp.
        * intros id' Hp. rewrite Ht, absent_insert in Hp. destruct (decide (id' = id)) as [->|]; [apply (absent_Some _ _ _ Er)|apply tA, Hp].
    - (* robot: commit *)
      destruct d; cbn [origin dest put_origin].
      + destruct (ch_from (sA s) !! id) as [r|] eqn:Er; [|split; assumption].
        destruct (ch_to (sB s) !! id) as [rt|] eqn:Et; [|split; assumption].
        destruct (cc_commit r) eqn:Ec; [split; assumption|].
        unfold cc_step. cbn [cc_apply]. rewrite Er, Ec. cbn [fst].
        split; cbn [sA sB ch_me ch_bal ch_from ch_to]; try assumption.
        * unfold Fw, Kb. cbn [sA sB ch_from ch_to]. fold (Kb s). rewrite msum_insert, Er.
          rewrite !wF_present by apply (absent_Some _ _ _ Et). fold (Fw s). lia.
        * intros id' r'. destruct (decide (id' = id)) as [->|Hne].
          -- rewrite lookup_insert. intros [= <-]. destruct (wA _ _ Er) as (W1 & W2 & W3 & W4 & W5). repeat split; assumption.
          -- rewrite lookup_insert_ne by congruence. apply wA.
        * intros id' Hp. rewrite absent_insert. destruct (decide (id' = id)); [reflexivity|apply tB, Hp].
      + destruct (ch_from (sB s) !! id) as [r|] eqn:Er; [|split; assumption].
        destruct (ch_to (sA s) !! id) as [rt|] eqn:Et; [|split; assumption].
        destruct (cc_commit r) eqn:Ec; [split; assumption|].
        unfold cc_step. cbn [cc_apply]. rewrite Er, Ec. cbn [fst].
        split; cbn [sA sB ch_me ch_bal ch_from ch_to]; try assumption.
        * unfold Fw, Kb. cbn [sA sB ch_from ch_to]. fold (Fw s). rewrite msum_insert, Er.
          rewrite !wK_present by apply (absent_Some _ _ _ Et). fold (Kb s). lia.
        * intros id' r'. destruct (decide (id' = id)) as [->|Hne].
          -- rewrite lookup_insert. intros [= <-]. destruct (wB _ _ Er) as (W1 & W2 & W3 & W4 & W5). repeat split; assumption.
          -- rewrite lookup_insert_ne by congruence. apply wB.
        * intros id' Hp. rewrite absent_insert. destruct (decide (id' = id)); [reflexivity|apply tA, Hp].
    - (* robot: deleteTo *)
      destruct d; cbn [origin dest put_dest].
      + destruct (ch_from (sA s) !! id) as [r|] eqn:Er; [|split; assumption].
        destruct (ch_to (sB s) !! id) as [rt|] eqn:Et; [|split; assumption].
        destruct (cc_commit r) eqn:Ec; [|split; assumption].
        unfold cc_step. cbn [cc_apply]. rewrite Et. destruct (cc_commit rt); cbn [fst]; [|destruct s; split; assumption].
        split; cbn [sA sB ch_me ch_bal ch_from ch_to]; try assumption.
        * unfold Fw, Kb. cbn [sA sB ch_from ch_to]. fold (Kb s).
          rewrite (msum_ext_except (wF (delete id (ch_to (sB s)))) (wF (ch_to (sB s))) _ id).
          2:{ intros k' v' Hne _. unfold wF. rewrite absent_delete, decide_False by exact Hne. reflexivity. }
          rewrite Er, !wF_commit by exact Ec. fold (Fw s). lia.
        * intros id' Hp. rewrite absent_delete in Hp. destruct (decide (id' = id)); [discriminate|apply tB, Hp].
      + destruct (ch_from (sB s) !! id) as [r|] eqn:Er; [|split; assumption].
        destruct (ch_to (sA s) !! id) as [rt|] eqn:Et; [|split; assumption].
        destruct (cc_commit r) eqn:Ec; [|split; assumption].
        unfold cc_step. cbn [cc_apply]. rewrite Et. destruct (cc_commit rt); cbn [fst]; [|destruct s; split; assumption].
        split; cbn [sA sB ch_me ch_bal ch_from ch_to]; try assumption.
        * unfold Fw, Kb. cbn [sA sB ch_from ch_to]. fold (Fw s).
          rewrite (msum_ext_except (wK (delete id (ch_to (sA s)))) (wK (ch_to (sA s))) _ id).
          2:{ intros k' v' Hne _. unfold wK. rewrite absent_delete, decide_False by exact Hne. reflexivity. }
          rewrite Er, !wK_commit by exact Ec. fold (Kb s). lia.
        * intros id' Hp. rewrite absent_delete in Hp. destruct (decide (id' = id)); [discriminate|apply tA, Hp].
    - (* robot: deleteFrom *)
      destruct d; cbn [origin dest put_origin].
      + destruct (ch_from (sA s) !! id) as [r|] eqn:Er; [|split; assumption].
        destruct (ch_to (sB s) !! id) as [rt|] eqn:Et; [split; assumption|].
        destruct (cc_commit r) eqn:Ec; [|split; assumption].
        unfold cc_step. cbn [cc_apply]. rewrite Er, Ec. cbn [fst].
        split; cbn [sA sB ch_me ch_bal ch_from ch_to]; try assumption.
        * unfold Fw, Kb. cbn [sA sB ch_from ch_to]. fold (Kb s). rewrite msum_delete', Er, wF_commit by exact Ec. fold (Fw s). lia.
        * intros id' r'. intros Hl. apply lookup_delete_Some in Hl as [_ Hl]. apply (wA _ _ Hl).
        * intros id' Hp. rewrite absent_delete. destruct (decide (id' = id)) as [->|]; [rewrite (absent_None _ _ Et) in Hp; discriminate|apply tB, Hp].
      + destruct (ch_from (sB s) !! id) as [r|] eqn:Er; [|split; assumption].
        destruct (ch_to (sA s) !! id) as [rt|] eqn:Et; [split; assumption|].
        destruct (cc_commit r) eqn:Ec; [|split; assumption].
        unfold cc_step. cbn [cc_apply]. rewrite Er, Ec. cbn [fst].
        split; cbn [sA sB ch_me ch_bal ch_from ch_to]; try assumption.
        * unfold Fw, Kb. cbn [sA sB ch_from ch_to]. fold (Fw s). rewrite msum_delete', Er, wK_commit by exact Ec. fold (Kb s). lia.
        * intros id' r'. intros Hl. apply lookup_delete_Some in Hl as [_ Hl]. apply (wB _ _ Hl).
        * intros id' Hp. rewrite absent_delete. destruct (decide (id' = id)) as [->|]; [rewrite (absent_None _ _ Et) in Hp; discriminate|apply tA, Hp].
    - (* robot: cancel *)
      destruct d; cbn [origin dest put_origin].
      + destruct (ch_from (sA s) !! id) as [r|] eqn:Er; [|split; assumption].
        destruct (ch_to (sB s) !! id) as [rt|] eqn:Et; [split; assumption|].
        destruct (cc_commit r) eqn:Ec; [split; assumption|].
        destruct (step_same (sA s) (OCancelFrom id)) as [->|(c' & Hap & ->)]; [destruct s; split; assumption|].
        apply cancel_effect in Hap as (r0 & Er0 & _ & Hf & Ht & Hm & Hbal). rewrite Er in Er0. injection Er0 as <-.
        pose proof (wA _ _ Er) as (W1 & W2 & W3 & W4 & W5).
        destruct (change_balance_effect _ _ _ _ Hbal W2) as (EG & EH & _).
        split; cbn [sA sB]; try assumption; try congruence.
        * rewrite EG. unfold Fw, Kb. cbn [sA sB]. rewrite Hf, Ht. fold (Kb s). rewrite msum_delete', Er. fold (Fw s). rewrite Heq.
          unfold wF, dG. rewrite Ec, (absent_None _ _ Et). cbn [negb andb]. rewrite andb_true_r, (N.eqb_sym b (cc_to r)).
          destruct (cc_fwd r); [destruct (N.eqb (cc_to r) b)|]; cbn [andb]; lia.
        * intros id' r'. rewrite Hf. intros Hl. apply lookup_delete_Some in Hl as [_ Hl]. apply (wA _ _ Hl).
        * intros id' Hp. rewrite Hf, absent_delete. destruct (decide (id' = id)) as [->|]; [rewrite (absent_None _ _ Et) in Hp; discriminate|apply tB, Hp].
        * intros id' Hp. rewrite Ht in Hp. apply tA, Hp.
      + destruct (ch_from (sB s) !! id) as [r|] eqn:Er; [|split; assumption].
        destruct (ch_to (sA s) !! id) as [rt|] eqn:Et; [split; assumption|].
        destruct (cc_commit r) eqn:Ec; [split; assumption|].
        destruct (step_same (sB s) (OCancelFrom id)) as [->|(c' & Hap & ->)]; [destruct s; split; assumption|].
        apply cancel_effect in Hap as (r0 & Er0 & _ & Hf & Ht & Hm & Hbal). rewrite Er in Er0. injection Er0 as <-.
        pose proof (wB _ _ Er) as (W1 & W2 & W3 & W4 & W5).
        destruct (change_balance_effect _ _ _ _ Hbal W2) as (EG & EH & _).
        split; cbn [sA sB]; try assumption; try congruence.
        * rewrite EH. unfold Fw, Kb. cbn [sA sB]. rewrite Hf, Ht. fold (Fw s). rewrite msum_delete', Er. fold (Kb s). rewrite Heq.
          unfold wK, dH. rewrite Ec, (absent_None _ _ Et). cbn [negb andb]. rewrite andb_true_r.
          destruct (cc_fwd r) eqn:Ef; cbn [negb andb].
          -- destruct (negb (N.eqb a (cc_sym r))); lia.
          -- rewrite (W5 eq_refl), (N.eqb_sym a (cc_sym r)). destruct (N.eqb (cc_sym r) a); cbn [negb andb]; lia.
        * intros id' r'. rewrite Hf. intros Hl. apply lookup_delete_Some in Hl as [_ Hl]. apply (wB _ _ Hl).
        * intros id' Hp. rewrite Ht in Hp. apply tB, Hp.
        * intros id' Hp. rewrite Hf, absent_delete. destruct (decide (id' = id)) as [->|]; [rewrite (absent_None _ _ Et) in Hp; discriminate|apply tA, Hp].
  Qed.

  Theorem run_Inv l : forall s, Inv s -> Inv (sys_run s l).
  Proof. induction l as [|x l IH]; intros s H; [exact H|]. cbn [sys_run fold_left]. apply IH, step_Inv, H. Qed.

  Lemma Inv_init adminA adminB balA balB :
    giv balA b = held balB a -> Inv (sys0 a b adminA adminB balA balB).
  Proof.
    intros H. split; cbn; try reflexivity.
    - unfold Fw, Kb. cbn. rewrite !msum_empty. lia.
    - intros id r Hc. rewrite lookup_empty in Hc. discriminate.
    - intros id r Hc. rewrite lookup_empty in Hc. discriminate.
    - intros id Hc. unfold absent in Hc. rewrite lookup_empty in Hc. discriminate.
    - intros id Hc. unfold absent in Hc. rewrite lookup_empty in Hc. discriminate.
  Qed.

  Lemma Fw_nonneg s : Inv s -> (forall id r, ch_from (sA s) !! id = Some r -> 0 <= cc_amt r) -> 0 <= Fw s.
  Proof.
    intros _ Hp. unfold Fw. apply msum_nonneg. intros k v Hk. unfold wF. specialize (Hp _ _ Hk).
    destruct (_ && _); lia.
  Qed.

  (* MAIN: for every interleaving of user initiations (any channel, any arguments, duplicates)
     with the robot's steps, each enabled by the two ledgers only, of any length:
     given-out counter of the origin = amount held in the destination + amount in flight;
     hence with nothing in flight the two are equal *)
  Theorem given_equals_held adminA adminB balA balB l :
    giv balA b = held balB a ->
    let s := sys_run (sys0 a b adminA adminB balA balB) l in
    giv (ch_bal (sA s)) b = held (ch_bal (sB s)) a + Fw s + Kb s.
  Proof. intros H. apply i_eq, run_Inv, Inv_init, H. Qed.
End two_channels.
