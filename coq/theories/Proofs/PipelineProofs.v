(* Proofs about Model/Pipeline.v: the composed pipeline refines its serial specification, and who may cause what:
   a transaction is executed by a batch only if the robot listed it and a request that passed the gate and
   authenticated had submitted it; business data changes only through the robot's batches or authenticated tasks. *)
From Fnd Require Import Base.Prelude Model.Cache Model.Nonce Model.Batch Model.Auth Model.Gate Model.Pipeline
  Proofs.CacheProofs Proofs.BatchProofs Proofs.PendingProofs Proofs.AuthProofs.

(* ---------------- specification: the same on the plain ledger, items one after another ---- *)
Definition q_task (e : penv) (m : ledger) (t : authin * N) : ledger * ires :=
  match task_gate (pe_cfg e) (FMethod (pe_method e)) with
  | GHandled _ =>
    match auth (fst t) with
    | Ok o => spec_body m (r_addr o) (dec_val (r_nonce o)) (nth_body (pe_bodies e) (snd t))
    | Err _ => (m, IErr IOther)
    end
  | _ => (m, IErr IOther)
  end.
Fixpoint q_tasks (e : penv) (m : ledger) (ts : list (authin * N)) : ledger * list ires :=
  match ts with
  | [] => (m, [])
  | t :: r => let '(m', x) := q_task e m t in let '(m'', xs) := q_tasks e m' r in (m'', x :: xs)
  end.
Definition q_step (e : penv) (l : ledger) (r : preq) : ledger * presp :=
  match r with
  | PSubmit cr id i bi =>
    match invoke_gate (pe_cfg e) cr (FMethod (pe_method e)) with
    | GHandled (Gate.HSubmit _) =>
      match auth i with
      | Ok o => (submit l id (r_addr o) (dec_val (r_nonce o)) bi, RRecorded)
      | Err x => (l, RAuth x)
      end
    | g => (l, RGate g)
    end
  | PBatch cr ids =>
    match invoke_gate (pe_cfg e) cr FBatchExecute with
    | GHandled Gate.HBatch => let '(l', rs) := spec_batch (pe_bodies e) l ids in (l', RItems rs)
    | g => (l, RGate g)
    end
  | PTasks cr ts =>
    match invoke_gate (pe_cfg e) cr FExecuteTasks with
    | GHandled HTasks => let '(l', rs) := q_tasks e l ts in (l', RItems rs)
    | g => (l, RGate g)
    end
  end.
Fixpoint q_run (e : penv) (l : ledger) (h : list preq) : ledger * list presp :=
  match h with
  | [] => (l, [])
  | r :: t => let '(l', x) := q_step e l r in let '(l'', xs) := q_run e l' t in (l'', x :: xs)
  end.

(* ---------------- refinement ---------------- *)
Definition leq (l m : ledger) : Prop := forall k, led_get l k = led_get m k.

Lemma V_init' l m : leq l m -> V (BCS l ∅ ∅) m.
Proof.
  intros H. split; [|split].
  - intros k v Hk. cbn in Hk. rewrite lookup_empty in Hk. discriminate.
  - intros k x Hk. cbn in Hk. rewrite lookup_empty in Hk. discriminate.
  - intros k. unfold view. cbn. rewrite lookup_empty. apply H.
Qed.

Lemma ptask_items_sim e ts : forall b m, V b m ->
  let '(b', rs) := ptask_items e b ts in let '(m', rs2) := q_tasks e m ts in rs = rs2 /\ V b' m'.
Proof.
  induction ts as [|t ts IH]; intros b m HV; cbn [ptask_items q_tasks]; [split; [reflexivity|exact HV]|].
  assert (H : let '(b', r) := ptask_item e b t in let '(m', r2) := q_task e m t in r = r2 /\ V b' m').
  { unfold ptask_item, q_task. destruct (task_gate _ _); try (split; [reflexivity|exact HV]).
    destruct (auth (fst t)) as [o|x]; [|split; [reflexivity|exact HV]].
    apply exec_body_sim, HV. }
  destruct (ptask_item e b t) as [b1 r]. destruct (q_task e m t) as [m1 r2].
  destruct H as [<- HV1]. specialize (IH b1 m1 HV1).
  destruct (ptask_items e b1 ts) as [b2 rs]. destruct (q_tasks e m1 ts) as [m2 rs2].
  destruct IH as [<- HV2]. split; [reflexivity|exact HV2].
Qed.

Lemma leq_submit l m id s n bi : leq l m -> leq (submit l id s n bi) (submit m id s n bi).
Proof. intros H k. unfold submit. rewrite !led_get_put. destruct (decide _); [reflexivity|apply H]. Qed.

Lemma p_step_refines e l m r : leq l m ->
  snd (p_step e l r) = snd (q_step e m r) /\ leq (fst (p_step e l r)) (fst (q_step e m r)).
Proof.
  intros H. destruct r as [cr id i bi|cr ids|cr ts]; cbn [p_step q_step].
  - destruct (invoke_gate _ _ _) as [| | | |h]; try (split; [reflexivity|exact H]).
    destruct h; try (split; [reflexivity|exact H]).
    destruct (auth i) as [o|x]; cbn [fst snd]; [|split; [reflexivity|exact H]].
    split; [reflexivity|apply leq_submit, H].
  - destruct (invoke_gate _ _ _) as [| | | |h]; try (split; [reflexivity|exact H]).
    destruct h; try (split; [reflexivity|exact H]).
    unfold batch_exec. pose proof (batch_items_sim (pe_bodies e) ids _ _ (V_init' l m H)) as Hs.
    destruct (batch_items _ _ ids) as [b rs]. destruct (spec_batch _ m ids) as [m' rs2].
    destruct Hs as [<- HV]. cbn [fst snd]. split; [reflexivity|]. intros k. apply commit_view, HV.
  - destruct (invoke_gate _ _ _) as [| | | |h]; try (split; [reflexivity|exact H]).
    destruct h; try (split; [reflexivity|exact H]).
    pose proof (ptask_items_sim e ts _ _ (V_init' l m H)) as Hs.
    destruct (ptask_items e _ ts) as [b rs]. destruct (q_tasks e m ts) as [m' rs2].
    destruct Hs as [<- HV]. cbn [fst snd]. split; [reflexivity|]. intros k. apply commit_view, HV.
Qed.

Theorem pipeline_refines e h : forall l m, leq l m ->
  snd (p_run e l h) = snd (q_run e m h) /\ leq (fst (p_run e l h)) (fst (q_run e m h)).
Proof.
  induction h as [|r h IH]; intros l m H; cbn [p_run q_run]; [split; [reflexivity|exact H]|].
  pose proof (p_step_refines e l m r H) as [H1 H2].
  destruct (p_step e l r) as [l1 x]. destruct (q_step e m r) as [m1 y]. cbn [fst snd] in *. subst y.
  specialize (IH l1 m1 H2). destruct (p_run e l1 h) as [l2 xs]. destruct (q_run e m1 h) as [m2 ys].
  cbn [fst snd] in *. destruct IH as [<- H3]. split; [reflexivity|exact H3].
Qed.

(* ---------------- who may cause what ---------------- *)
(* a request that was refused (by the gate or by authentication) changes nothing *)
Theorem refused_unchanged e l r : match snd (p_step e l r) with RGate _ | RAuth _ => fst (p_step e l r) = l | _ => True end.
Proof.
  destruct r as [cr id i bi|cr ids|cr ts]; cbn [p_step].
  - destruct (invoke_gate _ _ _) as [| | | |h]; try reflexivity. destruct h; try reflexivity.
    destruct (auth i); cbn; [exact I|reflexivity].
  - destruct (invoke_gate _ _ _) as [| | | |h]; try reflexivity. destruct h; try reflexivity.
    destruct (batch_exec _ _ _). exact I.
  - destruct (invoke_gate _ _ _) as [| | | |h]; try reflexivity. destruct h; try reflexivity.
    destruct (ptask_items _ _ _). exact I.
Qed.

(* a pending record [s; n; bi] under id is authorised by the history h when h contains a submission of
   id, from a well-formed creator, whose request authenticates as s with nonce n *)
Definition authorised (h : list preq) (id : N) (rec : list N) : Prop :=
  exists cr i o bi, In (PSubmit cr id i bi) h /\ cr_ok cr = true /\ auth i = Ok o /\
                    rec = [r_addr o; dec_val (r_nonce o); bi].
Definition PInv (h : list preq) (m : ledger) : Prop :=
  forall id, led_get m (pk id) <> [] -> authorised h id (led_get m (pk id)).

Lemma authorised_mono h r id rec : authorised h id rec -> authorised (h ++ [r]) id rec.
Proof. intros (cr & i & o & bi & Hin & H). exists cr, i, o, bi. split; [apply in_or_app; left; exact Hin|exact H]. Qed.

Lemma spec_body_frame bodies m s n bi id : data_only bodies ->
  led_get (fst (spec_body m s n (nth_body bodies bi))) (pk id) = led_get m (pk id).
Proof.
  intros Hd. unfold spec_body. destruct (set_nonce n (led_get m (nk s))) as [w' [x|]]; cbn [fst]; [reflexivity|].
  rewrite spec_tx_frame by (apply nth_body_data, Hd). rewrite led_get_put.
  rewrite decide_False by apply pk_not_nk. reflexivity.
Qed.

Lemma q_tasks_frame e ts : data_only (pe_bodies e) -> forall m id,
  led_get (fst (q_tasks e m ts)) (pk id) = led_get m (pk id).
Proof.
  intros Hd. induction ts as [|t ts IH]; intros m id; cbn [q_tasks]; [reflexivity|].
  destruct (q_task e m t) as [m1 x] eqn:E1. specialize (IH m1 id).
  destruct (q_tasks e m1 ts) as [m2 xs]. cbn [fst] in *. rewrite IH.
  unfold q_task in E1. destruct (task_gate _ _); try (injection E1 as <- _; reflexivity).
  destruct (auth (fst t)) as [o|x0]; [|injection E1 as <- _; reflexivity].
  pose proof (spec_body_frame (pe_bodies e) m (r_addr o) (dec_val (r_nonce o)) (snd t) id Hd) as Hf.
  rewrite E1 in Hf. exact Hf.
Qed.

Lemma spec_batch_pending bodies ids : data_only bodies -> forall m id,
  led_get (fst (spec_batch bodies m ids)) (pk id) = [] \/
  led_get (fst (spec_batch bodies m ids)) (pk id) = led_get m (pk id).
Proof.
  intros Hd. induction ids as [|x ids IH]; intros m id; cbn [spec_batch]; [right; reflexivity|].
  destruct (spec_item bodies m x) as [m1 r] eqn:E1. specialize (IH m1 id).
  destruct (spec_batch bodies m1 ids) as [m2 rs]. cbn [fst] in *.
  pose proof (spec_item_pending bodies m x id Hd) as Hp. rewrite E1 in Hp. cbn [fst] in Hp.
  destruct IH as [IH|IH]; [left; exact IH|]. rewrite IH, Hp.
  destruct (decide (id = x)); [left|right]; reflexivity.
Qed.

Lemma q_step_inv e h m r : data_only (pe_bodies e) -> PInv h m -> PInv (h ++ [r]) (fst (q_step e m r)).
Proof.
  intros Hd Hinv. destruct r as [cr id i bi|cr ids|cr ts]; cbn [q_step].
  - destruct (invoke_gate (pe_cfg e) cr (FMethod (pe_method e))) as [| | | |hd] eqn:Eg;
      try (intros id' Hne; apply authorised_mono, Hinv, Hne).
    destruct hd; try (intros id' Hne; apply authorised_mono, Hinv, Hne).
    destruct (auth i) as [o|x] eqn:Ea; cbn [fst]; [|intros id' Hne; apply authorised_mono, Hinv, Hne].
    intros id' Hne. rewrite submit_pending in *. destruct (decide (id' = id)) as [->|Hd'].
    + exists cr, i, o, bi. split; [apply in_or_app; right; left; reflexivity|].
      split; [|split; [exact Ea|reflexivity]].
      unfold invoke_gate in Eg. destruct (cr_ok cr); [reflexivity|discriminate].
    + apply authorised_mono, Hinv, Hne.
  - destruct (invoke_gate _ _ _) as [| | | |hd]; try (intros id' Hne; apply authorised_mono, Hinv, Hne).
    destruct hd; try (intros id' Hne; apply authorised_mono, Hinv, Hne).
    pose proof (spec_batch_pending (pe_bodies e) ids Hd m) as Hp.
    destruct (spec_batch (pe_bodies e) m ids) as [m' rs]. cbn [fst] in *.
    intros id' Hne. destruct (Hp id') as [H0|H1]; [congruence|]. rewrite H1 in *.
    apply authorised_mono, Hinv, Hne.
  - destruct (invoke_gate _ _ _) as [| | | |hd]; try (intros id' Hne; apply authorised_mono, Hinv, Hne).
    destruct hd; try (intros id' Hne; apply authorised_mono, Hinv, Hne).
    pose proof (q_tasks_frame e ts Hd m) as Hp.
    destruct (q_tasks e m ts) as [m' rs]. cbn [fst] in *.
    intros id' Hne. rewrite Hp in *. apply authorised_mono, Hinv, Hne.
Qed.

(* the invariant along any history, from a ledger without pending records *)
Lemma q_run_inv e h2 : data_only (pe_bodies e) -> forall h1 m, PInv h1 m -> PInv (h1 ++ h2) (fst (q_run e m h2)).
Proof.
  intros Hd. induction h2 as [|r h2 IH]; intros h1 m Hinv; cbn [q_run]; [rewrite app_nil_r; exact Hinv|].
  pose proof (q_step_inv e h1 m r Hd Hinv) as H1.
  destruct (q_step e m r) as [m1 x]. cbn [fst] in H1. specialize (IH (h1 ++ [r]) m1 H1).
  destruct (q_run e m1 h2) as [m2 xs]. cbn [fst] in *. rewrite <- app_assoc in IH. exact IH.
Qed.

(* an item of a batch that was executed (any reply but "not found") had a pending record when the batch started *)
Lemma executed_was_pending bodies ids : data_only bodies -> forall m id r,
  In (id, r) (combine ids (snd (spec_batch bodies m ids))) -> r <> IErr INotFound -> led_get m (pk id) <> [].
Proof.
  intros Hd. induction ids as [|x ids IH]; intros m id r Hin Hr; [destruct Hin|].
  cbn [spec_batch] in Hin. destruct (spec_item bodies m x) as [m1 r1] eqn:E1.
  destruct (spec_batch bodies m1 ids) as [m2 rs] eqn:E2. cbn [snd combine] in Hin.
  destruct Hin as [Hh|Ht].
  - injection Hh as -> ->. intros Hc. rewrite (unknown_id_local bodies m id Hc) in E1.
    injection E1 as _ <-. apply Hr. reflexivity.
  - specialize (IH m1 id r). rewrite E2 in IH. cbn [snd] in IH. specialize (IH Ht Hr).
    pose proof (spec_item_pending bodies m x id Hd) as Hp. rewrite E1 in Hp. cbn [fst] in Hp.
    rewrite Hp in IH. destruct (decide (id = x)); [congruence|exact IH].
Qed.

(* MAIN (specification level): in any history that starts without pending records, every transaction
   a batch executes (a) was listed by the robot and (b) had been submitted earlier by a request that
   passed the gate and authenticated - and the record that was executed names exactly the
   authenticated address and nonce *)
Theorem q_executed_was_authorised e h1 cr ids m0 : data_only (pe_bodies e) ->
  (forall id, led_get m0 (pk id) = []) ->
  let m := fst (q_run e m0 h1) in
  forall rs, snd (q_step e m (PBatch cr ids)) = RItems rs ->
  is_robot (pe_cfg e) cr = true /\
  forall id r, In (id, r) (combine ids rs) -> r <> IErr INotFound ->
    authorised h1 id (led_get m (pk id)).
Proof.
  intros Hd H0 m rs Hrs.
  assert (Hinv : PInv h1 m).
  { pose proof (q_run_inv e h1 Hd [] m0) as H. cbn [app] in H. apply H. intros id Hne. specialize (H0 id). congruence. }
  cbn [q_step] in Hrs. unfold invoke_gate in Hrs.
  destruct (cr_ok cr); cbn [negb] in Hrs; [|discriminate].
  destruct (is_robot (pe_cfg e) cr) eqn:Er; [|discriminate].
  split; [reflexivity|]. intros id r Hin Hr.
  destruct (spec_batch (pe_bodies e) m ids) as [m' rs'] eqn:Es. cbn [snd] in Hrs. injection Hrs as <-.
  apply Hinv. apply (executed_was_pending (pe_bodies e) ids Hd m id r); [|exact Hr].
  rewrite Es. exact Hin.
Qed.

(* the same for the implementation model (layered caches), through the refinement *)
Lemma leq_refl l : leq l l.
Proof. intros k. reflexivity. Qed.

Theorem p_executed_was_authorised e h1 cr ids l0 : data_only (pe_bodies e) ->
  (forall id, led_get l0 (pk id) = []) ->
  let l := fst (p_run e l0 h1) in
  forall rs, snd (p_step e l (PBatch cr ids)) = RItems rs ->
  is_robot (pe_cfg e) cr = true /\
  forall id r, In (id, r) (combine ids rs) -> r <> IErr INotFound ->
    authorised h1 id (led_get l (pk id)).
Proof.
  intros Hd H0 l rs Hrs.
  pose proof (pipeline_refines e h1 l0 l0 (leq_refl l0)) as [_ Hl]. fold l in Hl.
  pose proof (p_step_refines e l _ (PBatch cr ids) Hl) as [Hr _]. rewrite Hrs in Hr. symmetry in Hr.
  destruct (q_executed_was_authorised e h1 cr ids l0 Hd H0 rs Hr) as [Hrob Hall].
  split; [exact Hrob|]. intros id r Hin Hne. rewrite (Hl (pk id)). apply (Hall id r); assumption.
Qed.

(* an authorised record was produced by a request carrying genuine signatures (C01) *)
Theorem authorised_is_signed h id rec : authorised h id rec ->
  exists cr i o bi, In (PSubmit cr id i bi) h /\ auth i = Ok o /\ rec = [r_addr o; dec_val (r_nonce o); bi] /\
    exists n ktypes, a_acl i = AclOk (r_addr o) false false n ktypes /\
      (1 <= count_genuine (the_kis i) (sig_args i) (a_sigs i) (the_msg i))%nat /\
      (required n (n_signers i) <= count_genuine (the_kis i) (sig_args i) (a_sigs i) (the_msg i))%nat.
Proof.
  intros (cr & i & o & bi & Hin & _ & Ha & Hrec). exists cr, i, o, bi. repeat split; try assumption.
  destruct (auth_sound i o Ha) as (n & kt & H1 & _ & _ & _ & _ & H5 & H6). exists n, kt. repeat split; assumption.
Qed.

(* a task has an effect only if its request authenticates and its method is not disabled *)
Lemma q_task_effect e m t : fst (q_task e m t) <> m \/ snd (q_task e m t) <> IErr IOther ->
  exists o, auth (fst t) = Ok o /\ disabled (pe_cfg e) (pe_method e) = false.
Proof.
  unfold q_task, task_gate. destruct (disabled (pe_cfg e) (pe_method e)); cbn [fst snd]; [intros [H|H]; congruence|].
  destruct (m_auth (pe_method e)); cbn [fst snd]; [|intros [H|H]; congruence].
  destruct (auth (fst t)) as [o|x]; cbn [fst snd]; [intros _; exists o; split; reflexivity|intros [H|H]; congruence].
Qed.

Lemma q_tasks_no_auth e ts : (forall t o, In t ts -> auth (fst t) <> Ok o) -> forall m, fst (q_tasks e m ts) = m.
Proof.
  induction ts as [|t ts IH]; intros Hn m; cbn [q_tasks]; [reflexivity|].
  destruct (q_task e m t) as [m1 x] eqn:E1.
  assert (m1 = m).
  { destruct (decide (m1 = m)) as [->|Hne]; [reflexivity|]. exfalso.
    destruct (q_task_effect e m t) as (o & Ha & _); [left; rewrite E1; exact Hne|].
    apply (Hn t o); [left; reflexivity|exact Ha]. }
  subst m1. specialize (IH (fun t' o Hin => Hn t' o (or_intror Hin)) m).
  destruct (q_tasks e m ts) as [m2 xs]. cbn [fst] in *. exact IH.
Qed.

Lemma dk_not_pk k id : dk k <> pk id.
Proof. unfold dk, pk. lia. Qed.

(* business data (the keys the bodies write) changes only through a batch listed by the robot or through
   a task list containing a request that authenticates; a submission never touches it *)
Theorem p_data_change_needs_authority e l r k :
  led_get (fst (p_step e l r)) (dk k) <> led_get l (dk k) ->
  match r with
  | PSubmit _ _ _ _ => False
  | PBatch cr _ => is_robot (pe_cfg e) cr = true
  | PTasks _ ts => exists t o, In t ts /\ auth (fst t) = Ok o
  end.
Proof.
  pose proof (p_step_refines e l l r (leq_refl l)) as [_ Hq]. rewrite (Hq (dk k)). clear Hq.
  destruct r as [cr id i bi|cr ids|cr ts]; cbn [q_step].
  - destruct (invoke_gate _ _ _) as [| | | |h]; try (intros H; apply H; reflexivity).
    destruct h; try (intros H; apply H; reflexivity).
    destruct (auth i); cbn [fst]; [|intros H; apply H; reflexivity].
    intros H. apply H. apply submit_records_only, dk_not_pk.
  - unfold invoke_gate. destruct (cr_ok cr); cbn [negb]; [|intros H; exfalso; apply H; reflexivity].
    destruct (is_robot (pe_cfg e) cr); [reflexivity|intros H; exfalso; apply H; reflexivity].
  - destruct (invoke_gate _ _ _) as [| | | |h]; try (intros H; exfalso; apply H; reflexivity).
    destruct h; try (intros H; exfalso; apply H; reflexivity).
    destruct (existsb (fun t => match auth (fst t) with Ok _ => true | Err _ => false end) ts) eqn:Ex.
    + intros _. apply existsb_exists in Ex. destruct Ex as (t & Hin & Ht).
      destruct (auth (fst t)) as [o|] eqn:Ea; [|discriminate]. exists t, o. split; assumption.
    + intros H. exfalso. apply H.
      assert (Hn : forall t o, In t ts -> auth (fst t) <> Ok o).
      { intros t o Hin Ha. assert (existsb (fun t => match auth (fst t) with Ok _ => true | Err _ => false end) ts = true).
        { apply existsb_exists. exists t. split; [exact Hin|]. rewrite Ha. reflexivity. }
        congruence. }
      pose proof (q_tasks_no_auth e ts Hn l) as Hm. destruct (q_tasks e l ts) as [m' rs]. cbn [fst] in *. subst m'. reflexivity.
Qed.

(* non-vacuity: one honest submission, one with a foreign signature, a batch by a stranger, the robot's batch *)
Example pipeline_example :
  let k1 := [107; 49]%N in
  let fn := [115]%N in let cc := [99]%N in
  let base := [[]; cc; cc; [98]%N; [49; 55; 48; 48; 48; 48; 48; 48; 48; 48; 48; 48; 49]%N; k1] in
  let msg := fn ++ concat base in
  let tbl := [(k1, KI 1 0 false)] in
  let mk sg := AuthIn 2 fn (base ++ [[115]%N]) cc cc (AclOk 9 false false 1 [0]%N) tbl [sg] (Some cc) in
  let m := Method 1 MTx true GNone false in
  let e := PEnv (GCfg 77 5 [] false false) [[SPut 4 [42]%N]] m in
  let robot := Creator true 77 0 false in let user := Creator true 8 0 false in
  let h := [PSubmit user 1 (mk (SigBy 1 0 msg)) 0; PSubmit user 2 (mk (SigBy 2 0 msg)) 0;
            PBatch user [1]; PBatch robot [1; 2]]%N in
  let '(l, out) := p_run e ∅ h in
  (out, led_get l (dk 1), led_get l (pk 1)) =
  ([RRecorded; RAuth EBadSig; RGate GUnauthorized;
    RItems [IOk [(dk 1, [42]%N, false)] [] []; IErr INotFound]], [42]%N, []).
Proof. vm_compute. reflexivity. Qed.

(* ---- at most once, for whole invocations ------------------------------------------------- *)
(* executions of id reported by the batches of a history of invocations *)
Fixpoint executions (id : N) (h : list preq) (out : list presp) : nat :=
  match h, out with
  | PBatch _ ids :: r, RItems rs :: t =>
    (length (List.filter (fun x => executed x id) (combine ids rs)) + executions id r t)%nat
  | _ :: r, _ :: t => executions id r t
  | _, _ => 0%nat
  end.
(* accepted submissions of id *)
Fixpoint recorded (id : N) (h : list preq) (out : list presp) : nat :=
  match h, out with
  | PSubmit _ i _ _ :: r, RRecorded :: t => ((if N.eqb i id then 1 else 0) + recorded id r t)%nat
  | _ :: r, _ :: t => recorded id r t
  | _, _ => 0%nat
  end.

Lemma q_once e h : data_only (pe_bodies e) -> forall m id,
  (executions id h (snd (q_run e m h)) + present (fst (q_run e m h)) id
   <= recorded id h (snd (q_run e m h)) + present m id)%nat.
Proof.
  intros Hd. induction h as [|r h IH]; intros m id; cbn [q_run]; [cbn; lia|].
  destruct r as [cr i ai bi|cr ids|cr ts]; cbn [q_step].
  - destruct (invoke_gate (pe_cfg e) cr (FMethod (pe_method e))) as [| | | |hd];
      try (specialize (IH m id); destruct (q_run e m h) as [m2 xs]; cbn [fst snd executions recorded] in *; exact IH).
    destruct hd; try (specialize (IH m id); destruct (q_run e m h) as [m2 xs]; cbn [fst snd executions recorded] in *; exact IH).
    destruct (auth ai) as [o|x]; [|specialize (IH m id); destruct (q_run e m h) as [m2 xs]; cbn [fst snd executions recorded] in *; exact IH].
    specialize (IH (submit m i (r_addr o) (dec_val (r_nonce o)) bi) id).
    destruct (q_run e _ h) as [m2 xs]. cbn [fst snd executions recorded] in *.
    assert (present (submit m i (r_addr o) (dec_val (r_nonce o)) bi) id <= (if N.eqb i id then 1 else 0) + present m id)%nat.
    { unfold present. rewrite submit_pending. destruct (N.eqb_spec i id) as [->|Hne].
      - rewrite decide_True by reflexivity. destruct (led_get m (pk id)); lia.
      - rewrite decide_False by congruence. lia. }
    lia.
  - destruct (invoke_gate (pe_cfg e) cr FBatchExecute) as [| | | |hd];
      try (specialize (IH m id); destruct (q_run e m h) as [m2 xs]; cbn [fst snd executions recorded] in *; exact IH).
    destruct hd; try (specialize (IH m id); destruct (q_run e m h) as [m2 xs]; cbn [fst snd executions recorded] in *; exact IH).
    pose proof (batch_exec_count (pe_bodies e) ids Hd m id) as Hb.
    destruct (spec_batch (pe_bodies e) m ids) as [m1 rs]. specialize (IH m1 id).
    destruct (q_run e m1 h) as [m2 xs]. cbn [fst snd executions recorded] in *. lia.
  - destruct (invoke_gate (pe_cfg e) cr FExecuteTasks) as [| | | |hd];
      try (specialize (IH m id); destruct (q_run e m h) as [m2 xs]; cbn [fst snd executions recorded] in *; exact IH).
    destruct hd; try (specialize (IH m id); destruct (q_run e m h) as [m2 xs]; cbn [fst snd executions recorded] in *; exact IH).
    pose proof (q_tasks_frame e ts Hd m id) as Hf.
    destruct (q_tasks e m ts) as [m1 rs]. cbn [fst] in Hf. specialize (IH m1 id).
    destruct (q_run e m1 h) as [m2 xs]. cbn [fst snd executions recorded] in *.
    assert (present m1 id = present m id) by (unfold present; rewrite Hf; reflexivity). lia.
Qed.

(* AT MOST ONCE, for whole invocations (layered caches): over any history of submissions, batches and task lists by any
   creators, with any multisets of ids, a request is executed at most as often as it was recorded - once, transaction ids
   being unique - also with duplicates inside a batch, re-listing in later batches and task lists in between *)
Theorem p_executed_at_most_once e h l0 id : data_only (pe_bodies e) ->
  (executions id h (snd (p_run e l0 h)) <= recorded id h (snd (p_run e l0 h)) + present l0 id)%nat.
Proof.
  intros Hd. destruct (pipeline_refines e h l0 l0 (leq_refl l0)) as [-> _].
  pose proof (q_once e h Hd l0 id). lia.
Qed.
