(* Proofs about Model/MultiSwap.v *)
From Fnd Require Import Base.Prelude Base.Sum Model.Balance Model.CCTransfer Model.MultiSwap
  Proofs.BalanceProofs Proofs.CCTransferProofs.
Local Open Scope Z_scope.

(* ---- one ledger: escrow all or nothing, release once -------------------------------------- *)
Theorem m_done_removes c id key c' ev : m_apply c (MUserDone id key) = Ok (c', ev) ->
  mc_swaps c' !! id = None /\ exists r, mc_swaps c !! id = Some r /\ mw_hash r = key /\ mw_creator r <> mw_owner r /\
  ev = Some (mw_from r, id, key).
Proof.
  cbn [m_apply]. destruct (mc_swaps c !! id) as [r|] eqn:E; [|discriminate].
  destruct (N.eqb_spec (mw_hash r) key) as [Hk|]; cbn [negb]; [|discriminate].
  unfold mown. destruct (N.eqb_spec (mw_creator r) (mw_owner r)); [discriminate|].
  destruct (if mdirect r then _ else _) as [b|]; cbn [rbind]; [|discriminate].
  intros [= <- <-]. cbn. split; [apply lookup_delete|]. exists r. auto.
Qed.

Theorem m_cancel_removes c now sender id c' ev : m_apply c (MCancel now sender id) = Ok (c', ev) ->
  mc_swaps c' !! id = None /\ ev = None /\
  exists r, mc_swaps c !! id = Some r /\ mw_creator r = sender /\ mw_timeout r <= now.
Proof.
  cbn [m_apply]. destruct (mc_swaps c !! id) as [r|]; [|discriminate].
  destruct (N.eqb_spec (mw_creator r) sender) as [Hs|]; cbn [negb]; [|discriminate].
  destruct (Z.ltb_spec now (mw_timeout r)) as [|Ht]; [discriminate|].
  destruct (if _ && _ then _ else _) as [b|]; cbn [rbind]; [|discriminate].
  intros [= <- <-]. cbn. repeat split; [apply lookup_delete|]. exists r. auto.
Qed.

Theorem m_robot_done_removes c id key c' ev : m_apply c (MRobotDone id key) = Ok (c', ev) -> mc_swaps c' !! id = None.
Proof.
  cbn [m_apply]. destruct (mc_swaps c !! id) as [r|]; [|discriminate]. destruct (negb _); [discriminate|].
  destruct (if mdirect r then _ else _) as [b|]; cbn [rbind]; [|discriminate]. intros [= <- <-]. cbn. apply lookup_delete.
Qed.

Theorem m_gone_means_rejected c id : mc_swaps c !! id = None ->
  (forall key, m_apply c (MUserDone id key) = Err ENotFound) /\ (forall key, m_apply c (MRobotDone id key) = Err ENotFound) /\
  (forall now sender, m_apply c (MCancel now sender id) = Err ENotFound).
Proof. intros H. cbn [m_apply]. rewrite H. auto. Qed.

Theorem m_wrong_key_rejected c id r key : mc_swaps c !! id = Some r -> mw_hash r <> key ->
  m_apply c (MUserDone id key) = Err EBadKey /\ m_apply c (MRobotDone id key) = Err EBadKey.
Proof. intros H Hk. cbn [m_apply]. rewrite H. destruct (N.eqb_spec (mw_hash r) key); [contradiction|]. auto. Qed.

(* only the creator, only after the time-out; the robot's copy (creator 0) has no creator among users *)
Theorem m_foreign_cancel_rejected c now sender id r : mc_swaps c !! id = Some r -> mw_creator r <> sender ->
  m_apply c (MCancel now sender id) = Err EUnauthorized.
Proof. intros H Hs. cbn [m_apply]. rewrite H. destruct (N.eqb_spec (mw_creator r) sender); [contradiction|]. reflexivity. Qed.
Theorem m_early_cancel_rejected c now sender id r : mc_swaps c !! id = Some r -> mw_creator r = sender -> now < mw_timeout r ->
  m_apply c (MCancel now sender id) = Err ETimeout.
Proof.
  intros H Hs Ht. cbn [m_apply]. rewrite H, Hs, N.eqb_refl. cbn [negb]. destruct (Z.ltb_spec now (mw_timeout r)); [reflexivity|lia].
Qed.

Theorem m_own_record_not_completable c id r key : mc_swaps c !! id = Some r -> mw_creator r = mw_owner r ->
  forall c' ev, m_apply c (MUserDone id key) <> Ok (c', ev).
Proof.
  intros H Hc c' ev. cbn [m_apply]. rewrite H. destruct (negb _); [discriminate|]. unfold mown. rewrite Hc, N.eqb_refl. discriminate.
Qed.

Theorem m_begin_no_overwrite c now s id sym assets to h r : mc_swaps c !! id = Some r ->
  forall c' ev, m_apply c (MBegin now s id sym assets to h) <> Ok (c', ev).
Proof.
  intros H c' ev. cbn [m_apply]. destruct (existsb _ assets); [discriminate|]. destruct assets as [|a l]; [discriminate|].
  destruct (_ || _); [discriminate|].
  destruct (if N.eqb sym _ then _ else _) as [b|]; cbn [rbind]; [|discriminate]. rewrite H. discriminate.
Qed.
Theorem m_answer_no_overwrite c now id r r0 : mc_swaps c !! id = Some r0 ->
  forall c' ev, m_apply c (MAnswer now id r) <> Ok (c', ev).
Proof. intros H c' ev. cbn [m_apply]. rewrite H. discriminate. Qed.

(* all or nothing: a rejected step (e.g. the third asset is under-funded) changes nothing at all *)
Theorem m_rejected_unchanged c o e : snd (fst (m_step c o)) = Some e -> fst (fst (m_step c o)) = c.
Proof. unfold m_step. destruct (m_apply c o) as [[c' ev]|]; [discriminate|reflexivity]. Qed.

(* ---- every operation changes the balances by one list of assets and one record ------------- *)
Fixpoint asum (f : asset -> Z) (l : list asset) : Z := match l with [] => 0 | a :: r => f a + asum f r end.

Lemma asum_ext f g l : (forall a, In a l -> f a = g a) -> asum f l = asum g l.
Proof. induction l as [|a l IH]; intros H; cbn [asum]; [reflexivity|]. rewrite H by (left; reflexivity). rewrite IH; [reflexivity|]. intros; apply H; right; assumption. Qed.
Lemma asum_nonneg f l : (forall a, In a l -> 0 <= f a) -> 0 <= asum f l.
Proof. induction l as [|a l IH]; intros H; cbn [asum]; [lia|]. pose proof (H a (or_introl eq_refl)) as Ha. assert (0 <= asum f l) by (apply IH; intros; apply H; right; assumption). lia. Qed.
Lemma asum_scale (c : bool) f l : asum (fun a => if c then f a else 0) l = if c then asum f l else 0.
Proof. destruct c; [reflexivity|]. induction l as [|a l IH]; cbn [asum]; [reflexivity|]. rewrite IH. reflexivity. Qed.
Lemma asum_zero l : asum (fun _ => 0) l = 0.
Proof. induction l as [|a l IH]; cbn [asum]; [reflexivity|]. rewrite IH. reflexivity. Qed.

Inductive mchg := MNone | MAdd (key : asset -> N * N * N) (l : list asset) | MSub (key : asset -> N * N * N) (l : list asset).
Definition mchg_ok (b : bals) (ch : mchg) (b' : bals) : Prop :=
  match ch with MNone => b' = b | MAdd key l => add_all b key l = Ok b' | MSub key l => sub_all b key l = Ok b' end.
Definition mchgP (P : N * N * N -> bool) (ch : mchg) : Z :=
  match ch with
  | MNone => 0
  | MAdd key l => asum (fun a => if P (key a) then a_amt a else 0) l
  | MSub key l => - asum (fun a => if P (key a) then a_amt a else 0) l
  end.
Definition mchg_at (k' : N * N * N) (ch : mchg) : Z :=
  match ch with
  | MNone => 0
  | MAdd key l => asum (fun a => at_key (key a) k' (a_amt a)) l
  | MSub key l => - asum (fun a => at_key (key a) k' (a_amt a)) l
  end.

Lemma add_all_sum P key l : forall b b', add_all b key l = Ok b' ->
  bsum P b' = bsum P b + asum (fun a => if P (key a) then a_amt a else 0) l.
Proof.
  induction l as [|a l IH]; intros b b'; cbn [add_all asum].
  - intros [= <-]. lia.
  - destruct (badd b (key a) (a_amt a)) as [b1|] eqn:E; cbn [rbind]; [|discriminate]. intros H.
    rewrite (IH _ _ H), (bsum_badd P _ _ _ _ E). lia.
Qed.
Lemma sub_all_sum P key l : forall b b', sub_all b key l = Ok b' ->
  bsum P b' = bsum P b - asum (fun a => if P (key a) then a_amt a else 0) l.
Proof.
  induction l as [|a l IH]; intros b b'; cbn [sub_all asum].
  - intros [= <-]. lia.
  - destruct (bsub b (key a) (a_amt a)) as [b1|] eqn:E; cbn [rbind]; [|discriminate]. intros H.
    rewrite (IH _ _ H), (bsum_bsub P _ _ _ _ E). lia.
Qed.
Lemma add_all_get k' key l : forall b b', add_all b key l = Ok b' ->
  bget b' k' = bget b k' + asum (fun a => at_key (key a) k' (a_amt a)) l.
Proof.
  induction l as [|a l IH]; intros b b'; cbn [add_all asum].
  - intros [= <-]. lia.
  - destruct (badd b (key a) (a_amt a)) as [b1|] eqn:E; cbn [rbind]; [|discriminate]. intros H.
    rewrite (IH _ _ H), (bget_badd _ _ _ _ k' E). lia.
Qed.
Lemma sub_all_get k' key l : forall b b', sub_all b key l = Ok b' ->
  bget b' k' = bget b k' - asum (fun a => at_key (key a) k' (a_amt a)) l.
Proof.
  induction l as [|a l IH]; intros b b'; cbn [sub_all asum].
  - intros [= <-]. lia.
  - destruct (bsub b (key a) (a_amt a)) as [b1|] eqn:E; cbn [rbind]; [|discriminate]. intros H.
    rewrite (IH _ _ H), (bget_bsub _ _ _ _ k' E). lia.
Qed.

Lemma mchg_sum b ch b' P : mchg_ok b ch b' -> bsum P b' = bsum P b + mchgP P ch.
Proof.
  destruct ch as [|key l|key l]; cbn.
  - intros ->. lia.
  - apply add_all_sum.
  - intros H. rewrite (sub_all_sum P _ _ _ _ H). lia.
Qed.
Lemma mchg_get b ch b' k' : mchg_ok b ch b' -> bget b' k' = bget b k' + mchg_at k' ch.
Proof.
  destruct ch as [|key l|key l]; cbn.
  - intros ->. lia.
  - apply add_all_get.
  - intros H. rewrite (sub_all_get k' _ _ _ _ H). lia.
Qed.

Definition begin_chg (me s sym to : N) (assets : list asset) : mchg :=
  if N.eqb sym me then MSub (tok_key s) assets else MSub (alw_key s) assets.
Definition mcancel_chg (r : mrec) : mchg :=
  if mown r && mdirect r then MAdd (tok_key (mw_owner r)) (mw_assets r)
  else if mown r && mreverse r then MAdd (alw_key (mw_owner r)) (mw_assets r)
  else if N.eqb (mw_creator r) 0 && mreverse r then MAdd (giv_key (mw_from r)) (mw_assets r)
  else MNone.
Definition manswer_chg (r : mrec) : mchg := if mdirect r then MNone else MSub (giv_key (mw_from r)) (mw_assets r).
Definition muserdone_chg (r : mrec) : mchg :=
  if mdirect r then MAdd (alw_key (mw_owner r)) (mw_assets r) else MAdd (tok_key (mw_owner r)) (mw_assets r).
Definition mrobotdone_chg (r : mrec) : mchg := if mdirect r then MAdd (giv_key (mw_to r)) (mw_assets r) else MNone.

Lemma m_begin_effect c now s id sym assets to h c' ev : m_apply c (MBegin now s id sym assets to h) = Ok (c', ev) ->
  mc_swaps c !! id = None /\ mc_swaps c' = <[id := MW s s sym assets (mc_me c) to h (now + user_timeout)]> (mc_swaps c) /\
  mc_me c' = mc_me c /\ (sym < 1000)%N /\ Forall (fun a => (a_sym a < 1000)%N /\ 0 <= a_amt a) assets /\
  (sym = mc_me c \/ sym = to /\ to <> mc_me c) /\
  mchg_ok (mc_bal c) (begin_chg (mc_me c) s sym to assets) (mc_bal c').
Proof.
  cbn [m_apply]. destruct (existsb (fun a => a_amt a <? 0) assets) eqn:En; [discriminate|].
  destruct assets as [|a0 l0] eqn:Eas; [discriminate|]. rewrite <- Eas in *. clear Eas a0 l0.
  destruct (N.leb_spec 1000 sym) as [|Hs]; cbn [orb]; [discriminate|].
  destruct (existsb (fun a => (1000 <=? a_sym a)%N) assets) eqn:Es; [discriminate|].
  assert (Hall : Forall (fun a => (a_sym a < 1000)%N /\ 0 <= a_amt a) assets).
  { apply List.Forall_forall. intros a Ha. split.
    - destruct (N.ltb_spec (a_sym a) 1000) as [|Hge]; [assumption|]. exfalso.
      assert (existsb (fun a => (1000 <=? a_sym a)%N) assets = true); [|congruence].
      apply existsb_exists. exists a. split; [exact Ha|]. apply N.leb_le. exact Hge.
    - destruct (Z.leb_spec 0 (a_amt a)) as [|Hlt]; [assumption|]. exfalso.
      assert (existsb (fun a => a_amt a <? 0) assets = true); [|congruence].
      apply existsb_exists. exists a. split; [exact Ha|]. apply Z.ltb_lt. exact Hlt. }
  unfold begin_chg. destruct (N.eqb_spec sym (mc_me c)) as [Em|Em].
  - destruct (sub_all _ _ _) as [b|] eqn:Eb; cbn [rbind]; [|discriminate].
    destruct (mc_swaps c !! id) eqn:El; [discriminate|]. intros [= <- <-]. cbn. repeat split; auto.
  - destruct (N.eqb_spec sym to) as [Et|Et]; [|discriminate].
    destruct (sub_all _ _ _) as [b|] eqn:Eb; cbn [rbind]; [|discriminate].
    destruct (mc_swaps c !! id) eqn:El; [discriminate|]. intros [= <- <-]. cbn. repeat split; auto.
    right. split; congruence.
Qed.

Lemma m_answer_effect c now id r c' ev : m_apply c (MAnswer now id r) = Ok (c', ev) ->
  mc_swaps c !! id = None /\
  mc_swaps c' = <[id := mcopy now r]> (mc_swaps c) /\ mc_me c' = mc_me c /\ (mdirect r = true \/ mreverse r = true) /\
  mchg_ok (mc_bal c) (manswer_chg r) (mc_bal c').
Proof.
  cbn [m_apply]. unfold manswer_chg. destruct (mc_swaps c !! id) eqn:El; [discriminate|].
  destruct (mdirect r) eqn:Ef; cbn [rbind].
  - intros [= <- <-]. cbn. repeat split; auto.
  - destruct (mreverse r); [|discriminate].
    destruct (sub_all _ _ _) as [b|] eqn:Eb; cbn [rbind]; [|discriminate]. intros [= <- <-]. cbn. repeat split; auto.
Qed.

Lemma m_userdone_effect c id key c' ev : m_apply c (MUserDone id key) = Ok (c', ev) ->
  exists r, mc_swaps c !! id = Some r /\ mw_creator r <> mw_owner r /\ mw_hash r = key /\
  mc_swaps c' = delete id (mc_swaps c) /\ mc_me c' = mc_me c /\ mchg_ok (mc_bal c) (muserdone_chg r) (mc_bal c').
Proof.
  cbn [m_apply]. destruct (mc_swaps c !! id) as [r|] eqn:E; [|discriminate]. intros H. exists r. revert H.
  destruct (N.eqb_spec (mw_hash r) key) as [Hk|]; cbn [negb]; [|discriminate].
  unfold mown. destruct (N.eqb_spec (mw_creator r) (mw_owner r)) as [|Hco]; [discriminate|]. unfold muserdone_chg.
  destruct (mdirect r) eqn:Ef;
    (destruct (add_all _ _ _) as [b|] eqn:Eb; cbn [rbind]; [|discriminate]); intros [= <- <-]; cbn; repeat split; auto.
Qed.

Lemma m_robotdone_effect c id key c' ev : m_apply c (MRobotDone id key) = Ok (c', ev) ->
  exists r, mc_swaps c !! id = Some r /\ mw_hash r = key /\
  mc_swaps c' = delete id (mc_swaps c) /\ mc_me c' = mc_me c /\ mchg_ok (mc_bal c) (mrobotdone_chg r) (mc_bal c').
Proof.
  cbn [m_apply]. destruct (mc_swaps c !! id) as [r|] eqn:E; [|discriminate]. intros H. exists r. revert H.
  destruct (N.eqb_spec (mw_hash r) key) as [Hk|]; cbn [negb]; [|discriminate]. unfold mrobotdone_chg.
  destruct (mdirect r) eqn:Ef.
  - destruct (add_all _ _ _) as [b|] eqn:Eb; cbn [rbind]; [|discriminate]. intros [= <- <-]; cbn; repeat split; auto.
  - cbn [rbind]. intros [= <- <-]; cbn; repeat split; auto.
Qed.

Lemma m_cancel_effect c now sender id c' ev : m_apply c (MCancel now sender id) = Ok (c', ev) ->
  exists r, mc_swaps c !! id = Some r /\ mw_creator r = sender /\ mw_timeout r <= now /\
  mc_swaps c' = delete id (mc_swaps c) /\ mc_me c' = mc_me c /\ mchg_ok (mc_bal c) (mcancel_chg r) (mc_bal c').
Proof.
  cbn [m_apply]. destruct (mc_swaps c !! id) as [r|] eqn:E; [|discriminate]. intros H. exists r. revert H.
  destruct (N.eqb_spec (mw_creator r) sender) as [Hs|]; cbn [negb]; [|discriminate].
  destruct (Z.ltb_spec now (mw_timeout r)) as [|Ht]; [discriminate|].
  unfold mcancel_chg.
  destruct (mown r && mdirect r).
  { destruct (add_all _ _ _) as [b|] eqn:Eb; cbn [rbind]; [|discriminate]. intros [= <- <-]; cbn; repeat split; auto. }
  destruct (mown r && mreverse r).
  { destruct (add_all _ _ _) as [b|] eqn:Eb; cbn [rbind]; [|discriminate]. intros [= <- <-]; cbn; repeat split; auto. }
  destruct (N.eqb (mw_creator r) 0 && mreverse r).
  { destruct (add_all _ _ _) as [b|] eqn:Eb; cbn [rbind]; [|discriminate]. intros [= <- <-]; cbn; repeat split; auto. }
  cbn [rbind]. intros [= <- <-]; cbn; repeat split; auto.
Qed.

(* ---- two channels and the robot ------------------------------------------------------------ *)
Lemma mchn_set s x c st y : mchn (mset s x c st) y = if Bool.eqb x y then c else mchn s y.
Proof. destruct x, y; reflexivity. Qed.
Lemma mst_set s x c st : mst (mset s x c st) = st. Proof. destruct x; reflexivity. Qed.
Lemma mset_id s x : mset s x (mchn s x) (mst s) = s. Proof. destruct s, x; reflexivity. Qed.

Inductive mstepR (s : msys) : msys -> Prop :=
| mr_stutter : mstepR s s
| mr_tick dt : mstepR s (MSys (msA s) (msB s) (mst s) (mclock s + Z.of_N dt))
| mr_begin d sender id sym assets to h c' ev : sender <> 0%N -> forallb (fun a => N.eqb (a_sym a) sym) assets = true ->
    m_apply (mchn s d) (MBegin (mclock s) sender id sym assets to h) = Ok (c', ev) -> mstepR s (mset s d c' (mst s))
| mr_answer d id r c' ev : mstat s d id = MsNone -> mc_swaps (mchn s d) !! id = Some r ->
    mw_creator r <> 0%N -> mw_to r = mc_me (mchn s (negb d)) ->
    m_apply (mchn s (negb d)) (MAnswer (mclock s) id r) = Ok (c', ev) ->
    mstepR s (mset s (negb d) c' (<[(d, id) := MsAnswered]> (mst s)))
| mr_udone d id key c' ev : mstat s d id = MsAnswered ->
    m_apply (mchn s (negb d)) (MUserDone id key) = Ok (c', ev) ->
    mstepR s (mset s (negb d) c' (<[(d, id) := MsDestDone]> (mst s)))
| mr_rdone d id r c' ev : mstat s d id = MsDestDone -> mc_swaps (mchn s d) !! id = Some r ->
    m_apply (mchn s d) (MRobotDone id (mw_hash r)) = Ok (c', ev) -> mstepR s (mset s d c' (delete (d, id) (mst s)))
| mr_cancel d sender id r c' ev : mstat s d id = MsNone -> mc_swaps (mchn s d) !! id = Some r ->
    mw_creator r <> 0%N -> m_apply (mchn s d) (MCancel (mclock s) sender id) = Ok (c', ev) ->
    mstepR s (mset s d c' (mst s)).

Lemma mstep1_cases c o : (exists c' ev, m_apply c o = Ok (c', ev) /\ mstep1 c o = (c', true)) \/ mstep1 c o = (c, false).
Proof. unfold mstep1. destruct (m_apply c o) as [[c' ev]|]; [left; eauto|right; reflexivity]. Qed.

Lemma msys_step_mstepR s a : mstepR s (msys_step true s a).
Proof.
  destruct a as [dt|d sender id sym assets to h|d id|d id key|d id|d sender id]; cbn [msys_step].
  - constructor.
  - destruct (N.eqb_spec sender 0); cbn [orb]; [constructor|].
    destruct (forallb _ assets) eqn:Ef; cbn [negb]; [|constructor].
    destruct (mstep1_cases (mchn s d) (MBegin (mclock s) sender id sym assets to h)) as [(c' & ev & Ha & ->)| ->].
    + eapply mr_begin; eauto.
    + rewrite mset_id. constructor.
  - destruct (mstat s d id) eqn:Es; try constructor.
    destruct (mc_swaps (mchn s d) !! id) as [r|] eqn:Eo; [|constructor].
    destruct (N.eqb_spec (mw_creator r) 0); cbn [negb andb]; [constructor|].
    destruct (N.eqb_spec (mw_to r) (mc_me (mchn s (negb d)))); [|constructor].
    destruct (mstep1_cases (mchn s (negb d)) (MAnswer (mclock s) id r)) as [(c' & ev & Ha & ->)| ->].
    + eapply mr_answer; eauto.
    + rewrite mset_id. constructor.
  - destruct (mstat s d id) eqn:Es; try constructor.
    destruct (mstep1_cases (mchn s (negb d)) (MUserDone id key)) as [(c' & ev & Ha & ->)| ->].
    + eapply mr_udone; eauto.
    + rewrite mset_id. constructor.
  - destruct (mstat s d id) eqn:Es; try constructor.
    destruct (mc_swaps (mchn s d) !! id) as [r|] eqn:Eo; [|constructor].
    destruct (mstep1_cases (mchn s d) (MRobotDone id (mw_hash r))) as [(c' & ev & Ha & ->)| ->].
    + eapply mr_rdone; eauto.
    + rewrite mset_id. constructor.
  - destruct (mc_swaps (mchn s d) !! id) as [r|] eqn:Eo; [|constructor].
    destruct (N.eqb_spec (mw_creator r) 0); [constructor|]. cbn [andb].
    destruct (bool_decide_reflect (mstat s d id = MsNone)) as [Es|Es]; cbn [negb]; [|constructor].
    destruct (mstep1_cases (mchn s d) (MCancel (mclock s) sender id)) as [(c' & ev & Ha & ->)| ->].
    + eapply mr_cancel; eauto.
    + rewrite mset_id. constructor.
Qed.

Lemma mstat_set_same s x c d id : mstat (mset s x c (mst s)) d id = mstat s d id.
Proof. unfold mstat. rewrite mst_set. reflexivity. Qed.
Lemma mstat_set_insert_eq s x c d id v : mstat (mset s x c (<[(d, id) := v]> (mst s))) d id = v.
Proof. unfold mstat. rewrite mst_set, lookup_insert. reflexivity. Qed.
Lemma mstat_set_insert_ne s x c d id v d' id' : (d', id') <> (d, id) ->
  mstat (mset s x c (<[(d, id) := v]> (mst s))) d' id' = mstat s d' id'.
Proof. intros H. unfold mstat. rewrite mst_set, lookup_insert_ne by congruence. reflexivity. Qed.
Lemma mstat_set_delete_eq s x c d id : mstat (mset s x c (delete (d, id) (mst s))) d id = MsNone.
Proof. unfold mstat. rewrite mst_set, lookup_delete. reflexivity. Qed.
Lemma mstat_set_delete_ne s x c d id d' id' : (d', id') <> (d, id) ->
  mstat (mset s x c (delete (d, id) (mst s))) d' id' = mstat s d' id'.
Proof. intros H. unfold mstat. rewrite mst_set, lookup_delete_ne by congruence. reflexivity. Qed.

Definition mwfrec (me : N) (r : mrec) : Prop :=
  (mw_sym r < 1000)%N /\ Forall (fun a => a_sym a = mw_sym r /\ 0 <= a_amt a) (mw_assets r) /\ mw_owner r <> 0%N /\
  (if N.eqb (mw_creator r) 0 then mw_to r = me /\ mw_from r <> me /\ (mdirect r = true \/ mreverse r = true)
   else mw_creator r = mw_owner r /\ mw_from r = me /\ (mw_sym r = me \/ (mw_sym r = mw_to r /\ mw_to r <> me))).
Definition mwfchan (c : mchan) : Prop := forall id r, mc_swaps c !! id = Some r -> mwfrec (mc_me c) r.

Definition mlink (s : msys) : Prop := forall d id, mstat s d id <> MsNone ->
  exists r, mc_swaps (mchn s d) !! id = Some r /\ mw_creator r <> 0%N /\ mw_to r = mc_me (mchn s (negb d)) /\
            (mstat s d id = MsAnswered -> exists now, mc_swaps (mchn s (negb d)) !! id = Some (mcopy now r)).

Record MInv (s : msys) : Prop := {
  mi_ne : mc_me (mchn s true) <> mc_me (mchn s false);
  mi_wf : forall x, mwfchan (mchn s x);
  mi_link : mlink s }.

Definition mlocal (s s' : msys) (d0 : bool) (id0 : N) : Prop :=
  (forall y, mc_me (mchn s' y) = mc_me (mchn s y)) /\
  (forall y id, id <> id0 -> mc_swaps (mchn s' y) !! id = mc_swaps (mchn s y) !! id) /\
  (forall d id, (d, id) <> (d0, id0) -> mstat s' d id = mstat s d id).

Lemma mlink_frame s s' d0 id0 : mlocal s s' d0 id0 -> mlink s ->
  (forall d, mstat s' d id0 <> MsNone ->
     exists r, mc_swaps (mchn s' d) !! id0 = Some r /\ mw_creator r <> 0%N /\ mw_to r = mc_me (mchn s' (negb d)) /\
            (mstat s' d id0 = MsAnswered -> exists now, mc_swaps (mchn s' (negb d)) !! id0 = Some (mcopy now r))) -> mlink s'.
Proof.
  intros (Hme & Hsw & Hst) Hl Hloc d id. destruct (decide (id = id0)) as [->|Hne]; [apply Hloc|].
  rewrite Hst by congruence. rewrite !Hsw by exact Hne. rewrite Hme. apply Hl.
Qed.

Lemma m_me_ne s x : MInv s -> mc_me (mchn s x) <> mc_me (mchn s (negb x)).
Proof. intros [H _ _]. destruct x; cbn [negb]; congruence. Qed.

Lemma mwf_copy me me' now r : mwfrec me r -> mw_creator r <> 0%N -> mw_to r = me' -> me <> me' ->
  (mdirect r = true \/ mreverse r = true) -> mwfrec me' (mcopy now r).
Proof.
  unfold mwfrec. intros (Hs & Ha & Ho & Hr) Hc Ht Hne Hdr. destruct (N.eqb_spec (mw_creator r) 0); [contradiction|].
  destruct Hr as (Hco & Hf & Hsym). cbn. repeat split; auto. congruence.
Qed.

Lemma mlocal_set s x c' st' d0 id0 : mc_me c' = mc_me (mchn s x) ->
  (forall id, id <> id0 -> mc_swaps c' !! id = mc_swaps (mchn s x) !! id) ->
  (forall d id, (d, id) <> (d0, id0) -> st' !! (d, id) = mst s !! (d, id)) ->
  mlocal s (mset s x c' st') d0 id0.
Proof.
  intros Hme Hsw Hst. repeat split.
  - intros y. rewrite mchn_set. destruct (Bool.eqb_spec x y) as [->|]; auto.
  - intros y id Hne. rewrite mchn_set. destruct (Bool.eqb_spec x y) as [->|]; auto.
  - intros d id Hne. unfold mstat. rewrite mst_set, Hst by exact Hne. reflexivity.
Qed.

Lemma mwf_set s x c' st' : MInv s -> mc_me c' = mc_me (mchn s x) -> mwfchan c' ->
  forall y, mwfchan (mchn (mset s x c' st') y).
Proof. intros HI Hme Hwf y. rewrite mchn_set. destruct (Bool.eqb x y); [exact Hwf|apply (mi_wf _ HI)]. Qed.

Lemma mne_set s x c' st' : MInv s -> mc_me c' = mc_me (mchn s x) ->
  mc_me (mchn (mset s x c' st') true) <> mc_me (mchn (mset s x c' st') false).
Proof. intros HI Hme. rewrite !mchn_set. destruct x; cbn; rewrite ?Hme; apply (mi_ne _ HI). Qed.

Lemma mwf_delete c c' id : mwfchan c -> mc_me c' = mc_me c -> mc_swaps c' = delete id (mc_swaps c) -> mwfchan c'.
Proof.
  intros Hwf Hme Hsw id' r. rewrite Hsw, Hme. intros H. apply lookup_delete_Some in H as [_ H]. eapply Hwf, H.
Qed.
Lemma mwf_insert c c' id r : mwfchan c -> mc_me c' = mc_me c -> mc_swaps c' = <[id := r]> (mc_swaps c) -> mwfrec (mc_me c) r -> mwfchan c'.
Proof.
  intros Hwf Hme Hsw Hr id' r'. rewrite Hsw, Hme. intros H. apply lookup_insert_Some in H as [[_ <-]|[_ H]]; [exact Hr|eapply Hwf, H].
Qed.

Lemma bool_cases (d d' : bool) : d' = d \/ d' = negb d.
Proof. destruct d, d'; auto. Qed.

Ltac mchs := rewrite ?mchn_set, ?Bool.negb_involutive, ?Bool.eqb_reflx, ?Bool.eqb_negb1, ?Bool.eqb_negb2.
Ltac mchs_in H := rewrite ?mchn_set, ?Bool.negb_involutive, ?Bool.eqb_reflx, ?Bool.eqb_negb1, ?Bool.eqb_negb2 in H.

Lemma mstepR_inv s s' : mstepR s s' -> MInv s -> MInv s'.
Proof.
  intros Hs HI. pose proof (mi_link _ HI) as Hl.
  destruct Hs as [|dt|d sender id sym assets to h c' ev Hsn Hfa Ha|d id r c' ev Hst Ho Hc Ht Ha|d id key c' ev Hst Ha
                  |d id r c' ev Hst Ho Ha|d sender id r c' ev Hst Ho Hc Ha]; [exact HI| |..].
  - (* tick *) destruct HI as [H1 H2 H3]. split; [exact H1|exact H2|exact H3].
  - (* begin *)
    destruct (m_begin_effect _ _ _ _ _ _ _ _ _ _ Ha) as (Hn & Hsw & Hme & Hs1 & Hall & Hsym & _).
    split; [apply mne_set; auto| |].
    + apply mwf_set; auto. eapply mwf_insert; eauto; [apply (mi_wf _ HI)|].
      unfold mwfrec. cbn. destruct (N.eqb_spec sender 0); [contradiction|]. repeat split; auto.
      apply List.Forall_forall. intros a Ha'. split.
      * rewrite forallb_forall in Hfa. apply N.eqb_eq, Hfa, Ha'.
      * rewrite List.Forall_forall in Hall. apply (Hall a Ha').
    + eapply (mlink_frame s _ d id); [apply mlocal_set; auto; intros id' Hne; rewrite Hsw, lookup_insert_ne by congruence; reflexivity|exact Hl|].
      intros d'. rewrite mstat_set_same. intros Hst. destruct (Hl d' id Hst) as (r & Hr1 & Hr2 & Hr3 & Hr4).
      destruct (bool_cases d d') as [->| ->].
      * rewrite Hn in Hr1. discriminate.
      * mchs. mchs_in Hr3. mchs_in Hr4. exists r. repeat split; auto; [congruence|].
        intros Hans. destruct (Hr4 Hans) as (nw & Hr5). rewrite Hn in Hr5. discriminate.
  - (* answer *)
    destruct (m_answer_effect _ _ _ _ _ _ Ha) as (Hd & Hsw & Hme & Hdr & _).
    split; [apply mne_set; auto| |].
    + apply mwf_set; auto. eapply mwf_insert; eauto; [apply (mi_wf _ HI)|].
      eapply mwf_copy; eauto; [eapply (mi_wf _ HI), Ho|apply m_me_ne, HI].
    + eapply (mlink_frame s _ d id); [apply mlocal_set; auto|exact Hl|].
      { intros id' Hne; rewrite Hsw, lookup_insert_ne by congruence; reflexivity. }
      { intros d' id' Hne. rewrite lookup_insert_ne by congruence. reflexivity. }
      intros d'. destruct (bool_cases d d') as [->| ->].
      * rewrite mstat_set_insert_eq. intros _. mchs. exists r. repeat split; auto; [congruence|].
        intros _. exists (mclock s). rewrite Hsw. apply lookup_insert.
      * rewrite mstat_set_insert_ne by (destruct d; cbn; congruence). intros Hst'.
        destruct (Hl _ _ Hst') as (r' & Hr1 & _). rewrite Hd in Hr1. discriminate.
  - (* user done *)
    destruct (m_userdone_effect _ _ _ _ _ Ha) as (rc & Hrc & Hco & Hk & Hsw & Hme & _).
    assert (Hst' : mstat s d id <> MsNone) by (rewrite Hst; discriminate).
    destruct (Hl _ _ Hst') as (r & Hr1 & Hr2 & Hr3 & Hr4). destruct (Hr4 Hst) as (nw & Hr5).
    split; [apply mne_set; auto| |].
    + apply mwf_set; auto. eapply mwf_delete; eauto. apply (mi_wf _ HI).
    + eapply (mlink_frame s _ d id); [apply mlocal_set; auto|exact Hl|].
      { intros id' Hne; rewrite Hsw, lookup_delete_ne by congruence; reflexivity. }
      { intros d' id' Hne. rewrite lookup_insert_ne by congruence. reflexivity. }
      intros d'. destruct (bool_cases d d') as [->| ->].
      * rewrite mstat_set_insert_eq. intros _. mchs. exists r. repeat split; auto; [congruence|discriminate].
      * rewrite mstat_set_insert_ne by (destruct d; cbn; congruence). intros Hst2.
        destruct (Hl _ _ Hst2) as (r' & Hr1' & Hr2' & _). rewrite Hr5 in Hr1'. injection Hr1' as <-. cbn in Hr2'. contradiction.
  - (* robot done *)
    destruct (m_robotdone_effect _ _ _ _ _ Ha) as (rc & Hrc & Hk & Hsw & Hme & _).
    split; [apply mne_set; auto| |].
    + apply mwf_set; auto. eapply mwf_delete; eauto. apply (mi_wf _ HI).
    + eapply (mlink_frame s _ d id); [apply mlocal_set; auto|exact Hl|].
      { intros id' Hne; rewrite Hsw, lookup_delete_ne by congruence; reflexivity. }
      { intros d' id' Hne. rewrite lookup_delete_ne by congruence. reflexivity. }
      intros d'. destruct (bool_cases d d') as [->| ->].
      * rewrite mstat_set_delete_eq. congruence.
      * rewrite mstat_set_delete_ne by (destruct d; cbn; congruence). intros Hst2.
        destruct (Hl _ _ Hst2) as (r' & Hr1' & Hr2' & Hr3' & Hr4'). mchs_in Hr3'. mchs_in Hr4'. mchs.
        exists r'. repeat split; auto; [congruence|]. intros Hans. destruct (Hr4' Hans) as (nw & Hr5').
        rewrite Ho in Hr5'. injection Hr5' as ->.
        assert (Hst3 : mstat s d id <> MsNone) by (rewrite Hst; discriminate).
        destruct (Hl _ _ Hst3) as (r2 & Hr21 & Hr22 & _). rewrite Ho in Hr21. injection Hr21 as <-. cbn in Hr22. contradiction.
  - (* cancel at the origin, not answered *)
    destruct (m_cancel_effect _ _ _ _ _ _ Ha) as (rc & Hrc & _ & _ & Hsw & Hme & _).
    split; [apply mne_set; auto| |].
    + apply mwf_set; auto. eapply mwf_delete; eauto. apply (mi_wf _ HI).
    + eapply (mlink_frame s _ d id); [apply mlocal_set; auto|exact Hl|].
      { intros id' Hne; rewrite Hsw, lookup_delete_ne by congruence; reflexivity. }
      intros d'. rewrite mstat_set_same. destruct (bool_cases d d') as [->| ->].
      * congruence.
      * intros Hst2.
        destruct (Hl _ _ Hst2) as (r' & Hr1' & Hr2' & Hr3' & Hr4'). mchs_in Hr3'. mchs_in Hr4'. mchs.
        exists r'. repeat split; auto; [congruence|]. intros Hans. destruct (Hr4' Hans) as (nw & Hr5').
        rewrite Ho in Hr5'. injection Hr5' as ->. cbn in Hc. contradiction.
Qed.

(* ---- value accounting per user, token and group over both channels ------------------------- *)
Definition mvalP (me u t g : N) (k : N * N * N) : bool :=
  N.eqb (snd (fst k)) u && (if N.eqb t me then N.eqb (fst (fst k)) KTok && N.eqb (snd k) g
                            else N.eqb (fst (fst k)) KAllowed && N.eqb (snd k) (tk_enc t g)).
Definition mval (c : mchan) (u t g : N) : Z := bsum (mvalP (mc_me c) u t g) (mc_bal c).
Definition hit (t g : N) (a : asset) : bool := N.eqb (a_sym a) t && N.eqb (a_grp a) g.
Definition amt_for (t g : N) (l : list asset) : Z := asum (fun a => if hit t g a then a_amt a else 0) l.
Definition total (l : list asset) : Z := asum a_amt l.

Definition mwt (pr : mrec -> bool) (w : mrec -> Z) (ps : mstatus -> bool) (s : msys) (d : bool) (id : N) (r : mrec) : Z :=
  if pr r && ps (mstat s d id) then w r else 0.
Definition mwsum pr w ps (s : msys) (d : bool) : Z := msum (mwt pr w ps s d) (mc_swaps (mchn s d)).
Definition mwtl pr w ps (s : msys) (d : bool) (id : N) : Z :=
  match mc_swaps (mchn s d) !! id with Some r => mwt pr w ps s d id r | None => 0 end.

Lemma mwsum_local pr w ps s s' d0 id0 d : mlocal s s' d0 id0 ->
  mwsum pr w ps s' d = mwsum pr w ps s d - mwtl pr w ps s d id0 + mwtl pr w ps s' d id0.
Proof.
  intros (_ & Hsw & Hst). unfold mwsum, mwtl.
  assert (E0 : msum (mwt pr w ps s d) (mc_swaps (mchn s d)) =
              msum (mwt pr w ps s d) (delete id0 (mc_swaps (mchn s d))) +
              match mc_swaps (mchn s d) !! id0 with Some r => mwt pr w ps s d id0 r | None => 0 end).
  { rewrite msum_delete'. lia. }
  assert (E : msum (mwt pr w ps s' d) (mc_swaps (mchn s' d)) =
              msum (mwt pr w ps s' d) (delete id0 (mc_swaps (mchn s' d))) +
              match mc_swaps (mchn s' d) !! id0 with Some r => mwt pr w ps s' d id0 r | None => 0 end).
  { rewrite msum_delete'. lia. }
  rewrite E, E0. assert (Hd : delete id0 (mc_swaps (mchn s' d)) = delete id0 (mc_swaps (mchn s d))).
  { apply map_eq. intros id. destruct (decide (id = id0)) as [->|Hne]; [rewrite !lookup_delete; reflexivity|].
    rewrite !lookup_delete_ne by congruence. apply Hsw, Hne. }
  rewrite Hd. rewrite (msum_ext (mwt pr w ps s' d) (mwt pr w ps s d)); [lia|].
  intros id r Hl. apply lookup_delete_Some in Hl as [Hne _]. unfold mwt. rewrite Hst by congruence. reflexivity.
Qed.

Lemma tk_enc_eqb s1 g1 s2 g2 : (s1 < 1000)%N -> (s2 < 1000)%N ->
  N.eqb (tk_enc s1 g1) (tk_enc s2 g2) = N.eqb s1 s2 && N.eqb g1 g2.
Proof.
  intros H1 H2. unfold tk_enc.
  destruct (N.eqb_spec s1 s2) as [->|Hs]; destruct (N.eqb_spec g1 g2) as [->|Hg]; cbn; try (apply N.eqb_refl); apply N.eqb_neq; lia.
Qed.

(* the three kinds of key lists, against the value predicate; assets carry the record's symbol *)
Lemma tok_sum me u t g x sym l : sym = me -> Forall (fun a => a_sym a = sym /\ 0 <= a_amt a) l ->
  asum (fun a => if mvalP me u t g (tok_key x a) then a_amt a else 0) l = if N.eqb x u then amt_for t g l else 0.
Proof.
  intros Hm Hall. unfold amt_for. rewrite <- asum_scale. apply asum_ext. intros a Ha.
  rewrite List.Forall_forall in Hall. destruct (Hall a Ha) as [Hs _].
  unfold mvalP, tok_key, hit. cbn [fst snd]. rewrite Hs, Hm, (N.eqb_sym me t).
  destruct (N.eqb x u), (N.eqb t me); cbn; reflexivity.
Qed.
Lemma alw_sum me u t g x sym l : sym <> me -> (sym < 1000)%N -> (t < 1000)%N -> Forall (fun a => a_sym a = sym /\ 0 <= a_amt a) l ->
  asum (fun a => if mvalP me u t g (alw_key x a) then a_amt a else 0) l = if N.eqb x u then amt_for t g l else 0.
Proof.
  intros Hm Hs1 Ht1 Hall. unfold amt_for. rewrite <- asum_scale. apply asum_ext. intros a Ha.
  rewrite List.Forall_forall in Hall. destruct (Hall a Ha) as [Hs _].
  unfold mvalP, alw_key, hit. cbn [fst snd]. rewrite Hs, tk_enc_eqb by assumption.
  destruct (N.eqb x u); cbn [andb]; [|reflexivity].
  destruct (N.eqb_spec t me) as [->|Hne]; cbn.
  - destruct (N.eqb_spec sym me); [contradiction|]. reflexivity.
  - reflexivity.
Qed.
Lemma giv_sum me u t g x l : asum (fun a => if mvalP me u t g (giv_key x a) then a_amt a else 0) l = 0.
Proof.
  transitivity (asum (fun _ => 0) l); [|apply asum_zero]. apply asum_ext. intros a _. unfold mvalP, giv_key. cbn [fst snd].
  destruct (N.eqb x u), (N.eqb t me); cbn; reflexivity.
Qed.

Lemma mval_chg c c' ch u t g : mc_me c' = mc_me c -> mchg_ok (mc_bal c) ch (mc_bal c') ->
  mval c' u t g = mval c u t g + mchgP (mvalP (mc_me c) u t g) ch.
Proof. intros Hme Hb. unfold mval. rewrite Hme. apply mchg_sum, Hb. Qed.

Lemma mval_begin me u t g s sym to assets : (sym < 1000)%N -> (t < 1000)%N -> (sym = me \/ sym = to /\ to <> me) ->
  Forall (fun a => a_sym a = sym /\ 0 <= a_amt a) assets ->
  mchgP (mvalP me u t g) (begin_chg me s sym to assets) = - (if N.eqb s u then amt_for t g assets else 0).
Proof.
  intros Hs Ht Hsym Hall. unfold begin_chg. destruct (N.eqb_spec sym me) as [Em|Em]; cbn [mchgP].
  - rewrite (tok_sum _ _ _ _ _ sym) by assumption. reflexivity.
  - rewrite (alw_sum _ _ _ _ _ sym) by assumption. reflexivity.
Qed.

Lemma m_orig_direct me r : mwfrec me r -> mw_creator r <> 0%N -> mdirect r = N.eqb (mw_sym r) me.
Proof. intros (_ & _ & _ & Hr) Hc. destruct (N.eqb_spec (mw_creator r) 0); [contradiction|]. destruct Hr as (_ & Hf & _). unfold mdirect. rewrite Hf. reflexivity. Qed.
Lemma m_orig_reverse me r : mwfrec me r -> mw_creator r <> 0%N -> mw_to r <> me -> mreverse r = negb (N.eqb (mw_sym r) me).
Proof.
  intros (_ & _ & _ & Hr) Hc Ht. destruct (N.eqb_spec (mw_creator r) 0); [contradiction|]. destruct Hr as (_ & _ & Hsym).
  unfold mreverse. destruct Hsym as [->|[-> _]].
  - rewrite N.eqb_refl. cbn. apply N.eqb_neq. congruence.
  - rewrite N.eqb_refl. symmetry. apply negb_true_iff, N.eqb_neq. exact Ht.
Qed.

Lemma mval_userdone me u t g r : mwfrec me r -> mw_creator r = 0%N -> (t < 1000)%N ->
  mchgP (mvalP me u t g) (muserdone_chg r) = if N.eqb (mw_owner r) u then amt_for t g (mw_assets r) else 0.
Proof.
  intros (Hs & Hall & _ & Hr) Hc Ht. rewrite Hc in Hr. cbn in Hr. destruct Hr as (Hto & Hfrom & Hdr).
  unfold muserdone_chg, mdirect, mreverse in *. destruct (N.eqb_spec (mw_sym r) (mw_from r)) as [Ef|Ef]; cbn [mchgP].
  - apply (alw_sum _ _ _ _ _ (mw_sym r)); auto. congruence.
  - destruct Hdr as [?|Hrev]; [discriminate|]. apply N.eqb_eq in Hrev. apply (tok_sum _ _ _ _ _ (mw_sym r)); auto. congruence.
Qed.

Lemma mval_cancel_orig me u t g r : mwfrec me r -> mw_creator r <> 0%N -> (t < 1000)%N ->
  mchgP (mvalP me u t g) (mcancel_chg r) = if N.eqb (mw_owner r) u then amt_for t g (mw_assets r) else 0.
Proof.
  intros Hwf Hc Ht. pose proof (m_orig_direct _ _ Hwf Hc) as Hd. destruct Hwf as (Hs & Hall & _ & Hr).
  destruct (N.eqb_spec (mw_creator r) 0); [contradiction|]. destruct Hr as (Hco & Hfrom & Hsym).
  unfold mcancel_chg, mown. rewrite Hco, N.eqb_refl, Hd. cbn [andb].
  destruct (N.eqb_spec (mw_sym r) me) as [E|E]; cbn [mchgP].
  - apply (tok_sum _ _ _ _ _ (mw_sym r)); auto.
  - destruct Hsym as [?|[Ht2 _]]; [contradiction|]. unfold mreverse. rewrite <- Ht2, N.eqb_refl. cbn [mchgP].
    apply (alw_sum _ _ _ _ _ (mw_sym r)); auto.
Qed.

Lemma mval_answer me u t g r : mchgP (mvalP me u t g) (manswer_chg r) = 0.
Proof. unfold manswer_chg. destruct (mdirect r); cbn [mchgP]; [|rewrite giv_sum]; reflexivity. Qed.
Lemma mval_robotdone me u t g r : mchgP (mvalP me u t g) (mrobotdone_chg r) = 0.
Proof. unfold mrobotdone_chg. destruct (mdirect r); cbn [mchgP]; [rewrite giv_sum|]; reflexivity. Qed.

Definition morigP (u : N) (r : mrec) : bool := negb (N.eqb (mw_creator r) 0) && N.eqb (mw_owner r) u.
Definition mnotdone (st : mstatus) : bool := match st with MsDestDone => false | _ => true end.
Definition MVtot (s : msys) (u t g : N) : Z :=
  mval (mchn s true) u t g + mval (mchn s false) u t g +
  mwsum (morigP u) (fun r => amt_for t g (mw_assets r)) mnotdone s true +
  mwsum (morigP u) (fun r => amt_for t g (mw_assets r)) mnotdone s false.

Lemma MVtot_dir s u t g d : MVtot s u t g =
  mval (mchn s d) u t g + mval (mchn s (negb d)) u t g +
  mwsum (morigP u) (fun r => amt_for t g (mw_assets r)) mnotdone s d +
  mwsum (morigP u) (fun r => amt_for t g (mw_assets r)) mnotdone s (negb d).
Proof. unfold MVtot. destruct d; cbn [negb]; lia. Qed.

Lemma m_no_record_no_status s d id : mlink s -> mc_swaps (mchn s d) !! id = None -> mstat s d id = MsNone.
Proof.
  intros Hl Hn. destruct (decide (mstat s d id = MsNone)) as [|Hne]; [assumption|].
  destruct (Hl _ _ Hne) as (r & Hr & _). congruence.
Qed.

Lemma morigP_copy u now r : morigP u (mcopy now r) = false.
Proof. reflexivity. Qed.

Theorem mstepR_V s s' u t g : (t < 1000)%N -> mstepR s s' -> MInv s -> MVtot s' u t g = MVtot s u t g.
Proof.
  intros Ht1 Hs HI. pose proof (mi_link _ HI) as Hl.
  destruct Hs as [|dt|d sender id sym assets to h c' ev Hsn Hfa Ha|d id r c' ev Hst Ho Hc Ht Ha|d id key c' ev Hst Ha
                  |d id r c' ev Hst Ho Ha|d sender id r c' ev Hst Ho Hc Ha]; [reflexivity|reflexivity|..];
    rewrite !(MVtot_dir _ u t g d).
  - destruct (m_begin_effect _ _ _ _ _ _ _ _ _ _ Ha) as (Hn & Hsw & Hme & Hs1 & Hall & Hsym & Hb).
    assert (Hall' : Forall (fun a => a_sym a = sym /\ 0 <= a_amt a) assets).
    { apply List.Forall_forall. intros a Ha'. rewrite forallb_forall in Hfa. rewrite List.Forall_forall in Hall.
      split; [apply N.eqb_eq, Hfa, Ha'|apply (Hall a Ha')]. }
    assert (Hloc : mlocal s (mset s d c' (mst s)) d id).
    { apply mlocal_set; auto. intros id' Hne; rewrite Hsw, lookup_insert_ne by congruence; reflexivity. }
    rewrite !(mwsum_local _ _ _ _ _ _ _ _ Hloc). mchs.
    rewrite (mval_chg _ _ _ u t g Hme Hb), mval_begin by assumption.
    unfold mwtl, mwt. mchs. rewrite !mstat_set_same, Hn, Hsw, lookup_insert, (m_no_record_no_status _ _ _ Hl Hn).
    unfold morigP. cbn. destruct (N.eqb_spec sender 0); [contradiction|]. cbn.
    rewrite andb_true_r. unfold amt_for. destruct (N.eqb sender u); lia.
  - destruct (m_answer_effect _ _ _ _ _ _ Ha) as (Hd & Hsw & Hme & Hdr & Hb).
    assert (Hloc : mlocal s (mset s (negb d) c' (<[(d, id) := MsAnswered]> (mst s))) d id).
    { apply mlocal_set; auto. intros id' Hne; rewrite Hsw, lookup_insert_ne by congruence; reflexivity.
      intros d' id' Hne. rewrite lookup_insert_ne by congruence. reflexivity. }
    rewrite !(mwsum_local _ _ _ _ _ _ _ _ Hloc). mchs.
    rewrite (mval_chg _ _ _ u t g Hme Hb), mval_answer.
    unfold mwtl, mwt. mchs. rewrite mstat_set_insert_eq, Hst, Ho, Hd, Hsw, lookup_insert, morigP_copy. cbn. unfold amt_for. lia.
  - destruct (m_userdone_effect _ _ _ _ _ Ha) as (rc & Hrc & Hco & Hk & Hsw & Hme & Hb).
    assert (Hst' : mstat s d id <> MsNone) by (rewrite Hst; discriminate).
    destruct (Hl _ _ Hst') as (r & Hr1 & Hr2 & Hr3 & Hr4). destruct (Hr4 Hst) as (nw & Hr5). rewrite Hr5 in Hrc. injection Hrc as <-.
    assert (Hloc : mlocal s (mset s (negb d) c' (<[(d, id) := MsDestDone]> (mst s))) d id).
    { apply mlocal_set; auto. intros id' Hne; rewrite Hsw, lookup_delete_ne by congruence; reflexivity.
      intros d' id' Hne. rewrite lookup_insert_ne by congruence. reflexivity. }
    rewrite !(mwsum_local _ _ _ _ _ _ _ _ Hloc). mchs.
    rewrite (mval_chg _ _ _ u t g Hme Hb), mval_userdone by (try reflexivity; try assumption; eapply (mi_wf _ HI), Hr5).
    unfold mwtl, mwt. mchs. rewrite mstat_set_insert_eq, Hst, Hr1, Hr5, Hsw, lookup_delete, morigP_copy.
    unfold morigP. cbn. destruct (N.eqb_spec (mw_creator r) 0); [contradiction|]. cbn. rewrite ?andb_true_r, ?andb_false_r.
    unfold amt_for. destruct (N.eqb (mw_owner r) u); lia.
  - destruct (m_robotdone_effect _ _ _ _ _ Ha) as (rc & Hrc & Hk & Hsw & Hme & Hb).
    assert (Hloc : mlocal s (mset s d c' (delete (d, id) (mst s))) d id).
    { apply mlocal_set; auto. intros id' Hne; rewrite Hsw, lookup_delete_ne by congruence; reflexivity.
      intros d' id' Hne. rewrite lookup_delete_ne by congruence. reflexivity. }
    rewrite !(mwsum_local _ _ _ _ _ _ _ _ Hloc). mchs.
    rewrite (mval_chg _ _ _ u t g Hme Hb), mval_robotdone.
    unfold mwtl, mwt. mchs. rewrite mstat_set_delete_eq, mstat_set_delete_ne by (destruct d; cbn; congruence).
    rewrite Hst, Ho, Hsw, lookup_delete. cbn. rewrite andb_false_r. unfold amt_for. lia.
  - destruct (m_cancel_effect _ _ _ _ _ _ Ha) as (rc & Hrc & _ & _ & Hsw & Hme & Hb). rewrite Ho in Hrc. injection Hrc as <-.
    assert (Hloc : mlocal s (mset s d c' (mst s)) d id).
    { apply mlocal_set; auto. intros id' Hne; rewrite Hsw, lookup_delete_ne by congruence; reflexivity. }
    rewrite !(mwsum_local _ _ _ _ _ _ _ _ Hloc). mchs.
    rewrite (mval_chg _ _ _ u t g Hme Hb), mval_cancel_orig by (try assumption; eapply (mi_wf _ HI), Ho).
    unfold mwtl, mwt. mchs. rewrite !mstat_set_same, Hst, Ho, Hsw, lookup_delete.
    unfold morigP. destruct (N.eqb_spec (mw_creator r) 0); [contradiction|]. cbn [negb andb mnotdone].
    rewrite andb_true_r. unfold amt_for. destruct (N.eqb (mw_owner r) u); lia.
Qed.

(* ---- the given-out counter against what the other channel holds ---------------------------- *)
Definition msgiv (c : mchan) (x : N) : Z := giv (mc_bal c) x.
Definition msheld (c : mchan) (t : N) : Z := held (mc_bal c) t.
Definition morigT (t : N) (r : mrec) : bool := negb (N.eqb (mw_creator r) 0) && N.eqb (mw_sym r) t.
Definition misdone (st : mstatus) : bool := match st with MsDestDone => true | _ => false end.
Definition munanswered (st : mstatus) : bool := match st with MsNone => true | _ => false end.
Definition wtotal (r : mrec) : Z := total (mw_assets r).
Definition MGd (s : msys) (g : bool) : Z :=
  msgiv (mchn s g) (mc_me (mchn s (negb g))) - msheld (mchn s (negb g)) (mc_me (mchn s g))
  + mwsum (morigT (mc_me (mchn s g))) wtotal misdone s g - mwsum (morigT (mc_me (mchn s g))) wtotal munanswered s (negb g).

Lemma msgiv_chg c c' ch x : mchg_ok (mc_bal c) ch (mc_bal c') -> msgiv c' x = msgiv c x + mchg_at (KGiven, x, 0%N) ch.
Proof. intros H. unfold msgiv, giv. apply mchg_get, H. Qed.
Lemma msheld_chg c c' ch t : mchg_ok (mc_bal c) ch (mc_bal c') -> msheld c' t = msheld c t + mchgP (heldP t) ch.
Proof. intros H. unfold msheld, held. apply mchg_sum, H. Qed.

Lemma heldP_allowed t u sym grp : (sym < 1000)%N -> heldP t (KAllowed, u, tk_enc sym grp) = N.eqb t sym.
Proof. intros H. unfold heldP. cbn [fst snd]. rewrite N.eqb_refl, tk_sym_enc by exact H. cbn. apply N.eqb_sym. Qed.

Lemma giv_at x y l : asum (fun a => at_key (giv_key x a) (KGiven, y, 0%N) (a_amt a)) l = if N.eqb y x then total l else 0.
Proof.
  unfold total. rewrite <- asum_scale. apply asum_ext. intros a _. unfold giv_key, at_key.
  destruct (N.eqb_spec y x) as [->|Hne]; [rewrite decide_True; reflexivity|]. rewrite decide_False; [reflexivity|congruence].
Qed.
Lemma nogiv_tok u y l : asum (fun a => at_key (tok_key u a) (KGiven, y, 0%N) (a_amt a)) l = 0.
Proof. transitivity (asum (fun _ => 0) l); [|apply asum_zero]. apply asum_ext. intros a _. unfold at_key, tok_key. rewrite decide_False; [reflexivity|discriminate]. Qed.
Lemma nogiv_alw u y l : asum (fun a => at_key (alw_key u a) (KGiven, y, 0%N) (a_amt a)) l = 0.
Proof. transitivity (asum (fun _ => 0) l); [|apply asum_zero]. apply asum_ext. intros a _. unfold at_key, alw_key. rewrite decide_False; [reflexivity|discriminate]. Qed.
Lemma held_alw t x sym l : (sym < 1000)%N -> Forall (fun a => a_sym a = sym /\ 0 <= a_amt a) l ->
  asum (fun a => if heldP t (alw_key x a) then a_amt a else 0) l = if N.eqb t sym then total l else 0.
Proof.
  intros Hs Hall. unfold total. rewrite <- asum_scale. apply asum_ext. intros a Ha.
  rewrite List.Forall_forall in Hall. destruct (Hall a Ha) as [Hsa _]. unfold alw_key. rewrite heldP_allowed by congruence. rewrite Hsa. reflexivity.
Qed.
Lemma held_tok t x l : asum (fun a => if heldP t (tok_key x a) then a_amt a else 0) l = 0.
Proof. transitivity (asum (fun _ => 0) l); [|apply asum_zero]. apply asum_ext. intros a _. reflexivity. Qed.
Lemma held_giv t x l : asum (fun a => if heldP t (giv_key x a) then a_amt a else 0) l = 0.
Proof. transitivity (asum (fun _ => 0) l); [|apply asum_zero]. apply asum_ext. intros a _. reflexivity. Qed.

Lemma mheld_begin me t s sym to assets : (sym < 1000)%N -> Forall (fun a => a_sym a = sym /\ 0 <= a_amt a) assets ->
  mchgP (heldP t) (begin_chg me s sym to assets) = - (if negb (N.eqb sym me) && N.eqb t sym then total assets else 0).
Proof.
  intros Hs Hall. unfold begin_chg. destruct (N.eqb sym me); cbn [mchgP negb andb].
  - rewrite held_tok. reflexivity.
  - rewrite (held_alw _ _ sym) by assumption. reflexivity.
Qed.
Lemma mgiv_begin me x s sym to assets : mchg_at (KGiven, x, 0%N) (begin_chg me s sym to assets) = 0.
Proof. unfold begin_chg. destruct (N.eqb sym me); cbn [mchg_at]; rewrite ?nogiv_tok, ?nogiv_alw; reflexivity. Qed.
Lemma mheld_answer t r : mchgP (heldP t) (manswer_chg r) = 0.
Proof. unfold manswer_chg. destruct (mdirect r); cbn [mchgP]; rewrite ?held_giv; reflexivity. Qed.
Lemma mgiv_answer x r : mchg_at (KGiven, x, 0%N) (manswer_chg r) = - (if negb (mdirect r) && N.eqb x (mw_from r) then wtotal r else 0).
Proof. unfold manswer_chg, wtotal. destruct (mdirect r); cbn [mchg_at negb andb]; [reflexivity|]. rewrite giv_at. reflexivity. Qed.
Lemma mheld_userdone t r : (mw_sym r < 1000)%N -> Forall (fun a => a_sym a = mw_sym r /\ 0 <= a_amt a) (mw_assets r) ->
  mchgP (heldP t) (muserdone_chg r) = if mdirect r && N.eqb t (mw_sym r) then wtotal r else 0.
Proof.
  intros Hs Hall. unfold muserdone_chg, wtotal. destruct (mdirect r); cbn [mchgP andb].
  - rewrite (held_alw _ _ (mw_sym r)) by assumption. reflexivity.
  - rewrite held_tok. reflexivity.
Qed.
Lemma mgiv_userdone x r : mchg_at (KGiven, x, 0%N) (muserdone_chg r) = 0.
Proof. unfold muserdone_chg. destruct (mdirect r); cbn [mchg_at]; rewrite ?nogiv_tok, ?nogiv_alw; reflexivity. Qed.
Lemma mheld_robotdone t r : mchgP (heldP t) (mrobotdone_chg r) = 0.
Proof. unfold mrobotdone_chg. destruct (mdirect r); cbn [mchgP]; rewrite ?held_giv; reflexivity. Qed.
Lemma mgiv_robotdone x r : mchg_at (KGiven, x, 0%N) (mrobotdone_chg r) = if mdirect r && N.eqb x (mw_to r) then wtotal r else 0.
Proof. unfold mrobotdone_chg, wtotal. destruct (mdirect r); cbn [mchg_at andb]; [rewrite giv_at|]; reflexivity. Qed.

Lemma mheld_cancel_orig me t r : mwfrec me r -> mw_creator r <> 0%N ->
  mchgP (heldP t) (mcancel_chg r) = if negb (N.eqb (mw_sym r) me) && N.eqb t (mw_sym r) then wtotal r else 0.
Proof.
  intros Hwf Hc. pose proof (m_orig_direct _ _ Hwf Hc) as Hd. destruct Hwf as (Hs & Hall & _ & Hr).
  destruct (N.eqb_spec (mw_creator r) 0); [contradiction|]. destruct Hr as (Hco & Hf & Hsym).
  unfold mcancel_chg, mown, wtotal. rewrite Hco, N.eqb_refl, Hd. cbn [andb].
  destruct (N.eqb_spec (mw_sym r) me) as [E|E]; cbn [mchgP negb andb]; [rewrite held_tok; reflexivity|].
  destruct Hsym as [?|[Ht _]]; [contradiction|]. unfold mreverse. rewrite <- Ht, N.eqb_refl. cbn [mchgP].
  rewrite (held_alw _ _ (mw_sym r)) by assumption. reflexivity.
Qed.
Lemma mgiv_cancel_orig me x r : mwfrec me r -> mw_creator r <> 0%N -> mchg_at (KGiven, x, 0%N) (mcancel_chg r) = 0.
Proof.
  intros Hwf Hc. destruct Hwf as (Hs & _ & _ & Hr).
  destruct (N.eqb_spec (mw_creator r) 0) as [|Hc0]; [contradiction|]. destruct Hr as (Hco & Hf & Hsym).
  unfold mcancel_chg, mown. rewrite Hco, N.eqb_refl. cbn [andb].
  destruct (mdirect r); cbn [mchg_at]; [rewrite nogiv_tok; reflexivity|].
  destruct (mreverse r); cbn [mchg_at]; [rewrite nogiv_alw; reflexivity|].
  rewrite <- Hco. apply N.eqb_neq in Hc0. rewrite Hc0. reflexivity.
Qed.

Lemma morigT_copy t now r : morigT t (mcopy now r) = false.
Proof. reflexivity. Qed.

Ltac mbcrunch := repeat match goal with |- context [N.eqb ?a ?b] => destruct (N.eqb_spec a b) end;
  cbn [negb andb mnotdone misdone munanswered]; try lia; try congruence.

Theorem mstepR_G s s' g : mstepR s s' -> MInv s -> MGd s' g = MGd s g.
Proof.
  intros Hs HI. pose proof (mi_link _ HI) as Hl. pose proof (m_me_ne s g HI) as Hne.
  destruct Hs as [|dt|d sender id sym assets to h c' ev Hsn Hfa Ha|d id r c' ev Hst Ho Hc Ht Ha|d id key c' ev Hst Ha
                  |d id r c' ev Hst Ho Ha|d sender id r c' ev Hst Ho Hc Ha]; [reflexivity|reflexivity|..]; unfold MGd.
  - destruct (m_begin_effect _ _ _ _ _ _ _ _ _ _ Ha) as (Hn & Hsw & Hme & Hs1 & Hall & Hsym & Hb).
    assert (Hall' : Forall (fun a => a_sym a = sym /\ 0 <= a_amt a) assets).
    { apply List.Forall_forall. intros a Ha'. rewrite forallb_forall in Hfa. rewrite List.Forall_forall in Hall.
      split; [apply N.eqb_eq, Hfa, Ha'|apply (Hall a Ha')]. }
    assert (Hloc : mlocal s (mset s d c' (mst s)) d id).
    { apply mlocal_set; auto. intros id' Hne'; rewrite Hsw, lookup_insert_ne by congruence; reflexivity. }
    rewrite !(proj1 Hloc), !(mwsum_local _ _ _ _ _ _ _ _ Hloc). unfold mwtl, mwt.
    destruct (bool_cases d g) as [->| ->]; mchs; mchs_in Hne.
    + rewrite (msgiv_chg _ _ _ _ Hb), mgiv_begin, !mstat_set_same, Hn, Hsw, lookup_insert, (m_no_record_no_status _ _ _ Hl Hn).
      cbn [misdone]. rewrite andb_false_r. lia.
    + rewrite (msheld_chg _ _ _ _ Hb), mheld_begin, !mstat_set_same, Hn, Hsw, lookup_insert, (m_no_record_no_status _ _ _ Hl Hn) by assumption.
      unfold morigT, wtotal. cbn [mw_creator mw_sym mw_assets munanswered]. destruct (N.eqb_spec sender 0); [contradiction|].
      mbcrunch.
  - destruct (m_answer_effect _ _ _ _ _ _ Ha) as (Hd & Hsw & Hme & Hdr & Hb).
    assert (Hloc : mlocal s (mset s (negb d) c' (<[(d, id) := MsAnswered]> (mst s))) d id).
    { apply mlocal_set; auto. intros id' Hne'; rewrite Hsw, lookup_insert_ne by congruence; reflexivity.
      intros d' id' Hne'. rewrite lookup_insert_ne by congruence. reflexivity. }
    rewrite !(proj1 Hloc), !(mwsum_local _ _ _ _ _ _ _ _ Hloc). unfold mwtl, mwt.
    pose proof (mi_wf _ HI _ _ _ Ho) as Hwf. pose proof (m_me_ne s d HI) as Hned.
    pose proof (m_orig_direct _ _ Hwf Hc) as Hdir.
    destruct (bool_cases d g) as [->| ->]; mchs; mchs_in Hne.
    + rewrite (msheld_chg _ _ _ _ Hb), mheld_answer, mstat_set_insert_eq, Hst, Ho, Hd, Hsw, lookup_insert.
      rewrite morigT_copy. cbn [misdone andb]. rewrite !andb_false_r. lia.
    + rewrite (msgiv_chg _ _ _ _ Hb), mgiv_answer, mstat_set_insert_eq, Hst, Ho, Hd, Hsw, lookup_insert, Hdir.
      destruct Hwf as (_ & _ & _ & Hr). destruct (N.eqb_spec (mw_creator r) 0); [contradiction|]. destruct Hr as (_ & Hf & Hsym).
      rewrite morigT_copy. unfold morigT. cbn [negb andb munanswered]. rewrite Hf.
      destruct (N.eqb_spec (mw_creator r) 0); [contradiction|]. cbn [negb andb].
      destruct Hsym as [Hsm|[Hst2 _]]; [rewrite Hsm|rewrite Hst2, Ht]; mbcrunch.
  - destruct (m_userdone_effect _ _ _ _ _ Ha) as (rc & Hrc & Hco & Hk & Hsw & Hme & Hb).
    assert (Hst' : mstat s d id <> MsNone) by (rewrite Hst; discriminate).
    destruct (Hl _ _ Hst') as (r & Hr1 & Hr2 & Hr3 & Hr4). destruct (Hr4 Hst) as (nw & Hr5). rewrite Hr5 in Hrc. injection Hrc as <-.
    assert (Hloc : mlocal s (mset s (negb d) c' (<[(d, id) := MsDestDone]> (mst s))) d id).
    { apply mlocal_set; auto. intros id' Hne'; rewrite Hsw, lookup_delete_ne by congruence; reflexivity.
      intros d' id' Hne'. rewrite lookup_insert_ne by congruence. reflexivity. }
    rewrite !(proj1 Hloc), !(mwsum_local _ _ _ _ _ _ _ _ Hloc). unfold mwtl, mwt.
    pose proof (mi_wf _ HI _ _ _ Hr1) as Hwf. pose proof (m_orig_direct _ _ Hwf Hr2) as Hdir.
    destruct (bool_cases d g) as [->| ->]; mchs; mchs_in Hne.
    + rewrite (msheld_chg _ _ _ _ Hb), mheld_userdone, mstat_set_insert_eq, Hst, Hr1, Hr5, Hsw, lookup_delete by apply Hwf.
      change (mdirect (mcopy nw r)) with (mdirect r). change (wtotal (mcopy nw r)) with (wtotal r).
      change (mw_sym (mcopy nw r)) with (mw_sym r). rewrite Hdir, morigT_copy.
      unfold morigT. cbn [negb andb misdone].
      destruct (N.eqb_spec (mw_creator r) 0); [contradiction|]. mbcrunch.
    + rewrite (msgiv_chg _ _ _ _ Hb), mgiv_userdone, mstat_set_insert_eq, Hst, Hr1, Hr5, Hsw, lookup_delete.
      rewrite morigT_copy. cbn [negb andb munanswered]. rewrite !andb_false_r. lia.
  - destruct (m_robotdone_effect _ _ _ _ _ Ha) as (rc & Hrc & Hk & Hsw & Hme & Hb). rewrite Ho in Hrc. injection Hrc as <-.
    assert (Hloc : mlocal s (mset s d c' (delete (d, id) (mst s))) d id).
    { apply mlocal_set; auto. intros id' Hne'; rewrite Hsw, lookup_delete_ne by congruence; reflexivity.
      intros d' id' Hne'. rewrite lookup_delete_ne by congruence. reflexivity. }
    rewrite !(proj1 Hloc), !(mwsum_local _ _ _ _ _ _ _ _ Hloc). unfold mwtl, mwt.
    assert (Hst' : mstat s d id <> MsNone) by (rewrite Hst; discriminate).
    destruct (Hl _ _ Hst') as (r' & Hr1 & Hr2 & Hr3 & _). rewrite Ho in Hr1. injection Hr1 as <-.
    pose proof (mi_wf _ HI _ _ _ Ho) as Hwf. pose proof (m_orig_direct _ _ Hwf Hr2) as Hdir.
    destruct (bool_cases d g) as [->| ->]; mchs; mchs_in Hne.
    + rewrite (msgiv_chg _ _ _ _ Hb), mgiv_robotdone, mstat_set_delete_eq, mstat_set_delete_ne by (destruct d; cbn; congruence).
      rewrite Hst, Ho, Hsw, lookup_delete, Hdir, Hr3. unfold morigT.
      destruct (N.eqb_spec (mw_creator r) 0); [contradiction|]. mbcrunch.
    + rewrite (msheld_chg _ _ _ _ Hb), mheld_robotdone, mstat_set_delete_eq, mstat_set_delete_ne by (destruct d; cbn; congruence).
      rewrite Hst, Ho, Hsw, lookup_delete. cbn [munanswered]. rewrite !andb_false_r. lia.
  - destruct (m_cancel_effect _ _ _ _ _ _ Ha) as (rc & Hrc & _ & _ & Hsw & Hme & Hb). rewrite Ho in Hrc. injection Hrc as <-.
    assert (Hloc : mlocal s (mset s d c' (mst s)) d id).
    { apply mlocal_set; auto. intros id' Hne'; rewrite Hsw, lookup_delete_ne by congruence; reflexivity. }
    rewrite !(proj1 Hloc), !(mwsum_local _ _ _ _ _ _ _ _ Hloc). unfold mwtl, mwt.
    pose proof (mi_wf _ HI _ _ _ Ho) as Hwf.
    destruct (bool_cases d g) as [->| ->]; mchs; mchs_in Hne.
    + rewrite (msgiv_chg _ _ _ _ Hb), (mgiv_cancel_orig _ _ _ Hwf Hc), !mstat_set_same.
      rewrite Ho, Hsw, lookup_delete, Hst. cbn [misdone]. rewrite !andb_false_r. lia.
    + rewrite (msheld_chg _ _ _ _ Hb), (mheld_cancel_orig _ _ _ Hwf Hc), !mstat_set_same.
      rewrite Ho, Hsw, lookup_delete, Hst. unfold morigT. destruct (N.eqb_spec (mw_creator r) 0); [contradiction|]. cbn [negb andb munanswered].
      mbcrunch.
Qed.

(* ---- all schedules ------------------------------------------------------------------------- *)
Lemma mrun_inv l s : MInv s -> MInv (msys_run true s l) /\
  (forall u t g, (t < 1000)%N -> MVtot (msys_run true s l) u t g = MVtot s u t g) /\
  (forall g, MGd (msys_run true s l) g = MGd s g).
Proof.
  revert s. induction l as [|a l IH]; intros s HI; [auto|]. cbn [msys_run fold_left].
  pose proof (msys_step_mstepR s a) as Hs. destruct (IH _ (mstepR_inv _ _ Hs HI)) as (H1 & H2 & H3).
  split; [exact H1|]. split.
  - intros u t g Ht. rewrite H2 by exact Ht. apply mstepR_V; assumption.
  - intros g. rewrite H3. apply mstepR_G; assumption.
Qed.

Lemma minv0 a b balA balB t0 : a <> b -> MInv (msys0 a b balA balB t0).
Proof.
  intros Hab. split; [exact Hab| |].
  - intros [|] id r; cbn; rewrite lookup_empty; discriminate.
  - intros d id. unfold mstat. cbn. rewrite lookup_empty. cbn. congruence.
Qed.

Lemma mwsum_empty pr w ps s d : mc_swaps (mchn s d) = ∅ -> mwsum pr w ps s d = 0.
Proof. intros H. unfold mwsum. rewrite H. apply msum_empty. Qed.

Lemma amt_for_nonneg t g l : Forall (fun a => 0 <= a_amt a) l -> 0 <= amt_for t g l.
Proof.
  intros H. unfold amt_for. apply asum_nonneg. intros a Ha. rewrite List.Forall_forall in H. specialize (H a Ha).
  destruct (hit t g a); lia.
Qed.

Lemma mwsum_nonneg pr t g ps s d : mwfchan (mchn s d) -> 0 <= mwsum pr (fun r => amt_for t g (mw_assets r)) ps s d.
Proof.
  intros Hwf. unfold mwsum. apply msum_nonneg. intros id r Hr. unfold mwt. destruct (_ && _); [|lia].
  apply amt_for_nonneg. destruct (Hwf _ _ Hr) as (_ & Hall & _). eapply List.Forall_impl; [|exact Hall]. intros a [_ H]; exact H.
Qed.

(* per user, token and asset group: the total over both channels never exceeds the start, and is
   exactly the start once no multi-swap is open - when the creator cancels only unanswered swaps *)
Theorem m_value_never_exceeds a b balA balB t0 l u t g : a <> b -> (t < 1000)%N ->
  let s0 := msys0 a b balA balB t0 in let s := msys_run true s0 l in
  mval (msA s) u t g + mval (msB s) u t g <= mval (msA s0) u t g + mval (msB s0) u t g /\
  (mc_swaps (msA s) = ∅ -> mc_swaps (msB s) = ∅ ->
   mval (msA s) u t g + mval (msB s) u t g = mval (msA s0) u t g + mval (msB s0) u t g).
Proof.
  intros Hab Ht s0 s. destruct (mrun_inv l s0 (minv0 a b balA balB t0 Hab)) as (HI & HV & _). fold s in HI, HV.
  specialize (HV u t g Ht). unfold MVtot in HV. change (mchn s true) with (msA s) in HV. change (mchn s false) with (msB s) in HV.
  change (mchn s0 true) with (msA s0) in HV. change (mchn s0 false) with (msB s0) in HV.
  pose proof (mwsum_empty (morigP u) (fun r => amt_for t g (mw_assets r)) mnotdone s0 true eq_refl) as E1.
  pose proof (mwsum_empty (morigP u) (fun r => amt_for t g (mw_assets r)) mnotdone s0 false eq_refl) as E2.
  pose proof (mwsum_nonneg (morigP u) t g mnotdone s true (mi_wf _ HI true)).
  pose proof (mwsum_nonneg (morigP u) t g mnotdone s false (mi_wf _ HI false)).
  split; [lia|]. intros EA EB.
  pose proof (mwsum_empty (morigP u) (fun r => amt_for t g (mw_assets r)) mnotdone s true EA).
  pose proof (mwsum_empty (morigP u) (fun r => amt_for t g (mw_assets r)) mnotdone s false EB). lia.
Qed.

Theorem m_given_matches_held a b balA balB t0 l g : a <> b ->
  let s0 := msys0 a b balA balB t0 in let s := msys_run true s0 l in
  mc_swaps (msA s) = ∅ -> mc_swaps (msB s) = ∅ ->
  msgiv (mchn s g) (mc_me (mchn s (negb g))) - msheld (mchn s (negb g)) (mc_me (mchn s g)) =
  msgiv (mchn s0 g) (mc_me (mchn s0 (negb g))) - msheld (mchn s0 (negb g)) (mc_me (mchn s0 g)).
Proof.
  intros Hab s0 s EA EB. destruct (mrun_inv l s0 (minv0 a b balA balB t0 Hab)) as (_ & _ & HG). fold s in HG.
  specialize (HG g). unfold MGd in HG.
  assert (E : forall d, mc_swaps (mchn s d) = ∅) by (intros [|]; assumption).
  pose proof (mwsum_empty (morigT (mc_me (mchn s g))) wtotal misdone s g (E _)).
  pose proof (mwsum_empty (morigT (mc_me (mchn s g))) wtotal munanswered s (negb g) (E _)).
  assert (E0 : forall d, mc_swaps (mchn s0 d) = ∅) by (intros [|]; reflexivity).
  pose proof (mwsum_empty (morigT (mc_me (mchn s0 g))) wtotal misdone s0 g (E0 _)).
  pose proof (mwsum_empty (morigT (mc_me (mchn s0 g))) wtotal munanswered s0 (negb g) (E0 _)). lia.
Qed.

(* ---- exact amounts on one ledger ------------------------------------------------------------- *)
Theorem m_begin_debits c now s id sym assets to h c' ev : (forall a, In a assets -> a_sym a = sym) ->
  m_apply c (MBegin now s id sym assets to h) = Ok (c', ev) ->
  forall u t g, (t < 1000)%N -> mval c' u t g = mval c u t g - (if N.eqb s u then amt_for t g assets else 0).
Proof.
  intros Hsy Ha u t g Ht. destruct (m_begin_effect _ _ _ _ _ _ _ _ _ _ Ha) as (_ & _ & Hme & Hs & Hall & Hsym & Hb).
  rewrite (mval_chg _ _ _ u t g Hme Hb), (mval_begin _ _ _ _ _ _ to) ; try assumption; [lia|].
  apply List.Forall_forall. intros a Ha'. rewrite List.Forall_forall in Hall. split; [apply Hsy, Ha'|apply (Hall a Ha')].
Qed.

Theorem m_done_credits c id key c' ev : mwfchan c -> m_apply c (MUserDone id key) = Ok (c', ev) ->
  exists r, mc_swaps c !! id = Some r /\ mw_creator r = 0%N /\
    forall u t g, (t < 1000)%N -> mval c' u t g = mval c u t g + (if N.eqb (mw_owner r) u then amt_for t g (mw_assets r) else 0).
Proof.
  intros Hwf Ha. destruct (m_userdone_effect _ _ _ _ _ Ha) as (r & Hr & Hco & _ & _ & Hme & Hb). exists r.
  pose proof (Hwf _ _ Hr) as Hw. assert (Hc0 : mw_creator r = 0%N).
  { destruct Hw as (_ & _ & _ & Hx). destruct (N.eqb_spec (mw_creator r) 0); [assumption|]. destruct Hx as (Hx & _). contradiction. }
  repeat split; auto. intros u t g Ht. rewrite (mval_chg _ _ _ u t g Hme Hb). rewrite mval_userdone by assumption. reflexivity.
Qed.

Theorem m_cancel_refunds c now sender id c' ev : mwfchan c -> sender <> 0%N -> m_apply c (MCancel now sender id) = Ok (c', ev) ->
  exists r, mc_swaps c !! id = Some r /\ mw_creator r = sender /\ mw_timeout r <= now /\
    forall u t g, (t < 1000)%N -> mval c' u t g = mval c u t g + (if N.eqb (mw_owner r) u then amt_for t g (mw_assets r) else 0).
Proof.
  intros Hwf Hs0 Ha. destruct (m_cancel_effect _ _ _ _ _ _ Ha) as (r & Hr & Hcs & Hto & _ & Hme & Hb). exists r.
  repeat split; auto. intros u t g Ht. rewrite (mval_chg _ _ _ u t g Hme Hb).
  rewrite mval_cancel_orig; [reflexivity|apply (Hwf _ _ Hr)|congruence|exact Ht].
Qed.

(* ---- what the ledger alone does not prevent (F8) --------------------------------------------- *)
(* The answered copy has creator 0 and nobody can cancel it; after the origin's time-out the creator
   cancels at the origin (refund) and the copy is still completed at the destination (release). *)
Theorem cancel_then_complete_refuted :
  exists l, let s0 := msys0 1 2 {[ (KTok, 5%N, 1%N) := 100 ]} ∅ 1000 in
            let s := msys_run false s0 l in
            mval (msA s) 5 1 1 + mval (msB s) 5 1 1 = mval (msA s0) 5 1 1 + mval (msB s0) 5 1 1 + 40 /\
            map_to_list (mc_swaps (msA s)) = [] /\ map_to_list (mc_swaps (msB s)) = [].
Proof.
  exists [MUBegin true 5 7 1 [AS 1 1 40] 2 11; MRAnswer true 7; MTick 10800; MUCancel true 5 7; MUDone true 7 11].
  vm_compute. repeat split; reflexivity.
Qed.
